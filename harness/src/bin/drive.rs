//! `drive <scratch-dir>`: executes the line protocol of /verif/PROTOCOL.md against
//! the real `cacache` library. One result line per op on stdout, diagnostics on
//! stderr only.
//!
//! Build flavours (exactly one runtime feature, or none):
//!   --features rt-async-std   flavour `a` = async-std API
//!   --features rt-tokio       flavour `a` = tokio API
//!   (no feature)              flavour `a` prints `err badarg`

use std::collections::{BTreeSet, HashMap};
use std::io::{BufRead, Read, Write};
use std::panic::{catch_unwind, AssertUnwindSafe};
use std::path::Path;
use std::sync::Mutex;
use std::time::{Duration, Instant, SystemTime, UNIX_EPOCH};

use cacache::{Algorithm, Integrity, Metadata, WriteOpts};
use sha1::{Digest, Sha1};

use cacache_harness::envops;
use cacache_harness::tokens::*;

#[cfg(all(feature = "rt-async-std", feature = "rt-tokio"))]
compile_error!("enable at most one of the features rt-async-std / rt-tokio");

#[cfg(feature = "rt-async-std")]
use futures::io::{AsyncReadExt, AsyncWrite, AsyncWriteExt};
#[cfg(feature = "rt-tokio")]
use tokio::io::{AsyncReadExt, AsyncWrite, AsyncWriteExt};

const HAS_RT: bool = cfg!(any(feature = "rt-async-std", feature = "rt-tokio"));

/// Largest buffer `rread` / `lread` will allocate.
const MAX_READ_BUF: usize = 1 << 26;

// ---------------------------------------------------------------------------
// async runtime glue
// ---------------------------------------------------------------------------

#[cfg(any(feature = "rt-async-std", feature = "rt-tokio"))]
mod rt {
    use std::future::Future;

    #[cfg(feature = "rt-tokio")]
    static RT: std::sync::OnceLock<tokio::runtime::Runtime> = std::sync::OnceLock::new();

    pub fn init() {
        #[cfg(feature = "rt-tokio")]
        {
            // DRIVE_BLOCKING_THREADS=1 (the fault legs): one blocking-pool thread, so that strace's per-thread
            // `when=N` counts the blocking calls of an async operation in the order they are made
            let blocking = std::env::var("DRIVE_BLOCKING_THREADS")
                .ok()
                .and_then(|v| v.parse::<usize>().ok())
                .unwrap_or(512);
            let rt = tokio::runtime::Builder::new_multi_thread()
                .worker_threads(2)
                .max_blocking_threads(blocking.max(1))
                .enable_all()
                .build()
                .expect("failed to build the tokio runtime");
            let _ = RT.set(rt);
        }
    }

    #[cfg(feature = "rt-async-std")]
    pub fn block_on<F: Future>(f: F) -> F::Output {
        async_std::task::block_on(f)
    }

    #[cfg(feature = "rt-tokio")]
    pub fn block_on<F: Future>(f: F) -> F::Output {
        RT.get().expect("runtime not initialised").block_on(f)
    }
}

/// `flav!(fl, <sync expr> ; <async expr using .await>)`
macro_rules! flav {
    ($fl:expr, $s:expr ; $($a:tt)*) => {
        match $fl {
            Fl::S => $s,
            Fl::A => {
                #[cfg(any(feature = "rt-async-std", feature = "rt-tokio"))]
                {
                    rt::block_on(async { $($a)* })
                }
                #[cfg(not(any(feature = "rt-async-std", feature = "rt-tokio")))]
                {
                    unreachable!("flavour `a` is rejected while parsing in a build without runtime")
                }
            }
        }
    };
}

// ---------------------------------------------------------------------------
// watchdog
// ---------------------------------------------------------------------------

/// Start time of the op currently executing (None between ops).
static CURRENT_OP: Mutex<Option<Instant>> = Mutex::new(None);

fn wd_set(v: Option<Instant>) {
    // If the watchdog has decided to report a hang it keeps this lock until the
    // process exits, so the main thread can never print a second line for the op.
    let mut g = CURRENT_OP.lock().unwrap_or_else(|e| e.into_inner());
    *g = v;
}

fn start_watchdog(limit: Duration) {
    std::thread::Builder::new()
        .name("watchdog".into())
        .spawn(move || loop {
            std::thread::sleep(Duration::from_millis(100));
            let g = CURRENT_OP.lock().unwrap_or_else(|e| e.into_inner());
            if let Some(t) = *g {
                if t.elapsed() > limit {
                    let out = std::io::stdout();
                    let mut o = out.lock();
                    let _ = writeln!(o, "hang");
                    let _ = o.flush();
                    let _ = writeln!(std::io::stderr(), "[drive] watchdog expired, exiting");
                    std::process::exit(3);
                }
            }
        })
        .expect("cannot start the watchdog thread");
}

// ---------------------------------------------------------------------------
// small helpers
// ---------------------------------------------------------------------------

#[derive(Clone, Copy, PartialEq, Eq, Debug)]
enum Fl {
    S,
    #[cfg_attr(
        not(any(feature = "rt-async-std", feature = "rt-tokio")),
        allow(dead_code)
    )]
    A,
}

fn parse_fl(t: &str) -> Result<Fl, Bad> {
    match t {
        "s" => Ok(Fl::S),
        "a" if HAS_RT => Ok(Fl::A),
        "a" => Err(Bad::Arg),
        _ => Err(Bad::Line),
    }
}

/// For the ops that only exist in the `_sync` API.
fn parse_fl_sync_only(t: &str) -> Result<Fl, Bad> {
    match t {
        "s" => Ok(Fl::S),
        "a" => Err(Bad::Arg),
        _ => Err(Bad::Line),
    }
}

fn parse_algo(t: &str) -> Result<Algorithm, Bad> {
    match t {
        "sha1" => Ok(Algorithm::Sha1),
        "sha256" => Ok(Algorithm::Sha256),
        "sha384" => Ok(Algorithm::Sha384),
        "sha512" => Ok(Algorithm::Sha512),
        "xxh3" => Ok(Algorithm::Xxh3),
        _ => Err(Bad::Line),
    }
}

fn algo_name(a: Algorithm) -> &'static str {
    match a {
        Algorithm::Sha1 => "sha1",
        Algorithm::Sha256 => "sha256",
        Algorithm::Sha384 => "sha384",
        Algorithm::Sha512 => "sha512",
        Algorithm::Xxh3 => "xxh3",
        #[allow(unreachable_patterns)]
        _ => "unknown",
    }
}

/// `SRI`: bytes token with the text of an integrity string.
fn parse_sri(t: &str) -> Result<Integrity, Bad> {
    let text = parse_utf8(t)?;
    match catch_unwind(|| text.parse::<Integrity>()) {
        Ok(Ok(sri)) => Ok(sri),
        _ => Err(Bad::Arg),
    }
}

fn need(a: &[&str], n: usize) -> Result<(), Bad> {
    if a.len() == n {
        Ok(())
    } else {
        Err(Bad::Line)
    }
}

fn now_ms() -> u128 {
    SystemTime::now()
        .duration_since(UNIX_EPOCH)
        .map(|d| d.as_millis())
        .unwrap_or(0)
}

fn guard(f: impl FnOnce() -> String) -> String {
    match catch_unwind(AssertUnwindSafe(f)) {
        Ok(s) => s,
        Err(_) => "panic".to_string(),
    }
}

/// Drop a value whose destructor might itself panic (e.g. after an earlier panic).
fn safe_drop<T>(v: T) {
    let _ = catch_unwind(AssertUnwindSafe(move || drop(v)));
}

fn sri_tok(s: &Integrity) -> String {
    hex_tok(s.to_string().as_bytes())
}

fn err_class(e: &cacache::Error) -> String {
    use cacache::Error as E;
    match e {
        E::EntryNotFound(..) => "notfound".to_string(),
        E::SizeMismatch(w, a) => format!("size {w} {a}"),
        E::IntegrityError(ssri::Error::IntegrityCheckError(..)) => "integrity".to_string(),
        E::IntegrityError(_) => "integrity_other".to_string(),
        E::IoError(e, _) => format!("io {}", io_kind(e)),
        E::SerdeError(..) => "serde".to_string(),
    }
}

fn lib_err(e: &cacache::Error) -> String {
    let _ = writeln!(std::io::stderr(), "[drive] library error: {e:?}");
    format!("err {}", err_class(e))
}

fn res_unit(r: cacache::Result<()>) -> String {
    match r {
        Ok(()) => "ok".to_string(),
        Err(e) => lib_err(&e),
    }
}

fn res_sri(r: cacache::Result<Integrity>) -> String {
    match r {
        Ok(s) => format!("ok {}", sri_tok(&s)),
        Err(e) => lib_err(&e),
    }
}

fn res_data(r: cacache::Result<Vec<u8>>) -> String {
    match r {
        Ok(d) => format!("ok {}", hex_tok(&d)),
        Err(e) => lib_err(&e),
    }
}

fn res_n(r: cacache::Result<u64>) -> String {
    match r {
        Ok(n) => format!("ok {n}"),
        Err(e) => lib_err(&e),
    }
}

fn meta_text(m: &Metadata) -> String {
    let json = serde_json::to_string(&m.metadata).unwrap_or_else(|_| "null".to_string());
    format!(
        "meta key={} sri={} time={} size={} json={} raw={}",
        hex_tok(m.key.as_bytes()),
        sri_tok(&m.integrity),
        m.time,
        m.size,
        hex_tok(json.as_bytes()),
        match &m.raw_metadata {
            None => "-".to_string(),
            Some(b) => hex_tok(b),
        }
    )
}

fn res_meta(r: cacache::Result<Option<Metadata>>) -> String {
    match r {
        Ok(None) => "ok none".to_string(),
        Ok(Some(m)) => format!("ok {}", meta_text(&m)),
        Err(e) => lib_err(&e),
    }
}

fn stdio_err(e: &std::io::Error) -> String {
    let _ = writeln!(std::io::stderr(), "[drive] io error: {e:?}");
    format!("err stdio {}", io_kind(e))
}

fn stdio_unit(r: std::io::Result<()>) -> String {
    match r {
        Ok(()) => "ok".to_string(),
        Err(e) => stdio_err(&e),
    }
}

fn stdio_n(r: std::io::Result<usize>) -> String {
    match r {
        Ok(n) => format!("ok {n}"),
        Err(e) => stdio_err(&e),
    }
}

fn is_ok_line(line: &str) -> bool {
    line == "ok" || line.starts_with("ok ")
}

/// `<cache>/index-v5/<h[0..2]>/<h[2..4]>/<h[4..]>`, h = hex SHA-1 of the key.
fn bucket_path(cache: &str, key: &str) -> String {
    let mut hasher = Sha1::new();
    hasher.update(key.as_bytes());
    let h = hex::encode(hasher.finalize());
    format!("{cache}/index-v5/{}/{}/{}", &h[0..2], &h[2..4], &h[4..])
}

/// The `time` field of the last record of the key's bucket file.
fn stored_time(cache: &str, key: &str) -> Option<u128> {
    let bytes = std::fs::read(bucket_path(cache, key)).ok()?;
    let last = match bytes.iter().rposition(|&b| b == b'\n') {
        Some(i) => &bytes[i + 1..],
        None => &bytes[..],
    };
    let text = std::str::from_utf8(last).ok()?;
    let (_, json) = text.split_once('\t')?;
    let v: serde_json::Value = serde_json::from_str(json).ok()?;
    let t = v.get("time")?;
    if let Some(u) = t.as_u64() {
        Some(u as u128)
    } else {
        // Not representable as u64 in a serde_json::Value; cannot be the clock.
        t.to_string().parse::<u128>().ok()
    }
}

/// Runs `f`; if it printed an ok-line, appends the `@now=` / `@fresh=` suffix.
fn clocked(cache: &str, key: &str, f: impl FnOnce() -> String) -> String {
    let t0 = now_ms();
    let mut line = f();
    let t1 = now_ms();
    if is_ok_line(&line) {
        match stored_time(cache, key) {
            Some(t) => {
                let fresh = if t0 <= t && t <= t1 { 1 } else { 0 };
                line.push_str(&format!(" @now={t} @fresh={fresh}"));
            }
            None => {
                let _ = writeln!(
                    std::io::stderr(),
                    "[drive] cannot decode the stored time of key {key:?} in {cache}"
                );
                line.push_str(" @now=0 @fresh=0");
            }
        }
    }
    line
}

fn tmp_names(cache: &str) -> BTreeSet<String> {
    let mut s = BTreeSet::new();
    if let Ok(rd) = std::fs::read_dir(format!("{cache}/tmp")) {
        for e in rd.flatten() {
            s.insert(e.file_name().to_string_lossy().into_owned());
        }
    }
    s
}

// ---------------------------------------------------------------------------
// named options (wopen / index_insert / lopen)
// ---------------------------------------------------------------------------

#[derive(Default)]
struct Opts {
    algo: Option<Algorithm>,
    size: Option<usize>,
    sri: Option<Integrity>,
    time: Option<u128>,
    meta: Option<serde_json::Value>,
    raw: Option<Vec<u8>>,
}

fn parse_opts(toks: &[&str], allowed: &[&str]) -> Result<Opts, Bad> {
    let mut o = Opts::default();
    let mut seen: Vec<&str> = Vec::new();
    for t in toks {
        let (name, val) = t.split_once('=').ok_or(Bad::Line)?;
        if !allowed.contains(&name) || seen.contains(&name) {
            return Err(Bad::Line);
        }
        seen.push(name);
        if val == "-" {
            continue;
        }
        match name {
            "algo" => o.algo = Some(parse_algo(val)?),
            "size" => o.size = Some(parse_usize(val)?),
            "sri" => o.sri = Some(parse_sri(val)?),
            "time" => o.time = Some(parse_u128(val)?),
            "meta" => {
                let b = parse_bytes(val)?;
                let v = serde_json::from_slice::<serde_json::Value>(&b).map_err(|_| Bad::Arg)?;
                o.meta = Some(v);
            }
            "raw" => o.raw = Some(parse_bytes(val)?),
            _ => return Err(Bad::Line),
        }
    }
    Ok(o)
}

impl Opts {
    fn write_opts(self) -> WriteOpts {
        let mut w = WriteOpts::new();
        if let Some(a) = self.algo {
            w = w.algorithm(a);
        }
        if let Some(n) = self.size {
            w = w.size(n);
        }
        if let Some(s) = self.sri {
            w = w.integrity(s);
        }
        if let Some(t) = self.time {
            w = w.time(t);
        }
        if let Some(m) = self.meta {
            w = w.metadata(m);
        }
        if let Some(r) = self.raw {
            w = w.raw_metadata(r);
        }
        w
    }
}

// ---------------------------------------------------------------------------
// open handles
// ---------------------------------------------------------------------------

enum WK {
    S(cacache::SyncWriter),
    #[cfg(any(feature = "rt-async-std", feature = "rt-tokio"))]
    A(cacache::Writer),
}

struct WH {
    k: WK,
    cache: String,
    key: Option<String>,
    /// commit will make the library take the clock (key given, no explicit time)
    clock: bool,
    /// async writers: names that appeared in `<cache>/tmp` during `wopen`
    tmp_new: Vec<String>,
    /// async writers: number of entries in `<cache>/tmp` before `wopen`
    tmp_before: usize,
}

enum RK {
    S(cacache::SyncReader),
    #[cfg(any(feature = "rt-async-std", feature = "rt-tokio"))]
    A(cacache::Reader),
}

enum LK {
    S(cacache::SyncToLinker),
    #[cfg(any(feature = "rt-async-std", feature = "rt-tokio"))]
    A(cacache::ToLinker),
}

struct LH {
    k: LK,
    cache: String,
    key: Option<String>,
}

/// Run `f` on the handle `id`; keeps the handle unless `f` panicked.
fn with_handle<H>(
    map: &mut HashMap<String, H>,
    id: &str,
    f: impl FnOnce(&mut H) -> String,
) -> Result<String, Bad> {
    let mut h = map.remove(id).ok_or(Bad::Id)?;
    match catch_unwind(AssertUnwindSafe(|| f(&mut h))) {
        Ok(line) => {
            map.insert(id.to_string(), h);
            Ok(line)
        }
        Err(_) => {
            safe_drop(h);
            Ok("panic".to_string())
        }
    }
}

fn take_handle<H>(map: &mut HashMap<String, H>, id: &str) -> Result<H, Bad> {
    map.remove(id).ok_or(Bad::Id)
}

// ---------------------------------------------------------------------------
// the interpreter
// ---------------------------------------------------------------------------

struct St {
    scratch: String,
    writers: HashMap<String, WH>,
    readers: HashMap<String, RK>,
    linkers: HashMap<String, LH>,
}

impl St {
    fn exec(&mut self, line: &str) -> String {
        match self.exec_inner(line) {
            Ok(s) => s,
            Err(b) => b.line().to_string(),
        }
    }

    fn exec_inner(&mut self, line: &str) -> Result<String, Bad> {
        let mut toks: Vec<&str> = line.split_ascii_whitespace().collect();
        // `bin/check` feeds `@now=<n>` tokens to the model only; tolerate them here.
        while matches!(toks.last(), Some(t) if t.starts_with('@')) {
            toks.pop();
        }
        let (&op, a) = toks.split_first().ok_or(Bad::Line)?;
        match op {
            // ---------------- writing ----------------
            "write" => {
                need(a, 5)?;
                let fl = parse_fl(a[0])?;
                let c = parse_cache(a[1])?;
                let algo = parse_algo(a[2])?;
                let key = parse_utf8(a[3])?;
                let data = parse_bytes(a[4])?;
                Ok(clocked(&c, &key, || {
                    guard(|| {
                        res_sri(flav!(fl,
                            cacache::write_sync_with_algo(algo, &c, &key, &data);
                            cacache::write_with_algo(algo, &c, &key, &data).await))
                    })
                }))
            }
            "write_hash" => {
                need(a, 4)?;
                let fl = parse_fl(a[0])?;
                let c = parse_cache(a[1])?;
                let algo = parse_algo(a[2])?;
                let data = parse_bytes(a[3])?;
                Ok(guard(|| {
                    res_sri(flav!(fl,
                        cacache::write_hash_sync_with_algo(algo, &c, &data);
                        cacache::write_hash_with_algo(algo, &c, &data).await))
                }))
            }
            "wopen" => self.op_wopen(a),
            "wcreate" => self.op_wcreate(a),
            "wwrite" => {
                need(a, 2)?;
                let id = parse_id(a[0], 'W')?;
                let data = parse_bytes(a[1])?;
                with_handle(&mut self.writers, &id, |h| match &mut h.k {
                    WK::S(w) => stdio_unit(w.write_all(&data)),
                    #[cfg(any(feature = "rt-async-std", feature = "rt-tokio"))]
                    WK::A(w) => stdio_unit(rt::block_on(async { w.write_all(&data).await })),
                })
            }
            // `wwritev W D1 D2 …`: the chunks are handed over with `write_vectored` (std `Write` / the runtimes'
            // `AsyncWriteExt`), repeated with what is left until everything has been accepted
            "wwritev" => {
                if a.len() < 2 {
                    return Err(Bad::Line);
                }
                let id = parse_id(a[0], 'W')?;
                let mut chunks: Vec<Vec<u8>> = Vec::new();
                for t in &a[1..] {
                    chunks.push(parse_bytes(t)?);
                }
                with_handle(&mut self.writers, &id, |h| {
                    let mut rest: Vec<&[u8]> = chunks.iter().map(|c| &c[..]).filter(|c| !c.is_empty()).collect();
                    while !rest.is_empty() {
                        let slices: Vec<std::io::IoSlice> = rest.iter().map(|c| std::io::IoSlice::new(c)).collect();
                        let r = match &mut h.k {
                            WK::S(w) => w.write_vectored(&slices),
                            #[cfg(any(feature = "rt-async-std", feature = "rt-tokio"))]
                            WK::A(w) => rt::block_on(async { w.write_vectored(&slices).await }),
                        };
                        drop(slices);
                        match r {
                            Ok(0) => return stdio_err(&std::io::Error::from(std::io::ErrorKind::WriteZero)),
                            Ok(mut n) => {
                                while n > 0 && !rest.is_empty() {
                                    if n >= rest[0].len() {
                                        n -= rest[0].len();
                                        rest.remove(0);
                                    } else {
                                        rest[0] = &rest[0][n..];
                                        n = 0;
                                    }
                                }
                            }
                            Err(e) => return stdio_err(&e),
                        }
                    }
                    "ok".to_string()
                })
            }
            // A persistent caller: like write_all, but a failed `write` is tried again (at most three
            // failures in all) with the bytes not yet acknowledged; `ok <failures>` or the last error.
            "wwrite_p" => {
                need(a, 2)?;
                let id = parse_id(a[0], 'W')?;
                let data = parse_bytes(a[1])?;
                with_handle(&mut self.writers, &id, |h| {
                    let mut rest: &[u8] = &data;
                    let mut failures = 0usize;
                    while !rest.is_empty() {
                        let r = match &mut h.k {
                            WK::S(w) => w.write(rest),
                            #[cfg(any(feature = "rt-async-std", feature = "rt-tokio"))]
                            WK::A(w) => rt::block_on(async { w.write(rest).await }),
                        };
                        match r {
                            Ok(0) => return stdio_err(&std::io::Error::from(std::io::ErrorKind::WriteZero)),
                            Ok(n) => rest = &rest[n.min(rest.len())..],
                            Err(e) => {
                                failures += 1;
                                if failures > 3 {
                                    return stdio_err(&e);
                                }
                            }
                        }
                    }
                    format!("ok {failures}")
                })
            }
            // An async `write` that is polled ONCE and then dropped (what `select!` / a timeout do to the
            // losing branch): `ok <n>` if it was ready at once, `ok cancelled` if the future was dropped
            // while its blocking operation was still in flight.  Sync writers: badarg.
            "wwrite_cancel" => {
                need(a, 2)?;
                let id = parse_id(a[0], 'W')?;
                let data = parse_bytes(a[1])?;
                with_handle(&mut self.writers, &id, |h| match &mut h.k {
                    WK::S(_) => {
                        let _ = &data;
                        Bad::Arg.line().to_string()
                    }
                    #[cfg(any(feature = "rt-async-std", feature = "rt-tokio"))]
                    WK::A(w) => rt::block_on(async {
                        use std::future::Future;
                        let polled = {
                            let mut fut = std::pin::pin!(w.write(&data));
                            std::future::poll_fn(|cx| std::task::Poll::Ready(fut.as_mut().poll(cx))).await
                        };
                        match polled {
                            std::task::Poll::Ready(r) => stdio_n(r),
                            std::task::Poll::Pending => "ok cancelled".to_string(),
                        }
                    }),
                })
            }
            "wwrite1" => {
                need(a, 2)?;
                let id = parse_id(a[0], 'W')?;
                let data = parse_bytes(a[1])?;
                with_handle(&mut self.writers, &id, |h| match &mut h.k {
                    WK::S(w) => stdio_n(w.write(&data)),
                    #[cfg(any(feature = "rt-async-std", feature = "rt-tokio"))]
                    WK::A(w) => stdio_n(rt::block_on(async { w.write(&data).await })),
                })
            }
            "wflush" => {
                need(a, 1)?;
                let id = parse_id(a[0], 'W')?;
                with_handle(&mut self.writers, &id, |h| match &mut h.k {
                    WK::S(w) => stdio_unit(w.flush()),
                    #[cfg(any(feature = "rt-async-std", feature = "rt-tokio"))]
                    WK::A(w) => stdio_unit(rt::block_on(async { w.flush().await })),
                })
            }
            "wcommit" => {
                need(a, 1)?;
                let id = parse_id(a[0], 'W')?;
                let h = take_handle(&mut self.writers, &id)?;
                let WH {
                    k,
                    cache,
                    key,
                    clock,
                    ..
                } = h;
                let run = move || {
                    guard(move || match k {
                        WK::S(w) => res_sri(w.commit()),
                        #[cfg(any(feature = "rt-async-std", feature = "rt-tokio"))]
                        WK::A(w) => res_sri(rt::block_on(async move { w.commit().await })),
                    })
                };
                Ok(match (&key, clock) {
                    (Some(k), true) => clocked(&cache, k, run),
                    _ => run(),
                })
            }
            // `wcommit_cd W DIR`: commit while the process' working directory is DIR.  The cache directory was handed to
            // the library as a RELATIVE path when the writer was opened, so this is "the caller changed directory between
            // open and commit": wherever the entry ends up, its index record and its content must be in ONE cache
            "wcommit_cd" => {
                need(a, 2)?;
                let id = parse_id(a[0], 'W')?;
                let dir = parse_path(a[1])?;
                let h = take_handle(&mut self.writers, &id)?;
                let WH {
                    k,
                    cache,
                    key,
                    clock,
                    ..
                } = h;
                let scratch = self.scratch.clone();
                let run = move || {
                    if std::env::set_current_dir(format!("{scratch}/{dir}")).is_err() {
                        return "err io notfound".to_string();
                    }
                    let r = guard(move || match k {
                        WK::S(w) => res_sri(w.commit()),
                        #[cfg(any(feature = "rt-async-std", feature = "rt-tokio"))]
                        WK::A(w) => res_sri(rt::block_on(async move { w.commit().await })),
                    });
                    let _ = std::env::set_current_dir(&scratch);
                    r
                };
                let there = format!("{}/{}", a[1], cache);
                Ok(match (&key, clock) {
                    (Some(k), true) => clocked(&there, k, run),
                    _ => run(),
                })
            }
            // `wwrite_grow W D1 D2`: an async `write` of D1 is polled once; if it is still pending the caller - who has
            // gathered more data meanwhile, as `tokio::io::copy` does - polls again with the LONGER slice D1 ++ D2 until
            // ready, and hands whatever was not acknowledged to `write_all`.  `ok <n of the polled write> <pending 0|1>`.
            // Everything of D1 ++ D2 has been accepted afterwards.  Sync writers: badarg.
            "wwrite_grow" => {
                need(a, 3)?;
                let id = parse_id(a[0], 'W')?;
                let d1 = parse_bytes(a[1])?;
                let d2 = parse_bytes(a[2])?;
                let mut all = d1.clone();
                all.extend_from_slice(&d2);
                with_handle(&mut self.writers, &id, |h| match &mut h.k {
                    WK::S(_) => {
                        let _ = (&d1, &all);
                        Bad::Arg.line().to_string()
                    }
                    #[cfg(any(feature = "rt-async-std", feature = "rt-tokio"))]
                    WK::A(w) => rt::block_on(async {
                        let mut first = true;
                        let mut was_pending = 0;
                        let r = {
                            let mut w = std::pin::Pin::new(&mut *w);
                            std::future::poll_fn(|cx| {
                                let buf: &[u8] = if first { &d1 } else { &all };
                                first = false;
                                let p = w.as_mut().poll_write(cx, buf);
                                if p.is_pending() {
                                    was_pending = 1;
                                }
                                p
                            })
                            .await
                        };
                        match r {
                            Ok(n) => {
                                let n = n.min(all.len());
                                match w.write_all(&all[n..]).await {
                                    Ok(()) => format!("ok {n} {was_pending}"),
                                    Err(e) => stdio_err(&e),
                                }
                            }
                            Err(e) => stdio_err(&e),
                        }
                    }),
                })
            }
            "wdrop" => {
                need(a, 1)?;
                let id = parse_id(a[0], 'W')?;
                let h = take_handle(&mut self.writers, &id)?;
                Ok(op_wdrop(h))
            }

            // ---------------- reading ----------------
            "read" => {
                need(a, 3)?;
                let fl = parse_fl(a[0])?;
                let c = parse_cache(a[1])?;
                let key = parse_utf8(a[2])?;
                Ok(guard(|| {
                    res_data(flav!(fl,
                        cacache::read_sync(&c, &key);
                        cacache::read(&c, &key).await))
                }))
            }
            "read_hash" => {
                need(a, 3)?;
                let fl = parse_fl(a[0])?;
                let c = parse_cache(a[1])?;
                let sri = parse_sri(a[2])?;
                Ok(guard(|| {
                    res_data(flav!(fl,
                        cacache::read_hash_sync(&c, &sri);
                        cacache::read_hash(&c, &sri).await))
                }))
            }
            "ropen" | "ropen_hash" => {
                need(a, 4)?;
                let fl = parse_fl(a[0])?;
                let c = parse_cache(a[1])?;
                let id = parse_id(a[2], 'R')?;
                let by_key = op == "ropen";
                let key = if by_key { Some(parse_utf8(a[3])?) } else { None };
                let sri = if by_key { None } else { Some(parse_sri(a[3])?) };
                if self.readers.contains_key(&id) {
                    return Err(Bad::Id);
                }
                let r: Result<cacache::Result<RK>, _> = catch_unwind(AssertUnwindSafe(|| {
                    flav!(fl,
                        match (key, sri) {
                            (Some(k), _) => cacache::SyncReader::open(&c, &k).map(RK::S),
                            (None, Some(s)) => cacache::SyncReader::open_hash(&c, s).map(RK::S),
                            (None, None) => unreachable!(),
                        };
                        match (key, sri) {
                            (Some(k), _) => cacache::Reader::open(&c, &k).await.map(RK::A),
                            (None, Some(s)) => cacache::Reader::open_hash(&c, s).await.map(RK::A),
                            (None, None) => unreachable!(),
                        })
                }));
                Ok(match r {
                    Err(_) => "panic".to_string(),
                    Ok(Err(e)) => lib_err(&e),
                    Ok(Ok(h)) => {
                        self.readers.insert(id, h);
                        "ok".to_string()
                    }
                })
            }
            "rread" => {
                need(a, 2)?;
                let id = parse_id(a[0], 'R')?;
                let n = parse_usize(a[1])?;
                if n > MAX_READ_BUF {
                    return Err(Bad::Arg);
                }
                with_handle(&mut self.readers, &id, |h| {
                    let mut buf = vec![0u8; n];
                    let r = match h {
                        RK::S(r) => r.read(&mut buf),
                        #[cfg(any(feature = "rt-async-std", feature = "rt-tokio"))]
                        RK::A(r) => rt::block_on(async { r.read(&mut buf).await }),
                    };
                    match r {
                        Ok(k) => format!("ok {}", hex_tok(&buf[..k.min(buf.len())])),
                        Err(e) => stdio_err(&e),
                    }
                })
            }
            // `rreadexact R N`: read_exact of N bytes (on the async side a large N takes several polls over ONE buffer)
            "rreadexact" => {
                need(a, 2)?;
                let id = parse_id(a[0], 'R')?;
                let n = parse_usize(a[1])?;
                if n > (64 << 20) {
                    return Err(Bad::Arg);
                }
                with_handle(&mut self.readers, &id, |h| {
                    let mut buf = vec![0u8; n];
                    let r = match h {
                        RK::S(r) => r.read_exact(&mut buf).map(|_| ()),
                        #[cfg(any(feature = "rt-async-std", feature = "rt-tokio"))]
                        RK::A(r) => rt::block_on(async { r.read_exact(&mut buf).await.map(|_| ()) }),
                    };
                    match r {
                        Ok(()) => format!("ok {}", hex_tok(&buf)),
                        Err(e) => stdio_err(&e),
                    }
                })
            }
            // `wclose W`: finish the AsyncWrite protocol (`close()` on async-std, `shutdown()` on tokio) WITHOUT
            // committing; sync writers have no such call (answered `ok` after a flush)
            "wclose" => {
                need(a, 1)?;
                let id = parse_id(a[0], 'W')?;
                with_handle(&mut self.writers, &id, |h| match &mut h.k {
                    WK::S(w) => stdio_unit(w.flush()),
                    #[cfg(feature = "rt-async-std")]
                    WK::A(w) => stdio_unit(rt::block_on(async { futures::AsyncWriteExt::close(w).await })),
                    #[cfg(feature = "rt-tokio")]
                    WK::A(w) => stdio_unit(rt::block_on(async { tokio::io::AsyncWriteExt::shutdown(w).await })),
                })
            }
            // `rreadall R [PREFIX]`: read_to_end into a vector that already holds PREFIX (a frame header, the
            // previous entry); the answer is what was appended
            "rreadall" => {
                if a.is_empty() || a.len() > 2 {
                    return Err(Bad::Line);
                }
                let id = parse_id(a[0], 'R')?;
                let prefix = if a.len() == 2 { parse_bytes(a[1])? } else { Vec::new() };
                with_handle(&mut self.readers, &id, |h| {
                    let mut buf = prefix.clone();
                    let r = match h {
                        RK::S(r) => r.read_to_end(&mut buf),
                        #[cfg(any(feature = "rt-async-std", feature = "rt-tokio"))]
                        RK::A(r) => rt::block_on(async { r.read_to_end(&mut buf).await }),
                    };
                    match r {
                        Ok(_) if buf.len() >= prefix.len() && buf[..prefix.len()] == prefix[..] => {
                            format!("ok {}", hex_tok(&buf[prefix.len()..]))
                        }
                        Ok(_) => "err prefix-clobbered".to_string(),
                        Err(e) => stdio_err(&e),
                    }
                })
            }
            "rcheck" => {
                need(a, 1)?;
                let id = parse_id(a[0], 'R')?;
                let h = take_handle(&mut self.readers, &id)?;
                Ok(guard(move || {
                    let r = match h {
                        RK::S(r) => r.check(),
                        #[cfg(any(feature = "rt-async-std", feature = "rt-tokio"))]
                        RK::A(r) => r.check(),
                    };
                    match r {
                        Ok(algo) => format!("ok {}", algo_name(algo)),
                        Err(e) => lib_err(&e),
                    }
                }))
            }
            "rdrop" => {
                need(a, 1)?;
                let id = parse_id(a[0], 'R')?;
                let h = take_handle(&mut self.readers, &id)?;
                Ok(guard(move || {
                    drop(h);
                    "ok".to_string()
                }))
            }

            // ---------------- copy / link out of the cache ----------------
            "copy" | "copy_unchecked" | "hard_link" | "reflink" | "reflink_unchecked" => {
                need(a, 4)?;
                let fl = parse_fl(a[0])?;
                let c = parse_cache(a[1])?;
                let key = parse_utf8(a[2])?;
                let to = parse_path(a[3])?;
                Ok(guard(|| match op {
                    "copy" => res_n(flav!(fl,
                        cacache::copy_sync(&c, &key, &to);
                        cacache::copy(&c, &key, &to).await)),
                    "copy_unchecked" => res_n(flav!(fl,
                        cacache::copy_unchecked_sync(&c, &key, &to);
                        cacache::copy_unchecked(&c, &key, &to).await)),
                    "hard_link" => res_unit(flav!(fl,
                        cacache::hard_link_sync(&c, &key, &to);
                        cacache::hard_link(&c, &key, &to).await)),
                    "reflink" => res_unit(flav!(fl,
                        cacache::reflink_sync(&c, &key, &to);
                        cacache::reflink(&c, &key, &to).await)),
                    _ => res_unit(flav!(fl,
                        cacache::reflink_unchecked_sync(&c, &key, &to);
                        cacache::reflink_unchecked(&c, &key, &to).await)),
                }))
            }
            "copy_hash" | "copy_hash_unchecked" | "reflink_hash" => {
                need(a, 4)?;
                let fl = parse_fl(a[0])?;
                let c = parse_cache(a[1])?;
                let sri = parse_sri(a[2])?;
                let to = parse_path(a[3])?;
                Ok(guard(|| match op {
                    "copy_hash" => res_n(flav!(fl,
                        cacache::copy_hash_sync(&c, &sri, &to);
                        cacache::copy_hash(&c, &sri, &to).await)),
                    "copy_hash_unchecked" => res_n(flav!(fl,
                        cacache::copy_hash_unchecked_sync(&c, &sri, &to);
                        cacache::copy_hash_unchecked(&c, &sri, &to).await)),
                    _ => res_unit(flav!(fl,
                        cacache::reflink_hash_sync(&c, &sri, &to);
                        cacache::reflink_hash(&c, &sri, &to).await)),
                }))
            }
            "hard_link_unchecked" => {
                need(a, 4)?;
                parse_fl_sync_only(a[0])?;
                let c = parse_cache(a[1])?;
                let key = parse_utf8(a[2])?;
                let to = parse_path(a[3])?;
                Ok(guard(|| {
                    res_unit(cacache::hard_link_unchecked_sync(&c, &key, &to))
                }))
            }
            "hard_link_hash" | "hard_link_hash_unchecked" | "reflink_hash_unchecked" => {
                need(a, 4)?;
                parse_fl_sync_only(a[0])?;
                let c = parse_cache(a[1])?;
                let sri = parse_sri(a[2])?;
                let to = parse_path(a[3])?;
                Ok(guard(|| match op {
                    "hard_link_hash" => res_unit(cacache::hard_link_hash_sync(&c, &sri, &to)),
                    "hard_link_hash_unchecked" => {
                        res_unit(cacache::hard_link_hash_unchecked_sync(&c, &sri, &to))
                    }
                    _ => res_unit(cacache::reflink_hash_unchecked_sync(&c, &sri, &to)),
                }))
            }

            // ---------------- index / metadata ----------------
            "metadata" => {
                need(a, 3)?;
                let fl = parse_fl(a[0])?;
                let c = parse_cache(a[1])?;
                let key = parse_utf8(a[2])?;
                Ok(guard(|| {
                    res_meta(flav!(fl,
                        cacache::metadata_sync(&c, &key);
                        cacache::metadata(&c, &key).await))
                }))
            }
            "exists" => {
                need(a, 3)?;
                let fl = parse_fl(a[0])?;
                let c = parse_cache(a[1])?;
                let sri = parse_sri(a[2])?;
                Ok(guard(|| {
                    let b = flav!(fl,
                        cacache::exists_sync(&c, &sri);
                        cacache::exists(&c, &sri).await);
                    format!("ok {b}")
                }))
            }
            "list" => {
                need(a, 1)?;
                let c = parse_cache(a[0])?;
                Ok(guard(|| {
                    let items: Vec<cacache::Result<Metadata>> = cacache::list_sync(&c).collect();
                    let mut metas: Vec<(Vec<u8>, String)> = Vec::new();
                    let mut errs: Vec<String> = Vec::new();
                    for it in items {
                        match it {
                            Ok(m) => metas.push((m.key.as_bytes().to_vec(), meta_text(&m))),
                            Err(e) => errs.push(lib_err(&e)),
                        }
                    }
                    metas.sort();
                    errs.sort();
                    let all: Vec<String> = metas.into_iter().map(|(_, t)| t).chain(errs).collect();
                    if all.is_empty() {
                        "ok".to_string()
                    } else {
                        format!("ok {}", all.join(";"))
                    }
                }))
            }
            "remove" => {
                need(a, 3)?;
                let fl = parse_fl(a[0])?;
                let c = parse_cache(a[1])?;
                let key = parse_utf8(a[2])?;
                Ok(clocked(&c, &key, || {
                    guard(|| {
                        res_unit(flav!(fl,
                            cacache::remove_sync(&c, &key);
                            cacache::remove(&c, &key).await))
                    })
                }))
            }
            // `remove_opts F C KEY default|false`: the BUILDER used the way its docs show it - `RemoveOpts::new()` with no
            // setter called, or `remove_fully(false)` - which is a plain `remove` (a tombstone; content stays)
            "remove_opts" => {
                need(a, 4)?;
                let fl = parse_fl(a[0])?;
                let c = parse_cache(a[1])?;
                let key = parse_utf8(a[2])?;
                let explicit = match a[3] {
                    "default" => false,
                    "false" => true,
                    _ => return Err(Bad::Arg),
                };
                Ok(clocked(&c, &key, || {
                    guard(|| {
                        let o = || {
                            let o = cacache::RemoveOpts::new();
                            if explicit { o.remove_fully(false) } else { o }
                        };
                        res_unit(flav!(fl,
                            o().remove_sync(&c, &key);
                            o().remove(&c, &key).await))
                    })
                }))
            }
            "remove_hash" => {
                need(a, 3)?;
                let fl = parse_fl(a[0])?;
                let c = parse_cache(a[1])?;
                let sri = parse_sri(a[2])?;
                Ok(guard(|| {
                    res_unit(flav!(fl,
                        cacache::remove_hash_sync(&c, &sri);
                        cacache::remove_hash(&c, &sri).await))
                }))
            }
            "remove_fully" => {
                need(a, 3)?;
                let fl = parse_fl(a[0])?;
                let c = parse_cache(a[1])?;
                let key = parse_utf8(a[2])?;
                Ok(guard(|| {
                    res_unit(flav!(fl,
                        cacache::RemoveOpts::new().remove_fully(true).remove_sync(&c, &key);
                        cacache::RemoveOpts::new().remove_fully(true).remove(&c, &key).await))
                }))
            }
            "clear" => {
                need(a, 2)?;
                let fl = parse_fl(a[0])?;
                let c = parse_cache(a[1])?;
                Ok(guard(|| {
                    res_unit(flav!(fl,
                        cacache::clear_sync(&c);
                        cacache::clear(&c).await))
                }))
            }
            "index_insert" => {
                if a.len() < 3 {
                    return Err(Bad::Line);
                }
                let fl = parse_fl(a[0])?;
                let c = parse_cache(a[1])?;
                let key = parse_utf8(a[2])?;
                let o = parse_opts(&a[3..], &["sri", "time", "size", "meta", "raw"])?;
                let takes_clock = o.time.is_none();
                let wo = o.write_opts();
                let run = || {
                    guard(|| {
                        res_sri(flav!(fl,
                            cacache::index::insert(Path::new(&c), &key, wo);
                            cacache::index::insert_async(Path::new(&c), &key, wo).await))
                    })
                };
                Ok(if takes_clock {
                    clocked(&c, &key, run)
                } else {
                    run()
                })
            }
            "index_find" => {
                need(a, 3)?;
                let fl = parse_fl(a[0])?;
                let c = parse_cache(a[1])?;
                let key = parse_utf8(a[2])?;
                Ok(guard(|| {
                    res_meta(flav!(fl,
                        cacache::index::find(Path::new(&c), &key);
                        cacache::index::find_async(Path::new(&c), &key).await))
                }))
            }
            "index_delete" => {
                need(a, 3)?;
                let fl = parse_fl(a[0])?;
                let c = parse_cache(a[1])?;
                let key = parse_utf8(a[2])?;
                Ok(clocked(&c, &key, || {
                    guard(|| {
                        res_unit(flav!(fl,
                            cacache::index::delete(Path::new(&c), &key);
                            cacache::index::delete_async(Path::new(&c), &key).await))
                    })
                }))
            }

            // ---------------- link_to ----------------
            "link_to" => {
                need(a, 4)?;
                let fl = parse_fl(a[0])?;
                let c = parse_cache(a[1])?;
                let key = parse_utf8(a[2])?;
                let target = parse_target(a[3])?.resolve(&self.scratch);
                Ok(clocked(&c, &key, || {
                    guard(|| {
                        res_sri(flav!(fl,
                            cacache::link_to_sync(&c, &key, &target);
                            cacache::link_to(&c, &key, &target).await))
                    })
                }))
            }
            // `link_to_cd F C KEY REL DIR`: link the file named REL *as seen from the working directory DIR* (the cache is
            // handed over as an absolute path); the process is back in the scratch directory afterwards
            "link_to_cd" => {
                need(a, 5)?;
                let fl = parse_fl(a[0])?;
                let c = parse_cache(a[1])?;
                let key = parse_utf8(a[2])?;
                let rel = parse_path(a[3])?;
                let dir = parse_path(a[4])?;
                let scratch = self.scratch.clone();
                let cabs = format!("{scratch}/{c}");
                Ok(clocked(&c, &key, || {
                    if std::env::set_current_dir(format!("{scratch}/{dir}")).is_err() {
                        return "err io notfound".to_string();
                    }
                    let r = guard(|| {
                        res_sri(flav!(fl,
                            cacache::link_to_sync(&cabs, &key, &rel);
                            cacache::link_to(&cabs, &key, &rel).await))
                    });
                    let _ = std::env::set_current_dir(&scratch);
                    r
                }))
            }
            // `link_to_gone F C KEY T`: link while the process' working directory no longer exists (the caller sat in a
            // directory that has been removed); cache and target are handed over as absolute paths, so nothing about
            // the call depends on the working directory.  Back in the scratch directory afterwards.
            "link_to_gone" => {
                need(a, 4)?;
                let fl = parse_fl(a[0])?;
                let c = parse_cache(a[1])?;
                let key = parse_utf8(a[2])?;
                let target = parse_target(a[3])?.resolve(&self.scratch);
                let scratch = self.scratch.clone();
                let cabs = format!("{scratch}/{c}");
                Ok(clocked(&c, &key, || {
                    let gone = format!("{scratch}/gone-cwd");
                    if std::fs::create_dir_all(&gone).is_err() || std::env::set_current_dir(&gone).is_err() {
                        return "err io notfound".to_string();
                    }
                    let _ = std::fs::remove_dir(&gone);
                    let r = guard(|| {
                        res_sri(flav!(fl,
                            cacache::link_to_sync(&cabs, &key, &target);
                            cacache::link_to(&cabs, &key, &target).await))
                    });
                    let _ = std::env::set_current_dir(&scratch);
                    r
                }))
            }
            "link_to_hash" => {
                need(a, 3)?;
                let fl = parse_fl(a[0])?;
                let c = parse_cache(a[1])?;
                let target = parse_target(a[2])?.resolve(&self.scratch);
                Ok(guard(|| {
                    res_sri(flav!(fl,
                        cacache::link_to_hash_sync(&c, &target);
                        cacache::link_to_hash(&c, &target).await))
                }))
            }
            "lopen" | "lopen_auto" => self.op_lopen(op == "lopen_auto", false, a),
            // the same with the cache directory handed to the library as an absolute path
            "lopen_abs" | "lopen_auto_abs" => self.op_lopen(op == "lopen_auto_abs", true, a),
            // `lcommit_cd L DIR`: commit while the process' working directory is DIR
            "lcommit_cd" => {
                need(a, 2)?;
                let id = parse_id(a[0], 'L')?;
                let dir = parse_path(a[1])?;
                let h = take_handle(&mut self.linkers, &id)?;
                let LH { k, cache, key } = h;
                let scratch = self.scratch.clone();
                let run = move || {
                    if std::env::set_current_dir(format!("{scratch}/{dir}")).is_err() {
                        return "err io notfound".to_string();
                    }
                    let r = guard(move || match k {
                        LK::S(l) => res_sri(l.commit()),
                        #[cfg(any(feature = "rt-async-std", feature = "rt-tokio"))]
                        LK::A(l) => res_sri(rt::block_on(async move { l.commit().await })),
                    });
                    let _ = std::env::set_current_dir(&scratch);
                    r
                };
                Ok(match &key {
                    Some(k) => clocked(&cache, k, run),
                    None => run(),
                })
            }
            "lread" => {
                need(a, 2)?;
                let id = parse_id(a[0], 'L')?;
                let n = parse_usize(a[1])?;
                if n > MAX_READ_BUF {
                    return Err(Bad::Arg);
                }
                with_handle(&mut self.linkers, &id, |h| {
                    let mut buf = vec![0u8; n];
                    let r = match &mut h.k {
                        LK::S(l) => l.read(&mut buf),
                        #[cfg(any(feature = "rt-async-std", feature = "rt-tokio"))]
                        LK::A(l) => rt::block_on(async { l.read(&mut buf).await }),
                    };
                    match r {
                        Ok(k) => format!("ok {}", hex_tok(&buf[..k.min(buf.len())])),
                        Err(e) => stdio_err(&e),
                    }
                })
            }
            // `lreadexact L N` / `lreadall L [PREFIX]`: the linker read with read_exact (several polls over one buffer
            // on the async side) / read_to_end into a vector that already holds PREFIX (answer = the bytes appended)
            "lreadexact" => {
                need(a, 2)?;
                let id = parse_id(a[0], 'L')?;
                let n = parse_usize(a[1])?;
                if n > MAX_READ_BUF {
                    return Err(Bad::Arg);
                }
                with_handle(&mut self.linkers, &id, |h| {
                    let mut buf = vec![0u8; n];
                    let r = match &mut h.k {
                        LK::S(l) => l.read_exact(&mut buf).map(|_| ()),
                        #[cfg(any(feature = "rt-async-std", feature = "rt-tokio"))]
                        LK::A(l) => rt::block_on(async { l.read_exact(&mut buf).await.map(|_| ()) }),
                    };
                    match r {
                        Ok(()) => format!("ok {}", hex_tok(&buf)),
                        Err(e) => stdio_err(&e),
                    }
                })
            }
            "lreadall" => {
                if a.is_empty() || a.len() > 2 {
                    return Err(Bad::Line);
                }
                let id = parse_id(a[0], 'L')?;
                let prefix = if a.len() == 2 { parse_bytes(a[1])? } else { Vec::new() };
                with_handle(&mut self.linkers, &id, |h| {
                    let mut buf = prefix.clone();
                    let r = match &mut h.k {
                        LK::S(l) => l.read_to_end(&mut buf),
                        #[cfg(any(feature = "rt-async-std", feature = "rt-tokio"))]
                        LK::A(l) => rt::block_on(async { l.read_to_end(&mut buf).await }),
                    };
                    match r {
                        Ok(_) if buf.len() >= prefix.len() && buf[..prefix.len()] == prefix[..] => {
                            format!("ok {}", hex_tok(&buf[prefix.len()..]))
                        }
                        Ok(_) => "err prefix-clobbered".to_string(),
                        Err(e) => stdio_err(&e),
                    }
                })
            }
            "lcommit" => {
                need(a, 1)?;
                let id = parse_id(a[0], 'L')?;
                let h = take_handle(&mut self.linkers, &id)?;
                let LH { k, cache, key } = h;
                let run = move || {
                    guard(move || match k {
                        LK::S(l) => res_sri(l.commit()),
                        #[cfg(any(feature = "rt-async-std", feature = "rt-tokio"))]
                        LK::A(l) => res_sri(rt::block_on(async move { l.commit().await })),
                    })
                };
                Ok(match &key {
                    Some(k) => clocked(&cache, k, run),
                    None => run(),
                })
            }
            "ldrop" => {
                need(a, 1)?;
                let id = parse_id(a[0], 'L')?;
                let h = take_handle(&mut self.linkers, &id)?;
                Ok(guard(move || {
                    drop(h);
                    "ok".to_string()
                }))
            }

            // ---------------- environment ----------------
            // `oddcache F`: a whole little life (write, read, list, remove_hash, write, clear) in a cache directory whose
            // NAME is not valid UTF-8 (`odd-\xFF` below the scratch directory; the other ops take cache names as
            // strings).  Answers `ok <steps that answered ok>/<steps> <hex names of the scratch directory's children>`:
            // the caller sees whether anything was created next to the cache.
            "oddcache" => {
                need(a, 1)?;
                let fl = parse_fl(a[0])?;
                use std::os::unix::ffi::{OsStrExt, OsStringExt};
                let cache = std::path::PathBuf::from(std::ffi::OsString::from_vec(b"odd-\xff".to_vec()));
                let data = b"odd cache data".to_vec();
                let mut okc = 0;
                let mut steps = 0;
                let mut tally = |r: bool| {
                    steps += 1;
                    if r {
                        okc += 1;
                    }
                };
                let line = guard(|| {
                    let w = flav!(fl,
                        cacache::write_sync(&cache, "k", &data);
                        cacache::write(&cache, "k", &data).await);
                    let sri = w.as_ref().ok().cloned();
                    tally(w.is_ok());
                    let r = flav!(fl,
                        cacache::read_sync(&cache, "k");
                        cacache::read(&cache, "k").await);
                    tally(matches!(&r, Ok(d) if d == &data));
                    tally(cacache::list_sync(&cache).filter(|e| e.is_ok()).count() == 1);
                    if let Some(sri) = &sri {
                        let r = flav!(fl,
                            cacache::remove_hash_sync(&cache, sri);
                            cacache::remove_hash(&cache, sri).await);
                        tally(r.is_ok());
                    }
                    let w = flav!(fl,
                        cacache::write_hash_sync(&cache, &data);
                        cacache::write_hash(&cache, &data).await);
                    tally(w.is_ok());
                    let r = flav!(fl,
                        cacache::clear_sync(&cache);
                        cacache::clear(&cache).await);
                    tally(r.is_ok());
                    "done".to_string()
                });
                if line != "done" {
                    return Ok(line);
                }
                let mut names: Vec<String> = std::fs::read_dir(".")
                    .map(|rd| {
                        rd.flatten()
                            .map(|e| hex::encode(e.file_name().as_bytes()))
                            .collect()
                    })
                    .unwrap_or_default();
                names.sort();
                Ok(format!("ok {okc}/{steps} {}", names.join(",")))
            }
            // `wait_until <unix ms>`: sleep, then spin, until the wall clock reaches that instant - several harness
            // processes started one after the other leave this op at (nearly) the same moment.
            "wait_until" => {
                need(a, 1)?;
                let t: u128 = a[0].parse().map_err(|_| Bad::Arg)?;
                loop {
                    let now = SystemTime::now()
                        .duration_since(UNIX_EPOCH)
                        .map(|d| d.as_millis())
                        .unwrap_or(0);
                    if now >= t {
                        break;
                    }
                    if t - now > 3 {
                        std::thread::sleep(Duration::from_millis(((t - now) as u64).saturating_sub(2)));
                    } else {
                        std::hint::spin_loop();
                    }
                }
                Ok("ok".to_string())
            }
            "fsize" => {
                need(a, 1)?;
                let lim = if a[0] == "-" {
                    None
                } else {
                    Some(a[0].parse::<u64>().map_err(|_| Bad::Arg)?)
                };
                Ok(envops::fsize(lim))
            }
            "put" => {
                need(a, 2)?;
                let p = parse_path(a[0])?;
                let d = parse_bytes(a[1])?;
                Ok(envops::put(&p, &d))
            }
            "append" => {
                need(a, 2)?;
                let p = parse_path(a[0])?;
                let d = parse_bytes(a[1])?;
                Ok(envops::append(&p, &d))
            }
            "truncate" => {
                need(a, 2)?;
                let p = parse_path(a[0])?;
                let n = parse_u64(a[1])?;
                Ok(envops::truncate(&p, n))
            }
            "del" => {
                need(a, 1)?;
                Ok(envops::del(&parse_path(a[0])?))
            }
            "rmtree" => {
                need(a, 1)?;
                Ok(envops::rmtree(&parse_path(a[0])?))
            }
            "mkdir" => {
                need(a, 1)?;
                Ok(envops::mkdir(&parse_path(a[0])?))
            }
            "symlink" => {
                need(a, 2)?;
                let p = parse_path(a[0])?;
                let t = parse_target(a[1])?;
                Ok(envops::symlink(&p, &t, &self.scratch))
            }
            "cat" => {
                need(a, 1)?;
                Ok(envops::cat(&parse_path(a[0])?))
            }
            "hardlink" => {
                need(a, 2)?;
                Ok(envops::hardlink(&parse_path(a[0])?, &parse_path(a[1])?))
            }
            "chmod" => {
                need(a, 2)?;
                let m = u32::from_str_radix(a[1], 8).map_err(|_| Bad::Arg)?;
                Ok(envops::chmod(&parse_path(a[0])?, m))
            }
            "mode" => {
                need(a, 1)?;
                Ok(envops::mode(&parse_path(a[0])?))
            }
            "stat" => {
                need(a, 1)?;
                Ok(envops::stat(&parse_path(a[0])?))
            }
            "dump" => {
                need(a, 1)?;
                Ok(envops::dump(&parse_path(a[0])?, &self.scratch))
            }
            // `oracle xxh3 DATA DIGEST`: a hint for the model side only
            "oracle" => Ok("ok".to_string()),
            // `digest A DATA` -> `ok <hex digest>`: the digest ssri computes (oracle for xxh3, which has
            // no independent implementation on the model side)
            "digest" => {
                need(a, 2)?;
                let algo: ssri::Algorithm = a[0].parse().map_err(|_| Bad::Line)?;
                let d = parse_bytes(a[1])?;
                let sri = ssri::IntegrityOpts::new().algorithm(algo).chain(&d).result();
                let (_, hexd) = sri.to_hex();
                Ok(format!("ok x{hexd}"))
            }

            _ => Err(Bad::Line),
        }
    }

    /// `wopen F C W KEY|- algo=A|- size=N|- sri=SRI|- time=N|- meta=BYTES|- raw=BYTES|-`
    fn op_wopen(&mut self, a: &[&str]) -> Result<String, Bad> {
        if a.len() < 4 {
            return Err(Bad::Line);
        }
        let fl = parse_fl(a[0])?;
        let c = parse_cache(a[1])?;
        let id = parse_id(a[2], 'W')?;
        let key = parse_opt_utf8(a[3])?;
        let o = parse_opts(&a[4..], &["algo", "size", "sri", "time", "meta", "raw"])?;
        if self.writers.contains_key(&id) {
            return Err(Bad::Id);
        }
        let clock = key.is_some() && o.time.is_none();
        let wo = o.write_opts();
        let before = if fl == Fl::A {
            tmp_names(&c)
        } else {
            BTreeSet::new()
        };
        let r: Result<cacache::Result<WK>, _> = catch_unwind(AssertUnwindSafe(|| {
            flav!(fl,
                match &key {
                    Some(k) => wo.open_sync(&c, k).map(WK::S),
                    None => wo.open_hash_sync(&c).map(WK::S),
                };
                match &key {
                    Some(k) => wo.open(&c, k).await.map(WK::A),
                    None => wo.open_hash(&c).await.map(WK::A),
                })
        }));
        Ok(match r {
            Err(_) => "panic".to_string(),
            Ok(Err(e)) => lib_err(&e),
            Ok(Ok(k)) => {
                let tmp_new: Vec<String> = if fl == Fl::A {
                    tmp_names(&c).difference(&before).cloned().collect()
                } else {
                    Vec::new()
                };
                self.writers.insert(
                    id,
                    WH {
                        k,
                        cache: c,
                        key,
                        clock,
                        tmp_new,
                        tmp_before: before.len(),
                    },
                );
                "ok".to_string()
            }
        })
    }

    /// `wcreate F C W KEY ALGO|-`: the constructors `Writer::create` / `create_with_algo` and their `SyncWriter` twins
    /// (the same handle as `wopen F C W KEY algo=ALGO|-` with nothing else declared)
    fn op_wcreate(&mut self, a: &[&str]) -> Result<String, Bad> {
        need(a, 5)?;
        let fl = parse_fl(a[0])?;
        let c = parse_cache(a[1])?;
        let id = parse_id(a[2], 'W')?;
        let key = parse_utf8(a[3])?;
        let o = parse_opts(&[&format!("algo={}", a[4])[..]], &["algo"])?;
        let algo = o.algo;
        if self.writers.contains_key(&id) {
            return Err(Bad::Id);
        }
        let before = if fl == Fl::A {
            tmp_names(&c)
        } else {
            BTreeSet::new()
        };
        let r: Result<cacache::Result<WK>, _> = catch_unwind(AssertUnwindSafe(|| {
            flav!(fl,
                match algo {
                    Some(al) => cacache::SyncWriter::create_with_algo(al, &c, &key).map(WK::S),
                    None => cacache::SyncWriter::create(&c, &key).map(WK::S),
                };
                match algo {
                    Some(al) => cacache::Writer::create_with_algo(al, &c, &key).await.map(WK::A),
                    None => cacache::Writer::create(&c, &key).await.map(WK::A),
                })
        }));
        Ok(match r {
            Err(_) => "panic".to_string(),
            Ok(Err(e)) => lib_err(&e),
            Ok(Ok(k)) => {
                let tmp_new: Vec<String> = if fl == Fl::A {
                    tmp_names(&c).difference(&before).cloned().collect()
                } else {
                    Vec::new()
                };
                self.writers.insert(
                    id,
                    WH {
                        k,
                        cache: c,
                        key: Some(key),
                        clock: true,
                        tmp_new,
                        tmp_before: before.len(),
                    },
                );
                "ok".to_string()
            }
        })
    }

    /// `lopen F C L KEY|- T algo=A|- size=N|- sri=SRI|-` and `lopen_auto F C L KEY|- T`
    fn op_lopen(&mut self, auto: bool, abs: bool, a: &[&str]) -> Result<String, Bad> {
        if a.len() < 5 || (auto && a.len() != 5) {
            return Err(Bad::Line);
        }
        let fl = parse_fl(a[0])?;
        let c = parse_cache(a[1])?;
        let id = parse_id(a[2], 'L')?;
        let key = parse_opt_utf8(a[3])?;
        let target = parse_target(a[4])?.resolve(&self.scratch);
        let o = parse_opts(&a[5..], &["algo", "size", "sri"])?;
        if self.linkers.contains_key(&id) {
            return Err(Bad::Id);
        }
        let wo = o.write_opts();
        let c_rel = c.clone();
        let c = if abs { format!("{}/{}", self.scratch, c) } else { c };
        let r: Result<cacache::Result<LK>, _> = catch_unwind(AssertUnwindSafe(|| {
            flav!(fl,
                match (&key, auto) {
                    (Some(k), false) => wo.link_to_sync(&c, k, &target).map(LK::S),
                    (None, false) => wo.link_to_hash_sync(&c, &target).map(LK::S),
                    (Some(k), true) => cacache::SyncToLinker::open(&c, k, &target).map(LK::S),
                    (None, true) => cacache::SyncToLinker::open_hash(&c, &target).map(LK::S),
                };
                match (&key, auto) {
                    (Some(k), false) => wo.link_to(&c, k, &target).await.map(LK::A),
                    (None, false) => wo.link_to_hash(&c, &target).await.map(LK::A),
                    (Some(k), true) => cacache::ToLinker::open(&c, k, &target).await.map(LK::A),
                    (None, true) => cacache::ToLinker::open_hash(&c, &target).await.map(LK::A),
                })
        }));
        Ok(match r {
            Err(_) => "panic".to_string(),
            Ok(Err(e)) => lib_err(&e),
            Ok(Ok(k)) => {
                self.linkers.insert(id, LH { k, cache: c_rel, key });
                "ok".to_string()
            }
        })
    }
}

/// `wdrop`: drop the writer. For async writers, wait until the temp file(s) the
/// writer created have disappeared from `<cache>/tmp` (up to 30 s).
fn op_wdrop(h: WH) -> String {
    let WH {
        k,
        cache,
        tmp_new,
        tmp_before,
        ..
    } = h;
    let is_async = !matches!(k, WK::S(_));
    if catch_unwind(AssertUnwindSafe(move || drop(k))).is_err() {
        return "panic".to_string();
    }
    if !is_async {
        return "ok".to_string();
    }
    let gone = || {
        if tmp_new.is_empty() {
            tmp_names(&cache).len() <= tmp_before
        } else {
            tmp_new
                .iter()
                .all(|n| std::fs::symlink_metadata(format!("{cache}/tmp/{n}")).is_err())
        }
    };
    let deadline = Instant::now() + Duration::from_secs(30);
    loop {
        if gone() {
            return "ok".to_string();
        }
        if Instant::now() >= deadline {
            return "err tmpleft".to_string();
        }
        std::thread::sleep(Duration::from_millis(5));
    }
}

/// `DRIVE_MARK=1`: one `write(2, "@@<what> <i>\n")` (stderr is unbuffered, the text is
/// formatted first, so this is a single system call).
/// In worker mode the op thread hands everything it prints (results, markers) to the main thread
/// and waits until it is written: the op thread then issues no `write` of its own, so a fault
/// injected into "the N-th write of this thread" can only hit a write of the library.
type Printer = (
    std::sync::mpsc::SyncSender<(bool, String)>,
    std::sync::Mutex<std::sync::mpsc::Receiver<bool>>,
);
static PRINTER: std::sync::OnceLock<Printer> = std::sync::OnceLock::new();

/// Results and markers leave through `writev`, the ops arrive through `readv`: system calls the
/// library never uses on its files, so the fault-injection legs (which fail "the N-th write / read
/// of a thread") cannot hit the harness's own protocol traffic.
fn emit_direct(to_stdout: bool, text: &str) -> bool {
    use std::os::fd::FromRawFd;
    let _ = std::io::stdout().flush();
    let mut f = std::mem::ManuallyDrop::new(unsafe {
        std::fs::File::from_raw_fd(if to_stdout { 1 } else { 2 })
    });
    let mut rest = text.as_bytes();
    while !rest.is_empty() {
        match f.write_vectored(&[std::io::IoSlice::new(rest)]) {
            Ok(0) => return false,
            Ok(n) => rest = &rest[n..],
            Err(e) if e.kind() == std::io::ErrorKind::Interrupted => {}
            Err(_) => return false,
        }
    }
    true
}

/// All of stdin, read with `readv`.
fn slurp_stdin() -> Vec<u8> {
    use std::os::fd::FromRawFd;
    let mut f = std::mem::ManuallyDrop::new(unsafe { std::fs::File::from_raw_fd(0) });
    let mut all = Vec::new();
    let mut buf = vec![0u8; 1 << 16];
    loop {
        match f.read_vectored(&mut [std::io::IoSliceMut::new(&mut buf)]) {
            Ok(0) => break,
            Ok(n) => all.extend_from_slice(&buf[..n]),
            Err(e) if e.kind() == std::io::ErrorKind::Interrupted => {}
            Err(e) => {
                eprintln!("drive: error reading stdin: {e}");
                break;
            }
        }
    }
    all
}

fn emit(to_stdout: bool, text: String) -> bool {
    match PRINTER.get() {
        Some((tx, ack)) => {
            if tx.send((to_stdout, text)).is_err() {
                return false;
            }
            ack.lock()
                .unwrap_or_else(|e| e.into_inner())
                .recv()
                .unwrap_or(false)
        }
        None => emit_direct(to_stdout, &text),
    }
}

fn marker(enabled: bool, what: &str, i: u64) {
    if enabled {
        let _ = emit(false, format!("@@{what} {i}\n"));
    }
}

fn main() {
    std::panic::set_hook(Box::new(|info| {
        let _ = writeln!(std::io::stderr(), "[drive] panic: {info}");
    }));

    let args: Vec<String> = std::env::args().collect();
    if args.len() != 2 {
        eprintln!("usage: drive <scratch-dir>   (ops on stdin, results on stdout)");
        std::process::exit(2);
    }
    let scratch_arg = Path::new(&args[1]);
    if let Err(e) = std::fs::create_dir_all(scratch_arg) {
        eprintln!("drive: cannot create {}: {e}", scratch_arg.display());
        std::process::exit(2);
    }
    // DRIVE_REUSE=1: accept an existing, non-empty scratch dir (inspection after a killed run).
    let reuse = std::env::var_os("DRIVE_REUSE").is_some_and(|v| v == "1");
    // DRIVE_MARK=1: `@@OP <i>` / `@@END <i>` markers on fd 2 around every op (for strace logs).
    let mark = std::env::var_os("DRIVE_MARK").is_some_and(|v| v == "1");
    match std::fs::read_dir(scratch_arg) {
        Ok(mut rd) => {
            if !reuse && rd.next().is_some() {
                eprintln!("drive: scratch dir {} is not empty", scratch_arg.display());
                std::process::exit(2);
            }
        }
        Err(e) => {
            eprintln!("drive: cannot read {}: {e}", scratch_arg.display());
            std::process::exit(2);
        }
    }
    let scratch = match std::fs::canonicalize(scratch_arg) {
        Ok(p) => p,
        Err(e) => {
            eprintln!("drive: cannot canonicalize {}: {e}", scratch_arg.display());
            std::process::exit(2);
        }
    };
    let scratch_str = match scratch.to_str() {
        Some(s) => s.trim_end_matches('/').to_string(),
        None => {
            eprintln!("drive: scratch path is not UTF-8");
            std::process::exit(2);
        }
    };
    let make_dir = |name: &str| -> std::io::Result<()> {
        // with DRIVE_REUSE several processes may set the same scratch directory up at the same instant
        match std::fs::create_dir(name) {
            Err(e) if reuse && e.kind() == std::io::ErrorKind::AlreadyExists && Path::new(name).is_dir() => Ok(()),
            r => r,
        }
    };
    if let Err(e) = std::env::set_current_dir(&scratch)
        .and_then(|_| make_dir("out"))
        .and_then(|_| make_dir("tgt"))
    {
        eprintln!("drive: cannot set up {scratch_str}: {e}");
        std::process::exit(2);
    }

    #[cfg(any(feature = "rt-async-std", feature = "rt-tokio"))]
    rt::init();

    // The limit is 60 s per the protocol; the variable exists for testing the watchdog.
    let limit = std::env::var("DRIVE_WATCHDOG_SECS")
        .ok()
        .and_then(|s| s.parse::<u64>().ok())
        .unwrap_or(60);
    start_watchdog(Duration::from_secs(limit));

    // DRIVE_ATTACH=1: everything a process does while starting up (loader, runtime) is done; stop here so
    // that a tracer can attach now (strace -f -p): its per-thread counters then start with the operations,
    // and "the N-th openat / read / stat of a thread" is a call of the library, not of the start-up.
    if std::env::var_os("DRIVE_ATTACH").is_some_and(|v| v == "1") {
        extern "C" {
            fn raise(sig: i32) -> i32;
        }
        const SIGSTOP: i32 = 19;
        unsafe {
            raise(SIGSTOP);
        }
    }

    // DRIVE_WORKER=1: run the op loop on a fresh thread, so that per-thread system-call counters
    // (strace's `when=N`) start at zero for the operations and the process start-up is not counted.
    let worker = std::env::var_os("DRIVE_WORKER").is_some_and(|v| v == "1");
    if worker {
        let ops = slurp_stdin();
        let tmp_before = all_tmp_files();
        let tmp_for_worker = tmp_before.clone();
        let (tx, rx) = std::sync::mpsc::sync_channel::<(bool, String)>(0);
        let (ack_tx, ack_rx) = std::sync::mpsc::channel::<bool>();
        let _ = PRINTER.set((tx, std::sync::Mutex::new(ack_rx)));
        let h = std::thread::Builder::new()
            .name("drive-ops".into())
            .stack_size(64 << 20)
            .spawn(move || {
                op_loop(
                    scratch_str,
                    mark,
                    Box::new(std::io::Cursor::new(ops)),
                    tmp_for_worker,
                )
            });
        match h {
            Ok(h) => {
                // The op thread ends the process itself; until then print what it sends.
                while let Ok((to_stdout, text)) = rx.recv() {
                    if text == DONE {
                        finish(&tmp_before);
                    }
                    let _ = ack_tx.send(emit_direct(to_stdout, &text));
                }
                let _ = h.join();
            }
            Err(e) => {
                eprintln!("drive: cannot spawn the worker thread: {e}");
                std::process::exit(2);
            }
        }
        std::process::exit(0);
    }
    let tmp_before = all_tmp_files();
    op_loop(
        scratch_str,
        mark,
        Box::new(std::io::stdin().lock()),
        tmp_before,
    )
}

/// Temp files of every cache directory (`c<digits>`) below the scratch directory.
fn all_tmp_files() -> BTreeSet<String> {
    let mut s = BTreeSet::new();
    if let Ok(rd) = std::fs::read_dir(".") {
        for e in rd.flatten() {
            let name = e.file_name().to_string_lossy().into_owned();
            if is_cache_name(&name) {
                for t in tmp_names(&name) {
                    s.insert(format!("{name}/tmp/{t}"));
                }
            }
        }
    }
    s
}

#[cfg_attr(not(any(feature = "rt-async-std", feature = "rt-tokio")), allow(dead_code))]
/// The async writers finish some work (dropping the temp file after a failed close, the
/// detached clean-up of a dropped writer) on pool threads AFTER the caller has its answer.
/// `process::exit` would cut that short, so give it a moment: wait until no temp file
/// that appeared during this run is left (at most 1.5 s — a real leak stays visible).
fn quiesce(before: &BTreeSet<String>) {
    let deadline = Instant::now() + Duration::from_millis(1500);
    loop {
        if all_tmp_files().iter().all(|t| before.contains(t)) || Instant::now() >= deadline {
            return;
        }
        std::thread::sleep(Duration::from_millis(3));
    }
}

fn op_loop(
    scratch_str: String,
    mark: bool,
    mut input: Box<dyn std::io::BufRead>,
    tmp_before: BTreeSet<String>,
) {
    let mut st = St {
        scratch: scratch_str,
        writers: HashMap::new(),
        readers: HashMap::new(),
        linkers: HashMap::new(),
    };

    let mut raw = Vec::new();
    // Number of ops executed so far (comments / blank lines are not counted).
    let mut op_index: u64 = 0;
    loop {
        raw.clear();
        match input.read_until(b'\n', &mut raw) {
            Ok(0) => break,
            Ok(_) => {}
            Err(e) => {
                eprintln!("drive: error reading stdin: {e}");
                break;
            }
        }
        while matches!(raw.last(), Some(b'\n' | b'\r')) {
            raw.pop();
        }
        let result = match std::str::from_utf8(&raw) {
            Err(_) => {
                marker(mark, "OP", op_index);
                Bad::Line.line().to_string()
            }
            Ok(line) => {
                let line = line.trim();
                if line.is_empty() || line.starts_with('#') {
                    continue;
                }
                marker(mark, "OP", op_index);
                wd_set(Some(Instant::now()));
                // Outer safety net; every library call has its own catch_unwind.
                let r = catch_unwind(AssertUnwindSafe(|| st.exec(line)))
                    .unwrap_or_else(|_| "panic".to_string());
                wd_set(None);
                r
            }
        };
        if !emit(true, format!("{result}\n")) {
            // Nobody is listening any more.
            std::process::exit(1);
        }
        marker(mark, "END", op_index);
        op_index += 1;
    }

    // Drop whatever is still open (destructors may panic after earlier panics).
    let St {
        writers,
        readers,
        linkers,
        ..
    } = st;
    safe_drop(writers);
    safe_drop(readers);
    safe_drop(linkers);
    let _ = std::io::stdout().flush();
    if PRINTER.get().is_some() {
        // worker mode: the main thread does the waiting for background clean-up (directory scans are
        // system calls of the injected classes) and ends the process
        let _ = emit(false, DONE.to_string());
        loop {
            std::thread::park();
        }
    }
    finish(&tmp_before)
}

const DONE: &str = "\u{0}done";

fn finish(tmp_before: &BTreeSet<String>) -> ! {
    #[cfg(any(feature = "rt-async-std", feature = "rt-tokio"))]
    quiesce(tmp_before);
    #[cfg(not(any(feature = "rt-async-std", feature = "rt-tokio")))]
    let _ = tmp_before;
    std::process::exit(0);
}
