//! Environment operations: plain `std::fs`, no library involvement.
//! All paths are relative to the scratch directory, which is the process cwd.

use std::collections::BTreeMap;
use std::fs;
use std::io::{self, Write};
use std::os::unix::ffi::OsStrExt;
use std::path::Path;

use crate::tokens::{hex_tok, io_kind, is_cache_name, is_plain_path, Target};

fn io_err(e: &io::Error) -> String {
    format!("err io {}", io_kind(e))
}

fn unit(r: io::Result<()>) -> String {
    match r {
        Ok(()) => "ok".to_string(),
        Err(e) => io_err(&e),
    }
}

fn create_parents(p: &str) -> io::Result<()> {
    match Path::new(p).parent() {
        Some(parent) if !parent.as_os_str().is_empty() => fs::create_dir_all(parent),
        _ => Ok(()),
    }
}

pub fn put(p: &str, data: &[u8]) -> String {
    unit((|| {
        create_parents(p)?;
        // A rewrite that keeps the length also keeps the time stamps: silent corruption (bit rot, a restore with
        // `cp -p` / rsync -t) does not announce itself through the modification time, and nothing in the cache may
        // conclude "unchanged" from length and time.
        let before = fs::metadata(p).ok().filter(|m| m.is_file() && m.len() == data.len() as u64);
        fs::write(p, data)?;
        if let Some(m) = before {
            if let (Ok(mt), Ok(at)) = (m.modified(), m.accessed()) {
                let f = fs::OpenOptions::new().write(true).open(p)?;
                f.set_times(fs::FileTimes::new().set_modified(mt).set_accessed(at))?;
            }
        }
        Ok(())
    })())
}

pub fn append(p: &str, data: &[u8]) -> String {
    unit((|| {
        let mut f = fs::OpenOptions::new().append(true).open(p)?;
        f.write_all(data)?;
        f.flush()
    })())
}

pub fn truncate(p: &str, n: u64) -> String {
    unit((|| {
        let f = fs::OpenOptions::new().write(true).open(p)?;
        f.set_len(n)
    })())
}

pub fn del(p: &str) -> String {
    unit(fs::remove_file(p))
}

pub fn rmtree(p: &str) -> String {
    unit(match fs::symlink_metadata(p) {
        Err(_) => Ok(()),
        Ok(m) if m.is_dir() => fs::remove_dir_all(p),
        Ok(_) => fs::remove_file(p),
    })
}

pub fn mkdir(p: &str) -> String {
    unit(fs::create_dir_all(p))
}

pub fn symlink(p: &str, target: &Target, scratch: &str) -> String {
    unit((|| {
        create_parents(p)?;
        match fs::symlink_metadata(p) {
            Ok(m) if m.is_dir() => fs::remove_dir_all(p)?,
            Ok(_) => fs::remove_file(p)?,
            Err(_) => {}
        }
        std::os::unix::fs::symlink(target.resolve(scratch), p)
    })())
}

/// `chmod P OCT` / `mode P`: permission bits of a file (implementation-only programs: the model has no modes)
pub fn chmod(p: &str, mode: u32) -> String {
    use std::os::unix::fs::PermissionsExt;
    unit(fs::set_permissions(p, fs::Permissions::from_mode(mode)))
}

pub fn mode(p: &str) -> String {
    use std::os::unix::fs::PermissionsExt;
    match fs::metadata(p) {
        Ok(m) => format!("ok {:o}", m.permissions().mode() & 0o7777),
        Err(e) => io_err(&e),
    }
}

/// `hardlink P Q`: Q becomes a second name of the file P (parents of Q are created)
pub fn hardlink(p: &str, q: &str) -> String {
    unit((|| {
        create_parents(q)?;
        fs::hard_link(p, q)
    })())
}

pub fn cat(p: &str) -> String {
    match fs::read(p) {
        Ok(d) => format!("ok {}", hex_tok(&d)),
        Err(e) => io_err(&e),
    }
}

pub fn stat(p: &str) -> String {
    match fs::symlink_metadata(p) {
        Err(_) => "ok absent".to_string(),
        Ok(m) => {
            let ft = m.file_type();
            if ft.is_symlink() {
                "ok symlink".to_string()
            } else if ft.is_dir() {
                "ok dir".to_string()
            } else {
                format!("ok file {}", m.len())
            }
        }
    }
}

/// `<cache>/tmp`: exactly two components, the first a cache name.
fn is_cache_tmp_dir(rel: &str) -> bool {
    let mut it = rel.split('/');
    matches!(
        (it.next(), it.next(), it.next()),
        (Some(c), Some("tmp"), None) if is_cache_name(c)
    )
}

fn parent_of(rel: &str) -> &str {
    match rel.rfind('/') {
        Some(i) => &rel[..i],
        None => "",
    }
}

struct Dump {
    scratch_prefix: Vec<u8>,
    /// (printed path bytes, entry text)
    entries: Vec<(Vec<u8>, String)>,
    /// tmp dir -> contents of the regular files directly inside it
    tmp: BTreeMap<String, Vec<Vec<u8>>>,
}

impl Dump {
    fn visit(&mut self, rel: &str, is_root: bool) -> io::Result<()> {
        let m = fs::symlink_metadata(rel)?;
        let ft = m.file_type();
        if ft.is_symlink() {
            let text = fs::read_link(rel)?;
            let tb = text.as_os_str().as_bytes();
            let shown = match tb.strip_prefix(&self.scratch_prefix[..]) {
                Some(rest)
                    if std::str::from_utf8(rest)
                        .map(is_plain_path)
                        .unwrap_or(false) =>
                {
                    format!("abs:{}", String::from_utf8_lossy(rest))
                }
                _ => format!("rel:{}", hex_tok(tb)),
            };
            self.entries
                .push((rel.as_bytes().to_vec(), format!("l:{rel}={shown}")));
        } else if ft.is_dir() {
            if !is_root {
                self.entries
                    .push((rel.as_bytes().to_vec(), format!("d:{rel}")));
            }
            let mut names = Vec::new();
            for ent in fs::read_dir(rel)? {
                let ent = ent?;
                names.push(ent.file_name().to_string_lossy().into_owned());
            }
            names.sort();
            for n in names {
                self.visit(&format!("{rel}/{n}"), false)?;
            }
        } else {
            let data = fs::read(rel)?;
            let parent = parent_of(rel);
            if is_cache_tmp_dir(parent) {
                self.tmp.entry(parent.to_string()).or_default().push(data);
            } else {
                self.entries.push((
                    rel.as_bytes().to_vec(),
                    format!("f:{rel}={}", hex_tok(&data)),
                ));
            }
        }
        Ok(())
    }
}

/// Recursive listing below `p` (the root directory itself is not listed).
pub fn dump(p: &str, scratch: &str) -> String {
    let p = p.trim_end_matches('/');
    if fs::symlink_metadata(p).is_err() {
        return "ok".to_string();
    }
    let mut d = Dump {
        scratch_prefix: format!("{scratch}/").into_bytes(),
        entries: Vec::new(),
        tmp: BTreeMap::new(),
    };
    if let Err(e) = d.visit(p, true) {
        return io_err(&e);
    }
    let tmp = std::mem::take(&mut d.tmp);
    for (dir, mut contents) in tmp {
        contents.sort();
        for (i, c) in contents.iter().enumerate() {
            let path = format!("{dir}/#{i}");
            let text = format!("f:{path}={}", hex_tok(c));
            d.entries.push((path.into_bytes(), text));
        }
    }
    d.entries.sort();
    if d.entries.is_empty() {
        return "ok".to_string();
    }
    let items: Vec<&str> = d.entries.iter().map(|(_, t)| t.as_str()).collect();
    format!("ok {}", items.join(";"))
}

/// `fsize N|-`: set (or lift) the soft RLIMIT_FSIZE of this process, SIGXFSZ ignored: a write that would
/// grow a file beyond N bytes is cut short at N, the next one fails with EFBIG.  (The hard limit is left
/// alone, so the limit can be lifted again: a fault that goes away while a handle is still open.)
pub fn fsize(limit: Option<u64>) -> String {
    #[repr(C)]
    struct Rlimit {
        cur: u64,
        max: u64,
    }
    extern "C" {
        fn getrlimit(resource: i32, rlim: *mut Rlimit) -> i32;
        fn setrlimit(resource: i32, rlim: *const Rlimit) -> i32;
        fn signal(signum: i32, handler: usize) -> usize;
    }
    const RLIMIT_FSIZE: i32 = 1;
    const SIGXFSZ: i32 = 25;
    const SIG_IGN: usize = 1;
    let mut rl = Rlimit { cur: 0, max: 0 };
    unsafe {
        signal(SIGXFSZ, SIG_IGN);
        if getrlimit(RLIMIT_FSIZE, &mut rl) != 0 {
            return "err io other".to_string();
        }
        rl.cur = limit.unwrap_or(rl.max).min(rl.max);
        if setrlimit(RLIMIT_FSIZE, &rl) != 0 {
            return "err io other".to_string();
        }
    }
    "ok".to_string()
}
