//! Support code for the `drive` binary: token handling and the environment
//! operations of /verif/PROTOCOL.md. Everything that touches `cacache` lives in
//! `src/bin/drive.rs`.

pub mod envops;
pub mod tokens;
