//! Token-level parsing / printing for the line protocol (see /verif/PROTOCOL.md).

/// Why an op was rejected by the harness itself (before / instead of calling the library).
#[derive(Debug, Clone, Copy, PartialEq, Eq)]
pub enum Bad {
    /// Malformed line: unknown op, wrong number of tokens, syntactically broken token.
    Line,
    /// Well-formed token whose *value* is unusable (non-UTF-8 key, unparsable SRI,
    /// non-JSON meta, flavour not supported by this op / build, integer out of range).
    Arg,
    /// Unknown or already consumed writer / reader / linker id.
    Id,
}

impl Bad {
    pub fn line(self) -> &'static str {
        match self {
            Bad::Line => "err badline",
            Bad::Arg => "err badarg",
            Bad::Id => "err badid",
        }
    }
}

/// Bytes token: `x` + lowercase hex.
pub fn hex_tok(b: &[u8]) -> String {
    let mut s = String::with_capacity(1 + b.len() * 2);
    s.push('x');
    s.push_str(&hex::encode(b));
    s
}

pub fn parse_bytes(t: &str) -> Result<Vec<u8>, Bad> {
    let h = t.strip_prefix('x').ok_or(Bad::Line)?;
    if h.len() % 2 != 0 || !h.bytes().all(|c| matches!(c, b'0'..=b'9' | b'a'..=b'f')) {
        return Err(Bad::Line);
    }
    hex::decode(h).map_err(|_| Bad::Line)
}

/// `-` is absent, otherwise a bytes token.
pub fn parse_opt_bytes(t: &str) -> Result<Option<Vec<u8>>, Bad> {
    if t == "-" {
        Ok(None)
    } else {
        parse_bytes(t).map(Some)
    }
}

/// A bytes token that must hold UTF-8 (keys, SRI text).
pub fn parse_utf8(t: &str) -> Result<String, Bad> {
    String::from_utf8(parse_bytes(t)?).map_err(|_| Bad::Arg)
}

pub fn parse_opt_utf8(t: &str) -> Result<Option<String>, Bad> {
    if t == "-" {
        Ok(None)
    } else {
        parse_utf8(t).map(Some)
    }
}

fn all_digits(t: &str) -> bool {
    !t.is_empty() && t.bytes().all(|c| c.is_ascii_digit())
}

/// Decimal integer; syntactically unbounded, so overflow is `badarg`, not `badline`.
pub fn parse_u128(t: &str) -> Result<u128, Bad> {
    if !all_digits(t) {
        return Err(Bad::Line);
    }
    t.parse::<u128>().map_err(|_| Bad::Arg)
}

pub fn parse_usize(t: &str) -> Result<usize, Bad> {
    if !all_digits(t) {
        return Err(Bad::Line);
    }
    t.parse::<usize>().map_err(|_| Bad::Arg)
}

pub fn parse_u64(t: &str) -> Result<u64, Bad> {
    if !all_digits(t) {
        return Err(Bad::Line);
    }
    t.parse::<u64>().map_err(|_| Bad::Arg)
}

fn path_charset_ok(p: &str) -> bool {
    !p.is_empty()
        && !p.starts_with('/')
        && p.bytes()
            .all(|c| c.is_ascii_alphanumeric() || matches!(c, b'_' | b'.' | b'-' | b'/' | b'~' | b'+'))
}

/// Is this text printable as a `P` (used by `dump` to decide between `abs:` and `rel:`)?
pub fn is_plain_path(p: &str) -> bool {
    path_charset_ok(p)
}

/// `P`: relative path under scratch. `..` components are refused (they could leave
/// the scratch directory); link *targets* (`T`) are not restricted that way.
pub fn parse_path(t: &str) -> Result<String, Bad> {
    if !path_charset_ok(t) || t.split('/').any(|c| c == "..") {
        return Err(Bad::Line);
    }
    Ok(t.to_string())
}

/// `C`: `c` followed by digits.
pub fn parse_cache(t: &str) -> Result<String, Bad> {
    match t.strip_prefix('c') {
        Some(d) if all_digits(d) => Ok(t.to_string()),
        _ => Err(Bad::Line),
    }
}

/// Is `name` a cache directory name (`c<digits>`)?
pub fn is_cache_name(name: &str) -> bool {
    matches!(name.strip_prefix('c'), Some(d) if all_digits(d))
}

/// Id token: the given letter followed by digits.
pub fn parse_id(t: &str, letter: char) -> Result<String, Bad> {
    match t.strip_prefix(letter) {
        Some(d) if all_digits(d) => Ok(t.to_string()),
        _ => Err(Bad::Line),
    }
}

/// `T`: link target.
#[derive(Debug, Clone)]
pub enum Target {
    Abs(String),
    Rel(String),
}

pub fn parse_target(t: &str) -> Result<Target, Bad> {
    if let Some(p) = t.strip_prefix("abs:") {
        if path_charset_ok(p) {
            return Ok(Target::Abs(p.to_string()));
        }
    } else if let Some(p) = t.strip_prefix("rel:") {
        if path_charset_ok(p) {
            return Ok(Target::Rel(p.to_string()));
        }
    }
    Err(Bad::Line)
}

impl Target {
    /// The path text handed to the library / written into a symlink.
    pub fn resolve(&self, scratch: &str) -> String {
        match self {
            Target::Abs(p) => format!("{scratch}/{p}"),
            Target::Rel(p) => p.clone(),
        }
    }
}

pub fn io_kind(e: &std::io::Error) -> &'static str {
    match e.kind() {
        std::io::ErrorKind::NotFound => "notfound",
        std::io::ErrorKind::AlreadyExists => "exists",
        _ => "other",
    }
}
