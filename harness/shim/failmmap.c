// LD_PRELOAD shim: make file-backed shared mappings fail (ENODEV), as mmap(2) may on some
// filesystems / under memory pressure.  Everything else goes to the real mmap.
#define _GNU_SOURCE
#include <dlfcn.h>
#include <errno.h>
#include <stdlib.h>
#include <sys/mman.h>
#include <sys/types.h>

typedef void *(*mmap_fn)(void *, size_t, int, int, int, off_t);

static void *pass(const char *name, void *a, size_t l, int p, int f, int fd, off_t o) {
    mmap_fn real = (mmap_fn)dlsym(RTLD_NEXT, name);
    if ((f & MAP_SHARED) && fd >= 0 && getenv("FAIL_SHARED_MMAP")) {
        errno = ENODEV;
        return MAP_FAILED;
    }
    return real(a, l, p, f, fd, o);
}
void *mmap(void *a, size_t l, int p, int f, int fd, off_t o) { return pass("mmap", a, l, p, f, fd, o); }
void *mmap64(void *a, size_t l, int p, int f, int fd, off_t o) { return pass("mmap64", a, l, p, f, fd, o); }

// FAIL_MSYNC: every msync(2) fails with EIO (a mapping whose write-back cannot be scheduled: an I/O error below
// the page cache, a network filesystem gone away)
typedef int (*msync_fn)(void *, size_t, int);
int msync(void *a, size_t l, int f) {
    if (getenv("FAIL_MSYNC")) {
        errno = EIO;
        return -1;
    }
    return ((msync_fn)dlsym(RTLD_NEXT, "msync"))(a, l, f);
}
