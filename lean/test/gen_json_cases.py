#!/usr/bin/env python3
"""
Deterministic generator of differential-test cases for Cacache/Json.lean vs serde_json.

    python3 test/gen_json_cases.py [seed] > lines.txt     # one hex-encoded JSON text per line

Both sides (test/jsonref and test/JsonTest.lean) print, per line, `ok <hex of re-rendered value>`
or `err`; the outputs must be identical.

What is generated
  A. type-directed VALID documents (nesting <= 6) with every lexical variation the grammar allows:
     whitespace, every string escape (short escapes, \\uXXXX in both cases, surrogate pairs),
     control characters, 0x7f, 2/3/4-byte UTF-8, duplicate keys (also spelled differently),
     integers around the i64/u64 edges, decimals in all four printing regimes.
  B. MALFORMED documents: hand-written list + truncations / byte mutations of valid ones
     (lone surrogates, bad escapes, leading zeros, trailing garbage, raw control characters,
     invalid UTF-8 of every kind, ...).
  C. nesting depth 120..135 for arrays, objects and mixtures (the recursion limit).
  D. long flat documents (fuel of the Lean parser).

Restriction on numbers (see the header of Json.lean): the Lean model keeps decimals exact while
serde_json rounds to f64 (and, without the `float_roundtrip` feature, computes
`significand as f64 (*|/) 10^|e|`, which is correctly rounded only if significand < 2^53 and
|e| <= 22).  So every float literal generated here has <= 15 significant digits in its written
significand and |e - #fraction digits| <= 22; written exponents still cover [-12, 25].
Integer literals outside [-2^63, 2^64) are generated only with few significant digits.
"""
import random
import re
import sys

SEED = int(sys.argv[1]) if len(sys.argv) > 1 else 20260927      # fixed default: deterministic
R = random.Random(SEED)
OUT = []


def emit(b):
    if isinstance(b, str):
        b = b.encode("utf-8")
    OUT.append(bytes(b))


# ---------------------------------------------------------------- strings

SHORT = {0x22: '\\"', 0x5C: "\\\\", 0x2F: "\\/", 0x08: "\\b", 0x0C: "\\f", 0x0A: "\\n",
         0x0D: "\\r", 0x09: "\\t"}


def rand_case_hex4(n):
    s = "%04x" % n
    return "".join(c.upper() if R.random() < 0.5 else c for c in s)


def u_escape(cp):
    if cp >= 0x10000:
        v = cp - 0x10000
        return "\\u" + rand_case_hex4(0xD800 + (v >> 10)) + "\\u" + rand_case_hex4(0xDC00 + (v & 0x3FF))
    return "\\u" + rand_case_hex4(cp)


def rand_cp():
    k = R.random()
    if k < 0.40:
        return R.randrange(0x20, 0x7F)
    if k < 0.50:
        return R.choice([0x22, 0x5C, 0x2F, 0x7F, 0x20])
    if k < 0.62:
        return R.randrange(0x00, 0x20)
    if k < 0.72:
        return R.choice([0x80, 0x7FF, 0xE9, 0x3A9]) if R.random() < 0.5 else R.randrange(0x80, 0x800)
    if k < 0.86:
        if R.random() < 0.5:
            return R.choice([0x800, 0xFFF, 0x1000, 0xCFFF, 0xD000, 0xD7FF, 0xE000, 0xFFFD, 0xFFFE, 0xFFFF, 0x20AC])
        while True:
            c = R.randrange(0x800, 0x10000)
            if not (0xD800 <= c <= 0xDFFF):
                return c
    if R.random() < 0.5:
        return R.choice([0x10000, 0x1F600, 0x3FFFF, 0x40000, 0xFFFFF, 0x100000, 0x10FFFF])
    return R.randrange(0x10000, 0x110000)


def enc_char(cp):
    """One way of writing code point cp inside a JSON string literal (always valid)."""
    must_escape = cp < 0x20 or cp in (0x22, 0x5C)
    k = R.random()
    if cp in SHORT and k < 0.5:
        return SHORT[cp]
    if must_escape or k < 0.65 and (cp in SHORT or R.random() < 0.3):
        return u_escape(cp)
    return chr(cp)


def rand_string_cps(maxlen=8):
    n = R.choice([0, 0, 1, 1, 2, 3, 4, 5, maxlen])
    return [rand_cp() for _ in range(n)]


def lit(cps):
    return '"' + "".join(enc_char(c) for c in cps) + '"'


# ---------------------------------------------------------------- numbers

I64_MIN = -(2 ** 63)
U64_MAX = 2 ** 64 - 1
EDGE_INTS = [0, 1, -1, 9, 10, -10, 99, 100, 2 ** 31 - 1, 2 ** 31, -(2 ** 31), 2 ** 32, 2 ** 53, 2 ** 53 + 1,
             2 ** 63 - 2, 2 ** 63 - 1, 2 ** 63, 2 ** 63 + 1, U64_MAX - 1, U64_MAX,
             I64_MIN, I64_MIN + 1, I64_MIN + 2, -(2 ** 62), 10 ** 19, 10 ** 18, -(10 ** 18),
             9999999999999999999, 12345678901234567890, -1234567890123456789]
# beyond the edges: become floats; few significant digits so that f64 rounding is invisible
BIG_INTS = [2 * 10 ** 19, 10 ** 20, -(10 ** 19), 3 * 10 ** 25, -(5 * 10 ** 21), 125 * 10 ** 18, -(75 * 10 ** 17) * 10,
            18446744073709552000, -9223372036854776000, 10 ** 22, 123456 * 10 ** 16, -(123456 * 10 ** 20)]


def rand_int_text():
    k = R.random()
    if k < 0.35:
        return str(R.choice(EDGE_INTS))
    if k < 0.45:
        return str(R.choice(BIG_INTS))
    if k < 0.75:
        return str(R.randrange(-1000, 1000))
    return str(R.randrange(I64_MIN, U64_MAX + 1))


def exp_text(e):
    ch = R.choice("eE")
    if e < 0:
        return ch + "-" + pad0(str(-e))
    return ch + R.choice(["", "+"]) + pad0(str(e))


def pad0(s):
    return ("0" * R.choice([0, 0, 0, 1, 2])) + s


def rand_float_text():
    """value = sign * m * 10^e with m <= 6 significant digits, written in a random style."""
    sign = R.choice(["", "", "-"])
    if R.random() < 0.08:
        m = 0
    else:
        m = R.randrange(1, 10 ** R.choice([1, 1, 2, 3, 4, 5, 6]))
    digits = str(m)
    style = R.random()
    if style < 0.35:
        # scientific d.ddd e X      (written exponent X in [-12, 25])
        x = R.randrange(-12, 26)
        frac = digits[1:] + "0" * R.choice([0, 0, 0, 1, 3])
        if frac == "" and R.random() < 0.5:
            body = digits[0]
        else:
            body = digits[0] + "." + (frac if frac else "0")
            frac = frac if frac else "0"
        nfrac = len(body.split(".")[1]) if "." in body else 0
        if abs(x - nfrac) > 22:
            x = 22 + nfrac if x > 0 else -22 + nfrac
            x = max(-12, min(25, x))
            if abs(x - nfrac) > 22:
                return sign + body
        return sign + body + exp_text(x)
    if style < 0.55:
        # integer significand with exponent
        x = R.randrange(-12, 23)
        return sign + digits + "0" * R.choice([0, 0, 1, 2]) + exp_text(x)
    if style < 0.90:
        # plain fixed notation with a fraction
        p = R.randrange(-12, 9)          # value = m * 10^p
        if p >= 0:
            return sign + digits + "0" * p + "." + "0" * R.choice([1, 1, 2, 5])
        k = -p
        if k >= len(digits):
            s = "0." + "0" * (k - len(digits)) + digits
        else:
            s = digits[:-k] + "." + digits[-k:]
        return sign + s + "0" * R.choice([0, 0, 0, 1, 4])
    # fraction and exponent, point in the middle
    if len(digits) >= 2:
        cut = R.randrange(1, len(digits))
        body = digits[:cut] + "." + digits[cut:]
        nfrac = len(digits) - cut
    else:
        body = digits + ".0"
        nfrac = 1
    x = R.randrange(-12, 26)
    if abs(x - nfrac) > 22:
        x = 22 + nfrac
    return sign + body + exp_text(x)


# ---------------------------------------------------------------- documents

def ws():
    k = R.random()
    if k < 0.7:
        return ""
    return "".join(R.choice(" \t\n\r") for _ in range(R.choice([1, 1, 2, 3])))


def gen_value(depth):
    """Returns JSON text of a random valid value with nesting <= depth."""
    k = R.random()
    if depth == 0 or k < 0.45:
        j = R.random()
        if j < 0.08:
            return "null"
        if j < 0.16:
            return R.choice(["true", "false"])
        if j < 0.40:
            return rand_int_text()
        if j < 0.65:
            return rand_float_text()
        return lit(rand_string_cps())
    if k < 0.72:
        n = R.choice([0, 1, 1, 2, 3, 4])
        if n == 0:
            return "[" + ws() + "]"
        return "[" + ",".join(ws() + gen_value(depth - 1) + ws() for _ in range(n)) + "]"
    n = R.choice([0, 1, 1, 2, 3, 4, 5])
    if n == 0:
        return "{" + ws() + "}"
    keys = []
    members = []
    for _ in range(n):
        if keys and R.random() < 0.25:
            cps = R.choice(keys)          # duplicate key, possibly spelled differently
        else:
            cps = rand_string_cps(4) if R.random() < 0.6 else [R.randrange(0x61, 0x67)]
        keys.append(cps)
        members.append(ws() + lit(cps) + ws() + ":" + ws() + gen_value(depth - 1) + ws())
    return "{" + ",".join(members) + "}"


def gen_doc():
    return ws() + gen_value(R.choice([0, 1, 2, 3, 4, 5, 6, 6])) + ws()


# ---------------------------------------------------------------- A. valid documents

N_VALID = 1500
valid_docs = []
for _ in range(N_VALID):
    d = gen_doc()
    valid_docs.append(d)
    emit(d)

# every scalar generator on its own, to get dense coverage of numbers and strings
for _ in range(500):
    emit(rand_float_text())
for t in EDGE_INTS + BIG_INTS:
    emit(str(t))
    emit("[" + str(t) + "]")
for _ in range(150):
    emit(rand_int_text())
for _ in range(400):
    emit(lit(rand_string_cps(12)))
# every single byte/code point 0..0x7f escaped as \u and (where legal) raw
for c in range(0x80):
    emit('"\\u%04x"' % c)
    emit(b'"' + bytes([c]) + b'"')          # raw: error for c < 0x20, '"' and '\\'
for cp in [0x80, 0x7FF, 0x800, 0xD7FF, 0xE000, 0xFFFF, 0x10000, 0x10FFFF]:
    emit('"' + chr(cp) + '"')
    emit('"' + u_escape(cp) + '"')
    emit('{"' + chr(cp) + '":1,"' + u_escape(cp) + '":2}')
# key ordering: byte order of UTF-8, not code-point/UTF-16 order; prefixes; empty key
emit('{"\uff5e":1,"\U00010000":2,"z":3,"":4,"a":5,"ab":6,"B":7,"\\u0000":8,"\x7f":9,"\u0080":10}')
emit('{"b":1,"a":2,"b":3,"a":4,"c":{"y":1,"x":2,"y":{"q":[]}}}')
emit('{"a":1,"\\u0061":2,"\\u0041":3}')

# ---------------------------------------------------------------- B. malformed documents

HAND = [
    b"", b" ", b"\n", b"nul", b"nulll", b"null null", b"tru", b"truex", b"fals", b"falsee", b"True", b"NULL",
    b"-", b"+1", b"01", b"-01", b"00", b"-00", b"0.", b"1.", b".5", b"-.5", b"1.e5", b"1e", b"1e+", b"1e-", b"1E", b"1e+-1",
    b"1ee1", b"1.5.5", b"1..5", b"0x10", b"1_000", b"- 1", b"--1", b"1-", b"1 2", b"1,", b",1", b"1a", b"0e", b"0.e1",
    b"Infinity", b"NaN", b"-Infinity", b"1e5x", b"[1e5x]", b"0123", b"[01]", b"[-]", b"[1.]",
    b"[", b"]", b"{", b"}", b"[1", b"[1,", b"[1,]", b"[,1]", b"[,]", b"[1 2]", b"[1,,2]", b"[1;2]", b"[1]]", b"[[1]",
    b"{\"a\"", b"{\"a\":", b"{\"a\":1", b"{\"a\":1,", b"{\"a\":1,}", b"{,}", b"{\"a\" 1}", b"{\"a\"::1}", b"{a:1}", b"{1:2}",
    b"{\"a\":1 \"b\":2}", b"{\"a\":1,,\"b\":2}", b"{\"a\":1}}", b"{{\"a\":1}", b"{\"a\":}", b"{:1}", b"{null:1}", b"{\"a\":1,null}",
    b"{'a':1}", b"'a'", b"[1}", b"{\"a\":1]", b"[}", b"{]",
    b"\"", b"\"abc", b"\"abc\\", b"\"abc\\\"", b"\"\\a\"", b"\"\\x41\"", b"\"\\U0041\"", b"\"\\0\"", b"\"\\ \"", b"\"\\'\"",
    b"\"\\u\"", b"\"\\u1\"", b"\"\\u12\"", b"\"\\u123\"", b"\"\\u123G\"", b"\"\\u12 4\"", b"\"\\u+123\"", b"\"\\u-123\"", b"\"\\u 123\"",
    b"\"\\ud800\"", b"\"\\udbff\"", b"\"\\udc00\"", b"\"\\udfff\"", b"\"\\ud800\\n\"", b"\"\\ud800\\u0041\"", b"\"\\ud800\\ud800\"",
    b"\"\\ud800\\udbff\"", b"\"\\ud800\\ue000\"", b"\"\\ud800x\"", b"\"\\ud800\\\"", b"\"\\ud800\\u\"", b"\"\\ud800\\udc0\"",
    b"\"\\udc00\\ud800\"", b"\"\\uD800\\uDC00\"", b"\"\\uDBFF\\uDFFF\"", b"\"\\ud800\\udc00\\udc00\"", b"\"\\ud83d\\ude00\\ud83d\"",
    b"\"\\ud7ff\"", b"\"\\ue000\"", b"\"a\nb\"", b"\"a\tb\"", b"\"a\rb\"", b"\"a\x00b\"", b"\"a\x1fb\"", b"\"a\x7fb\"",
    b"\"a\"b\"", b"\"a\" \"b\"", b"\"a\"x", b"[\"a\" \"b\"]",
    b"\xef\xbb\xbf1", b"\xef\xbb\xbf[]", b"1\x0c", b"\x0c1", b"\x0b1", b"1\x00", b"\x001", b"1\xc2\xa0", b"\xc2\xa01", b"1 \xe2\x80\xa8",
    b"[1]x", b"[1] x", b"[1] []", b"{}{}", b"null,", b"// c\n1", b"/* c */1", b"1 // c", b"[1,/*c*/2]",
    b"-0", b"-0.0", b"-0e0", b"-0E-5", b"-0.000e+7", b"0", b"0.0", b"0e0", b"0E+0", b"0.000", b"0e25", b"0.0e-12", b"[-0,0,-0.0,0.0]",
    b"1e0", b"1e-0", b"1E+00", b"1e00025", b"1.5e-007", b"100e-2", b"1.0e1", b"1.50", b"10.0", b"1000000", b"1000000.0", b"1e6",
    b"1e15", b"1e16", b"1e17", b"1e21", b"1e22", b"9.99999e15", b"9.99999e16", b"999999e10", b"999999e11", b"123456e10", b"1234560e10",
    b"1e-4", b"1e-5", b"1e-6", b"1e-7", b"0.0001", b"0.00001", b"0.000001", b"0.0000001", b"9.99999e-5", b"9.99999e-6", b"9.99999e-7",
    b"0.000099", b"0.0000099", b"1.5e-5", b"1.5e-6", b"1.5e-7", b"123456e-9", b"123456e-10", b"123456e-11", b"123456e-12",
    b"1234567890123456.0", b"123456789012345.0", b"12345678901234.5", b"0.123456789012345", b"1.23456789012345e22",
    b"1.0E2", b"2.5E-3", b"-1.25e+5", b"-2.5e-5", b"-2.5e-6", b"-1e21", b"-1e-7",
]
for h in HAND:
    emit(h)
    emit(b"[" + h + b"]")
    emit(b"{\"k\":" + h + b"}")

# invalid UTF-8 of every kind, inside a string and bare
BAD_UTF8 = [
    b"\x80", b"\xbf", b"\xc0\x80", b"\xc1\xbf", b"\xc2", b"\xc2\x7f", b"\xc2\xc0", b"\xdf", b"\xdf\x00",
    b"\xe0\x80\x80", b"\xe0\x9f\xbf", b"\xe0\xa0", b"\xe0\xa0\x7f", b"\xe0", b"\xe1\x80", b"\xe1\x80\xc0", b"\xe1\x7f\x80",
    b"\xed\xa0\x80", b"\xed\xbf\xbf", b"\xed\xa0\x80\xed\xb0\x80", b"\xef\xbf", b"\xec\xc0\x80",
    b"\xf0\x80\x80\x80", b"\xf0\x8f\xbf\xbf", b"\xf0\x90\x80", b"\xf0\x90", b"\xf0", b"\xf0\x90\x80\x7f", b"\xf0\x90\x7f\x80",
    b"\xf1\x80\x80", b"\xf1\x7f\x80\x80", b"\xf3\x80\xc0\x80", b"\xf4\x90\x80\x80", b"\xf4\xbf\xbf\xbf", b"\xf4\x8f\xbf", b"\xf4\x7f\x80\x80",
    b"\xf5\x80\x80\x80", b"\xf7\xbf\xbf\xbf", b"\xf8\x88\x80\x80\x80", b"\xfc\x84\x80\x80\x80\x80", b"\xfe", b"\xff", b"\xc2\x80\x80",
]
GOOD_UTF8 = [b"\xc2\x80", b"\xdf\xbf", b"\xe0\xa0\x80", b"\xe0\xbf\xbf", b"\xe1\x80\x80", b"\xec\xbf\xbf", b"\xed\x80\x80", b"\xed\x9f\xbf",
             b"\xee\x80\x80", b"\xef\xbf\xbf", b"\xf0\x90\x80\x80", b"\xf0\xbf\xbf\xbf", b"\xf1\x80\x80\x80", b"\xf3\xbf\xbf\xbf",
             b"\xf4\x80\x80\x80", b"\xf4\x8f\xbf\xbf"]
for u in BAD_UTF8 + GOOD_UTF8:
    emit(b"\"" + u + b"\"")
    emit(b"\"a" + u + b"z\"")
    emit(b"{\"" + u + b"\":\"" + u + b"\"}")
    emit(b"1" + u)
    emit(b"[1]" + u)

# truncations and byte mutations of valid documents
NUM_RE = re.compile(rb"-?[0-9]+(\.[0-9]+)?([eE][+-]?[0-9]+)?")
BIG_OK = {str(abs(b)).encode() for b in BIG_INTS}


def numbers_faithful(doc):
    """True iff every number-like token of doc (conservatively: also inside strings) is in the
    region where the exact-decimal model and serde_json's f64 agree; mutants outside are redrawn."""
    for m in NUM_RE.finditer(doc):
        tok = m.group(0).lstrip(b"-")
        if m.group(1) is None and m.group(2) is None:
            if int(tok) <= U64_MAX and (not m.group(0).startswith(b"-") or int(tok) <= 2 ** 63):
                continue
            if tok in BIG_OK:
                continue
            if len(tok.lstrip(b"0").rstrip(b"0")) <= 6:          # becomes a float: few digits only
                continue
            return False
        mant = tok.split(b"e")[0].split(b"E")[0]
        nfrac = len(mant.split(b".")[1]) if b"." in mant else 0
        sig = mant.replace(b".", b"").lstrip(b"0")
        ex = int(re.split(rb"[eE]", tok)[1]) if m.group(2) else 0
        if len(sig) > 15 or abs(ex - nfrac) > 22:
            return False
    return True


def emit_mutant(make):
    while True:
        d = make()
        if numbers_faithful(d):
            emit(d)
            return


MUT_BYTES = [b"\"", b"\\", b",", b":", b"[", b"]", b"{", b"}", b"0", b"1", b"-", b".", b"e", b"u", b" ", b"\n", b"\x00", b"\x1f",
             b"x", b"\xc3", b"\xa9", b"\\ud800", b"\\udc00", b"\\u00", b"n", b"t"]
pool = [d.encode("utf-8") for d in valid_docs if 2 <= len(d) <= 120]


def mutant():
    d = R.choice(pool)
    k = R.random()
    if k < 0.30:
        return d[: R.randrange(0, len(d))]
    if k < 0.55:
        i = R.randrange(0, len(d))
        return d[:i] + d[i + 1:]
    if k < 0.80:
        i = R.randrange(0, len(d) + 1)
        return d[:i] + R.choice(MUT_BYTES) + d[i:]
    i = R.randrange(0, len(d))
    return d[:i] + R.choice(MUT_BYTES) + d[i + 1:]


TAILS = [b"x", b"]", b"}", b",", b"0", b"\"", b" 1", b"\n[]", b"\x00", b"null", b"\xc2\xa0"]
for _ in range(700):
    emit_mutant(mutant)
for _ in range(150):
    emit_mutant(lambda: R.choice(pool) + R.choice(TAILS))

# ---------------------------------------------------------------- C. recursion limit

for n in range(120, 136):
    emit("[" * n + "]" * n)
    emit("[" * n + "1" + "]" * n)
    emit(" [" * n + " ] " * n)
    emit("[0," * n + "null" + "]" * n)                 # descent through a non-first element
    emit("[" * n)                                      # unterminated: error either way
    emit('{"a":' * (n - 1) + "{}" + "}" * (n - 1))     # n objects
    emit('{"a":' * n + "null" + "}" * n)               # n objects around a scalar
    emit('{"a":' * n + '"s"' + "}" * n)
    emit('{"b":0,"a":' * n + "1.5" + "}" * n)
    emit('[{"a":' * (n // 2) + ("[7]" if n % 2 else "7") + "}]" * (n // 2))      # mixed, depth n
    emit('{"a":[' * (n // 2) + ("{}" if n % 2 else "true") + "]}" * (n // 2))    # mixed, depth n
    # deep value first, shallow sibling after it: depth is restored on the way out
    emit("[" + "[" * (n - 1) + "]" * (n - 1) + ",[[]]]")
    emit('{"x":' + "[" * (n - 1) + "]" * (n - 1) + ',"y":{"z":[]}}')

# ---------------------------------------------------------------- D. long flat documents

emit("[" + ",".join(str(i) for i in range(3000)) + "]")
emit("{" + ",".join('"k%04d":%d' % (i % 700, i) for i in range(1500)) + "}")
emit('"' + "abcdefghij" * 800 + '"')
emit('"' + "\\u00e9\\n\\ud83d\\ude00" * 500 + '"')
emit("[" + ",".join('"%s"' % ("x" * (i % 17)) for i in range(1500)) + "]")
emit(" " * 5000 + "1" + "\n" * 5000)
emit("[" + ",".join("[[],{}]" for _ in range(1000)) + "]")
emit("123456789012345" + "0" * 7)
emit("0." + "0" * 4 + "123456789012345")

for b in OUT:
    sys.stdout.write(b.hex() + "\n")
sys.stderr.write("%d cases\n" % len(OUT))
