/-
SHA test-vector checker.

  cd /verif/lean && python3 test/gen_sha_vectors.py > vectors.txt
  lake env lean --run test/ShaTest.lean < vectors.txt

Each stdin line is `<algo> <hex input> <hex digest>` (`-` for the empty input).
Checks both the `ByteArray` and the `Bytes` (= `List UInt8`) entry points.
Exit code 1 on any mismatch or malformed line.
-/
import Cacache.Sha
open Cacache

def hexVal (c : UInt8) : Option UInt8 :=
  if 48 ≤ c ∧ c ≤ 57 then some (c - 48)
  else if 97 ≤ c ∧ c ≤ 102 then some (c - 87)
  else if 65 ≤ c ∧ c ≤ 70 then some (c - 55)
  else none

def unhexBA (s : String) : Option ByteArray := Id.run do
  if s == "-" then return some ByteArray.empty
  let u := s.toUTF8
  if u.size % 2 != 0 then return none
  let mut out := ByteArray.emptyWithCapacity (u.size / 2)
  for i in [0:u.size / 2] do
    match hexVal (u.get! (2 * i)), hexVal (u.get! (2 * i + 1)) with
    | some a, some b => out := out.push (a <<< 4 ||| b)
    | _, _ => return none
  return some out

def hexBA (b : ByteArray) : String := Id.run do
  let digits := "0123456789abcdef".toUTF8
  let mut out := ByteArray.emptyWithCapacity (2 * b.size)
  for x in b do
    out := (out.push (digits.get! (x >>> 4).toNat)).push (digits.get! (x &&& 15).toNat)
  return String.fromUTF8! out

def algos : List (String × (ByteArray → ByteArray) × (Bytes → Bytes) × Nat) :=
  [("sha1", Sha.sha1BA, Sha.sha1, 20), ("sha256", Sha.sha256BA, Sha.sha256, 32),
   ("sha384", Sha.sha384BA, Sha.sha384, 48), ("sha512", Sha.sha512BA, Sha.sha512, 64)]

def main : IO UInt32 := do
  let stdin ← IO.getStdin
  let mut total := 0
  let mut bad := 0
  let mut lineNo := 0
  repeat
    let line ← stdin.getLine
    if line.isEmpty then break
    lineNo := lineNo + 1
    let fields := (line.trimAscii.copy.splitOn " ").filter (· ≠ "")
    if fields.isEmpty then continue
    match fields with
    | [algo, inHex, want] =>
      match algos.find? (·.1 == algo), unhexBA inHex with
      | some (_, fBA, fList, len), some input =>
        total := total + 1
        let t0 ← IO.monoMsNow
        let gotBA ← IO.lazyPure fun _ => fBA input
        let t1 ← IO.monoMsNow
        let gotHex := hexBA gotBA
        if input.size ≥ 65536 then
          IO.eprintln s!"timing: {algo} {input.size} bytes: {t1 - t0} ms (ByteArray entry point)"
        let gotList := fList input.toList
        if gotHex != want.toLower || gotBA.size != len then
          bad := bad + 1
          IO.println s!"MISMATCH line {lineNo}: {algo} len={input.size} want={want} got={gotHex}"
        else if gotList != gotBA.toList then
          bad := bad + 1
          IO.println s!"MISMATCH line {lineNo}: {algo} len={input.size} Bytes API disagrees with ByteArray API"
      | _, _ =>
        bad := bad + 1
        IO.println s!"BAD LINE {lineNo}: unknown algorithm or bad hex"
    | _ =>
      bad := bad + 1
      IO.println s!"BAD LINE {lineNo}: expected 3 fields, got {fields.length}"
  IO.println s!"{total} vectors checked, {bad} mismatches"
  return if bad == 0 && total > 0 then 0 else 1
