#!/usr/bin/env python3
"""Print SHA test vectors, one per line: `<algo> <hex input> <hex digest>`.

An empty input is written as `-` so that every line has exactly three fields.
Deterministic (fixed seed).  Usage: python3 gen_sha_vectors.py > vectors.txt
"""
import hashlib
import random

ALGOS = ["sha1", "sha256", "sha384", "sha512"]
LENGTHS = [0, 1, 2, 3, 55, 56, 57, 63, 64, 65, 111, 112, 113, 119, 120,
           127, 128, 129, 1000, 65536]


def emit(data: bytes) -> None:
    for a in ALGOS:
        print(a, data.hex() or "-", hashlib.new(a, data).hexdigest())


def main() -> None:
    rng = random.Random(0xCACACE)
    # FIPS 180-4 / RFC 3174 classics
    emit(b"abc")
    emit(b"abcdbcdecdefdefgefghfghighijhijkijkljklmklmnlmnomnopnopq")
    emit(b"abcdefghbcdefghicdefghijdefghijkefghijklfghijklmghijklmn"
         b"hijklmnoijklmnopjklmnopqklmnopqrlmnopqrsmnopqrstnopqrstu")
    for n in LENGTHS:
        emit(rng.randbytes(n))
    # degenerate contents at the padding boundaries
    for n in [55, 56, 64, 111, 112, 128]:
        emit(b"\x00" * n)
        emit(b"\xff" * n)
    # random lengths
    for _ in range(24):
        emit(rng.randbytes(rng.randrange(0, 700)))
    for _ in range(4):
        emit(rng.randbytes(rng.randrange(700, 20000)))


if __name__ == "__main__":
    main()
