/-
Differential test driver for `Cacache.Json` (Lean side).

  cd /verif/lean && lake env lean --run test/JsonTest.lean < lines.txt

stdin : one hex-encoded JSON text per line.
stdout: per line `ok <hex of render (parse text)>` or `err`  — the same format as the Rust
        reference `test/jsonref` (serde_json `from_str::<Value>` then `to_string`).

Besides the comparison with serde_json, every successfully parsed value is checked against the
model's own claims; a violation prints `BAD <reason>` instead of `ok …`, which shows up as a
difference:
  * `v.wf`                        (parse only returns well-formed values)
  * `v.depth ≤ maxNesting`
  * `parse (render v) = some v`   (the round trip that is to be proved)
  * `utf8Valid (render v)`
-/
import Cacache.Json

open Cacache Cacache.Json

def toStr (bs : Bytes) : String := String.fromUTF8! bs.toByteArray

def processLine (line : String) : String :=
  match Bytes.unhex (Bytes.ofString line) with
  | none => "err"
  | some text =>
    if !utf8Valid text then "err"
    else
      match parse text with
      | none => "err"
      | some v =>
        let out := render v
        if !v.wf then "BAD wf"
        else if v.depth > maxNesting then "BAD depth"
        else if !utf8Valid out then "BAD utf8"
        else if parse out != some v then "BAD roundtrip"
        else "ok " ++ toStr (Bytes.hex out)

/-! Fixed points of the model, checked at elaboration time (conventions documented in Json.lean). -/

private def p (s : String) : Option JVal := parse (Bytes.ofString s)
private def r (s : String) : Option String := (p s).map (fun v => toStr (render v))

-- negative zero: `dec 0 (-1)`; positive float zero: `dec 0 0`; integer zero: `int 0`
#guard p "-0" == some (.dec 0 (-1)) && p "-0.0e7" == some (.dec 0 (-1)) && r "-0" == some "-0.0"
#guard p "0.000" == some (.dec 0 0) && p "0e99" == some (.dec 0 0) && r "0e99" == some "0.0"
#guard p "0" == some (.int 0)
-- integer range: [-2^63, 2^64) stays exact
#guard p "18446744073709551615" == some (.int 18446744073709551615)
#guard p "-9223372036854775808" == some (.int (-9223372036854775808))
-- just outside: a float.  DOCUMENTED DIVERGENCE: serde_json rounds to f64 and prints
-- `1.8446744073709552e+19` / `-9.223372036854776e+18`; the model keeps every digit.
#guard p "18446744073709551616" == some (.dec 18446744073709551616 0)
#guard r "18446744073709551616" == some "1.8446744073709551616e+19"
#guard p "-9223372036854775809" == some (.dec (-9223372036854775809) 0)
-- a literal with fraction or exponent is a float even if integral; trailing zeros are normalised
#guard p "1.0" == some (.dec 1 0) && p "1e2" == some (.dec 1 2) && p "2.50e3" == some (.dec 25 2)
#guard r "1e2" == some "100.0" && r "1e16" == some "1e+16" && r "12345e11" == some "1234500000000000.0"
#guard r "1e-5" == some "0.00001" && r "1e-6" == some "1e-6" && r "1.5e-7" == some "1.5e-7" && r "12e20" == some "1.2e+21"
-- objects: sorted by key bytes, last duplicate wins
#guard r "{\"b\":1,\"a\":2,\"b\":3}" == some "{\"a\":2,\"b\":3}"
-- recursion limit: nesting depth 127 parses, 128 does not
#guard (parse (List.replicate 127 91 ++ List.replicate 127 93)).isSome
#guard (parse (List.replicate 128 91 ++ List.replicate 128 93)).isNone
#guard (parse (render (.arr [.int 5, .obj [([97], .dec 15 (-1)), ([98], .str [0, 34, 0xC3, 0xA9])]])))
        == some (.arr [.int 5, .obj [([97], .dec 15 (-1)), ([98], .str [0, 34, 0xC3, 0xA9])]])

partial def loop (stdin : IO.FS.Stream) (stdout : IO.FS.Stream) : IO Unit := do
  let line ← stdin.getLine
  if line.isEmpty then return ()
  stdout.putStrLn (processLine line.trimAscii.toString)
  loop stdin stdout

def main : IO Unit := do
  let stdin ← IO.getStdin
  let stdout ← IO.getStdout
  loop stdin stdout
