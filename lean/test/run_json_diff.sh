#!/bin/sh
# Differential test: Cacache.Json (Lean) vs serde_json (test/jsonref).  Exit 0 iff identical.
set -e
cd "$(dirname "$0")/.."
tmp="${TMPDIR:-/tmp}/jsondiff.$$"
mkdir -p "$tmp"
python3 test/gen_json_cases.py > "$tmp/lines.txt"
(cd test/jsonref && cargo build --offline --release -q)
test/jsonref/target/release/jsonref < "$tmp/lines.txt" > "$tmp/rust.out"
lake build Cacache.Json -q
lake env lean --run test/JsonTest.lean < "$tmp/lines.txt" > "$tmp/lean.out"
n=$(wc -l < "$tmp/lines.txt")
ok=$(grep -c '^ok ' "$tmp/rust.out" || true)
if cmp -s "$tmp/rust.out" "$tmp/lean.out"; then
  echo "json differential test: $n cases ($ok ok, $((n - ok)) err on the serde_json side), 0 differences"
  rm -rf "$tmp"
else
  d=$(paste -d'|' "$tmp/rust.out" "$tmp/lean.out" | awk -F'|' '$1 != $2' | wc -l)
  echo "json differential test: $n cases, $d DIFFERENCES (outputs kept in $tmp)"
  exit 1
fi
