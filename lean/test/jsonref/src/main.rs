// Reference side of the differential test for Cacache/Json.lean.
// stdin: one hex-encoded JSON text per line.
// stdout per line: `ok <hex of serde_json::to_string(&value)>` or `err`.
// The text goes through `str::from_utf8` + `serde_json::from_str`, i.e. exactly
// the path cacache uses (`serde_json::from_str::<SerializableMetadata>` on a line).
use std::io::{self, BufRead, Write};

fn main() {
    let stdin = io::stdin();
    let stdout = io::stdout();
    let mut out = io::BufWriter::new(stdout.lock());
    for line in stdin.lock().lines() {
        let line = line.expect("read line");
        let line = line.trim();
        let res = (|| -> Option<String> {
            let bytes = hex::decode(line).ok()?;
            let text = std::str::from_utf8(&bytes).ok()?;
            let v: serde_json::Value = serde_json::from_str(text).ok()?;
            serde_json::to_string(&v).ok()
        })();
        match res {
            Some(s) => writeln!(out, "ok {}", hex::encode(s.as_bytes())).unwrap(),
            None => writeln!(out, "err").unwrap(),
        }
    }
}
