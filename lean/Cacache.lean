-- This module serves as the root of the `Cacache` library.
-- Import modules here that should be built as part of the library.
import Cacache.Bytes
