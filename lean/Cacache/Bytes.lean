/-
Layer 0: byte strings.  Everything in the model is a `List UInt8`.
No imports: model files must stay free of Mathlib so that the driver links.
-/
namespace Cacache

abbrev Bytes := List UInt8

namespace Bytes

/-- ASCII bytes of a Lean string literal (driver convenience only; proofs never unfold this). -/
def ofString (s : String) : Bytes := s.toUTF8.toList

def hexDigit (n : UInt8) : UInt8 :=
  if n < 10 then 48 + n else 87 + n      -- '0'.. / 'a'..

/-- lowercase hex, two digits per byte (what the `hex` crate's `encode` prints). -/
def hex : Bytes → Bytes
  | [] => []
  | b :: bs => hexDigit (b >>> 4) :: hexDigit (b &&& 15) :: hex bs

def unhexDigit (c : UInt8) : Option UInt8 :=
  if 48 ≤ c ∧ c ≤ 57 then some (c - 48)
  else if 97 ≤ c ∧ c ≤ 102 then some (c - 87)
  else if 65 ≤ c ∧ c ≤ 70 then some (c - 55)
  else none

def unhex : Bytes → Option Bytes
  | [] => some []
  | [_] => none
  | a :: b :: rest =>
    match unhexDigit a, unhexDigit b, unhex rest with
    | some x, some y, some r => some ((x <<< 4 ||| y) :: r)
    | _, _, _ => none

/-- Split at every byte satisfying `sep` (the separators are dropped; always at least one piece). -/
def splitOn (sep : UInt8 → Bool) (b : Bytes) : List Bytes :=
  b.foldr (fun c acc =>
    if sep c then [] :: acc
    else match acc with
      | [] => [[c]]
      | l :: ls => (c :: l) :: ls) [[]]

end Bytes
end Cacache
