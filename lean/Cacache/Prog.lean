/-
Layer 2b: programs over filesystem calls (a free monad) and their four semantics:
healthy run, crash cut, fault plan, interleaving.
-/
import Cacache.FS

namespace Cacache

inductive Prog (α : Type) where
  | done : α → Prog α
  | sys : Call → (Ret → Prog α) → Prog α

namespace Prog

def bind {α β : Type} : Prog α → (α → Prog β) → Prog β
  | .done a, f => f a
  | .sys c k, f => .sys c (fun r => bind (k r) f)

instance : Monad Prog where
  pure := .done
  bind := bind

def call (c : Call) : Prog Ret := .sys c .done

/-- Healthy execution: result, final filesystem, and the calls issued (the model trace). -/
def run {α : Type} (env : Env) : Prog α → FS → α × FS × List Call
  | .done a, fs => (a, fs, [])
  | .sys c k, fs =>
    let (fs', r) := exec env fs c
    let (a, fs'', tr) := run env (k r) fs'
    (a, fs'', c :: tr)

def result {α : Type} (env : Env) (p : Prog α) (fs : FS) : α := (run env p fs).1
def after {α : Type} (env : Env) (p : Prog α) (fs : FS) : FS := (run env p fs).2.1
def trace {α : Type} (env : Env) (p : Prog α) (fs : FS) : List Call := (run env p fs).2.2

/-- The process is killed on entry to its `n`-th call (0-based), that call torn at `t`;
if the program has fewer calls it simply finishes. -/
def crash {α : Type} (env : Env) : Prog α → FS → Nat → Nat → FS
  | .done _, fs, _, _ => fs
  | .sys c _, fs, 0, t => execTorn env fs t c
  | .sys c k, fs, n + 1, t =>
    let (fs', r) := exec env fs c
    crash env (k r) fs' n t

/-- A fault: the call fails with error kind `e` after writing `short` bytes (data writes only). -/
structure Fault where
  e : EK
  short : Nat := 0
  deriving Repr

/-- Execution under a fault plan: `plan i` says whether the `i`-th call (0-based) fails. -/
def runFault {α : Type} (env : Env) (plan : Nat → Option Fault) : Prog α → FS → Nat → α × FS × List Call
  | .done a, fs, _ => (a, fs, [])
  | .sys c k, fs, i =>
    match plan i with
    | some f =>
      let fs' := execFail env fs f.short c
      let (a, fs'', tr) := runFault env plan (k (.err f.e)) fs' (i + 1)
      (a, fs'', c :: tr)
    | none =>
      let (fs', r) := exec env fs c
      let (a, fs'', tr) := runFault env plan (k r) fs' (i + 1)
      (a, fs'', c :: tr)

/-- One small step of one program. -/
def step {α : Type} (env : Env) : Prog α → FS → Prog α × FS
  | .done a, fs => (.done a, fs)
  | .sys c k, fs => let (fs', r) := exec env fs c; (k r, fs')

def isDone {α : Type} : Prog α → Bool
  | .done _ => true
  | .sys _ _ => false

/-- Interleaved execution of several programs against one filesystem; `sched` names which
program moves next (out-of-range or finished ids are skipped). -/
def interleave {α : Type} (env : Env) : List (Prog α) → FS → List Nat → List (Prog α) × FS
  | ps, fs, [] => (ps, fs)
  | ps, fs, i :: sched =>
    match ps[i]? with
    | none => interleave env ps fs sched
    | some p =>
      let (p', fs') := step env p fs
      interleave env (ps.set i p') fs' sched

/-- Run a program to completion from wherever it is. -/
def finish {α : Type} (env : Env) (p : Prog α) (fs : FS) : α × FS :=
  let r := run env p fs; (r.1, r.2.1)

end Prog
end Cacache
