/-
Layer 0/1: index records and their line codec (serde_json text + SHA-256 checksum).

A bucket line is `hex(sha256(json)) ++ "\t" ++ json`; `insert` appends `"\n" ++ line`.
`json` is `serde_json::to_string(&SerializableMetadata{..})`: the six fields in declaration
order.  Decoding demands exactly one tab, checksum equality and a record that deserialises.
-/
import Cacache.Json
import Cacache.Sri
import Cacache.Index

namespace Cacache
open Json

structure Rec where
  key : Bytes
  integrity : Option Bytes      -- integrity *text*; `none` is a tombstone
  time : Nat
  size : Nat
  metadata : JVal
  raw : Option Bytes
  deriving Repr, Inhabited

/-- What a lookup returns (`index::Metadata`). -/
structure Meta where
  key : Bytes
  sri : Integrity
  time : Nat
  size : Nat
  metadata : JVal
  raw : Option Bytes
  deriving Repr, Inhabited

namespace Rec

def lit (s : List Nat) : Bytes := s.map Nat.toUInt8

-- `{"key":`   `,"integrity":`   `,"time":`   `,"size":`   `,"metadata":`   `,"raw_metadata":`
def kKey : Bytes := [123, 34, 107, 101, 121, 34, 58]
def kIntegrity : Bytes := [44, 34, 105, 110, 116, 101, 103, 114, 105, 116, 121, 34, 58]
def kTime : Bytes := [44, 34, 116, 105, 109, 101, 34, 58]
def kSize : Bytes := [44, 34, 115, 105, 122, 101, 34, 58]
def kMetadata : Bytes := [44, 34, 109, 101, 116, 97, 100, 97, 116, 97, 34, 58]
def kRaw : Bytes := [44, 34, 114, 97, 119, 95, 109, 101, 116, 97, 100, 97, 116, 97, 34, 58]
def jNull : Bytes := [110, 117, 108, 108]

-- field names as they appear as object keys
def fKey : Bytes := [107, 101, 121]
def fIntegrity : Bytes := [105, 110, 116, 101, 103, 114, 105, 116, 121]
def fTime : Bytes := [116, 105, 109, 101]
def fSize : Bytes := [115, 105, 122, 101]
def fMetadata : Bytes := [109, 101, 116, 97, 100, 97, 116, 97]
def fRaw : Bytes := [114, 97, 119, 95, 109, 101, 116, 97, 100, 97, 116, 97]

def renderByteArr : Bytes → Bytes
  | [] => []
  | [b] => renderNat b.toNat
  | b :: rest => renderNat b.toNat ++ 44 :: renderByteArr rest

def renderOptStr : Option Bytes → Bytes
  | none => jNull
  | some s => renderStr s

def renderOptRaw : Option Bytes → Bytes
  | none => jNull
  | some b => 91 :: renderByteArr b ++ [93]

/-- `serde_json::to_string(&SerializableMetadata{..})`. -/
def encJson (r : Rec) : Bytes :=
  kKey ++ renderStr r.key ++ kIntegrity ++ renderOptStr r.integrity ++
  kTime ++ renderNat r.time ++ kSize ++ renderNat r.size ++
  kMetadata ++ render r.metadata ++ kRaw ++ renderOptRaw r.raw ++ [125]

def u64Max : Nat := 18446744073709551615
def u128Max : Nat := 340282366920938463463374607431768211455

def asStr : JVal → Option Bytes
  | .str s => some s
  | _ => none

def asOptStr : JVal → Option (Option Bytes)
  | .null => some none
  | .str s => some (some s)
  | _ => none

/-- An unsigned integer below `bound`.  (An integer literal above `u64::MAX` arrives as an exact
`dec`; a literal written with a fraction or exponent is a float to serde and is rejected — the
JVal cannot tell these apart once the exponent is non-negative, a documented gap that only
foreign-written records can reach.) -/
def asNat (bound : Nat) : JVal → Option Nat
  | .int i => if 0 ≤ i ∧ i.toNat ≤ bound then some i.toNat else none
  | .dec m e => if 0 < m ∧ 0 ≤ e ∧ m.toNat * 10 ^ e.toNat ≤ bound ∧ u64Max < m.toNat * 10 ^ e.toNat
                then some (m.toNat * 10 ^ e.toNat) else none
  | _ => none

def asByte : JVal → Option UInt8
  | .int i => if 0 ≤ i ∧ i ≤ 255 then some i.toNat.toUInt8 else none
  | _ => none

def asOptRaw : JVal → Option (Option Bytes)
  | .null => some none
  | .arr xs => (Sri.allSome (xs.map asByte)).map some
  | _ => none

def lookup (kvs : List (Bytes × JVal)) (k : Bytes) : Option JVal :=
  (kvs.find? (fun kv => kv.1 == k)).map (·.2)

/-- `#[derive(Deserialize)]` on `SerializableMetadata`, from an already parsed value: an object
(unknown fields ignored, `integrity` / `raw_metadata` optional) or a 6-element array. -/
def ofJVal : JVal → Option Rec
  | .obj kvs => do
    let key ← (lookup kvs fKey) >>= asStr
    let integ ← match lookup kvs fIntegrity with
      | none => some none
      | some v => asOptStr v
    let time ← (lookup kvs fTime) >>= asNat u128Max
    let size ← (lookup kvs fSize) >>= asNat u64Max
    let md ← lookup kvs fMetadata
    let raw ← match lookup kvs fRaw with
      | none => some none
      | some v => asOptRaw v
    pure { key := key, integrity := integ, time := time, size := size, metadata := md, raw := raw }
  | .arr [k, i, t, s, m, r] => do
    let key ← asStr k
    let integ ← asOptStr i
    let time ← asNat u128Max t
    let size ← asNat u64Max s
    let raw ← asOptRaw r
    pure { key := key, integrity := integ, time := time, size := size, metadata := m, raw := raw }
  | _ => none

def decJson (text : Bytes) : Option Rec := (Json.parse text) >>= ofJVal

/-- Split at every tab. -/
def splitTab (b : Bytes) : List Bytes := Bytes.splitOn (fun c => c == TAB) b

variable (H : Algo → Bytes → Bytes)

def checksum (json : Bytes) : Bytes := Bytes.hex (H .sha256 json)

/-- The line `insert` writes for `r` (without the leading newline). -/
def encLine (r : Rec) : Bytes :=
  let j := encJson r
  checksum H j ++ TAB :: j

/-- Decode one line: exactly two tab-separated pieces, checksum match, record parses. -/
def decLine (line : Bytes) : Option Rec :=
  match splitTab line with
  | [h, j] => if checksum H j == h then decJson j else none
  | _ => none

def cls (r : Rec) : Cls Meta :=
  match r.integrity with
  | none => .tomb
  | some t =>
    match Sri.parse t with
    | some sri => .live { key := r.key, sri := sri, time := r.time, size := r.size,
                          metadata := r.metadata, raw := r.raw }
    | none => .bad

/-- The concrete codec of cacache index buckets. -/
def codec : Codec Rec Meta where
  valid := Json.utf8Valid
  enc := encLine H
  dec := decLine H
  key := Rec.key
  cls := cls

end Rec
end Cacache
