/-
Layer 0: subresource-integrity values as the `ssri` crate (9.x) handles them.

A `Hash` keeps its digest as *base64 text* (ssri never validates it when parsing; equality is
on the text).  `Integrity` is the list of hashes, stably sorted by algorithm rank
(`Sha512 < Sha384 < Sha256 < Sha1 < Xxh3`), as `parse`, `concat` and `IntegrityOpts::result` do.
Digest functions are a parameter `H : Algo → Bytes → Bytes`.
-/
import Cacache.Bytes

namespace Cacache

inductive Algo where
  | sha512 | sha384 | sha256 | sha1 | xxh3
  deriving Repr, DecidableEq, Inhabited

namespace Algo

def rank : Algo → Nat
  | sha512 => 0 | sha384 => 1 | sha256 => 2 | sha1 => 3 | xxh3 => 4

/-- "sha512" … as ASCII bytes. -/
def name : Algo → Bytes
  | sha512 => [115, 104, 97, 53, 49, 50]
  | sha384 => [115, 104, 97, 51, 56, 52]
  | sha256 => [115, 104, 97, 50, 53, 54]
  | sha1 => [115, 104, 97, 49]
  | xxh3 => [120, 120, 104, 51]

def all : List Algo := [sha512, sha384, sha256, sha1, xxh3]

def ofName (s : Bytes) : Option Algo := all.find? (fun a => a.name == s)

/-- Digest length in bytes. -/
def dlen : Algo → Nat
  | sha512 => 64 | sha384 => 48 | sha256 => 32 | sha1 => 20 | xxh3 => 16

end Algo

/-! ### base64 (standard alphabet, canonical padding — `base64::prelude::BASE64_STANDARD`) -/

namespace B64

def enc6 (n : Nat) : UInt8 :=
  if n < 26 then (65 + n).toUInt8
  else if n < 52 then (97 + (n - 26)).toUInt8
  else if n < 62 then (48 + (n - 52)).toUInt8
  else if n = 62 then 43 else 47

def dec6 (c : UInt8) : Option Nat :=
  if 65 ≤ c ∧ c ≤ 90 then some (c.toNat - 65)
  else if 97 ≤ c ∧ c ≤ 122 then some (c.toNat - 97 + 26)
  else if 48 ≤ c ∧ c ≤ 57 then some (c.toNat - 48 + 52)
  else if c = 43 then some 62
  else if c = 47 then some 63
  else none

def encode : Bytes → Bytes
  | a :: b :: c :: rest =>
    let n := a.toNat * 65536 + b.toNat * 256 + c.toNat
    enc6 (n / 262144) :: enc6 (n / 4096 % 64) :: enc6 (n / 64 % 64) :: enc6 (n % 64) :: encode rest
  | [a, b] =>
    let n := a.toNat * 65536 + b.toNat * 256
    [enc6 (n / 262144), enc6 (n / 4096 % 64), enc6 (n / 64 % 64), 61]
  | [a] =>
    let n := a.toNat * 65536
    [enc6 (n / 262144), enc6 (n / 4096 % 64), 61, 61]
  | [] => []

/-- Strict decoding: length a multiple of 4, padding only in the last quantum, unused trailing
bits zero (the engine's default `decode_allow_trailing_bits = false`). -/
def decode : Bytes → Option Bytes
  | [] => some []
  | [a, b, 61, 61] =>
    match dec6 a, dec6 b with
    | some x, some y => if y % 16 = 0 then some [(x * 4 + y / 16).toUInt8] else none
    | _, _ => none
  | [a, b, c, 61] =>
    match dec6 a, dec6 b, dec6 c with
    | some x, some y, some z =>
      if z % 4 = 0 then some [(x * 4 + y / 16).toUInt8, (y % 16 * 16 + z / 4).toUInt8] else none
    | _, _, _ => none
  | a :: b :: c :: d :: rest =>
    match dec6 a, dec6 b, dec6 c, dec6 d, decode rest with
    | some x, some y, some z, some w, some r =>
      some ((x * 4 + y / 16).toUInt8 :: (y % 16 * 16 + z / 4).toUInt8 :: (z % 4 * 64 + w).toUInt8 :: r)
    | _, _, _, _, _ => none
  | _ => none

end B64

structure Hash where
  algo : Algo
  digest : Bytes          -- base64 text
  deriving Repr, DecidableEq, Inhabited

abbrev Integrity := List Hash

namespace Sri

/-- Stable insertion by algorithm rank (`Vec::sort` with `Ord` on the algorithm only). -/
def insertH (h : Hash) : Integrity → Integrity
  | [] => [h]
  | x :: xs => if h.algo.rank ≤ x.algo.rank then h :: x :: xs else x :: insertH h xs

def sort (hs : List Hash) : Integrity := hs.foldr insertH []
-- foldr: later elements are inserted first, and `insertH` places an element before the first
-- one that is not smaller, so equal-rank elements keep their original relative order.

def isWs (c : UInt8) : Bool := c = 32 || (9 ≤ c && c ≤ 13)

/-- `str::split_whitespace` for ASCII white space (Unicode white space is not modelled; the
generators never emit it inside integrity strings). -/
def splitWs (b : Bytes) : List Bytes :=
  (Bytes.splitOn isWs b).filter (fun t => !t.isEmpty)

/-- Split at '-' (0x2D). -/
def splitDash (b : Bytes) : List Bytes := Bytes.splitOn (fun c => c == 45) b

/-- `Hash::from_str`: algorithm before the first '-', digest between the first and second '-'
(anything after a second '-' is ignored), digest text not validated. -/
def parseHash (tok : Bytes) : Option Hash :=
  match splitDash tok with
  | a :: d :: _ => (Algo.ofName a).map (fun al => { algo := al, digest := d })
  | _ => none

def allSome {α : Type} : List (Option α) → Option (List α)
  | [] => some []
  | none :: _ => none
  | some a :: rest => (allSome rest).map (a :: ·)

/-- `Integrity::from_str`. -/
def parse (text : Bytes) : Option Integrity :=
  (allSome ((splitWs text).map parseHash)).map sort

def printHash (h : Hash) : Bytes := h.algo.name ++ 45 :: h.digest

/-- `Integrity::to_string`: hashes joined by one space. -/
def print : Integrity → Bytes
  | [] => []
  | [h] => printHash h
  | h :: rest => printHash h ++ 32 :: print rest

/-- `Integrity::to_hex` of the first hash; `none` models the two `unwrap` panics (no hash at
all / digest text that is not base64). -/
def toHex (sri : Integrity) : Option (Algo × Bytes) :=
  match sri with
  | [] => none
  | h :: _ => (B64.decode h.digest).map (fun d => (h.algo, Bytes.hex d))

/-- The integrity `IntegrityOpts::new().algorithm(a)…result()` computes for `data`. -/
def compute (H : Algo → Bytes → Bytes) (a : Algo) (data : Bytes) : Integrity :=
  [{ algo := a, digest := B64.encode (H a data) }]

/-- `IntegrityChecker::result` for a non-empty integrity: hash with the algorithm of the first
entry, succeed iff one of the leading entries of that algorithm equals the computed hash. -/
def check (H : Algo → Bytes → Bytes) (sri : Integrity) (data : Bytes) : Option Algo :=
  match sri with
  | [] => none     -- `pick_algorithm` panics on an empty integrity; callers guard this
  | h :: _ =>
    let want : Hash := { algo := h.algo, digest := B64.encode (H h.algo data) }
    if (sri.takeWhile (fun x => x.algo == h.algo)).any (fun x => x == want) then some h.algo else none

/-- `Integrity::matches`: some hash of `self` with `other`'s first algorithm occurs in `other`. -/
def matchesSri (self other : Integrity) : Option Algo :=
  match other with
  | [] => none
  | o :: _ =>
    ((self.filter (fun h => h.algo == o.algo)).find?
      (fun h => (other.filter (fun i => i.algo == o.algo)).any (fun i => h == i))).map (·.algo)

/-- The commit-time check of a declared integrity (`declared_integrity_matches`): the strongest
algorithm of the declaration — its first hash; it is the one that addresses the content once the
declaration is recorded — must be the algorithm the writer hashed with, and `matches` must hold. -/
def declaredOk (declared computed : Integrity) : Option Algo :=
  match declared, computed with
  | d :: _, c :: _ => if d.algo == c.algo then matchesSri declared computed else none
  | _, _ => none

end Sri
end Cacache
