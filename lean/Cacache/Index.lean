/-
Layer 1: index semantics over the bytes of one bucket file, generic in the record codec.

`entries` mirrors `bucket_entries` / `bucket_entries_async` (src/index.rs): every line that
decodes contributes its record, every other line is skipped.  `entriesStop` is the behaviour of
`lines().map_while(Result::ok)`: stop at the first line that is not valid UTF-8 (the pre-repair
sync reader; kept so that the difference can be stated and the defect witnessed).
`find` is the left fold of `index::find`; `ls` is "reverse, keep first per key, drop tombstones".
-/
import Cacache.Lines

namespace Cacache

/-- How a decoded record bears on a lookup: tombstone, live entry with parsed metadata `M`,
or a record whose integrity text does not parse (`find` keeps the accumulator). -/
inductive Cls (M : Type) where
  | tomb
  | live (m : M)
  | bad
  deriving Repr

/-- The codec of index lines.  `dec` acts on a line as reported by the reader (newline and one
trailing CR already removed). -/
structure Codec (R M : Type) where
  valid : Bytes → Bool
  enc : R → Bytes
  dec : Bytes → Option R
  key : R → Bytes
  cls : R → Cls M

variable {R M : Type}

def Codec.decLine (c : Codec R M) : Line → Option R
  | .ok s => c.dec s
  | .invalid => none

/-- Records of a bucket (skip-and-continue reader). -/
def Codec.entries (c : Codec R M) (b : Bytes) : List R :=
  (lines c.valid b).filterMap c.decLine

def Line.isOk : Line → Bool
  | .ok _ => true
  | .invalid => false

/-- Records of a bucket for a reader that stops at the first invalid line. -/
def Codec.entriesStop (c : Codec R M) (b : Bytes) : List R :=
  ((lines c.valid b).takeWhile Line.isOk).filterMap c.decLine

/-- One step of the fold in `index::find`. -/
def Codec.findStep (c : Codec R M) (k : Bytes) (acc : Option M) (r : R) : Option M :=
  if c.key r = k then
    match c.cls r with
    | .live m => some m
    | .tomb => none
    | .bad => acc
  else acc

def Codec.findIn (c : Codec R M) (k : Bytes) (rs : List R) : Option M :=
  rs.foldl (c.findStep k) none

def Codec.find (c : Codec R M) (b : Bytes) (k : Bytes) : Option M :=
  c.findIn k (c.entries b)

/-- Keep the first occurrence of each key (what collecting into a `HashSet` keyed by `key` does:
an element equal to one already present is not inserted). -/
def dedupAux (key : R → Bytes) : List Bytes → List R → List R
  | _, [] => []
  | seen, r :: rs =>
    if key r ∈ seen then dedupAux key seen rs
    else r :: dedupAux key (key r :: seen) rs

def dedupKey (key : R → Bytes) (rs : List R) : List R := dedupAux key [] rs

def Cls.isBad : Cls M → Bool
  | .bad => true
  | _ => false

/-- The records a listing considers: those whose integrity parses or is absent (a record with an
unparsable integrity is no entry and — as in `find` — hides none either). -/
def Codec.listable (c : Codec R M) (rs : List R) : List R := rs.filter (fun r => !(c.cls r).isBad)

/-- Outcome of listing one bucket: the newest listable record of each key, classified. -/
def Codec.lsOf (c : Codec R M) (rs : List R) : List (Cls M) :=
  (dedupKey c.key (c.listable rs).reverse).map c.cls

/-- The live entries listed for one bucket, in de-duplication order (the real code iterates a
hash set, so only the multiset is observable).  Unparsable integrities are skipped, as in `find`
(this is the repaired behaviour; the original `unwrap` panics there). -/
def Codec.ls (c : Codec R M) (b : Bytes) : List M :=
  (c.lsOf (c.entries b)).filterMap (fun | .live m => some m | _ => none)

/-- Does listing this bucket hit a record whose integrity does not parse? -/
def Codec.lsHitsBad (c : Codec R M) (b : Bytes) : Bool :=
  (c.lsOf (c.entries b)).any (fun | .bad => true | _ => false)

/-- The bytes `insert` appends for a record. -/
def Codec.frame (c : Codec R M) (r : R) : Bytes := NL :: c.enc r

end Cacache
