/-
The digest function and the configuration of the executable driver (`Driver.lean`).

Model file: imports only the operations (for `Cfg`) and the SHA implementations, no lemmas.  The
lemma file `Cacache/Lemmas/ShaLen.lean` proves that this configuration satisfies `HexLen`, the
hypothesis carried by the refinement theorems.
-/
import Cacache.Ops
import Cacache.Sha

namespace Cacache

/-- Digests: SHA-1/2 natively; XXH3-128 from an oracle table supplied by the harness (`oracle xxh3 DATA
DIGEST` lines) — bytes not in the table get an all-zero digest (which never equals a real one). -/
def sha (xx : List (Bytes × Bytes)) (a : Algo) (d : Bytes) : Bytes :=
  match a with
  | .sha1 => Sha.sha1 d
  | .sha256 => Sha.sha256 d
  | .sha384 => Sha.sha384 d
  | .sha512 => Sha.sha512 d
  | .xxh3 => ((xx.find? (fun e => e.1 == d)).map (·.2)).getD (List.replicate 16 0)

/-- The driver's configuration: `H` is `sha xx`, the mmap threshold is the default. -/
def mkCfg (xx : List (Bytes × Bytes)) : Cfg := { H := sha xx }

end Cacache
