/-
SHA-1, SHA-256, SHA-384, SHA-512 written directly from FIPS 180-4.

Independent oracle for the integrity strings of the model, and the hash used by
the executable driver.  Total (structural recursion on `Nat` counters and `for`
loops only), core Lean only, and fast enough when compiled: the message schedule
is an `Array UInt32`/`Array UInt64`, the working variables are unboxed arguments
of a tail-recursive round function.
-/
import Cacache.Bytes

namespace Cacache.Sha

/-! ## Shared helpers -/

/-- FIPS 180-4 §5.1: append `0x80`, then zeros up to `blk - lenBytes (mod blk)`,
then the message length in bits as a big-endian `lenBytes`-byte integer. -/
def pad (data : ByteArray) (blk lenBytes : Nat) : ByteArray := Id.run do
  let n := data.size
  let z := (blk - (n + 1 + lenBytes) % blk) % blk
  let bits := 8 * n
  let mut out := data.push 0x80
  for _ in [0:z] do
    out := out.push 0
  for i in [0:lenBytes] do
    out := out.push (bits >>> (8 * (lenBytes - 1 - i))).toUInt8
  return out

@[inline] def be32 (b : ByteArray) (i : Nat) : UInt32 :=
  (b.get! i).toUInt32 <<< 24 ||| (b.get! (i + 1)).toUInt32 <<< 16 |||
  (b.get! (i + 2)).toUInt32 <<< 8 ||| (b.get! (i + 3)).toUInt32

@[inline] def be64 (b : ByteArray) (i : Nat) : UInt64 :=
  (be32 b i).toUInt64 <<< 32 ||| (be32 b (i + 4)).toUInt64

/-- Big-endian bytes of the first `n` words. -/
def words32ToBytes (h : Array UInt32) (n : Nat) : ByteArray := Id.run do
  let mut out := ByteArray.emptyWithCapacity (4 * n)
  for i in [0:n] do
    let x := h[i]!
    out := (((out.push (x >>> 24).toUInt8).push (x >>> 16).toUInt8).push (x >>> 8).toUInt8).push
      x.toUInt8
  return out

def words64ToBytes (h : Array UInt64) (n : Nat) : ByteArray := Id.run do
  let mut out := ByteArray.emptyWithCapacity (8 * n)
  for i in [0:n] do
    let x := h[i]!
    for j in [0:8] do
      out := out.push (x >>> (8 * (7 - j)).toUInt64).toUInt8
  return out

@[inline] def rotl32 (x n : UInt32) : UInt32 := x <<< n ||| x >>> (32 - n)
@[inline] def rotr32 (x n : UInt32) : UInt32 := x >>> n ||| x <<< (32 - n)
@[inline] def rotr64 (x n : UInt64) : UInt64 := x >>> n ||| x <<< (64 - n)

/-! ## SHA-1 (§6.1) -/

def h1 : Array UInt32 := #[0x67452301, 0xefcdab89, 0x98badcfe, 0x10325476, 0xc3d2e1f0]

@[inline] def f1 (t : Nat) (b c d : UInt32) : UInt32 :=
  if t < 20 then (b &&& c) ^^^ (~~~b &&& d)
  else if t < 40 then b ^^^ c ^^^ d
  else if t < 60 then (b &&& c) ^^^ (b &&& d) ^^^ (c &&& d)
  else b ^^^ c ^^^ d

@[inline] def k1 (t : Nat) : UInt32 :=
  if t < 20 then 0x5a827999 else if t < 40 then 0x6ed9eba1
  else if t < 60 then 0x8f1bbcdc else 0xca62c1d6

def schedule1 (m : ByteArray) (off : Nat) : Array UInt32 := Id.run do
  let mut w : Array UInt32 := Array.emptyWithCapacity 80
  for t in [0:16] do
    w := w.push (be32 m (off + 4 * t))
  for t in [16:80] do
    w := w.push (rotl32 (w[t - 3]! ^^^ w[t - 8]! ^^^ w[t - 14]! ^^^ w[t - 16]!) 1)
  return w

/-- `n` more rounds starting at round `t`. -/
def rounds1 (w : Array UInt32) (n t : Nat) (a b c d e : UInt32) : Array UInt32 :=
  match n with
  | 0 => #[a, b, c, d, e]
  | n + 1 =>
    let tmp := rotl32 a 5 + f1 t b c d + e + k1 t + w[t]!
    rounds1 w n (t + 1) tmp a (rotl32 b 30) c d

def compress1 (h : Array UInt32) (m : ByteArray) (off : Nat) : Array UInt32 :=
  let r := rounds1 (schedule1 m off) 80 0 h[0]! h[1]! h[2]! h[3]! h[4]!
  Array.zipWith (· + ·) h r

def sha1BA (data : ByteArray) : ByteArray := Id.run do
  let m := pad data 64 8
  let mut h := h1
  for i in [0:m.size / 64] do
    h := compress1 h m (64 * i)
  return words32ToBytes h 5

/-! ## SHA-256 (§6.2) -/

def h256 : Array UInt32 := #[
  0x6a09e667, 0xbb67ae85, 0x3c6ef372, 0xa54ff53a, 0x510e527f, 0x9b05688c, 0x1f83d9ab, 0x5be0cd19]

def k256 : Array UInt32 := #[
  0x428a2f98, 0x71374491, 0xb5c0fbcf, 0xe9b5dba5, 0x3956c25b, 0x59f111f1, 0x923f82a4, 0xab1c5ed5,
  0xd807aa98, 0x12835b01, 0x243185be, 0x550c7dc3, 0x72be5d74, 0x80deb1fe, 0x9bdc06a7, 0xc19bf174,
  0xe49b69c1, 0xefbe4786, 0x0fc19dc6, 0x240ca1cc, 0x2de92c6f, 0x4a7484aa, 0x5cb0a9dc, 0x76f988da,
  0x983e5152, 0xa831c66d, 0xb00327c8, 0xbf597fc7, 0xc6e00bf3, 0xd5a79147, 0x06ca6351, 0x14292967,
  0x27b70a85, 0x2e1b2138, 0x4d2c6dfc, 0x53380d13, 0x650a7354, 0x766a0abb, 0x81c2c92e, 0x92722c85,
  0xa2bfe8a1, 0xa81a664b, 0xc24b8b70, 0xc76c51a3, 0xd192e819, 0xd6990624, 0xf40e3585, 0x106aa070,
  0x19a4c116, 0x1e376c08, 0x2748774c, 0x34b0bcb5, 0x391c0cb3, 0x4ed8aa4a, 0x5b9cca4f, 0x682e6ff3,
  0x748f82ee, 0x78a5636f, 0x84c87814, 0x8cc70208, 0x90befffa, 0xa4506ceb, 0xbef9a3f7, 0xc67178f2]

def schedule256 (m : ByteArray) (off : Nat) : Array UInt32 := Id.run do
  let mut w : Array UInt32 := Array.emptyWithCapacity 64
  for t in [0:16] do
    w := w.push (be32 m (off + 4 * t))
  for t in [16:64] do
    let x := w[t - 15]!
    let y := w[t - 2]!
    let s0 := rotr32 x 7 ^^^ rotr32 x 18 ^^^ x >>> 3
    let s1 := rotr32 y 17 ^^^ rotr32 y 19 ^^^ y >>> 10
    w := w.push (s1 + w[t - 7]! + s0 + w[t - 16]!)
  return w

def rounds256 (w : Array UInt32) (n t : Nat) (a b c d e f g h : UInt32) : Array UInt32 :=
  match n with
  | 0 => #[a, b, c, d, e, f, g, h]
  | n + 1 =>
    let S1 := rotr32 e 6 ^^^ rotr32 e 11 ^^^ rotr32 e 25
    let ch := (e &&& f) ^^^ (~~~e &&& g)
    let t1 := h + S1 + ch + k256[t]! + w[t]!
    let S0 := rotr32 a 2 ^^^ rotr32 a 13 ^^^ rotr32 a 22
    let maj := (a &&& b) ^^^ (a &&& c) ^^^ (b &&& c)
    rounds256 w n (t + 1) (t1 + (S0 + maj)) a b c (d + t1) e f g

def compress256 (h : Array UInt32) (m : ByteArray) (off : Nat) : Array UInt32 :=
  let r := rounds256 (schedule256 m off) 64 0 h[0]! h[1]! h[2]! h[3]! h[4]! h[5]! h[6]! h[7]!
  Array.zipWith (· + ·) h r

def sha256BA (data : ByteArray) : ByteArray := Id.run do
  let m := pad data 64 8
  let mut h := h256
  for i in [0:m.size / 64] do
    h := compress256 h m (64 * i)
  return words32ToBytes h 8

/-! ## SHA-512 and SHA-384 (§6.4, §6.5) -/

def h512 : Array UInt64 := #[
  0x6a09e667f3bcc908, 0xbb67ae8584caa73b, 0x3c6ef372fe94f82b, 0xa54ff53a5f1d36f1,
  0x510e527fade682d1, 0x9b05688c2b3e6c1f, 0x1f83d9abfb41bd6b, 0x5be0cd19137e2179]

def h384 : Array UInt64 := #[
  0xcbbb9d5dc1059ed8, 0x629a292a367cd507, 0x9159015a3070dd17, 0x152fecd8f70e5939,
  0x67332667ffc00b31, 0x8eb44a8768581511, 0xdb0c2e0d64f98fa7, 0x47b5481dbefa4fa4]

def k512 : Array UInt64 := #[
  0x428a2f98d728ae22, 0x7137449123ef65cd, 0xb5c0fbcfec4d3b2f, 0xe9b5dba58189dbbc,
  0x3956c25bf348b538, 0x59f111f1b605d019, 0x923f82a4af194f9b, 0xab1c5ed5da6d8118,
  0xd807aa98a3030242, 0x12835b0145706fbe, 0x243185be4ee4b28c, 0x550c7dc3d5ffb4e2,
  0x72be5d74f27b896f, 0x80deb1fe3b1696b1, 0x9bdc06a725c71235, 0xc19bf174cf692694,
  0xe49b69c19ef14ad2, 0xefbe4786384f25e3, 0x0fc19dc68b8cd5b5, 0x240ca1cc77ac9c65,
  0x2de92c6f592b0275, 0x4a7484aa6ea6e483, 0x5cb0a9dcbd41fbd4, 0x76f988da831153b5,
  0x983e5152ee66dfab, 0xa831c66d2db43210, 0xb00327c898fb213f, 0xbf597fc7beef0ee4,
  0xc6e00bf33da88fc2, 0xd5a79147930aa725, 0x06ca6351e003826f, 0x142929670a0e6e70,
  0x27b70a8546d22ffc, 0x2e1b21385c26c926, 0x4d2c6dfc5ac42aed, 0x53380d139d95b3df,
  0x650a73548baf63de, 0x766a0abb3c77b2a8, 0x81c2c92e47edaee6, 0x92722c851482353b,
  0xa2bfe8a14cf10364, 0xa81a664bbc423001, 0xc24b8b70d0f89791, 0xc76c51a30654be30,
  0xd192e819d6ef5218, 0xd69906245565a910, 0xf40e35855771202a, 0x106aa07032bbd1b8,
  0x19a4c116b8d2d0c8, 0x1e376c085141ab53, 0x2748774cdf8eeb99, 0x34b0bcb5e19b48a8,
  0x391c0cb3c5c95a63, 0x4ed8aa4ae3418acb, 0x5b9cca4f7763e373, 0x682e6ff3d6b2b8a3,
  0x748f82ee5defb2fc, 0x78a5636f43172f60, 0x84c87814a1f0ab72, 0x8cc702081a6439ec,
  0x90befffa23631e28, 0xa4506cebde82bde9, 0xbef9a3f7b2c67915, 0xc67178f2e372532b,
  0xca273eceea26619c, 0xd186b8c721c0c207, 0xeada7dd6cde0eb1e, 0xf57d4f7fee6ed178,
  0x06f067aa72176fba, 0x0a637dc5a2c898a6, 0x113f9804bef90dae, 0x1b710b35131c471b,
  0x28db77f523047d84, 0x32caab7b40c72493, 0x3c9ebe0a15c9bebc, 0x431d67c49c100d4c,
  0x4cc5d4becb3e42b6, 0x597f299cfc657e2a, 0x5fcb6fab3ad6faec, 0x6c44198c4a475817]

def schedule512 (m : ByteArray) (off : Nat) : Array UInt64 := Id.run do
  let mut w : Array UInt64 := Array.emptyWithCapacity 80
  for t in [0:16] do
    w := w.push (be64 m (off + 8 * t))
  for t in [16:80] do
    let x := w[t - 15]!
    let y := w[t - 2]!
    let s0 := rotr64 x 1 ^^^ rotr64 x 8 ^^^ x >>> 7
    let s1 := rotr64 y 19 ^^^ rotr64 y 61 ^^^ y >>> 6
    w := w.push (s1 + w[t - 7]! + s0 + w[t - 16]!)
  return w

def rounds512 (w : Array UInt64) (n t : Nat) (a b c d e f g h : UInt64) : Array UInt64 :=
  match n with
  | 0 => #[a, b, c, d, e, f, g, h]
  | n + 1 =>
    let S1 := rotr64 e 14 ^^^ rotr64 e 18 ^^^ rotr64 e 41
    let ch := (e &&& f) ^^^ (~~~e &&& g)
    let t1 := h + S1 + ch + k512[t]! + w[t]!
    let S0 := rotr64 a 28 ^^^ rotr64 a 34 ^^^ rotr64 a 39
    let maj := (a &&& b) ^^^ (a &&& c) ^^^ (b &&& c)
    rounds512 w n (t + 1) (t1 + (S0 + maj)) a b c (d + t1) e f g

def compress512 (h : Array UInt64) (m : ByteArray) (off : Nat) : Array UInt64 :=
  let r := rounds512 (schedule512 m off) 80 0 h[0]! h[1]! h[2]! h[3]! h[4]! h[5]! h[6]! h[7]!
  Array.zipWith (· + ·) h r

/-- Common body of SHA-512 and SHA-384: initial value `iv`, output the first `outWords` words. -/
def sha512Core (iv : Array UInt64) (outWords : Nat) (data : ByteArray) : ByteArray := Id.run do
  let m := pad data 128 16
  let mut h := iv
  for i in [0:m.size / 128] do
    h := compress512 h m (128 * i)
  return words64ToBytes h outWords

def sha512BA (data : ByteArray) : ByteArray := sha512Core h512 8 data
def sha384BA (data : ByteArray) : ByteArray := sha512Core h384 6 data

/-! ## `Bytes` API -/

def sha1 (data : Bytes) : Bytes := (sha1BA data.toByteArray).toList
def sha256 (data : Bytes) : Bytes := (sha256BA data.toByteArray).toList
def sha384 (data : Bytes) : Bytes := (sha384BA data.toByteArray).toList
def sha512 (data : Bytes) : Bytes := (sha512BA data.toByteArray).toList

end Cacache.Sha
