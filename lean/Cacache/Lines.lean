/-
Layer 0/1: how a bucket file is cut into lines.

`BufRead::lines` (sync) and `AsyncBufReadExt::lines` (futures / tokio) all behave the same
way on a byte string:
  * the input is split at every 0x0A;
  * every segment that was terminated by 0x0A is a line; the final, unterminated segment is a
    line iff it is non-empty;
  * a terminated line loses ONE trailing 0x0D; the unterminated last line does not;
  * a segment that is not valid UTF-8 is reported as an error item.
The model keeps UTF-8 validity abstract (`valid : Bytes → Bool`) at this layer; the concrete
`utf8Valid` is plugged in by `Record.lean`.
-/
import Cacache.Bytes

namespace Cacache

def NL : UInt8 := 10
def CR : UInt8 := 13
def TAB : UInt8 := 9

/-- Split at every newline.  Always returns a non-empty list; the last element is the
unterminated tail (possibly empty). -/
def splitNL : Bytes → List Bytes
  | [] => [[]]
  | b :: bs =>
    if b = NL then [] :: splitNL bs
    else match splitNL bs with
      | [] => [[b]]
      | l :: ls => (b :: l) :: ls

/-- One line as the reader reports it. -/
inductive Line where
  | ok (s : Bytes)
  | invalid
  deriving Repr, DecidableEq

def stripCR (s : Bytes) : Bytes :=
  match s.getLast? with
  | some c => if c = CR then s.dropLast else s
  | none => s

/-- A newline-terminated segment. -/
def lineT (valid : Bytes → Bool) (seg : Bytes) : Line :=
  if valid seg then .ok (stripCR seg) else .invalid

/-- The unterminated final segment: a line only if non-empty, and no CR stripping. -/
def lineU (valid : Bytes → Bool) (seg : Bytes) : List Line :=
  if seg = [] then [] else [if valid seg then .ok seg else .invalid]

/-- All segments treated as terminated (what the segments of `a` become in `a ++ NL :: c`). -/
def linesT (valid : Bytes → Bool) (segs : List Bytes) : List Line :=
  segs.map (lineT valid)

/-- Lines of a list of segments, the last of which is unterminated. -/
def linesOfSegs (valid : Bytes → Bool) : List Bytes → List Line
  | [] => []
  | [s] => lineU valid s
  | s :: rest => lineT valid s :: linesOfSegs valid rest

/-- The lines of a file. -/
def lines (valid : Bytes → Bool) (b : Bytes) : List Line :=
  linesOfSegs valid (splitNL b)

end Cacache
