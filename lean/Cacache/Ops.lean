/-
Layer 2c: every public operation of the library as a program over filesystem calls.

The definitions follow src/{put,get,rm,ls,index,linkto}.rs and src/content/*.rs call by call.
`Flavour` appears exactly where the Rust differs between the sync and async entry points.
Panics in the Rust (`unwrap` on an unparsable digest, slicing a too-short hex string) are the
explicit result `Err.panic`.
-/
import Cacache.Prog
import Cacache.Record

namespace Cacache
open Prog

inductive Flavour where
  | sync | async
  deriving Repr, DecidableEq

inductive Err where
  | notFound
  | size (wanted actual : Nat)
  | integrity
  | io (e : EK)
  | stdio (e : EK)
  | panic
  deriving Repr, DecidableEq

abbrev Res (α : Type) := Except Err α

structure WriteOpts where
  algo : Option Algo := none
  sri : Option Integrity := none
  size : Option Nat := none
  time : Option Nat := none
  metadata : Option Json.JVal := none
  raw : Option Bytes := none
  deriving Repr, Inhabited

/-- The model's parameters: digest functions and the mmap threshold. -/
structure Cfg where
  H : Algo → Bytes → Bytes
  maxMmap : Nat := 1048576

def dContent : Bytes := [99, 111, 110, 116, 101, 110, 116, 45, 118, 50]   -- "content-v2"
def dIndex : Bytes := [105, 110, 100, 101, 120, 45, 118, 53]              -- "index-v5"
def dTmp : Bytes := [116, 109, 112]                                        -- "tmp"

/-- `content_path`: `<cache>/content-v2/<algo>/<hex[0..2]>/<hex[2..4]>/<hex[4..]>`.
`none` = the call panics (no hash, digest not base64, or hex shorter than 4). -/
def contentPath (cache : Path) (sri : Integrity) : Option Path :=
  match Sri.toHex sri with
  | none => none
  | some (a, hex) =>
    if hex.length < 4 then none
    else some (cache ++ [dContent, a.name, hex.take 2, (hex.drop 2).take 2, hex.drop 4])

variable (cfg : Cfg)

def keyHex (key : Bytes) : Bytes := Bytes.hex (cfg.H .sha1 key)

/-- `bucket_path`: `<cache>/index-v5/<h[0..2]>/<h[2..4]>/<h[4..]>`, `h` = hex SHA-1 of the key. -/
def bucketPath (cache : Path) (key : Bytes) : Path :=
  let h := keyHex cfg key
  cache ++ [dIndex, h.take 2, (h.drop 2).take 2, h.drop 4]

def codec : Codec Rec Meta := Rec.codec cfg.H

/-! ### index -/

/-- `bucket_entries` / `bucket_entries_async`: a missing bucket is empty, other open/read errors
are reported, lines that do not decode are skipped. -/
def bucketEntries (bucket : Path) : Prog (Res (List Rec)) := do
  match ← call (.readFile bucket) with
  | .bytes b => pure (.ok ((codec cfg).entries b))
  | .err .notFound => pure (.ok [])
  | .err e => pure (.error (.io e))
  | _ => pure (.error (.io .other))

/-- `index::find` / `find_async`. -/
def find (cache : Path) (key : Bytes) : Prog (Res (Option Meta)) := do
  match ← bucketEntries cfg (bucketPath cfg cache key) with
  | .ok rs => pure (.ok ((codec cfg).findIn key rs))
  | .error e => pure (.error e)

def defaultSri : Integrity := [{ algo := .sha1, digest := [100, 101, 97, 100, 98, 101, 101, 102] }]  -- sha1-deadbeef

/-- The timestamp of a record: the caller's, or the clock. -/
def getTime (o : WriteOpts) : Prog Nat :=
  match o.time with
  | some t => pure t
  | none => do
    match ← call .now with
    | .nat t => pure t
    | _ => pure 0

def mkRec (key : Bytes) (o : WriteOpts) (time : Nat) : Rec :=
  { key := key, integrity := o.sri.map Sri.print, time := time,
    size := o.size.getD 0, metadata := o.metadata.getD .null, raw := o.raw }

/-- Open the bucket for appending and write one framed record with a single `write`. -/
def appendRec (bucket : Path) (r : Rec) : Prog (Res Unit) := do
  match ← call (.openAppend bucket) with
  | .err e => pure (.error (.io e))
  | _ =>
    match ← call (.appendWrite bucket ((codec cfg).frame r)) with
    | .err e => pure (.error (.io e))
    | _ => pure (.ok ())

/-- `index::insert` / `insert_async`. -/
def insert (cache : Path) (key : Bytes) (o : WriteOpts) : Prog (Res Integrity) := do
  let bucket := bucketPath cfg cache key
  match ← call (.mkdirP (FS.parent bucket)) with
  | .err e => pure (.error (.io e))
  | _ =>
    let time ← getTime o
    match ← appendRec cfg bucket (mkRec key o time) with
    | .error e => pure (.error e)
    | .ok () => pure (.ok (o.sri.getD defaultSri))

/-- `index::delete` / `delete_async`: append a tombstone. -/
def delete (cache : Path) (key : Bytes) : Prog (Res Unit) := do
  match ← insert cfg cache key {} with
  | .ok _ => pure (.ok ())
  | .error e => pure (.error e)

/-- One item of `index::ls`. -/
inductive LsItem where
  | entry (m : Meta)
  | err (e : Err)
  deriving Repr

def lsBuckets : List (Path × Bool) → Prog (List LsItem)
  | [] => pure []
  | (_, true) :: rest => lsBuckets rest
  | (p, false) :: rest => do
    let here ← bucketEntries cfg p
    let items : List LsItem := match here with
      | .ok rs => ((codec cfg).lsOf rs).filterMap (fun | .live m => some (.entry m) | _ => none)
      | .error e => [.err e]
    let more ← lsBuckets rest
    pure (items ++ more)

/-- `index::ls` / `list_sync`. -/
def ls (cache : Path) : Prog (List LsItem) := do
  match ← call (.walk (cache ++ [dIndex])) with
  | .entries es => lsBuckets cfg es
  | .err e => pure [.err (.io e)]
  | _ => pure [.err (.io .other)]

/-! ### content writer -/

structure Writer where
  cache : Path
  key : Option Bytes
  algo : Algo
  tmp : Path
  mmap : Option Nat        -- length of the mapping, if the temp file is memory-mapped
  pos : Nat                -- bytes stored so far
  hashed : Bytes           -- everything fed to the hasher
  written : Nat
  opts : WriteOpts
  deriving Repr

/-- Dropping a `NamedTempFile` removes it. -/
def dropTmp (tmp : Path) : Prog Unit := do
  let _ ← call (.unlink tmp)
  pure ()

/-- `WriteOpts::open*`: create the temp file; pre-allocate and map it when a size in
`1 ..= MAX_MMAP_SIZE` is declared (keyed async writers never map). -/
def wopen (fl : Flavour) (cache : Path) (key : Option Bytes) (o : WriteOpts) : Prog (Res Writer) := do
  let tmpDir := cache ++ [dTmp]
  match ← call (.mkdirP tmpDir) with
  | .err e => pure (.error (.io e))
  | _ =>
    match ← call (.mkTemp tmpDir) with
    | .path tmp =>
      let mapSize : Option Nat := if fl = .async ∧ key.isSome then none else o.size
      let w : Writer := { cache := cache, key := key, algo := o.algo.getD .sha256, tmp := tmp,
                          mmap := none, pos := 0, hashed := [], written := 0, opts := o }
      match mapSize with
      | some n =>
        if 0 < n ∧ n ≤ cfg.maxMmap then
          match ← call (.fallocate tmp n) with
          | .err e => do dropTmp tmp; pure (.error (.io e))
          | _ => pure (.ok { w with mmap := some n })
        else pure (.ok w)
      | none => pure (.ok w)
    | .err e => pure (.error (.io e))
    | _ => pure (.error (.io .other))

/-- A write through the descriptor at the end of the temp file. -/
def plainWrite (w : Writer) (d : Bytes) : Prog (Except EK (Writer × Nat)) := do
  match ← call (.writeAt w.tmp w.pos d) with
  | .nat n => pure (.ok ({ w with pos := w.pos + n, hashed := w.hashed ++ d.take n, written := w.written + n }, n))
  | .err e => pure (.error e)
  | _ => pure (.error .other)

/-- One `write` call.  Data that fits the mapping is stored through it at the current offset;
the first chunk that does not fit ends the mapping (the file is cut back to what was stored) and
this and all later chunks are written through the descriptor. -/
def wwrite (w : Writer) (d : Bytes) : Prog (Except EK (Writer × Nat)) := do
  match w.mmap with
  | some n =>
    if w.pos + d.length ≤ n then
      match ← call (.writeAt w.tmp w.pos d) with
      | .err e => pure (.error e)
      | _ => pure (.ok ({ w with pos := w.pos + d.length, hashed := w.hashed ++ d, written := w.written + d.length }, d.length))
    else
      match ← call (.truncate w.tmp w.pos) with
      | .err e => pure (.error e)
      | _ => plainWrite { w with mmap := none } d
  | none => plainWrite w d

/-- `write::Writer::close` / `AsyncWriter::close`: publish the temp file under its address. -/
def wclose (w : Writer) : Prog (Res Integrity) := do
  let sri := Sri.compute cfg.H w.algo w.hashed
  match contentPath w.cache sri with
  | none => do dropTmp w.tmp; pure (.error .panic)
  | some cpath =>
    let cut : Prog (Except EK Unit) := match w.mmap with
      | some n =>
        if w.pos < n then do
          match ← call (.truncate w.tmp w.pos) with
          | .err e => pure (.error e)
          | _ => pure (.ok ())
        else pure (.ok ())
      | none => pure (.ok ())
    match ← cut with
    | .error e => do dropTmp w.tmp; pure (.error (.io e))
    | .ok () =>
      match ← call (.mkdirP (FS.parent cpath)) with
      | .err e => do dropTmp w.tmp; pure (.error (.io e))
      | _ =>
        match ← call (.rename w.tmp cpath) with
        | .err e => do
          dropTmp w.tmp
          match ← call (.existsF cpath) with
          | .bool true => pure (.ok sri)
          | _ => pure (.error (.io e))
        | _ => pure (.ok sri)

/-- The checks of `commit`: declared integrity, then declared size.  Returns the integrity to
record in the index (the declared one if there is one, else the computed one). -/
def commitChecks (w : Writer) (wsri : Integrity) : Res Integrity :=
  match w.opts.sri with
  | some s =>
    if (Sri.declaredOk s wsri).isNone then .error .integrity
    else sizeCheck s
  | none => sizeCheck wsri
where
  sizeCheck (recorded : Integrity) : Res Integrity :=
    match w.opts.size with
    | some n => if n ≠ w.written then .error (.size n w.written) else .ok recorded
    | none => .ok recorded

/-- First half of `commit`: publish the content, then check the declarations.  No index call. -/
def wcommitCheck (w : Writer) : Prog (Res (Integrity × Integrity)) := do
  match ← wclose cfg w with
  | .error e => pure (.error e)
  | .ok wsri =>
    match commitChecks w wsri with
    | .error e => pure (.error e)
    | .ok recorded => pure (.ok (wsri, recorded))

/-- Second half: map the key (keyed writers only). -/
def wcommitIndex (w : Writer) (wsri recorded : Integrity) : Prog (Res Integrity) :=
  match w.key with
  | some k =>
    insert cfg w.cache k { w.opts with sri := some recorded, size := some (w.opts.size.getD w.written) }
  | none => pure (.ok wsri)

/-- `Writer::commit` / `SyncWriter::commit`. -/
def wcommit (w : Writer) : Prog (Res Integrity) := do
  match ← wcommitCheck cfg w with
  | .error e => pure (.error e)
  | .ok (wsri, recorded) => wcommitIndex cfg w wsri recorded

/-- Feed a list of chunks with `write_all` (a plain file write never returns short in the model,
so `write_all` is one `write` per chunk; an empty chunk issues no call). -/
def wwriteAll (w : Writer) : List Bytes → Prog (Except EK Writer)
  | [] => pure (.ok w)
  | d :: ds => do
    if d.isEmpty then wwriteAll w ds
    else
      match ← wwrite w d with
      | .error e => pure (.error e)
      | .ok (w', _) => wwriteAll w' ds

/-- `write` / `write_sync` (+ `_with_algo`): the async one-shot declares the size. -/
def write (fl : Flavour) (cache : Path) (algo : Algo) (key : Bytes) (data : Bytes) : Prog (Res Integrity) := do
  let o : WriteOpts := match fl with
    | .async => { algo := some algo, size := some data.length }
    | .sync => { algo := some algo }
  match ← wopen cfg fl cache (some key) o with
  | .error e => pure (.error e)
  | .ok w =>
    match ← wwriteAll w [data] with
    | .error e => do dropTmp w.tmp; pure (.error (.io e))
    | .ok w' => wcommit cfg w'

/-- `write_hash` / `write_hash_sync` (+ `_with_algo`). -/
def writeHash (fl : Flavour) (cache : Path) (algo : Algo) (data : Bytes) : Prog (Res Integrity) := do
  match ← wopen cfg fl cache none { algo := some algo, size := some data.length } with
  | .error e => pure (.error e)
  | .ok w =>
    match ← wwriteAll w [data] with
    | .error e => do dropTmp w.tmp; pure (.error (.io e))
    | .ok w' => wcommit cfg w'

/-! ### reading -/

/-- `read::read` / `read_async`. -/
def readHash (cache : Path) (sri : Integrity) : Prog (Res Bytes) := do
  match contentPath cache sri with
  | none => pure (.error .panic)
  | some cpath =>
    match ← call (.readFile cpath) with
    | .bytes b => if (Sri.check cfg.H sri b).isSome then pure (.ok b) else pure (.error .integrity)
    | .err e => pure (.error (.io e))
    | _ => pure (.error (.io .other))

def read (cache : Path) (key : Bytes) : Prog (Res Bytes) := do
  match ← find cfg cache key with
  | .error e => pure (.error e)
  | .ok none => pure (.error .notFound)
  | .ok (some m) => readHash cfg cache m.sri

/-- An open streaming reader: the bytes of the opened inode, how far it has been read, and what
was fed to the checker. -/
structure Reader where
  sri : Integrity
  data : Bytes
  pos : Nat
  deriving Repr

def ropenHash (cache : Path) (sri : Integrity) : Prog (Res Reader) := do
  match contentPath cache sri with
  | none => pure (.error .panic)
  | some cpath =>
    match ← call (.readFile cpath) with
    | .bytes b => if sri.isEmpty then pure (.error .panic) else pure (.ok { sri := sri, data := b, pos := 0 })
    | .err e => pure (.error (.io e))
    | _ => pure (.error (.io .other))

def ropen (cache : Path) (key : Bytes) : Prog (Res Reader) := do
  match ← find cfg cache key with
  | .error e => pure (.error e)
  | .ok none => pure (.error .notFound)
  | .ok (some m) => ropenHash cache m.sri

/-- One `read` with an `n`-byte buffer (regular files: as much as is there). -/
def Reader.read (r : Reader) (n : Nat) : Reader × Bytes :=
  let chunk := (r.data.drop r.pos).take n
  ({ r with pos := r.pos + chunk.length }, chunk)

/-- `check`: the digest of everything that was read so far must be the address. -/
def Reader.check (r : Reader) : Res Algo :=
  match Sri.check cfg.H r.sri (r.data.take r.pos) with
  | some a => .ok a
  | none => .error .integrity

/-- The verification pass of checked copy / link / reflink: read to the end, then check. -/
def verify (cache : Path) (sri : Integrity) : Prog (Res Nat) := do
  match ← ropenHash cache sri with
  | .error e => pure (.error e)
  | .ok r =>
    let r' := { r with pos := r.data.length }
    match Reader.check cfg r' with
    | .ok _ => pure (.ok r.data.length)
    | .error e => pure (.error e)

inductive Extract where
  | copy | hardLink | reflink
  deriving Repr, DecidableEq

def extractUnchecked (how : Extract) (cache : Path) (sri : Integrity) (dest : Path) : Prog (Res Nat) := do
  match contentPath cache sri with
  | none => pure (.error .panic)
  | some cpath =>
    let c : Call := match how with
      | .copy => .copyFile cpath dest
      | .hardLink => .hardLink cpath dest
      | .reflink => .reflink cpath dest
    let act : Prog (Res Nat) := do
      match ← call c with
      | .err e => pure (.error (.io e))
      | .nat n => pure (.ok n)
      | _ => pure (.ok 0)
    match how with
    | .hardLink =>
      -- `hard_link` would give a symlinked content path (link_to) a second name without looking at
      -- what it points to: `metadata` (following links) first, so that missing content is an error
      match ← call (.sizeOf cpath) with
      | .err e => pure (.error (.io e))
      | _ => act
    | _ => act

/-- Checked extraction by address: verify first, then extract (all three kinds, both flavours). -/
def extractHash (how : Extract) (cache : Path) (sri : Integrity) (dest : Path) : Prog (Res Nat) := do
  match ← verify cfg cache sri with
  | .error e => pure (.error e)
  | .ok n =>
    match ← extractUnchecked how cache sri dest with
    | .error e => pure (.error e)
    | .ok _ => pure (.ok n)

def extract (checked : Bool) (how : Extract) (cache : Path) (key : Bytes) (dest : Path) : Prog (Res Nat) := do
  match ← find cfg cache key with
  | .error e => pure (.error e)
  | .ok none => pure (.error .notFound)
  | .ok (some m) =>
    if checked then extractHash cfg how cache m.sri dest else extractUnchecked how cache m.sri dest

def existsHash (cache : Path) (sri : Integrity) : Prog (Res Bool) := do
  match contentPath cache sri with
  | none => pure (.error .panic)
  | some cpath =>
    match ← call (.existsF cpath) with
    | .bool b => pure (.ok b)
    | _ => pure (.ok false)

/-! ### removal -/

def removeHash (cache : Path) (sri : Integrity) : Prog (Res Unit) := do
  match contentPath cache sri with
  | none => pure (.error .panic)
  | some cpath =>
    match ← call (.unlink cpath) with
    | .err e => pure (.error (.io e))
    | _ => pure (.ok ())

/-- `RemoveOpts::remove_fully(true)`: unlink the current entry's content, then the bucket file. -/
def removeFully (cache : Path) (key : Bytes) : Prog (Res Unit) := do
  match ← find cfg cache key with
  | .error e => pure (.error e)
  | .ok mo =>
    let contentGone : Prog (Res Unit) := match mo with
      | some m => removeHash cache m.sri
      | none => pure (.ok ())
    let dropBucket : Prog (Res Unit) := do
      match ← call (.unlink (bucketPath cfg cache key)) with
      | .err e => pure (.error (.io e))
      | _ => pure (.ok ())
    match ← contentGone with
    | .error (.io .notFound) => dropBucket      -- content already gone: the entry still has to go
    | .error e => pure (.error e)
    | .ok () => dropBucket

def removeEach : List (Path × Bool) → Prog (Res Unit)
  | [] => pure (.ok ())
  | (p, _) :: rest => do
    match ← call (.removeTree p) with
    | .err e => pure (.error (.io e))
    | _ => removeEach rest

/-- `clear` / `clear_sync`: `remove_dir_all` on every child of the cache directory. -/
def clear (cache : Path) : Prog (Res Unit) := do
  match ← call (.readDir cache) with
  | .entries es => removeEach es
  | .err e => pure (.error (.io e))
  | _ => pure (.error (.io .other))

/-! ### link_to -/

structure Linker where
  cache : Path
  key : Option Bytes
  algo : Algo
  target : Target        -- the link text that will be written
  data : Bytes           -- bytes of the opened target
  pos : Nat
  opts : WriteOpts
  deriving Repr

/-- Where a target given as text resolves for the *calling process* (cwd = scratch root). -/
def targetFromCwd : Target → Path
  | .abs p => p
  | .rel p => FS.normRel [] p

/-- `WriteOpts::link_to*`: open the target.  The link text is made absolute. -/
def lopen (cache : Path) (key : Option Bytes) (t : Target) (o : WriteOpts) : Prog (Res Linker) := do
  let tp := targetFromCwd t
  match ← call (.readFile tp) with
  | .bytes b => pure (.ok { cache := cache, key := key, algo := o.algo.getD .sha256,
                            target := .abs tp, data := b, pos := 0, opts := o })
  | .err e => pure (.error (.io e))
  | _ => pure (.error (.io .other))

/-- `ToLinker::open*`: declare the target's current size. -/
def lopenAuto (cache : Path) (key : Option Bytes) (t : Target) : Prog (Res Linker) := do
  match ← call (.sizeOf (targetFromCwd t)) with
  | .nat n => lopen cache key t { algo := some .sha256, size := some n }
  | .err e => pure (.error (.io e))
  | _ => pure (.error (.io .other))

def Linker.read (l : Linker) (n : Nat) : Linker × Bytes :=
  let chunk := (l.data.drop l.pos).take n
  ({ l with pos := l.pos + chunk.length }, chunk)

/-- `commit`: consume the rest of the target, symlink it under its address, then the same
integrity / size checks and index insert as a writer. -/
def lcommit (l : Linker) : Prog (Res Integrity) := do
  let sri := Sri.compute cfg.H l.algo l.data
  let readN := l.data.length
  match contentPath l.cache sri with
  | none => pure (.error .panic)
  | some cpath =>
    match ← call (.mkdirP (FS.parent cpath)) with
    | .err e => pure (.error (.io e))
    | _ =>
      let linked : Prog (Res Unit) := do
        match ← call (.symlink l.target cpath) with
        | .err e =>
          match ← call (.isLink cpath) with
          | .bool true =>
            -- an earlier link lives at the address.  When it already leads to the very file being linked
            -- there is nothing to repair (and re-pointing could point the address at itself) …
            match ← call (.sameFile cpath l.target) with
            | .bool true => pure (.ok ())
            | _ =>
              -- … otherwise its target may have changed or gone, whereas `l.target` has just been read
              -- and hashed: point the address at it (temp link + rename)
              let tmpDir := l.cache ++ [dTmp]
              match ← call (.mkdirP tmpDir) with
              | .err e' => pure (.error (.io e'))
              | _ =>
                match ← call (.mkTempLink tmpDir l.target) with
                | .path tp =>
                  match ← call (.renameLink tp cpath) with
                  | .err e' => do dropTmp tp; pure (.error (.io e'))
                  | _ => pure (.ok ())
                | .err e' => pure (.error (.io e'))
                | _ => pure (.error .panic)
          | _ =>
            match ← call (.existsF cpath) with
            | .bool true => pure (.ok ())
            | _ => pure (.error (.io e))
        | _ => pure (.ok ())
      match ← linked with
      | .error e => pure (.error e)
      | .ok () =>
        let go (recorded : Integrity) : Prog (Res Integrity) := do
          let sizeOk : Res Unit := match l.opts.size with
            | some n => if n ≠ readN then .error (.size n readN) else .ok ()
            | none => .ok ()
          match sizeOk with
          | .error e => pure (.error e)
          | .ok () =>
            match l.key with
            | some k => insert cfg l.cache k { l.opts with sri := some recorded,
                                                           size := some (l.opts.size.getD readN) }
            | none => pure (.ok sri)
        match l.opts.sri with
        | some s => if (Sri.declaredOk s sri).isNone then pure (.error .integrity) else go s
        | none => go sri

end Cacache
