/-
C18 — extraction to a path delivers exact bytes; failed checks leave nothing behind.
-/
import Cacache.Lemmas.Ops
import Cacache.Props.C01

namespace Cacache.C18
open Prog

variable (cfg : Cfg)

/-- The unchecked extraction step never reports an integrity error. -/
theorem extractUnchecked_not_integrity (how : Extract) (cache : Path) (sri : Integrity) (dest : Path) :
    AllCallsR (fun _ => True) (fun r => r ≠ .error .integrity)
      (extractUnchecked how cache sri dest) := by
  unfold extractUnchecked
  cases how <;> (repeat' ac_step) <;> (first | (intro h; cases h) | trivial)

/-- **A failed check leaves nothing behind.**  For every filesystem state (every damage of the
content file), every extraction kind and every destination: if a checked extraction by address
reports the integrity error, the filesystem is exactly as before — in particular no file holding
the unverified bytes exists at the destination. -/
theorem checked_failure_leaves_nothing (env : Env) (fs : FS) (how : Extract) (cache : Path)
    (sri : Integrity) (dest : Path)
    (h : (run env (extractHash cfg how cache sri dest) fs).1 = .error .integrity) :
    (run env (extractHash cfg how cache sri dest) fs).2.1 = fs := by
  have hro : (run env (verify cfg cache sri) fs).2.1 = fs :=
    AllCalls.after_eq env ((verify_ro cfg cache sri).mono (fun c hc => exec_readOnly env c hc) (fun _ h => h)) fs
  unfold extractHash at h ⊢
  simp only [bind_eq, pure_eq] at h ⊢
  rw [run_bind] at h ⊢
  simp only at h ⊢
  rw [hro] at h ⊢
  generalize (run env (verify cfg cache sri) fs).1 = rv at h ⊢
  cases rv with
  | error e => simp [run]
  | ok m =>
    exfalso
    simp only at h
    rw [run_bind] at h
    simp only at h
    have hne := (extractUnchecked_not_integrity how cache sri dest).result env fs
    generalize (run env (extractUnchecked how cache sri dest) fs) = ru at h hne
    obtain ⟨r2, fs2, tr2⟩ := ru
    cases r2 with
    | error e => simp [run] at h; exact hne (by rw [h])
    | ok k => simp [run] at h

/-- The same by key: the lookup is read-only, so a verification failure leaves the filesystem
untouched. -/
theorem checked_failure_leaves_nothing_by_key (env : Env) (fs : FS) (how : Extract) (cache : Path)
    (key : Bytes) (dest : Path)
    (h : (run env (extract cfg true how cache key dest) fs).1 = .error .integrity) :
    (run env (extract cfg true how cache key dest) fs).2.1 = fs := by
  have hro : (run env (find cfg cache key) fs).2.1 = fs :=
    AllCalls.after_eq env ((find_ro cfg cache key).mono (fun c hc => exec_readOnly env c hc) (fun _ h => h)) fs
  unfold extract at h ⊢
  simp only [bind_eq, pure_eq] at h ⊢
  rw [run_bind] at h ⊢
  simp only at h ⊢
  rw [hro] at h ⊢
  generalize (run env (find cfg cache key) fs).1 = rf at h ⊢
  cases rf with
  | error e => simp [run]
  | ok mo =>
    cases mo with
    | none => simp [run]
    | some m =>
      simp only [if_true] at h ⊢
      exact checked_failure_leaves_nothing cfg env fs how cache m.sri dest h

/-- **A missing key yields the not-found error** (and no filesystem change). -/
theorem extract_missing_key (env : Env) (fs : FS) (checked : Bool) (how : Extract) (cache : Path)
    (key : Bytes) (dest : Path) (h : (run env (find cfg cache key) fs).1 = .ok none) :
    (run env (extract cfg checked how cache key dest) fs).1 = .error .notFound := by
  unfold extract
  simp only [bind_eq, pure_eq]
  rw [run_bind]
  simp only [h, run]

/-- **Success means verified bytes**: a successful checked extraction returns the length of bytes
that pass the check of the requested address (C01), for copies as the byte count. -/
theorem extract_ok_verified (env : Env) (fs : FS) (how : Extract) (cache : Path) (sri : Integrity)
    (dest : Path) (n : Nat) (h : (run env (extractHash cfg how cache sri dest) fs).1 = .ok n) :
    ∃ b, b.length = n ∧ C01.Passes cfg sri b :=
  (C01.verify_sound cfg cache sri).result env fs n (C01.extractHash_sound cfg env fs how cache sri dest n h)

/-- **The destination holds the stored bytes**: copying / linking a regular content file to a
destination whose parent exists and which is not there yet leaves exactly those bytes there. -/
theorem extract_delivers (env : Env) (fs : FS) (how : Extract) (cache : Path) (sri : Integrity)
    (dest cpath : Path) (b : Bytes) (hc : contentPath cache sri = some cpath)
    (hfile : fs.get cpath = some (.file b)) (hread : fs.readFile cpath = .ok b)
    (hparent : fs.isDir (FS.parent dest) = true) (hfree : fs.get dest = none)
    (hre : how = .reflink → env.reflinkOK = true) :
    ((run env (extractUnchecked how cache sri dest) fs).2.1).get dest = some (.file b) := by
  unfold extractUnchecked
  rw [hc]
  cases how <;> simp [run, call, exec, copyTo, hfile, hread, hparent, hfree, FS.put, hre]

end Cacache.C18
