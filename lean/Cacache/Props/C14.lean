/-
C14 — abandoned or rejected writes leave no trace in the index or temp area.

* A writer that is opened, fed any chunks and dropped can only ever aim calls at the *temp* area
  (`<cache>/tmp`): nothing in the index area or the content area changes — for every state, every
  answer of every call (so every fault and interleaving), every abandonment point.
* Dropping removes the temp file (healthy semantics of `unlink`).
* The index area is aimed at only by `wcommitIndex`, which runs only after `wcommitCheck` answered
  ok (C08): data becomes reachable under a key only through a commit that passed its checks.
-/
import Cacache.Props.C08
import Cacache.Lemmas.CacheRefine

namespace Cacache.C14
open Prog

variable (cfg : Cfg)

/-- Open a writer, feed it any prefix of its chunks, then drop it. -/
def abandon (fl : Flavour) (cache : Path) (key : Option Bytes) (o : WriteOpts) (fed : List Bytes) :
    Prog Unit := do
  match ← wopen cfg fl cache key o with
  | .error _ => pure ()
  | .ok w =>
    match ← wwriteAll w fed with
    | .error _ => dropTmp w.tmp
    | .ok w' => dropTmp w'.tmp

/-- **Whatever the calls answer**, an abandoned writer only aims at the temp area. -/
theorem abandon_only_tmp (fl : Flavour) (cache : Path) (key : Option Bytes) (o : WriteOpts)
    (fed : List Bytes) : AllCalls (Call.inAreas cache [dTmp]) (abandon cfg fl cache key o fed) := by
  unfold abandon
  simp only [bind_eq, pure_eq]
  have hopen : AllCallsR (Call.inAreas cache [dTmp]) (fun r => ∀ w, r = .ok w → w.cache = cache ∧ w.Ok)
      (wopen cfg fl cache key o) := by
    unfold wopen dropTmp
    repeat' ac_step
    all_goals first
      | ar_leaf
      | (intro w hw; cases hw; exact ⟨rfl, tmp_of_answer (by assumption)⟩)
      | (intro w hw; cases hw)
  apply AllCallsR.bind hopen
  intro r hr
  split
  · trivial
  · rename_i w
    obtain ⟨hc, hw⟩ := hr w rfl
    subst hc
    apply AllCallsR.bind (wwriteAll_areas w fed hw)
    intro r2 hr2
    split
    · exact dropTmp_areas _ _ hw.inArea
    · rename_i w'
      have hs := hr2 w' rfl
      rw [hs.2.1]
      exact dropTmp_areas _ _ hw.inArea

/-- Hence no lookup, listing or read by address can tell that the writer ever existed: every path
in the index area and in the content area is as before — in the healthy run, at every kill point
and under every fault plan. -/
theorem abandon_no_trace (env : Env) (fs : FS) (fl : Flavour) (cache : Path) (key : Option Bytes)
    (o : WriteOpts) (fed : List Bytes) (top : Bytes) (htop : top ≠ dTmp) (q : Path)
    (hq : InArea cache top q) (n t : Nat) (plan : Nat → Option Fault) :
    (run env (abandon cfg fl cache key o fed) fs).2.1.get q = fs.get q ∧
    (crash env (abandon cfg fl cache key o fed) fs n t).get q = fs.get q ∧
    (runFault env plan (abandon cfg fl cache key o fed) fs 0).2.1.get q = fs.get q := by
  have hav : AllCalls (Call.avoids q) (abandon cfg fl cache key o fed) :=
    (abandon_only_tmp cfg fl cache key o fed).mono
      (fun c hc => hc.avoids hq (by simpa using htop)) (fun _ h => h)
  exact ⟨AllCalls.frame_run hav env fs, AllCalls.frame_crash hav env fs n t,
    AllCalls.frame_fault hav env plan fs 0⟩

/-- Dropping removes the temp file: after a healthy `drop` nothing is left at the writer's path. -/
theorem drop_removes_tmp (env : Env) (fs : FS) (tmp : Path) (b : Bytes)
    (h : fs.get tmp = some (.file b)) : (run env (dropTmp tmp) fs).2.1.get tmp = none := by
  simp [dropTmp, run, call, exec, h]

/-- **Only a commit that passed its checks maps**: a rejected commit leaves the whole index area
untouched (C08), and the index is aimed at by no other part of a writer's life. -/
theorem only_commit_maps (env : Env) (fs : FS) (w : Writer) (hw : w.Ok)
    (hr : C08.Rejected (run env (wcommit cfg w) fs).1) (q : Path) (hq : InArea w.cache dIndex q) :
    (run env (wcommit cfg w) fs).2.1.get q = fs.get q :=
  C08.rejected_commit_maps_nothing cfg env fs w hw hr q hq

/-! ### total correctness of a rejected commit -/

open CacheRefine Refine in
/-- **A keyed write whose declared size is wrong, from any healthy cache** (any flavour, any
chunking, any options without a declared integrity): the healthy run answers exactly the
size-mismatch error; the abstract index is unchanged — *every* lookup of *every* key answers as
before, and so does every listing; the cache is healthy again (so everything that worked still
works); and nothing of the writer is left in `tmp`: its temp file is gone, every other entry of
`tmp` is as it was.  (Its content is published by address, which no lookup or listing shows.) -/
theorem rejected_commit_changes_no_lookup (env : Env) (cache : Path) (fl : Flavour) (key : Bytes) (o : WriteOpts)
    (chunks : List Bytes) (fs : FS) (h : Healthy cfg cache fs) (hl : HexLen cfg) (hw : PutWF key o chunks)
    (n : Nat) (hn : o.size = some n) (hne : n ≠ chunks.flatten.length) :
    (run env (writeStream cfg cache fl (some key) o chunks) fs).1 = .error (.size n chunks.flatten.length) ∧
    (absCache cfg cache (run env (writeStream cfg cache fl (some key) o chunks) fs).2.1).index =
      (absCache cfg cache fs).index ∧
    Healthy cfg cache (run env (writeStream cfg cache fl (some key) o chunks) fs).2.1 ∧
    TmpClean cache fs (run env (writeStream cfg cache fl (some key) o chunks) fs).2.1 := by
  obtain ⟨h1, h2, h3, h4⟩ := run_putKeyed cfg cache env fl key o chunks fs h hl hw
  have hd : declCheck o chunks.flatten.length (Sri.compute cfg.H (o.algo.getD .sha256) chunks.flatten) =
      .error (.size n chunks.flatten.length) := by
    rw [declCheck_none hw.nosri, hn]
    show (if n ≠ chunks.flatten.length then _ else _) = _
    rw [if_pos hne]
  refine ⟨?_, ?_, h3, h4⟩
  · rw [h1]; unfold putSpec; rw [hd]
  · rw [h2]; unfold putSpec; rw [hd]

end Cacache.C14
