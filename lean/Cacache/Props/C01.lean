/-
C01 — checked reads never deliver bytes that differ from what was stored.

The digest comparison is the only thing between a damaged file and the caller, and the theorems
make that explicit: nothing at all is assumed about the filesystem.  `AllCallsR _ Ok p` says every
result `p` can return satisfies `Ok` *whatever the calls answer* — so for every on-disk state
(bit flips, truncation, extension, replacement, swapped files, symlinks), every fault plan and
every interleaving.  `H` is an arbitrary digest function.
-/
import Cacache.Lemmas.Ops

namespace Cacache.C01
open Prog

variable (cfg : Cfg)

/-- The bytes pass the integrity check of `sri`. -/
def Passes (sri : Integrity) (b : Bytes) : Prop := (Sri.check cfg.H sri b).isSome = true

/-- **Whole read by address**: whatever the file holds, a successful read returns bytes that pass
the check of the requested integrity (`Passes`).  For a single-hash integrity that means: their
digest is the address (`exact_bytes`, single-hash).  For an integrity with SEVERAL digests of its
first algorithm, `Sri.check` accepts a match with ANY of them while `contentPath` addresses by the
FIRST one only — so the bytes read from the first digest's path may have the second digest (known
finding F24); `Passes` is what holds in general. -/
theorem readHash_sound (cache : Path) (sri : Integrity) :
    AllCallsR (fun _ => True) (fun r => ∀ b, r = .ok b → Passes cfg sri b)
      (readHash cfg cache sri) := by
  unfold readHash
  repeat' ac_step
  all_goals first
    | (intro b hb; cases hb; assumption)
    | (intro b hb; cases hb)

/-- … in every healthy run and under every fault plan. -/
theorem readHash_sound_run (env : Env) (fs : FS) (plan : Nat → Option Fault) (cache : Path)
    (sri : Integrity) (b : Bytes) :
    ((run env (readHash cfg cache sri) fs).1 = .ok b → Passes cfg sri b) ∧
    ((runFault env plan (readHash cfg cache sri) fs 0).1 = .ok b → Passes cfg sri b) :=
  ⟨fun h => (readHash_sound cfg cache sri).result env fs b h,
   fun h => (readHash_sound cfg cache sri).resultFault env plan fs 0 b h⟩

/-- **Whole read by key**: a successful read returns bytes that pass the check of the integrity
the lookup of that key produced. -/
theorem read_sound (env : Env) (fs : FS) (cache : Path) (key : Bytes) (b : Bytes)
    (h : (run env (read cfg cache key) fs).1 = .ok b) :
    ∃ m, (run env (find cfg cache key) fs).1 = .ok (some m) ∧ Passes cfg m.sri b := by
  unfold read at h
  simp only [bind_eq, pure_eq] at h
  rw [run_bind] at h
  simp only at h
  generalize hf : run env (find cfg cache key) fs = rf at h
  obtain ⟨r, fs', tr⟩ := rf
  cases r with
  | error e => simp [run] at h
  | ok mo =>
    cases mo with
    | none => simp [run] at h
    | some m =>
      refine ⟨m, rfl, ?_⟩
      exact (readHash_sound cfg cache m.sri).result env fs' b h

/-- **Streamed read**: after any sequence of reads with any buffer sizes, a successful final
`check` means the bytes handed out so far pass the check; they are a prefix of the opened file,
and all of it once the reader reached the end. -/
theorem stream_sound (r : Reader) (a : Algo) (h : r.check cfg = .ok a) :
    Passes cfg r.sri (r.data.take r.pos) := by
  unfold Reader.check at h
  unfold Passes
  split at h
  · rename_i a' ha; rw [ha]; rfl
  · cases h

/-- Successive reads with the given buffer sizes; returns the reader and everything handed out. -/
def readMany (r : Reader) : List Nat → Reader × Bytes
  | [] => (r, [])
  | n :: ns => ((readMany (r.read n).1 ns).1, (r.read n).2 ++ (readMany (r.read n).1 ns).2)

/-- Reading with any list of buffer sizes (any chunking, including empty buffers) hands out
consecutive pieces of the opened file: together they are exactly the bytes between the old and
the new position, and the position never passes the end. -/
theorem stream_chunks (r : Reader) (ns : List Nat) (hpos : r.pos ≤ r.data.length) :
    (readMany r ns).1.data = r.data ∧ (readMany r ns).1.sri = r.sri ∧
      (readMany r ns).1.pos ≤ r.data.length ∧
      r.data.take (readMany r ns).1.pos = r.data.take r.pos ++ (readMany r ns).2 := by
  induction ns generalizing r with
  | nil => simp [readMany, hpos]
  | cons n ns ih =>
    have hlen : ((r.data.drop r.pos).take n).length = min n (r.data.length - r.pos) := by simp
    have hp1 : (r.read n).1.pos ≤ (r.read n).1.data.length := by
      simp only [Reader.read, hlen]; omega
    obtain ⟨h1, h2, h3, h4⟩ := ih (r.read n).1 hp1
    have hd : (r.read n).1.data = r.data := rfl
    have hs : (r.read n).1.sri = r.sri := rfl
    simp only [readMany]
    rw [hd] at h1 h3 h4
    refine ⟨h1, h2.trans hs, h3, ?_⟩
    rw [h4, ← List.append_assoc]
    congr 1
    show List.take (r.pos + ((r.data.drop r.pos).take n).length) r.data = _
    rw [List.take_add, hlen]
    congr 1
    have : min n (r.data.length - r.pos) = min n (r.data.drop r.pos).length := by simp
    rw [this, ← List.take_eq_take_min]
    rfl

/-- Hence: read everything with any chunking, `check` succeeds ⇒ what was handed out passes. -/
theorem stream_sound_all (r : Reader) (ns : List Nat) (a : Algo) (h0 : r.pos = 0)
    (h : (readMany r ns).1.check cfg = .ok a) : Passes cfg r.sri (readMany r ns).2 := by
  have hc := stream_chunks r ns (by omega)
  have := stream_sound cfg _ a h
  rw [hc.1, hc.2.1, hc.2.2.2, h0] at this
  simpa using this

/-- **Checked copy / hard link / reflink by address**: success means the verification pass read
the content file to the end and those bytes pass the check; their count is what `copy` returns. -/
theorem extractHash_sound (env : Env) (fs : FS) (how : Extract) (cache : Path) (sri : Integrity)
    (dest : Path) (n : Nat) (h : (run env (extractHash cfg how cache sri dest) fs).1 = .ok n) :
    (run env (verify cfg cache sri) fs).1 = .ok n := by
  unfold extractHash at h
  simp only [bind_eq, pure_eq] at h
  rw [run_bind] at h
  simp only at h
  generalize hv : run env (verify cfg cache sri) fs = rv at h
  obtain ⟨r, fs', tr⟩ := rv
  cases r with
  | error e => simp [run] at h
  | ok m =>
    simp only
    rw [run_bind] at h
    simp only at h
    generalize run env (extractUnchecked how cache sri dest) fs' = ru at h
    obtain ⟨r2, fs2, tr2⟩ := ru
    cases r2 with
    | error e => simp [run] at h
    | ok k => simp [run] at h; rw [h]

/-- The verification pass succeeds only on bytes that pass the check. -/
theorem verify_sound (cache : Path) (sri : Integrity) :
    AllCallsR (fun _ => True)
      (fun r => ∀ n, r = .ok n → ∃ b, b.length = n ∧ Passes cfg sri b)
      (verify cfg cache sri) := by
  unfold verify ropenHash
  repeat' ac_step
  all_goals first
    | (intro n hn; cases hn; done)
    | skip
  all_goals (
    intro n hn; cases hn
    rename_i b _ _ _ a hchk
    refine ⟨b, rfl, ?_⟩
    have := stream_sound cfg _ a hchk
    simpa using this)

/-- **Exactly the stored bytes.**  If the digest function does not collide on the two byte
strings involved, bytes that pass the check of a single-hash address are the bytes whose digest
that address is.  (This is where collision resistance enters, and the only place.) -/
theorem exact_bytes (a : Algo) (stored b : Bytes)
    (hinj : B64.encode (cfg.H a b) = B64.encode (cfg.H a stored) → b = stored)
    (h : Passes cfg (Sri.compute cfg.H a stored) b) : b = stored := by
  unfold Passes Sri.compute Sri.check at h
  simp at h
  exact hinj h.symm

end Cacache.C01
