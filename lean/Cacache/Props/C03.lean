/-
C03 — content files appear atomically: never partial, always matching their address.

`ContentValid cfg cache fs`: every regular file at a content address
`<cache>/content-v2/<algo>/<hex 2/2/rest>` holds bytes whose digest (under the arbitrary digest
function `cfg.H`) is that hex string.  The theorems say this is an invariant of every write
program at *every* kill point — between any two calls and with the in-flight call torn at any
byte (`Prog.crash … n t`, all `n`, all `t`) — for every chunking, size declaration, algorithm,
key, flavour, cold or warm cache, address already present or not.  They come out of one proof in
the demonic calculus `wpD`, which also covers every fault plan (C13).
Model assumptions used: a write to the temp file is all-or-error (short writes are followed by an
error, `execFail`), `rename` is atomic.
-/
import Cacache.Lemmas.Commit
import Cacache.Lemmas.Audit

namespace Cacache.C03
open Prog

variable (cfg : Cfg) (env : Env) (cache : Path)

/-- **Streamed / one-shot write, any shape**: at every kill point the content store is valid. -/
theorem content_valid_crash (fl : Flavour) (key : Option Bytes) (o : WriteOpts)
    (chunks : List Bytes) (fs : FS) (hv : ContentValid cfg cache fs) (n t : Nat) :
    ContentValid cfg cache (crash env (writeStream cfg cache fl key o chunks) fs n t) :=
  wpD_crash (writeStream_wp cfg env cache fl key o chunks hv) n t

/-- The public one-shot entry points are instances. -/
theorem write_content_valid_crash (fl : Flavour) (algo : Algo) (key data : Bytes) (fs : FS)
    (hv : ContentValid cfg cache fs) (n t : Nat) :
    ContentValid cfg cache (crash env (write cfg fl cache algo key data) fs n t) := by
  rw [write_eq_stream]; exact content_valid_crash cfg env cache _ _ _ _ fs hv n t

theorem writeHash_content_valid_crash (fl : Flavour) (algo : Algo) (data : Bytes) (fs : FS)
    (hv : ContentValid cfg cache fs) (n t : Nat) :
    ContentValid cfg cache (crash env (writeHash cfg fl cache algo data) fs n t) := by
  rw [writeHash_eq_stream]; exact content_valid_crash cfg env cache _ _ _ _ fs hv n t

/-- … and after the write ran to completion, with or without faults. -/
theorem content_valid_after (fl : Flavour) (key : Option Bytes) (o : WriteOpts)
    (chunks : List Bytes) (fs : FS) (hv : ContentValid cfg cache fs) (plan : Nat → Option Fault) :
    ContentValid cfg cache (run env (writeStream cfg cache fl key o chunks) fs).2.1 ∧
    ContentValid cfg cache (runFault env plan (writeStream cfg cache fl key o chunks) fs 0).2.1 :=
  ⟨(wpD_run (writeStream_wp cfg env cache fl key o chunks hv)).1,
   (wpD_fault (writeStream_wp cfg env cache fl key o chunks hv) plan 0).1⟩

/-- Index insertion / removal (a tombstone insert) cannot touch a content file either. -/
theorem insert_content_valid_crash (key : Bytes) (o : WriteOpts) (fs : FS)
    (hv : ContentValid cfg cache fs) (n t : Nat) :
    ContentValid cfg cache (crash env (insert cfg cache key o) fs n t) :=
  wpD_crash (insert_wp cfg env cache key o hv) n t

/-- The empty cache is valid, so every state reachable by writes and crashes from it is. -/
theorem empty_valid : ContentValid cfg cache FS.empty := by
  intro a hexd b _ h; simp [FS.empty] at h

/-- A classification of single calls (NOT yet a statement about the write programs — that is
`writeStream_only_rename_publishes` below): a call that has a content address among its file
targets is a `rename` / `hardLink` / `reflink` onto it, a copy, a `mkTemp`, or one of the
in-place file calls aimed at the address itself. -/
theorem only_rename_publishes (c : Call) (fs : FS) (q : Path) (hq : q ∈ c.fileTargets fs)
    (ha : IsAddr cache q) :
    (∃ s, c = .rename s q) ∨ (∃ s, c = .hardLink s q) ∨ (∃ s, c = .reflink s q) ∨
    (∃ s d, c = .copyFile s d) ∨ (∃ p n, c = .fallocate p n ∧ IsAddr cache p) ∨
    (∃ p o d, c = .writeAt p o d ∧ IsAddr cache p) ∨ (∃ p n, c = .truncate p n ∧ IsAddr cache p) ∨
    (∃ p, c = .openAppend p ∧ IsAddr cache p) ∨ (∃ p d, c = .appendWrite p d ∧ IsAddr cache p) ∨
    (∃ dir, c = .mkTemp dir) := by
  cases c <;> simp [Call.fileTargets] at hq <;> try (subst hq)
  all_goals first
    | exact Or.inl ⟨_, rfl⟩
    | exact Or.inr (Or.inl ⟨_, rfl⟩)
    | exact Or.inr (Or.inr (Or.inl ⟨_, rfl⟩))
    | exact Or.inr (Or.inr (Or.inr (Or.inl ⟨_, _, rfl⟩)))
    | exact Or.inr (Or.inr (Or.inr (Or.inr (Or.inl ⟨_, _, rfl, ha⟩))))
    | exact Or.inr (Or.inr (Or.inr (Or.inr (Or.inr (Or.inl ⟨_, _, _, rfl, ha⟩)))))
    | exact Or.inr (Or.inr (Or.inr (Or.inr (Or.inr (Or.inr (Or.inl ⟨_, _, rfl, ha⟩))))))
    | exact Or.inr (Or.inr (Or.inr (Or.inr (Or.inr (Or.inr (Or.inr (Or.inl ⟨_, rfl, ha⟩)))))))
    | exact Or.inr (Or.inr (Or.inr (Or.inr (Or.inr (Or.inr (Or.inr (Or.inr (Or.inl ⟨_, _, rfl, ha⟩))))))))
    | exact Or.inr (Or.inr (Or.inr (Or.inr (Or.inr (Or.inr (Or.inr (Or.inr (Or.inr ⟨_, rfl⟩))))))))

/-! ### the program-level statement -/

/-- The only way the call can create or change a regular file anywhere in the content area
`<cache>/content-v2/…` is by being a `rename` onto that path. -/
def PublishesOnlyByRename (c : Call) : Prop :=
  ∀ fs q, q ∈ c.fileTargets fs → InArea cache dContent q → ∃ s, c = .rename s q

/-- A call all of whose targets lie in areas other than the content area has no file target in
the content area at all. -/
theorem inAreas_publishesOnlyByRename {tops : List Bytes} {c : Call}
    (h : c.inAreas cache tops) (hn : dContent ∉ tops) : PublishesOnlyByRename cache c := by
  intro fs q hq ha
  exfalso
  have key : ∀ p, p ∈ c.targets → p <+: q → False := by
    intro p hp hpq
    obtain ⟨top, ht, hin⟩ := h.mem p hp
    have := inArea_disjoint (inArea_ext hin hpq) ha
    exact hn (this ▸ ht)
  cases c with
  | copyFile s d => exact h.notCopy s d rfl
  | mkTemp dir =>
    simp only [Call.fileTargets, List.mem_singleton] at hq
    exact key dir (by simp [Call.targets]) (by rw [hq]; exact List.prefix_append _ _)
  | fallocate p n =>
    simp only [Call.fileTargets, List.mem_singleton] at hq
    exact key p (by simp [Call.targets]) (by rw [hq]; exact List.prefix_refl _)
  | writeAt p o d =>
    simp only [Call.fileTargets, List.mem_singleton] at hq
    exact key p (by simp [Call.targets]) (by rw [hq]; exact List.prefix_refl _)
  | truncate p n =>
    simp only [Call.fileTargets, List.mem_singleton] at hq
    exact key p (by simp [Call.targets]) (by rw [hq]; exact List.prefix_refl _)
  | openAppend p =>
    simp only [Call.fileTargets, List.mem_singleton] at hq
    exact key p (by simp [Call.targets]) (by rw [hq]; exact List.prefix_refl _)
  | appendWrite p d =>
    simp only [Call.fileTargets, List.mem_singleton] at hq
    exact key p (by simp [Call.targets]) (by rw [hq]; exact List.prefix_refl _)
  | rename s d =>
    simp only [Call.fileTargets, List.mem_singleton] at hq
    exact key d (by simp [Call.targets]) (by rw [hq]; exact List.prefix_refl _)
  | hardLink s d =>
    simp only [Call.fileTargets, List.mem_singleton] at hq
    exact key d (by simp [Call.targets]) (by rw [hq]; exact List.prefix_refl _)
  | reflink s d =>
    simp only [Call.fileTargets, List.mem_singleton] at hq
    exact key d (by simp [Call.targets]) (by rw [hq]; exact List.prefix_refl _)
  | _ => simp [Call.fileTargets] at hq

/-- Publishing (`close`): the one call with a file target in the content area is the rename of
the temp file. -/
theorem wclose_only_rename_publishes (w : Writer) (hw : w.Ok) :
    AllCalls (PublishesOnlyByRename w.cache) (wclose cfg w) := by
  have htmp := hw.inArea
  have hno : ∀ q, q = w.tmp → InArea w.cache dContent q → False := by
    intro q hq ha; subst hq
    exact dTmp_ne_dContent (inArea_disjoint htmp ha)
  unfold wclose dropTmp
  repeat' ac_step
  all_goals first
    | exact trivial
    | (intro fs q hq ha
       simp only [Call.fileTargets, List.mem_singleton, List.not_mem_nil] at hq
       all_goals first
         | exact (hno q hq ha).elim
         | exact ⟨_, by rw [hq]⟩)

theorem wcommit_only_rename_publishes (w : Writer) (hw : w.Ok) :
    AllCalls (PublishesOnlyByRename w.cache) (wcommit cfg w) := by
  unfold wcommit wcommitCheck
  simp only [bind_eq, pure_eq]
  apply AllCallsR.bind (p := Prog.bind (wclose cfg w) _) (Ok := fun _ => True)
  · apply AllCallsR.bind (wclose_only_rename_publishes cfg w hw)
    intro r _
    split
    · trivial
    · split <;> trivial
  · intro r _
    split
    · trivial
    · unfold wcommitIndex
      split
      · exact (insert_areas cfg _ _ _).mono
          (fun c h => inAreas_publishesOnlyByRename w.cache h (by decide)) (fun _ h => h)
      · trivial

/-- **Only the rename of a write creates a file in the content area.**  Of all the calls a whole
write can issue — any flavour, key, options, chunking, and whatever the calls answer (so every
on-disk state, fault plan and interleaving) — the only ones that can create or change a regular
file at a path in `<cache>/content-v2/` are `rename`s onto that path (the publication of the
finished temp file by `close`). -/
theorem writeStream_only_rename_publishes (fl : Flavour) (key : Option Bytes) (o : WriteOpts)
    (chunks : List Bytes) :
    AllCalls (PublishesOnlyByRename cache) (writeStream cfg cache fl key o chunks) := by
  have hT : ∀ c, c.inAreas cache [dTmp] → PublishesOnlyByRename cache c :=
    fun c h => inAreas_publishesOnlyByRename cache h (by decide)
  have hI : ∀ c, c.inAreas cache [dIndex] → PublishesOnlyByRename cache c :=
    fun c h => inAreas_publishesOnlyByRename cache h (by decide)
  unfold writeStream
  simp only [bind_eq, pure_eq]
  apply AllCallsR.bind (((wopen_areas cfg fl cache key o).and (wopen_within cfg fl cache key o)).mono
    (fun c h => hT c h.1) (fun _ h => h.2))
  intro r hr
  split
  · trivial
  · rename_i w
    obtain ⟨hc, hw⟩ := hr w rfl
    subst hc
    apply AllCallsR.bind ((wwriteAll_areas w chunks hw).mono hT (fun _ h => h))
    intro r2 hr2
    split
    · apply AllCallsR.bind ((dropTmp_areas _ _ hw.inArea).mono hT (fun _ h => h))
      intro _ _; trivial
    · rename_i w'
      have hs := hr2 w' rfl
      have := wcommit_only_rename_publishes cfg w' (hs.ok hw)
      rw [hs.1] at this
      exact this

theorem write_only_rename_publishes (fl : Flavour) (algo : Algo) (key data : Bytes) :
    AllCalls (PublishesOnlyByRename cache) (write cfg fl cache algo key data) := by
  rw [write_eq_stream]; exact writeStream_only_rename_publishes cfg cache _ _ _ _

theorem writeHash_only_rename_publishes (fl : Flavour) (algo : Algo) (data : Bytes) :
    AllCalls (PublishesOnlyByRename cache) (writeHash cfg fl cache algo data) := by
  rw [writeHash_eq_stream]; exact writeStream_only_rename_publishes cfg cache _ _ _ _

/-- Read on the calls of any run, healthy or faulty: a call of a write that has a content
address among its file targets is a `rename` onto it. -/
theorem write_trace_only_rename_publishes (fl : Flavour) (key : Option Bytes) (o : WriteOpts)
    (chunks : List Bytes) (fs : FS) (plan : Nat → Option Fault) (c : Call)
    (hc : c ∈ (run env (writeStream cfg cache fl key o chunks) fs).2.2 ∨
          c ∈ (runFault env plan (writeStream cfg cache fl key o chunks) fs 0).2.2)
    (fs' : FS) (q : Path) (hq : q ∈ c.fileTargets fs') (ha : IsAddr cache q) :
    ∃ s, c = .rename s q := by
  have hin : InArea cache dContent q := by
    obtain ⟨a, hexd, _, rfl⟩ := ha; exact inArea_addr cache a hexd
  rcases hc with hc | hc
  · exact AllCalls.trace (writeStream_only_rename_publishes cfg cache fl key o chunks) env fs c hc
      fs' q hq hin
  · exact AllCalls.traceFault (writeStream_only_rename_publishes cfg cache fl key o chunks) env
      plan fs 0 c hc fs' q hq hin

end Cacache.C03
