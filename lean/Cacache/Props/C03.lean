/-
C03 — content files appear atomically: never partial, always matching their address.

`ContentValid cfg cache fs`: every regular file at a content address
`<cache>/content-v2/<algo>/<hex 2/2/rest>` holds bytes whose digest (under the arbitrary digest
function `cfg.H`) is that hex string.  The theorems say this is an invariant of every write
program at *every* kill point — between any two calls and with the in-flight call torn at any
byte (`Prog.crash … n t`, all `n`, all `t`) — for every chunking, size declaration, algorithm,
key, flavour, cold or warm cache, address already present or not.  They come out of one proof in
the demonic calculus `wpD`, which also covers every fault plan (C13).
Model assumptions used: a write to the temp file is all-or-error (short writes are followed by an
error, `execFail`), `rename` is atomic.
-/
import Cacache.Lemmas.Commit

namespace Cacache.C03
open Prog

variable (cfg : Cfg) (env : Env) (cache : Path)

/-- **Streamed / one-shot write, any shape**: at every kill point the content store is valid. -/
theorem content_valid_crash (fl : Flavour) (key : Option Bytes) (o : WriteOpts)
    (chunks : List Bytes) (fs : FS) (hv : ContentValid cfg cache fs) (n t : Nat) :
    ContentValid cfg cache (crash env (writeStream cfg cache fl key o chunks) fs n t) :=
  wpD_crash (writeStream_wp cfg env cache fl key o chunks hv) n t

/-- The public one-shot entry points are instances. -/
theorem write_content_valid_crash (fl : Flavour) (algo : Algo) (key data : Bytes) (fs : FS)
    (hv : ContentValid cfg cache fs) (n t : Nat) :
    ContentValid cfg cache (crash env (write cfg fl cache algo key data) fs n t) := by
  rw [write_eq_stream]; exact content_valid_crash cfg env cache _ _ _ _ fs hv n t

theorem writeHash_content_valid_crash (fl : Flavour) (algo : Algo) (data : Bytes) (fs : FS)
    (hv : ContentValid cfg cache fs) (n t : Nat) :
    ContentValid cfg cache (crash env (writeHash cfg fl cache algo data) fs n t) := by
  rw [writeHash_eq_stream]; exact content_valid_crash cfg env cache _ _ _ _ fs hv n t

/-- … and after the write ran to completion, with or without faults. -/
theorem content_valid_after (fl : Flavour) (key : Option Bytes) (o : WriteOpts)
    (chunks : List Bytes) (fs : FS) (hv : ContentValid cfg cache fs) (plan : Nat → Option Fault) :
    ContentValid cfg cache (run env (writeStream cfg cache fl key o chunks) fs).2.1 ∧
    ContentValid cfg cache (runFault env plan (writeStream cfg cache fl key o chunks) fs 0).2.1 :=
  ⟨(wpD_run (writeStream_wp cfg env cache fl key o chunks hv)).1,
   (wpD_fault (writeStream_wp cfg env cache fl key o chunks hv) plan 0).1⟩

/-- Index insertion / removal (a tombstone insert) cannot touch a content file either. -/
theorem insert_content_valid_crash (key : Bytes) (o : WriteOpts) (fs : FS)
    (hv : ContentValid cfg cache fs) (n t : Nat) :
    ContentValid cfg cache (crash env (insert cfg cache key o) fs n t) :=
  wpD_crash (insert_wp cfg env cache key o hv) n t

/-- The empty cache is valid, so every state reachable by writes and crashes from it is. -/
theorem empty_valid : ContentValid cfg cache FS.empty := by
  intro a hexd b _ h; simp [FS.empty] at h

/-- Only one call of a write can create a file at a content address: the `rename` of the temp
file (every other call's file targets are outside the content area). -/
theorem only_rename_publishes (c : Call) (fs : FS) (q : Path) (hq : q ∈ c.fileTargets fs)
    (ha : IsAddr cache q) :
    (∃ s, c = .rename s q) ∨ (∃ s, c = .hardLink s q) ∨ (∃ s, c = .reflink s q) ∨
    (∃ s d, c = .copyFile s d) ∨ (∃ p n, c = .fallocate p n ∧ IsAddr cache p) ∨
    (∃ p o d, c = .writeAt p o d ∧ IsAddr cache p) ∨ (∃ p n, c = .truncate p n ∧ IsAddr cache p) ∨
    (∃ p, c = .openAppend p ∧ IsAddr cache p) ∨ (∃ p d, c = .appendWrite p d ∧ IsAddr cache p) ∨
    (∃ dir, c = .mkTemp dir) := by
  cases c <;> simp [Call.fileTargets] at hq <;> try (subst hq)
  all_goals first
    | exact Or.inl ⟨_, rfl⟩
    | exact Or.inr (Or.inl ⟨_, rfl⟩)
    | exact Or.inr (Or.inr (Or.inl ⟨_, rfl⟩))
    | exact Or.inr (Or.inr (Or.inr (Or.inl ⟨_, _, rfl⟩)))
    | exact Or.inr (Or.inr (Or.inr (Or.inr (Or.inl ⟨_, _, rfl, ha⟩))))
    | exact Or.inr (Or.inr (Or.inr (Or.inr (Or.inr (Or.inl ⟨_, _, _, rfl, ha⟩)))))
    | exact Or.inr (Or.inr (Or.inr (Or.inr (Or.inr (Or.inr (Or.inl ⟨_, _, rfl, ha⟩))))))
    | exact Or.inr (Or.inr (Or.inr (Or.inr (Or.inr (Or.inr (Or.inr (Or.inl ⟨_, rfl, ha⟩)))))))
    | exact Or.inr (Or.inr (Or.inr (Or.inr (Or.inr (Or.inr (Or.inr (Or.inr (Or.inl ⟨_, _, rfl, ha⟩))))))))
    | exact Or.inr (Or.inr (Or.inr (Or.inr (Or.inr (Or.inr (Or.inr (Or.inr (Or.inr ⟨_, rfl⟩))))))))

end Cacache.C03
