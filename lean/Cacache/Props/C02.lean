/-
C02 — what is written under a key or address is exactly what is read back.

Proved here, for every key, data, chunking, algorithm, size declaration, entry point and flavour:
* **truthful success** (`write_ok_means`): whenever a write answers ok — in the healthy run and
  under every fault plan — the answer is the digest of all bytes fed, the content path of that
  digest EXISTS (`isSome`: some node is there; that it is a regular file holding the data — i.e.
  retrievability — is the `some (.file b)` hypothesis of the read-back / end-to-end theorems and a
  conclusion of the refinement theorems), and (keyed) the key's bucket is the old bytes followed
  by the whole new record carrying that integrity and the byte count;
* **read-back** (`read_back_by_address`, `read_back_by_key`): in the state a successful write
  leaves, reading by the returned address and by the key yields exactly the data.
Hypotheses of the read-back: the digest not colliding on {data, what sits at the address} and the
address being occupied by a regular file (a directory or a dangling link there is damage).  The
record codec laws are proved (`Lemmas/CodecLaws`), no hypothesis about them is left.
* **end to end** (`write_then_read_by_key`, `faulty_write_then_read_by_key`, `write_hash_then_read`):
  the two composed;
* **refinement with total correctness** (`cache_refines_map`, `read_after_write`,
  `readHash_after_writeHash`, `get_returns_last_put_data`): on a healthy cache every write of every
  shape SUCCEEDS, and any sequence of operations answers like an abstract key/value map over a
  content store; write-then-read returns exactly the data with no collision hypothesis at all.
-/
import Cacache.Lemmas.ReadBack
import Cacache.Props.C05
import Cacache.Lemmas.CodecLaws
import Cacache.Lemmas.CacheRefine

namespace Cacache.C02
open Prog

variable (cfg : Cfg) (env : Env) (cache : Path)

/-- **Truthful success**, healthy run and every fault plan.  (`StreamPost` says the content path
exists — `isSome` —, not yet that it is a regular file with the data: see the header.) -/
theorem write_ok_means (fl : Flavour) (key : Bytes) (o : WriteOpts) (chunks : List Bytes)
    (b0 : Bytes) (fs : FS) (hv : ContentValid cfg cache fs)
    (hb : BucketIs fs (bucketPath cfg cache key) b0) (plan : Nat → Option Fault) :
    (StreamPost cfg cache (some key) o chunks (run env (writeStream cfg cache fl (some key) o chunks) fs).1
        (run env (writeStream cfg cache fl (some key) o chunks) fs).2.1 ∧
     BucketPost cfg cache key o chunks b0 (run env (writeStream cfg cache fl (some key) o chunks) fs).1
        (run env (writeStream cfg cache fl (some key) o chunks) fs).2.1) ∧
    (StreamPost cfg cache (some key) o chunks (runFault env plan (writeStream cfg cache fl (some key) o chunks) fs 0).1
        (runFault env plan (writeStream cfg cache fl (some key) o chunks) fs 0).2.1 ∧
     BucketPost cfg cache key o chunks b0 (runFault env plan (writeStream cfg cache fl (some key) o chunks) fs 0).1
        (runFault env plan (writeStream cfg cache fl (some key) o chunks) fs 0).2.1) :=
  ⟨(wpD_run (writeStream_keyed_wp cfg env cache fl key o chunks b0 hv hb)).2,
   (wpD_fault (writeStream_keyed_wp cfg env cache fl key o chunks b0 hv hb) plan 0).2⟩

/-- The by-address writes: success means the digest and its content path. -/
theorem write_hash_ok_means (fl : Flavour) (o : WriteOpts) (chunks : List Bytes) (fs : FS)
    (hv : ContentValid cfg cache fs) (plan : Nat → Option Fault) :
    StreamPost cfg cache none o chunks (run env (writeStream cfg cache fl none o chunks) fs).1
        (run env (writeStream cfg cache fl none o chunks) fs).2.1 ∧
    StreamPost cfg cache none o chunks (runFault env plan (writeStream cfg cache fl none o chunks) fs 0).1
        (runFault env plan (writeStream cfg cache fl none o chunks) fs 0).2.1 :=
  ⟨(wpD_run (writeStream_wp cfg env cache fl none o chunks hv)).2,
   (wpD_fault (writeStream_wp cfg env cache fl none o chunks hv) plan 0).2⟩

/-- The store is still valid after the write (so what sits at the address hashes to it). -/
theorem store_valid_after (fl : Flavour) (key : Option Bytes) (o : WriteOpts) (chunks : List Bytes)
    (fs : FS) (hv : ContentValid cfg cache fs) :
    ContentValid cfg cache (run env (writeStream cfg cache fl key o chunks) fs).2.1 :=
  (wpD_run (writeStream_wp cfg env cache fl key o chunks hv)).1

/-- **Read back by address**: in any valid store where the address of `data` holds a regular
file, `read_hash` of the integrity a write of `data` returns yields exactly `data`. -/
theorem read_back_by_address (fs' : FS) (a : Algo) (data b : Bytes)
    (hl : 4 ≤ (Bytes.hex (cfg.H a data)).length) (hv : ContentValid cfg cache fs')
    (hf : fs'.get (addrPath cache a (Bytes.hex (cfg.H a data))) = some (.file b))
    (hinj : cfg.H a b = cfg.H a data → b = data) :
    (run env (readHash cfg cache (Sri.compute cfg.H a data)) fs').1 = .ok data :=
  readHash_present cfg env cache fs' a data b hl hv hf hinj

/-- **Read back by key**: in a state where the key's bucket is a settled old part followed by
the record of a write of `data`, and the address holds a regular file, `read` yields `data`. -/
theorem read_back_by_key {W : Rec → Prop} (L : (codec cfg).Laws W) (fs' : FS) (key : Bytes)
    (o : WriteOpts) (a : Algo) (data b b0 : Bytes) (tm : Nat)
    (hW : W (mkRec key { o with sri := some (Sri.compute cfg.H a data) } tm))
    (hbucket : fs'.get (bucketPath cfg cache key) = some (.file (b0 ++ (codec cfg).frame
      (mkRec key { o with sri := some (Sri.compute cfg.H a data) } tm))))
    (hl : 4 ≤ (Bytes.hex (cfg.H a data)).length) (hv : ContentValid cfg cache fs')
    (hf : fs'.get (addrPath cache a (Bytes.hex (cfg.H a data))) = some (.file b))
    (hinj : cfg.H a b = cfg.H a data → b = data) :
    (run env (read cfg cache key) fs').1 = .ok data := by
  have hfind := find_of_bucket cfg env cache fs' key _ hbucket
  have hro : (run env (find cfg cache key) fs').2.1 = fs' :=
    AllCalls.after_eq env ((find_ro cfg cache key).mono (fun c hc => exec_readOnly env c hc) (fun _ h => h)) fs'
  have hm : (codec cfg).find (b0 ++ (codec cfg).frame
      (mkRec key { o with sri := some (Sri.compute cfg.H a data) } tm)) key =
      some { key := key, sri := Sri.compute cfg.H a data, time := tm, size := o.size.getD 0,
             metadata := o.metadata.getD .null, raw := o.raw } := by
    have hk : (codec cfg).key (mkRec key { o with sri := some (Sri.compute cfg.H a data) } tm) = key := rfl
    have := C05.lookup_returns_last_write (codec cfg) L b0 [] []
      (mkRec key { o with sri := some (Sri.compute cfg.H a data) } tm) _ (by simpa using hW)
      (cls_mkRec_compute cfg key o a data tm) (by simp)
    rw [hk] at this
    simpa [Codec.appendAll] using this
  unfold read
  simp only [bind_eq, pure_eq]
  rw [run_bind]
  simp only [hfind, hm, hro]
  exact readHash_present cfg env cache fs' a data b hl hv hf hinj

/-- **Read back by key, for cacache's own record format** — the record-codec hypothesis is gone:
well-formed options (`OptsWF`) and a `u128` time are all that is asked of the record. -/
theorem read_back_by_key_cacache (fs' : FS) (key : Bytes) (o : WriteOpts) (ho : OptsWF key o) (a : Algo)
    (data b b0 : Bytes) (tm : Nat) (htm : tm ≤ timeMax)
    (hbucket : fs'.get (bucketPath cfg cache key) = some (.file (b0 ++ (codec cfg).frame
      (mkRec key { o with sri := some (Sri.compute cfg.H a data) } tm))))
    (hl : 4 ≤ (Bytes.hex (cfg.H a data)).length) (hv : ContentValid cfg cache fs')
    (hf : fs'.get (addrPath cache a (Bytes.hex (cfg.H a data))) = some (.file b))
    (hinj : cfg.H a b = cfg.H a data → b = data) :
    (run env (read cfg cache key) fs').1 = .ok data :=
  read_back_by_key cfg env cache (codec_laws cfg) fs' key o a data b b0 tm
    (mkRec_wf key _ tm (ho.with_computed cfg.H a data) htm) hbucket hl hv hf hinj

/-- The declared-size and declared-integrity variants do not change what is read back: a
successful answer pins the recorded size to the byte count (see `StreamPost`). -/
theorem declared_size_is_byte_count (fl : Flavour) (key : Option Bytes) (o : WriteOpts)
    (chunks : List Bytes) (fs : FS) (hv : ContentValid cfg cache fs) (sri : Integrity) (n : Nat)
    (hr : (run env (writeStream cfg cache fl key o chunks) fs).1 = .ok sri) (hn : o.size = some n) :
    n = chunks.flatten.length :=
  ((wpD_run (writeStream_wp cfg env cache fl key o chunks hv)).2 sri hr).2.2.2.1 n hn

/-! ### end to end: write, then read -/

/-- From the two post-conditions of a keyed write (whatever run produced them) to the read-back. -/
theorem read_back_of_posts (key : Bytes) (o : WriteOpts) (ho : OptsWF key o) (hnone : o.sri = none)
    (chunks : List Bytes) (hlen : chunks.flatten.length ≤ Rec.u64Max) (b0 : Bytes) (r : Res Integrity) (fs' : FS)
    (hsp : StreamPost cfg cache (some key) o chunks r fs') (hbp : BucketPost cfg cache key o chunks b0 r fs')
    (hv : ContentValid cfg cache fs') (sri : Integrity) (hok : r = .ok sri)
    (hl : 4 ≤ (Bytes.hex (cfg.H (o.algo.getD .sha256) chunks.flatten)).length) (b : Bytes)
    (hf : fs'.get (addrPath cache (o.algo.getD .sha256)
      (Bytes.hex (cfg.H (o.algo.getD .sha256) chunks.flatten))) = some (.file b))
    (hinj : cfg.H (o.algo.getD .sha256) b = cfg.H (o.algo.getD .sha256) chunks.flatten → b = chunks.flatten) :
    sri = Sri.compute cfg.H (o.algo.getD .sha256) chunks.flatten ∧
    (run env (read cfg cache key) fs').1 = .ok chunks.flatten ∧
    (run env (readHash cfg cache sri) fs').1 = .ok chunks.flatten := by
  have hs := (hsp sri hok).2.1 hnone
  obtain ⟨tm, _, hbucket, hle⟩ := hbp sri hok
  have hsz : o.size.getD chunks.flatten.length ≤ Rec.u64Max := by
    cases hz : o.size with
    | none => simpa using hlen
    | some n => simpa using ho.size n hz
  subst hs
  refine ⟨rfl, ?_, readHash_present cfg env cache fs' _ _ b hl hv hf hinj⟩
  exact read_back_by_key_cacache cfg env cache fs' key
    { o with size := some (o.size.getD chunks.flatten.length) } (ho.with_size _ hsz) _ _ b b0 tm
    (hle ho.time) hbucket hl hv hf hinj

/-- **C02, end to end, by key.**  Any flavour, key, well-formed options (no declared integrity),
chunking, any initial state with a valid store whose bucket for the key is absent or a regular
file: if the write answers ok, then — provided a regular file sits at the address and the digest
does not collide on it — the answer is the digest of the bytes fed, and reading by the key and
by the returned address both yield exactly those bytes. -/
theorem write_then_read_by_key (fl : Flavour) (key : Bytes) (o : WriteOpts) (ho : OptsWF key o)
    (hnone : o.sri = none) (chunks : List Bytes) (hlen : chunks.flatten.length ≤ Rec.u64Max) (b0 : Bytes)
    (fs : FS) (hv : ContentValid cfg cache fs) (hb : BucketIs fs (bucketPath cfg cache key) b0)
    (sri : Integrity) (hok : (run env (writeStream cfg cache fl (some key) o chunks) fs).1 = .ok sri)
    (hl : 4 ≤ (Bytes.hex (cfg.H (o.algo.getD .sha256) chunks.flatten)).length) (b : Bytes)
    (hf : (run env (writeStream cfg cache fl (some key) o chunks) fs).2.1.get (addrPath cache (o.algo.getD .sha256)
      (Bytes.hex (cfg.H (o.algo.getD .sha256) chunks.flatten))) = some (.file b))
    (hinj : cfg.H (o.algo.getD .sha256) b = cfg.H (o.algo.getD .sha256) chunks.flatten → b = chunks.flatten) :
    sri = Sri.compute cfg.H (o.algo.getD .sha256) chunks.flatten ∧
    (run env (read cfg cache key) (run env (writeStream cfg cache fl (some key) o chunks) fs).2.1).1 =
      .ok chunks.flatten ∧
    (run env (readHash cfg cache sri) (run env (writeStream cfg cache fl (some key) o chunks) fs).2.1).1 =
      .ok chunks.flatten := by
  have hw := (write_ok_means cfg env cache fl key o chunks b0 fs hv hb (fun _ => none)).1
  exact read_back_of_posts cfg env cache key o ho hnone chunks hlen b0 _ _ hw.1 hw.2
    (store_valid_after cfg env cache fl (some key) o chunks fs hv) sri hok hl b hf hinj

/-- The same when the write ran under any fault plan and still answered ok (truthful success). -/
theorem faulty_write_then_read_by_key (fl : Flavour) (key : Bytes) (o : WriteOpts) (ho : OptsWF key o)
    (hnone : o.sri = none) (chunks : List Bytes) (hlen : chunks.flatten.length ≤ Rec.u64Max) (b0 : Bytes)
    (fs : FS) (hv : ContentValid cfg cache fs) (hb : BucketIs fs (bucketPath cfg cache key) b0)
    (plan : Nat → Option Fault) (sri : Integrity)
    (hok : (runFault env plan (writeStream cfg cache fl (some key) o chunks) fs 0).1 = .ok sri)
    (hl : 4 ≤ (Bytes.hex (cfg.H (o.algo.getD .sha256) chunks.flatten)).length) (b : Bytes)
    (hf : (runFault env plan (writeStream cfg cache fl (some key) o chunks) fs 0).2.1.get
      (addrPath cache (o.algo.getD .sha256) (Bytes.hex (cfg.H (o.algo.getD .sha256) chunks.flatten))) = some (.file b))
    (hinj : cfg.H (o.algo.getD .sha256) b = cfg.H (o.algo.getD .sha256) chunks.flatten → b = chunks.flatten) :
    sri = Sri.compute cfg.H (o.algo.getD .sha256) chunks.flatten ∧
    (run env (read cfg cache key) (runFault env plan (writeStream cfg cache fl (some key) o chunks) fs 0).2.1).1 =
      .ok chunks.flatten := by
  have hw := (write_ok_means cfg env cache fl key o chunks b0 fs hv hb plan).2
  have hv' := (wpD_fault (writeStream_wp cfg env cache fl (some key) o chunks hv) plan 0).1
  have := read_back_of_posts cfg env cache key o ho hnone chunks hlen b0 _ _ hw.1 hw.2 hv' sri hok hl b hf hinj
  exact ⟨this.1, this.2.1⟩

/-- **C02, end to end, by address**: an ok by-address write returns the digest, and `read_hash` of
it yields the bytes. -/
theorem write_hash_then_read (fl : Flavour) (o : WriteOpts) (chunks : List Bytes) (fs : FS)
    (hv : ContentValid cfg cache fs) (sri : Integrity)
    (hok : (run env (writeStream cfg cache fl none o chunks) fs).1 = .ok sri)
    (hl : 4 ≤ (Bytes.hex (cfg.H (o.algo.getD .sha256) chunks.flatten)).length) (b : Bytes)
    (hf : (run env (writeStream cfg cache fl none o chunks) fs).2.1.get (addrPath cache (o.algo.getD .sha256)
      (Bytes.hex (cfg.H (o.algo.getD .sha256) chunks.flatten))) = some (.file b))
    (hinj : cfg.H (o.algo.getD .sha256) b = cfg.H (o.algo.getD .sha256) chunks.flatten → b = chunks.flatten) :
    sri = Sri.compute cfg.H (o.algo.getD .sha256) chunks.flatten ∧
    (run env (readHash cfg cache sri) (run env (writeStream cfg cache fl none o chunks) fs).2.1).1 =
      .ok chunks.flatten := by
  have hw := (write_hash_ok_means cfg env cache fl o chunks fs hv (fun _ => none)).1
  have hs : sri = Sri.compute cfg.H (o.algo.getD .sha256) chunks.flatten := by
    have := (hw sri hok).1
    simpa using this
  subst hs
  exact ⟨rfl, readHash_present cfg env cache _ _ _ b hl
    (store_valid_after cfg env cache fl none o chunks fs hv) hf hinj⟩

/-! ### the whole cache refines a key/value map (`Lemmas/CacheRefine.lean`)

Any sequence of the real programs — keyed writes (any flavour, options, chunking), reads by key,
removals, lookups, index insertions, by-address writes / reads / `exists` / `remove_hash` — run on the
model filesystem from a healthy cache (the empty cache is one) answers exactly like an abstract
state `(key ↦ entry, address ↦ bytes)`, keeps the abstraction in step and the cache healthy: total
correctness included (every write SUCCEEDS and leaves no temp file), memory-mapped and plain
writers, no assumption on the digest function beyond `HexLen` (digests are at least 2 bytes). -/

open CacheRefine in
/-- **The cache is a key/value map over a content store** (refinement, by induction over
arbitrary operation sequences, each operation with its own clock answer). -/
theorem cache_refines_map (ops : List (Env × COp)) (fs : FS) (h : Healthy cfg cache fs)
    (hl : HexLen cfg) (hops : ∀ x ∈ ops, x.2.WF cfg) :
    (cRunOps cfg cache ops fs).1 = (cSpecRun cfg ops (absCache cfg cache fs)).1 ∧
    absCache cfg cache (cRunOps cfg cache ops fs).2 = (cSpecRun cfg ops (absCache cfg cache fs)).2 ∧
    Healthy cfg cache (cRunOps cfg cache ops fs).2 :=
  CacheRefine.cache_refines_map cfg cache ops fs h hl hops

open CacheRefine in
/-- **C02 with total correctness, no collision hypothesis**: on a healthy cache `write` answers the
integrity of the data and the following `read` by key returns exactly the data (the file at the
address was just replaced by it); the cache is healthy again and the temp file is gone. -/
theorem read_after_write (env' : Env) (fl : Flavour) (a : Algo) (key data : Bytes) (fs : FS)
    (h : Healthy cfg cache fs) (hl : HexLen cfg) (hk : Json.utf8Valid key = true)
    (hd : data.length ≤ Rec.u64Max) :
    (run env (write cfg fl cache a key data) fs).1 = .ok (Sri.compute cfg.H a data) ∧
    (run env' (read cfg cache key) (run env (write cfg fl cache a key data) fs).2.1).1 = .ok data ∧
    Healthy cfg cache (run env (write cfg fl cache a key data) fs).2.1 :=
  let r := CacheRefine.read_after_write cfg cache env env' fl a key data fs h hl hk hd
  ⟨r.1, r.2.1, r.2.2.1⟩

open CacheRefine in
/-- The same by address: `write_hash` then `read_hash` (mapped, plain and empty writes). -/
theorem readHash_after_writeHash (env' : Env) (fl : Flavour) (a : Algo) (data : Bytes) (fs : FS)
    (h : HealthyStore cfg cache fs) (hl : HexLen cfg) :
    (run env (writeHash cfg fl cache a data) fs).1 = .ok (Sri.compute cfg.H a data) ∧
    (run env' (readHash cfg cache (Sri.compute cfg.H a data))
      (run env (writeHash cfg fl cache a data) fs).2.1).1 = .ok data :=
  let r := CacheRefine.readHash_after_writeHash cfg cache env env' fl a data fs h hl
  ⟨r.1, r.2.1⟩

open CacheRefine in
/-- **After ANY operation sequence**: if `put key` of `chunks` is the last operation writing `key`
and nothing afterwards removed its address, `read key` returns the bytes now at that address, whose
digest is the data's — and exactly the data when the digest does not collide on them. -/
theorem get_returns_last_put_data (pre post : List (Env × COp)) (fl : Flavour) (key : Bytes)
    (o : WriteOpts) (chunks : List Bytes) (fs : FS) (h : Healthy cfg cache fs) (hl : HexLen cfg)
    (hops : ∀ x ∈ pre ++ (env, COp.put fl key o chunks) :: post, x.2.WF cfg)
    (hz : o.size = none ∨ o.size = some chunks.flatten.length)
    (hkey : ∀ x ∈ post, ¬ x.2.writesKey key)
    (hdrop : ∀ x ∈ post, ¬ x.2.dropsAddr (o.algo.getD .sha256)
      (Bytes.hex (cfg.H (o.algo.getD .sha256) chunks.flatten)))
    (hinj : ∀ b, cfg.H (o.algo.getD .sha256) b = cfg.H (o.algo.getD .sha256) chunks.flatten → b = chunks.flatten)
    (env' : Env) :
    (run env' (read cfg cache key)
      (cRunOps cfg cache (pre ++ (env, COp.put fl key o chunks) :: post) fs).2).1 = .ok chunks.flatten :=
  CacheRefine.get_returns_last_put_data cfg cache pre post env fl key o chunks fs h hl hops hz hkey hdrop hinj env'

open CacheRefine in
/-- The empty cache is healthy (non-vacuity). -/
theorem empty_cache_healthy (fs : FS)
    (hanc : ∀ q, q ≠ [] → q <+: cache → Refine.NoneOrDir fs q)
    (hbelow : ∀ q, cache <+: q → q ≠ cache → fs.get q = none) : Healthy cfg cache fs :=
  CacheRefine.healthy_of_empty_cache cfg cache fs hanc hbelow

end Cacache.C02
