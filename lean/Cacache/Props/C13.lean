/-
C13 — a failing filesystem operation surfaces as an error and never corrupts the cache.

`Prog.runFault env plan p fs 0` executes `p` with the calls selected by `plan` failing — any
positions, any number of them, any error kind, a data write optionally failing after a partial
write (`Fault.short`).  All theorems quantify over every `plan` (not just one or two faults),
every state, key, data, chunking, flavour.  They are instances of the demonic calculus results.
-/
import Cacache.Props.C02
import Cacache.Props.C04
import Cacache.Props.C01
import Cacache.Props.C14
import Cacache.Props.C15

namespace Cacache.C13
open Prog

variable (cfg : Cfg) (env : Env) (cache : Path)

/-- Whatever fails, the content area contains only complete files matching their address. -/
theorem fault_content_valid (fl : Flavour) (key : Option Bytes) (o : WriteOpts) (chunks : List Bytes)
    (fs : FS) (hv : ContentValid cfg cache fs) (plan : Nat → Option Fault) :
    ContentValid cfg cache (runFault env plan (writeStream cfg cache fl key o chunks) fs 0).2.1 :=
  (wpD_fault (writeStream_wp cfg env cache fl key o chunks hv) plan 0).1

/-- Whatever fails, the key's bucket is the old bytes plus at most a prefix of the one new record
(whole on success): the index decodes to the old records, plus the new one only if it is complete
(C04.torn_entries), and stays appendable (C04.torn_then_history). -/
theorem fault_index_intact (fl : Flavour) (key : Bytes) (o : WriteOpts) (chunks : List Bytes)
    (b0 : Bytes) (fs : FS) (hv : ContentValid cfg cache fs)
    (hb : BucketIs fs (bucketPath cfg cache key) b0) (plan : Nat → Option Fault) :
    GrowingAny cfg cache key b0 (runFault env plan (writeStream cfg cache fl (some key) o chunks) fs 0).2.1 :=
  (wpD_fault (writeStream_keyed_wp cfg env cache fl key o chunks b0 hv hb) plan 0).1.2

/-- **No false success**: if a write answers ok under faults, the data's content path EXISTS
(`StreamPost`: `(fs'.get cpath).isSome` — some node is there) and the key's record was appended
whole.  Retrievability of the DATA needs in addition that the node at the address is a regular
file (`some (.file b)`), which is the hypothesis of the end-to-end theorems
(`C02.faulty_write_then_read_by_key`) and a conclusion of the refinement on a healthy cache
(`C13x`, `CacheRefine`). -/
theorem fault_success_is_truthful (fl : Flavour) (key : Bytes) (o : WriteOpts) (chunks : List Bytes)
    (b0 : Bytes) (fs : FS) (hv : ContentValid cfg cache fs)
    (hb : BucketIs fs (bucketPath cfg cache key) b0) (plan : Nat → Option Fault) :
    StreamPost cfg cache (some key) o chunks (runFault env plan (writeStream cfg cache fl (some key) o chunks) fs 0).1
        (runFault env plan (writeStream cfg cache fl (some key) o chunks) fs 0).2.1 ∧
    BucketPost cfg cache key o chunks b0 (runFault env plan (writeStream cfg cache fl (some key) o chunks) fs 0).1
        (runFault env plan (writeStream cfg cache fl (some key) o chunks) fs 0).2.1 :=
  (C02.write_ok_means cfg env cache fl key o chunks b0 fs hv hb plan).2

/-- **A read never returns wrong bytes** under faults: an ok still means the bytes pass the check. -/
theorem fault_read_sound (fs : FS) (plan : Nat → Option Fault) (sri : Integrity) (b : Bytes)
    (h : (runFault env plan (readHash cfg cache sri) fs 0).1 = .ok b) : C01.Passes cfg sri b :=
  (C01.readHash_sound_run cfg env fs plan cache sri b).2 h

/-- **A writer that never commits leaves the index alone** (this theorem is about `C14.abandon`:
open, feed, drop — no commit): whatever fails, every path of the index area is exactly as before.
"Other entries are unaffected" for a COMMITTED keyed write under faults — every other key looks
up as before, the content of other addresses is untouched — is `C13x.faulty_write_leaves_others`
(on the abstract states `C13x.faulty_write_leaves_admissible_state` relates the run to). -/
theorem fault_abandon_leaves_index (fs : FS) (fl : Flavour) (key : Option Bytes) (o : WriteOpts)
    (fed : List Bytes) (q : Path) (hq : InArea cache dIndex q) (plan : Nat → Option Fault) :
    (runFault env plan (C14.abandon cfg fl cache key o fed) fs 0).2.1.get q = fs.get q :=
  (C14.abandon_no_trace cfg env fs fl cache key o fed dIndex (by decide) q hq 0 0 plan).2.2

/-- Faulty removal (a tombstone append): bucket = old bytes + prefix of the tombstone frame. -/
theorem fault_remove_index_intact (key : Bytes) (b0 : Bytes) (fs : FS)
    (hb : BucketIs fs (bucketPath cfg cache key) b0) (plan : Nat → Option Fault) :
    ∃ tm k, BucketIs (runFault env plan (insert cfg cache key {}) fs 0).2.1 (bucketPath cfg cache key)
      (b0 ++ ((codec cfg).frame (mkRec key {} tm)).take k) :=
  (C04.insert_fault_bucket cfg env cache key {} b0 fs hb plan).1

/-- Every call issued under faults still stays inside the cache directory (C15). -/
theorem fault_confined (fl : Flavour) (algo : Algo) (key data : Bytes) (fs : FS)
    (plan : Nat → Option Fault) :
    ∀ c ∈ (runFault env plan (write cfg fl cache algo key data) fs 0).2.2, c.within [cache] :=
  (C15.confined_in_every_run [cache] _ (C15.write_confined cfg fl cache algo key data) env fs plan).2

end Cacache.C13
