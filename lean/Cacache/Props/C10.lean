/-
C10 — listing yields exactly the live entries, once each, agreeing with lookup.

Per bucket file and generic in the codec.  `rs` is the list of records the reader decodes from
the file (any history: several records per key, tombstones in any position, foreign keys).
The hash-set de-duplication of `index::ls` is modelled literally (`dedupKey` on the reversed
list: the first element inserted for a key stays).
-/
import Cacache.Lemmas.Index

namespace Cacache.C10

variable {R M : Type}

/-- The live entries `ls` reports for the decoded records `rs`. -/
def listed (c : Codec R M) (rs : List R) : List M :=
  (c.lsOf rs).filterMap (fun | .live m => some m | _ => none)

/-- Every key occurring in `rs` has a last occurrence. -/
theorem exists_last (key : R → Bytes) (rs : List R) (k : Bytes) (h : ∃ r ∈ rs, key r = k) :
    ∃ pre r' post, rs = pre ++ r' :: post ∧ key r' = k ∧ ∀ s ∈ post, key s ≠ k := by
  induction rs with
  | nil => obtain ⟨r, hr, _⟩ := h; cases hr
  | cons x xs ih =>
    by_cases hx : ∃ r ∈ xs, key r = k
    · obtain ⟨pre, r', post, he, hk, hp⟩ := ih hx
      exact ⟨x :: pre, r', post, by simp [he], hk, hp⟩
    · obtain ⟨r, hr, hk⟩ := h
      rcases List.mem_cons.mp hr with rfl | hr'
      · refine ⟨[], r, xs, rfl, hk, ?_⟩
        intro s hs he
        exact hx ⟨s, hs, he⟩
      · exact absurd ⟨r, hr', hk⟩ hx

/-- A record with an unparsable integrity contributes nothing to a lookup … -/
theorem findStep_bad (c : Codec R M) (k : Bytes) (acc : Option M) (r : R) (hb : (c.cls r).isBad = true) :
    c.findStep k acc r = acc := by
  unfold Codec.findStep
  split
  · cases hc : c.cls r <;> simp [hc, Cls.isBad] at hb ⊢
  · rfl

/-- … so lookups see exactly the listable records. -/
theorem findIn_listable (c : Codec R M) (k : Bytes) (rs : List R) :
    c.findIn k (c.listable rs) = c.findIn k rs := by
  unfold Codec.findIn Codec.listable
  generalize (none : Option M) = acc
  induction rs generalizing acc with
  | nil => rfl
  | cons r rs ih =>
    by_cases hb : (c.cls r).isBad = true
    · simp only [List.filter, hb, Bool.not_true, List.foldl_cons, findStep_bad c k acc r hb]
      exact ih acc
    · have hb' : (c.cls r).isBad = false := by simpa using hb
      simp only [List.filter, hb', Bool.not_false, List.foldl_cons]
      exact ih _

theorem listable_good (c : Codec R M) (rs : List R) :
    ∀ r ∈ c.listable rs, ∀ acc, (c.cls r).apply acc = (c.cls r).apply none := by
  intro r hr acc
  have hb : (c.cls r).isBad = false := by
    have := (List.mem_filter.mp hr).2
    simpa using this
  cases hc : c.cls r <;> simp [hc, Cls.isBad, Cls.apply] at hb ⊢

/-- **Once each**: the records kept by the listing have pairwise distinct keys. -/
theorem ls_keys_nodup (c : Codec R M) (rs : List R) :
    ((dedupKey c.key (c.listable rs).reverse).map c.key).Nodup :=
  dedupAux_nodup c.key [] (c.listable rs).reverse

/-- **Soundness**: every listed entry is what a lookup of its key returns. -/
theorem listed_sound (c : Codec R M) (rs : List R) (m : M) (hm : m ∈ listed c rs) :
    ∃ r ∈ rs, c.cls r = .live m ∧ c.findIn (c.key r) rs = some m := by
  unfold listed Codec.lsOf at hm
  obtain ⟨cl, hcl, hlive⟩ := List.mem_filterMap.mp hm
  obtain ⟨r, hr, rfl⟩ := List.mem_map.mp hcl
  obtain ⟨pre, post, he, hp⟩ := (mem_dedupKey_reverse c.key (c.listable rs) r).mp hr
  have hcls : c.cls r = .live m := by
    cases hc : c.cls r <;> simp [hc] at hlive
    subst hlive; rfl
  have hmem : r ∈ c.listable rs := by simp [he]
  refine ⟨r, (List.mem_filter.mp hmem).1, hcls, ?_⟩
  rw [← findIn_listable, he, c.findIn_last pre post r hp, hcls]; rfl

/-- **Completeness, unconditionally**: whatever a lookup finds is listed.  (Before the repair of
F21 the listing picked the newest record of each key first and dropped it afterwards when its
integrity did not parse, while a lookup falls back to the record before it: the two disagreed on
such foreign records, and this theorem needed the side condition "no unparsable integrity".) -/
theorem listed_complete (c : Codec R M) (rs : List R) (k : Bytes) (m : M)
    (hf : c.findIn k rs = some m) : m ∈ listed c rs := by
  rw [← findIn_listable] at hf
  have hgood := listable_good c rs
  unfold listed Codec.lsOf
  generalize c.listable rs = ls at hf hgood
  by_cases hk : ∃ r ∈ ls, c.key r = k
  · obtain ⟨pre, r', post, he, hkr, hp⟩ := exists_last c.key ls k hk
    subst hkr
    rw [he, c.findIn_last pre post r' hp] at hf
    have hr'mem : r' ∈ ls := by simp [he]
    rw [hgood r' hr'mem] at hf
    have hcls : c.cls r' = .live m := by
      cases hc : c.cls r' <;> simp [hc, Cls.apply] at hf
      subst hf; rfl
    apply List.mem_filterMap.mpr
    refine ⟨.live m, ?_, rfl⟩
    apply List.mem_map.mpr
    exact ⟨r', (mem_dedupKey_reverse c.key ls r').mpr ⟨pre, post, he, hp⟩, hcls⟩
  · have : c.findIn k ls = none := c.findIn_none k ls (fun s hs he => hk ⟨s, hs, he⟩)
    rw [this] at hf; cases hf

/-- **Listing and lookup agree, both ways**: `m` is listed iff a lookup of its key returns it. -/
theorem listed_iff_found (c : Codec R M) (rs : List R) (m : M) :
    m ∈ listed c rs ↔ ∃ r ∈ rs, c.cls r = .live m ∧ c.findIn (c.key r) rs = some m :=
  ⟨listed_sound c rs m, fun ⟨r, _, _, hf⟩ => listed_complete c rs (c.key r) m hf⟩

/-- The side condition completeness needed before the repair is now a property of `listable`:
tombstones and live records satisfy it, unparsable ones are filtered out. -/
example (m : M) : ∀ acc, (Cls.live m).apply acc = (Cls.live m).apply none := fun _ => rfl
example : ∀ acc : Option M, (Cls.tomb : Cls M).apply acc = (Cls.tomb : Cls M).apply none :=
  fun _ => rfl

end Cacache.C10
