/-
C10 — listing yields exactly the live entries, once each, agreeing with lookup.

Per bucket file and generic in the codec.  `rs` is the list of records the reader decodes from
the file (any history: several records per key, tombstones in any position, foreign keys).
The hash-set de-duplication of `index::ls` is modelled literally (`dedupKey` on the reversed
list: the first element inserted for a key stays).
-/
import Cacache.Lemmas.Index

namespace Cacache.C10

variable {R M : Type}

/-- The live entries `ls` reports for the decoded records `rs`. -/
def listed (c : Codec R M) (rs : List R) : List M :=
  (c.lsOf rs).filterMap (fun | .live m => some m | _ => none)

/-- Every key occurring in `rs` has a last occurrence. -/
theorem exists_last (key : R → Bytes) (rs : List R) (k : Bytes) (h : ∃ r ∈ rs, key r = k) :
    ∃ pre r' post, rs = pre ++ r' :: post ∧ key r' = k ∧ ∀ s ∈ post, key s ≠ k := by
  induction rs with
  | nil => obtain ⟨r, hr, _⟩ := h; cases hr
  | cons x xs ih =>
    by_cases hx : ∃ r ∈ xs, key r = k
    · obtain ⟨pre, r', post, he, hk, hp⟩ := ih hx
      exact ⟨x :: pre, r', post, by simp [he], hk, hp⟩
    · obtain ⟨r, hr, hk⟩ := h
      rcases List.mem_cons.mp hr with rfl | hr'
      · refine ⟨[], r, xs, rfl, hk, ?_⟩
        intro s hs he
        exact hx ⟨s, hs, he⟩
      · exact absurd ⟨r, hr', hk⟩ hx

/-- **Once each**: the records kept by the listing have pairwise distinct keys. -/
theorem ls_keys_nodup (c : Codec R M) (rs : List R) :
    ((dedupKey c.key rs.reverse).map c.key).Nodup :=
  dedupAux_nodup c.key [] rs.reverse

/-- **Soundness**: every listed entry is what a lookup of its key returns. -/
theorem listed_sound (c : Codec R M) (rs : List R) (m : M) (hm : m ∈ listed c rs) :
    ∃ r ∈ rs, c.cls r = .live m ∧ c.findIn (c.key r) rs = some m := by
  unfold listed Codec.lsOf at hm
  obtain ⟨cl, hcl, hlive⟩ := List.mem_filterMap.mp hm
  obtain ⟨r, hr, rfl⟩ := List.mem_map.mp hcl
  obtain ⟨pre, post, he, hp⟩ := (mem_dedupKey_reverse c.key rs r).mp hr
  have hcls : c.cls r = .live m := by
    cases hc : c.cls r <;> simp [hc] at hlive
    subst hlive; rfl
  refine ⟨r, by simp [he], hcls, ?_⟩
  rw [he, c.findIn_last pre post r hp, hcls]; rfl

/-- **Completeness**: whatever a lookup finds is listed — provided no record carries an
unparsable integrity (no record written by `insert` does; a foreign record that does is skipped by
the listing while a lookup falls back to the record before it). -/
theorem listed_complete (c : Codec R M) (rs : List R) (k : Bytes) (m : M)
    (hgood : ∀ r ∈ rs, ∀ acc, (c.cls r).apply acc = (c.cls r).apply none)
    (hf : c.findIn k rs = some m) : m ∈ listed c rs := by
  by_cases hk : ∃ r ∈ rs, c.key r = k
  · obtain ⟨pre, r', post, he, hkr, hp⟩ := exists_last c.key rs k hk
    subst hkr
    rw [he, c.findIn_last pre post r' hp] at hf
    have hr'mem : r' ∈ rs := by simp [he]
    rw [hgood r' hr'mem] at hf
    have hcls : c.cls r' = .live m := by
      cases hc : c.cls r' <;> simp [hc, Cls.apply] at hf
      subst hf; rfl
    unfold listed Codec.lsOf
    apply List.mem_filterMap.mpr
    refine ⟨.live m, ?_, rfl⟩
    apply List.mem_map.mpr
    exact ⟨r', (mem_dedupKey_reverse c.key rs r').mpr ⟨pre, post, he, hp⟩, hcls⟩
  · have : c.findIn k rs = none := c.findIn_none k rs (fun s hs he => hk ⟨s, hs, he⟩)
    rw [this] at hf; cases hf

/-- A key that a lookup does not find (never written, or removed last) is not listed. -/
theorem not_listed_when_absent (c : Codec R M) (rs : List R) (m : M) (r : R) (hr : r ∈ rs)
    (hcls : c.cls r = .live m) (habs : c.findIn (c.key r) rs = none) :
    ¬ (∃ r' ∈ dedupKey c.key rs.reverse, r' = r) := by
  rintro ⟨r', hr', rfl⟩
  obtain ⟨pre, post, he, hp⟩ := (mem_dedupKey_reverse c.key rs r').mp hr'
  rw [he, c.findIn_last pre post r' hp, hcls] at habs
  cases habs

/-- Non-vacuity of `listed_complete`'s side condition: tombstones and live records satisfy it. -/
example (m : M) : ∀ acc, (Cls.live m).apply acc = (Cls.live m).apply none := fun _ => rfl
example : ∀ acc : Option M, (Cls.tomb : Cls M).apply acc = (Cls.tomb : Cls M).apply none :=
  fun _ => rfl

end Cacache.C10
