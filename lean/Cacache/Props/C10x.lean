/-
C10 (extension) — listing at program level (`Lemmas/ListRefine.lean`; that file imports
`Props/C10`, hence a module of its own, counted with C10's theorems by the check).

The listing PROGRAM (`walk` of `index-v5`, every bucket file read and decoded, newest listable
record per key, tombstones dropped) returns — up to the order of its items, which the directory
walk decides — exactly the live entries of the abstract index: one entry per key a lookup finds,
none for removed or never-written keys, each identical to what `find` returns.  Keys colliding in
one bucket (same SHA-1) are handled, not excluded.
-/
import Cacache.Lemmas.ListRefine
import Cacache.Lemmas.SpecLaws

namespace Cacache.C10x
open Prog CacheRefine ListRefine Refine

variable (cfg : Cfg) (cache : Path)

/-- **The listing program lists the abstract index** (and changes nothing): on a healthy, tidy
cache `ls` answers a list of entries with pairwise distinct keys such that `m` is listed iff the
index maps `m.key` to `m`; without an `index-v5` directory it answers the single not-found item
(pinned by the crate's own `test_list_sync`). -/
theorem listing_is_the_index (env : Env) (fs : FS) (h : Healthy cfg cache fs) (hT : Tidy cfg cache fs) :
    (run env (ls cfg cache) fs).2.1 = fs ∧
    (if fs.isDir (cache ++ [dIndex]) = true then
        ListsIndex (absIndex cfg cache fs) (run env (ls cfg cache) fs).1
      else (run env (ls cfg cache) fs).1 = [.err (.io .notFound)]) :=
  run_ls cfg cache env fs h hT

/-- **After any operation sequence** (keyed writes, reads, index inserts / removals, by-address
operations, listings, full removals, clears) from a healthy tidy cache: the listing satisfies the
specification of the final abstract state, and every lookup answers the final abstract index. -/
theorem listing_after_any_history (ops : List (Env × XOp)) (fs : FS) (h : XHealthy cfg cache fs)
    (hl : HexLen cfg) (hops : ∀ x ∈ ops, x.2.WF cfg) (env' : Env) :
    listSpec (xSpecRun cfg ops (absX cfg cache fs)).2
      (run env' (ls cfg cache) (xRunOps cfg cache ops fs).2).1 ∧
    (∀ key env'', (run env'' (find cfg cache key) (xRunOps cfg cache ops fs).2).1 =
      .ok ((xSpecRun cfg ops (absX cfg cache fs)).2.cache.index key)) :=
  let r := ls_after_ops cfg cache ops fs h hl hops env'
  ⟨r.1, r.2.1⟩

/-- **From an empty cache**: the listing is a permutation of the entries of the keys ever written
that the final abstract index still maps; keys never written are not in the index. -/
theorem listing_from_empty_cache (ops : List (Env × XOp)) (fs : FS)
    (hanc : ∀ q, q ≠ [] → q <+: cache → NoneOrDir fs q)
    (hbelow : ∀ q, cache <+: q → q ≠ cache → fs.get q = none)
    (hl : HexLen cfg) (hops : ∀ x ∈ ops, x.2.WF cfg) (env' : Env) :
    (if (xSpecRun cfg ops (absX cfg cache fs)).2.indexDir = true then
      ((run env' (ls cfg cache) (xRunOps cfg cache ops fs).2).1).Perm
        (((writtenKeys ops).eraseDups.filterMap (xSpecRun cfg ops (absX cfg cache fs)).2.cache.index).map
          LsItem.entry)
    else (run env' (ls cfg cache) (xRunOps cfg cache ops fs).2).1 = [.err (.io .notFound)]) ∧
    (∀ k, k ∉ writtenKeys ops → (xSpecRun cfg ops (absX cfg cache fs)).2.cache.index k = none) :=
  ls_from_empty cfg cache ops fs hanc hbelow hl hops env'

/-- **A listing never changes what the cache holds** — for whole histories: delete every listing
(and every keyed read, lookup, by-address read, `exists`) from any history of writes, removals, full
removals and `clear`, and the final abstract state — entries, contents, bucket files, directories —
is the same (`Lemmas/SpecLaws.lean`).  Listing is an observation, cold or warm, wherever placed. -/
theorem listing_does_not_mutate_any_history (ops : List (Env × XOp)) (fs : FS) (h : XHealthy cfg cache fs)
    (hl : HexLen cfg) (hops : ∀ x ∈ ops, x.2.WF cfg) :
    absX cfg cache (xRunOps cfg cache (ops.filter (fun x => !SpecLaws.isReadX x.2)) fs).2 =
      absX cfg cache (xRunOps cfg cache ops fs).2 :=
  SpecLaws.listings_invisible cfg cache ops fs h hl hops

/-- What is deleted, on a concrete history (a test of the definition): the listing goes, `clear` stays. -/
example (env : Env) :
    [(env, XOp.list), (env, XOp.clear)].filter (fun x => !SpecLaws.isReadX x.2) = [(env, XOp.clear)] := rfl

end Cacache.C10x
