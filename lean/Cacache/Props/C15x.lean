/-
C15 (extension) — "reads do not mutate", for whole histories (`Lemmas/SpecLaws.lean`; counted with
C15's theorems by the check).
-/
import Cacache.Lemmas.SpecLaws

namespace Cacache.C15x
open Prog CacheRefine ListRefine Refine SpecLaws

variable (cfg : Cfg) (cache : Path)

/-- **Reads are invisible in every history**: delete every keyed read, lookup, by-address read and
`exists` from any sequence of cache operations on a healthy cache — every remaining operation
answers exactly what it answered in the full history and the final abstract cache (key → entry,
address → bytes) is the same.  Wherever a read is placed and whatever it asks for (a missing key, a
damaged address, an unusable integrity), it changes nothing any later call can see. -/
theorem reads_do_not_mutate_any_history (ops : List (Env × COp)) (fs : FS) (h : Healthy cfg cache fs)
    (hl : HexLen cfg) (hops : ∀ x ∈ ops, x.2.WF cfg) :
    (cRunOps cfg cache (ops.filter (fun x => !isRead x.2)) fs).1 =
      writeAnswers ops (cRunOps cfg cache ops fs).1 ∧
    absCache cfg cache (cRunOps cfg cache (ops.filter (fun x => !isRead x.2)) fs).2 =
      absCache cfg cache (cRunOps cfg cache ops fs).2 :=
  reads_invisible cfg cache ops fs h hl hops

/-- What "the remaining operations" and "their answers" mean on a concrete history (a test of the
definitions, not of the theorem): the read and the lookup go, the removal stays. -/
example (env : Env) (k : Bytes) (a b c : COut) :
    ([(env, COp.get k), (env, COp.index (.del k)), (env, COp.index (.look k))].filter
        (fun x => !isRead x.2) = [(env, COp.index (.del k))]) ∧
    writeAnswers [(env, COp.get k), (env, COp.index (.del k)), (env, COp.index (.look k))] [a, b, c] = [b] :=
  ⟨rfl, rfl⟩

end Cacache.C15x
