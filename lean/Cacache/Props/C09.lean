/-
C09 — removals remove exactly what they name and nothing else.
-/
import Cacache.Lemmas.Stream
import Cacache.Props.C04
import Cacache.Props.C05
import Cacache.Lemmas.CodecLaws

namespace Cacache.C09
open Prog

variable (cfg : Cfg) (env : Env) (cache : Path)

/-! ### remove (by key) -/

/-- Removing a key only ever aims at the index area: the content stays retrievable by address —
every content path is unchanged, in the healthy run, at every kill point, under every fault. -/
theorem remove_leaves_content (key : Bytes) (fs : FS) (q : Path) (hq : InArea cache dContent q)
    (n t : Nat) (plan : Nat → Option Fault) :
    (run env (insert cfg cache key {}) fs).2.1.get q = fs.get q ∧
    (crash env (insert cfg cache key {}) fs n t).get q = fs.get q ∧
    (runFault env plan (insert cfg cache key {}) fs 0).2.1.get q = fs.get q := by
  have hav : AllCalls (Call.avoids q) (insert cfg cache key {}) :=
    (insert_areas cfg cache key {}).mono (fun c hc => hc.avoids hq (by decide)) (fun _ h => h)
  exact ⟨AllCalls.frame_run hav env fs, AllCalls.frame_crash hav env fs n t,
    AllCalls.frame_fault hav env plan fs 0⟩

/-- A successful removal appends exactly one tombstone record for the key. -/
theorem remove_appends_tombstone (key : Bytes) (b0 : Bytes) (fs : FS)
    (hb : BucketIs fs (bucketPath cfg cache key) b0) (s : Integrity)
    (hr : (run env (insert cfg cache key {}) fs).1 = .ok s) :
    ∃ tm, (run env (insert cfg cache key {}) fs).2.1.get (bucketPath cfg cache key) =
      some (.file (b0 ++ (codec cfg).frame (mkRec key {} tm))) := by
  obtain ⟨tm, _, h, _⟩ := (wpD_run (insert_bucket_wp cfg env cache key {} b0 hb)).2 s hr
  exact ⟨tm, h⟩

/-- … after which the key — and only that key — is not found. -/
theorem removed_key_absent {W : Rec → Prop} (L : (codec cfg).Laws W) (key : Bytes) (b0 : Bytes) (tm : Nat)
    (hW : W (mkRec key {} tm)) :
    (codec cfg).find (b0 ++ (codec cfg).frame (mkRec key {} tm)) key = none := by
  have hcls : (codec cfg).cls (mkRec key {} tm) = .tomb := rfl
  have hk : (codec cfg).key (mkRec key {} tm) = key := rfl
  have := C05.lookup_absent_after_removal (codec cfg) L b0 [] [] (mkRec key {} tm) (by simpa using hW) hcls (by simp)
  rw [hk] at this
  simpa [Codec.appendAll] using this

theorem other_keys_unaffected {W : Rec → Prop} (L : C04.TornLaws (codec cfg) W) (key k' : Bytes)
    (b0 : Bytes) (tm : Nat) (hW : W (mkRec key {} tm)) (hs : (codec cfg).Settled b0) (hne : key ≠ k') :
    (codec cfg).find (b0 ++ (codec cfg).frame (mkRec key {} tm)) k' = (codec cfg).find b0 k' := by
  have := C04.torn_lookup_other_key (codec cfg) L b0 hs (mkRec key {} tm) hW
    ((codec cfg).frame (mkRec key {} tm)).length k' (by exact hne)
  simpa using this

/-- Buckets of other keys (different SHA-1) are not even touched. -/
theorem other_buckets_untouched (key : Bytes) (o : WriteOpts) (q : Path)
    (hq : InArea cache dIndex q) (hlen : q.length = cache.length + 4)
    (hne : q ≠ bucketPath cfg cache key) (fs : FS) :
    (run env (insert cfg cache key o) fs).2.1.get q = fs.get q := by
  have hav : AllCalls (Call.avoids q) (insert cfg cache key o) := by
    unfold insert getTime appendRec
    repeat' ac_step
    all_goals first
      | (intro fs ht; simp only [Call.touches] at ht; done)
      | (intro fs ht; simp only [Call.touches] at ht; exact hne ht)
      | (intro fs ht; simp only [Call.touches] at ht
         have h1 := ht.length_le
         have h2 : (FS.parent (bucketPath cfg cache key)).length = cache.length + 3 := by
           simp [bucketPath, FS.parent]
         rw [h2, hlen] at h1; omega)
  exact AllCalls.frame_run hav env fs

/-! ### remove_hash (by address) -/

/-- Removing an address aims one mutating call at exactly that content path: every other content
file and the whole index are untouched. -/
theorem removeHash_only_that (sri : Integrity) (cpath : Path) (hc : contentPath cache sri = some cpath)
    (q : Path) (hq : q ≠ cpath) (fs : FS) (n t : Nat) :
    (run env (removeHash cache sri) fs).2.1.get q = fs.get q ∧
    (crash env (removeHash cache sri) fs n t).get q = fs.get q := by
  have hav : AllCalls (Call.avoids q) (removeHash cache sri) := by
    unfold removeHash
    rw [hc]
    repeat' ac_step
    intro fs ht; simp only [Call.touches] at ht; exact hq ht
  exact ⟨AllCalls.frame_run hav env fs, AllCalls.frame_crash hav env fs n t⟩

/-- … and on success that content is absent. -/
theorem removeHash_removes (sri : Integrity) (cpath : Path) (hc : contentPath cache sri = some cpath)
    (fs : FS) (hr : (run env (removeHash cache sri) fs).1 = .ok ()) :
    (run env (removeHash cache sri) fs).2.1.get cpath = none := by
  unfold removeHash at hr ⊢
  rw [hc] at hr ⊢
  simp only [bind_eq, pure_eq, call, bind_sys, bind_done, run, exec] at hr ⊢
  cases hg : fs.get cpath with
  | none => simp [hg, run] at hr
  | some nd =>
    cases nd with
    | file b => simp [hg, run]
    | link t => simp [hg, run]
    | dir => simp [hg, run] at hr

/-! ### remove_fully -/

/-- A full removal leaves every path outside the content area, other than the key's bucket file,
as it was.  (This statement exempts the WHOLE content area.  That within it only the content path
of the entry the lookup found can change — healthy and under every fault plan — is
`C09x.removeFully_changes_only`.) -/
theorem removeFully_targets (key : Bytes) (q : Path) (hb : q ≠ bucketPath cfg cache key)
    (hcontent : ¬ InArea cache dContent q) (fs : FS) :
    (run env (removeFully cfg cache key) fs).2.1.get q = fs.get q := by
  have hav : AllCalls (Call.avoids q) (removeFully cfg cache key) := by
    unfold removeFully
    simp only [bind_eq, pure_eq]
    apply AllCallsR.bind ((find_ro cfg cache key).mono
      (fun c hc fs ht => by cases c <;> simp [ReadOnly, Call.mutating] at hc <;> simp [Call.touches] at ht)
      (fun _ h => h))
    intro r _
    split
    · trivial
    · split
      · rename_i m
        unfold removeHash
        split
        · repeat' ac_step
          all_goals (intro fs ht; simp only [Call.touches] at ht; exact hb ht)
        · rename_i cpath hcp
          repeat' ac_step
          all_goals (
            intro fs ht; simp only [Call.touches] at ht
            first
              | exact hb ht
              | (subst ht; exact hcontent (inArea_contentPath hcp)))
      · repeat' ac_step
        intro fs ht; simp only [Call.touches] at ht; exact hb ht
  exact AllCalls.frame_run hav env fs

/-! ### clear -/

/-- Clearing removes everything below each child of the cache directory. -/
theorem delAll_removes (fs : FS) (ps : List Path) (q : Path) (hm : q ∈ ps) :
    (fs.delAll ps).get q = none := by
  unfold FS.delAll
  have stay : ∀ (l : List Path) (f : FS), f.get q = none → (l.foldl FS.del f).get q = none := by
    intro l
    induction l with
    | nil => intro f h; exact h
    | cons y ys ihy => intro f h; exact ihy _ (by rw [FS.get_del]; split <;> simp [h])
  induction ps generalizing fs with
  | nil => cases hm
  | cons x xs ih =>
    simp only [List.foldl_cons]
    by_cases hx : q = x
    · subst hx; exact stay xs _ (by simp)
    · rcases List.mem_cons.mp hm with h | h
      · exact absurd h hx
      · exact ih _ h

theorem removeTree_removes (fs : FS) (p q : Path) (hd : fs.get p = some .dir)
    (hq : q = p ∨ q ∈ fs.below p) : (exec env fs (.removeTree p)).1.get q = none := by
  simp only [exec, hd]
  apply delAll_removes
  rcases hq with rfl | h
  · simp
  · simp [h]

/-- … and leaves a usable cache: clearing aims only inside the cache directory (C15) and a write
afterwards runs the normal write program (which recreates `tmp`, `content-v2`, `index-v5`). -/
theorem clear_confined : AllCalls (Call.within [cache]) (clear cache) := clear_within cache

/-! ### the concrete codec -/

/-- After a removal's tombstone the key is absent — cacache's own format, any hash function. -/
theorem removed_key_absent_cacache (key : Bytes) (hk : Json.utf8Valid key = true) (b0 : Bytes) (tm : Nat)
    (htm : tm ≤ timeMax) :
    (codec cfg).find (b0 ++ (codec cfg).frame (mkRec key {} tm)) key = none :=
  removed_key_absent cfg (codec_laws cfg) key b0 tm (mkRec_wf key {} tm (optsWF_default hk) htm)

/-- … and every other key is found exactly as before. -/
theorem other_keys_unaffected_cacache (key k' : Bytes) (hk : Json.utf8Valid key = true) (b0 : Bytes)
    (tm : Nat) (htm : tm ≤ timeMax) (hs : (codec cfg).Settled b0) (hne : key ≠ k') :
    (codec cfg).find (b0 ++ (codec cfg).frame (mkRec key {} tm)) k' = (codec cfg).find b0 k' :=
  other_keys_unaffected cfg (codec_tornLaws cfg) key k' b0 tm
    (mkRec_wf key {} tm (optsWF_default hk) htm) hs hne

end Cacache.C09
