/-
C04 (extension) — crash anywhere, then carry on: recoverability at the level of the whole cache.

`Lemmas/CrashRefine.lean` connects the per-operation crash theorems of `Props/C04.lean` with the
refinement of operation sequences (`Lemmas/CacheRefine.lean`): a process kill on entry to ANY call
of ANY operation, with the in-flight call torn at ANY length, leaves a healthy cache whose abstract
state (key ↦ entry, address ↦ bytes) is the old one, the new one, or — for a keyed write — the old
index over a store that already holds the new content; and every later operation sequence answers
exactly as the abstract map says from that state.  (This file exists because `CrashRefine` imports
`Props/C04`; the check counts its theorems with C04's.)
-/
import Cacache.Lemmas.CrashRefine
import Cacache.Lemmas.CrashMore

namespace Cacache.C04x
open Prog CacheRefine CrashRefine

variable (cfg : Cfg) (cache : Path)

/-- **Old, new, or published-but-not-yet-indexed — and healthy** (every operation, every kill point). -/
theorem crash_leaves_admissible_state (env : Env) (op : COp) (fs : FS) (h : Healthy cfg cache fs)
    (hl : HexLen cfg) (hop : op.WF cfg) (n t : Nat) :
    Healthy cfg cache (crashOp cfg cache env op fs n t) ∧
    Admissible cfg (absCache cfg cache fs) op (absCache cfg cache (crashOp cfg cache env op fs n t)) :=
  crashOp_admissible cfg cache env op fs h hl hop n t

/-- **All-or-nothing for the interrupted key**: after a keyed write killed anywhere, reading the
key answers exactly as before the write, or returns exactly the new data — never an error caused
by a half-made entry (side condition: the key's old entry does not already point at the new
data's address, in which case "old" and "new" coincide up to the digest). -/
theorem read_after_crashed_write (env env' : Env) (fl : Flavour) (key : Bytes) (o : WriteOpts)
    (chunks : List Bytes) (fs : FS) (h : Healthy cfg cache fs) (hl : HexLen cfg)
    (hw : PutWF key o chunks) (n t : Nat)
    (hne : ∀ e, Refine.absIndex cfg cache fs key = some e →
      addrOf e.sri ≠ some (o.algo.getD .sha256, Bytes.hex (cfg.H (o.algo.getD .sha256) chunks.flatten))) :
    (run env' (read cfg cache key) (crash env (writeStream cfg cache fl (some key) o chunks) fs n t)).1 =
      (run env' (read cfg cache key) fs).1 ∨
    (run env' (read cfg cache key) (crash env (writeStream cfg cache fl (some key) o chunks) fs n t)).1 =
      .ok chunks.flatten :=
  get_after_crashed_put_old_or_new cfg cache env env' fl key o chunks fs h hl hw n t hne

/-- **Every other key keeps its value; later writes to the same key succeed and become visible**:
after any crashed operation, `write` of any key (also the interrupted one) answers ok, reads back
exactly its data, and leaves a healthy cache without temp files of its own. -/
theorem write_after_any_crash (env env1 env2 : Env) (op : COp) (fs : FS) (h : Healthy cfg cache fs)
    (hl : HexLen cfg) (hop : op.WF cfg) (n t : Nat) (fl : Flavour) (a : Algo) (key data : Bytes)
    (hk : Json.utf8Valid key = true) (hd : data.length ≤ Rec.u64Max) :
    (run env1 (write cfg fl cache a key data) (crashOp cfg cache env op fs n t)).1 = .ok (Sri.compute cfg.H a data) ∧
    (run env2 (read cfg cache key)
      (run env1 (write cfg fl cache a key data) (crashOp cfg cache env op fs n t)).2.1).1 = .ok data ∧
    Healthy cfg cache (run env1 (write cfg fl cache a key data) (crashOp cfg cache env op fs n t)).2.1 :=
  let r := write_after_crash cfg cache env env1 env2 op fs h hl hop n t fl a key data hk hd
  ⟨r.1, r.2.1, r.2.2.1⟩

/-- **The cache stays fully usable**: operations `pre`, then `op` killed at `(n, t)`, then any
operations `post` — `post` answers exactly what the abstract specification answers from one of the
admissible states, and the cache is healthy at the end. -/
theorem crash_then_continue (pre post : List (Env × COp)) (env : Env) (op : COp) (fs : FS)
    (h : Healthy cfg cache fs) (hl : HexLen cfg) (hpre : ∀ x ∈ pre, x.2.WF cfg) (hop : op.WF cfg)
    (hpost : ∀ x ∈ post, x.2.WF cfg) (n t : Nat) :
    ∃ m', Admissible cfg (cSpecRun cfg pre (absCache cfg cache fs)).2 op m' ∧
      (cRunOps cfg cache post (crashOp cfg cache env op (cRunOps cfg cache pre fs).2 n t)).1 =
        (cSpecRun cfg post m').1 ∧
      Healthy cfg cache (cRunOps cfg cache post (crashOp cfg cache env op (cRunOps cfg cache pre fs).2 n t)).2 := by
  obtain ⟨m', h1, _, _, _, h5, _, h7⟩ := crash_then_post cfg cache pre post env op fs h hl hpre hop hpost n t
  exact ⟨m', h1, h5, h7⟩

/-! ### removals, clear and the link commit killed anywhere (Lemmas/CrashMore)

"If the process is killed at any point during a keyed write OR A REMOVAL …": the operations outside
`COp` - `remove_fully`, `clear` (for every order of the directory's children) and the `link_to`
commit.  `remove_fully` has ONE intermediate state - content gone, entry still there (dangling): the
documented two-step nature of a bulk deletion; a retry completes it. -/

open ListRefine FaultMore CrashMore Refine Json in
/-- **`remove_fully` killed anywhere** (every call, every tear): the cache is healthy, nothing is
created or altered (only the bucket and the entry's content can be gone), keys of other bucket files
look up as before, the key itself (and keys sharing its bucket) as before or not at all - never a
third entry -, and a later write of any key succeeds, reads back and leaves a healthy cache. -/
theorem removeFully_crash (env : Env) (key : Bytes) (fs : FS) (h : Healthy cfg cache fs) (n t : Nat) :
    Healthy cfg cache (crash env (removeFully cfg cache key) fs n t) ∧
    SubFS fs (crash env (removeFully cfg cache key) fs n t) ∧
    (∃ cps, entryContent cfg cache env key fs cps ∧
      Removed fs (crash env (removeFully cfg cache key) fs n t) (bucketPath cfg cache key :: cps)) ∧
    (∀ k, ¬ SameBucket cfg k key → ∀ env',
      (run env' (find cfg cache k) (crash env (removeFully cfg cache key) fs n t)).1 =
        (run env' (find cfg cache k) fs).1) ∧
    (∀ k, SameBucket cfg k key → ∀ env',
      (run env' (find cfg cache k) (crash env (removeFully cfg cache key) fs n t)).1 =
        (run env' (find cfg cache k) fs).1 ∨
      (run env' (find cfg cache k) (crash env (removeFully cfg cache key) fs n t)).1 = .ok none) ∧
    (HexLen cfg → ∀ env1 env2 fl a k data, utf8Valid k = true → data.length ≤ Rec.u64Max →
      (run env1 (write cfg fl cache a k data) (crash env (removeFully cfg cache key) fs n t)).1 =
        .ok (Sri.compute cfg.H a data) ∧
      (run env2 (read cfg cache k)
        (run env1 (write cfg fl cache a k data) (crash env (removeFully cfg cache key) fs n t)).2.1).1 =
          .ok data ∧
      Healthy cfg cache
        (run env1 (write cfg fl cache a k data) (crash env (removeFully cfg cache key) fs n t)).2.1) :=
  CrashMore.removeFully_crash cfg cache env key fs h n t

open ListRefine FaultMore CrashMore Refine Json in
/-- **… old, dangling or new - and a retry completes the removal**: abstractly the crashed state is
one of three, and `remove_fully` run again on it ends exactly where an uninterrupted removal ends. -/
theorem removeFully_retry_completes (env env' : Env) (key : Bytes) (fs : FS) (h : Healthy cfg cache fs)
    (hl : HexLen cfg) (hT : Tidy cfg cache fs) (n t : Nat) :
    AdmissibleRF cfg (absX cfg cache fs) key (absX cfg cache (crash env (removeFully cfg cache key) fs n t)) ∧
    (run env' (removeFully cfg cache key) (crash env (removeFully cfg cache key) fs n t)).1 =
      (removeFullySpec cfg (absX cfg cache (crash env (removeFully cfg cache key) fs n t)) key).2 ∧
    absX cfg cache (run env' (removeFully cfg cache key) (crash env (removeFully cfg cache key) fs n t)).2.1 =
      (removeFullySpec cfg (absX cfg cache fs) key).1 ∧
    XHealthy cfg cache
      (run env' (removeFully cfg cache key) (crash env (removeFully cfg cache key) fs n t)).2.1 :=
  ⟨(CrashMore.removeFully_crash_states cfg cache env key fs h hl hT n t).2,
   CrashMore.removeFully_retry_completes cfg cache env env' key fs h hl hT n t⟩

open ListRefine FaultMore CrashMore Refine Json in
/-- **`clear` killed anywhere, for every order of the directory's children** (a `remove_dir_all` torn
after any part of a tree included): a sub-filesystem, nothing outside the cache directory touched,
healthy; each child of the cache directory is untouched or gone with everything below it; a later
`clear` empties the cache, a later write succeeds and reads back. -/
theorem clear_crash (σ : List (Path × Bool) → List (Path × Bool)) (hσ : ∀ es e, e ∈ σ es → e ∈ es)
    (env : Env) (fs : FS) (hH : Healthy cfg cache fs) (hT : Tidy cfg cache fs) (n t : Nat) :
    (SubFS fs (crash env (clearIn σ cache) fs n t) ∧
     (∀ q, (¬ cache <+: q ∨ q = cache) → (crash env (clearIn σ cache) fs n t).get q = fs.get q) ∧
     Healthy cfg cache (crash env (clearIn σ cache) fs n t) ∧
     (HexLen cfg → ∀ env1 env2 fl a k data, utf8Valid k = true → data.length ≤ Rec.u64Max →
       (run env1 (write cfg fl cache a k data) (crash env (clearIn σ cache) fs n t)).1 =
         .ok (Sri.compute cfg.H a data) ∧
       (run env2 (read cfg cache k)
         (run env1 (write cfg fl cache a k data) (crash env (clearIn σ cache) fs n t)).2.1).1 = .ok data ∧
       Healthy cfg cache (run env1 (write cfg fl cache a k data) (crash env (clearIn σ cache) fs n t)).2.1)) ∧
    (ClearedTo cache fs (crash env (clearIn σ cache) fs n t) ∧
     XHealthy cfg cache (crash env (clearIn σ cache) fs n t) ∧
     (crash env (clearIn σ cache) fs n t).isDir cache = fs.isDir cache ∧
     (fs.isDir cache = true → ∀ env',
       (run env' (clear cache) (crash env (clearIn σ cache) fs n t)).1 = .ok () ∧
       (∀ q, cache <+: q → q ≠ cache →
         (run env' (clear cache) (crash env (clearIn σ cache) fs n t)).2.1.get q = none) ∧
       XHealthy cfg cache (run env' (clear cache) (crash env (clearIn σ cache) fs n t)).2.1 ∧
       absCache cfg cache (run env' (clear cache) (crash env (clearIn σ cache) fs n t)).2.1 =
         AbsCache.empty)) :=
  ⟨CrashMore.clearIn_crash cfg cache σ hσ env fs hH n t, CrashMore.clearIn_crash_tidy cfg cache σ hσ env fs hH hT n t⟩

open ListRefine FaultMore CrashMore Refine Json LinkRefine LinkDecl in
/-- **The link commit killed anywhere** (by address and keyed, with or without declarations; `Healthy`
of everything but the node at the address covers the four situations there): the address holds the old
node or the new link - a regular file is never replaced, a half-made node never appears (the repair
path leaves at most a temp link in `cache/tmp`) -, every other existing node outside `cache/tmp` and
the key's bucket - the TARGET in particular - is unchanged, the index is healthy and maps as before or
has exactly the one new entry, in which case the address holds what the completed link phase puts there. -/
theorem lcommit_crash (env : Env) (l : Linker) (cpath : Path)
    (hcp : contentPath l.cache (Sri.compute cfg.H l.algo l.data) = some cpath) (fs : FS)
    (h : Healthy cfg l.cache (fs.del cpath))
    (hw : ∀ k rec, l.key = some k →
      declCheck l.opts l.data.length (Sri.compute cfg.H l.algo l.data) = .ok rec →
      OptsWF k (declOpts l rec) ∧ SriOK cfg (declOpts l rec)) (n t : Nat) :
    Healthy cfg l.cache ((crash env (lcommit cfg l) fs n t).del cpath) ∧
    HealthyIndex cfg l.cache (crash env (lcommit cfg l) fs n t) ∧
    ((crash env (lcommit cfg l) fs n t).get cpath = fs.get cpath ∨
      ((crash env (lcommit cfg l) fs n t).get cpath = some (.link l.target) ∧
        ∀ x, fs.get cpath ≠ some (.file x))) ∧
    (∀ q x, fs.get q = some x → ¬ IsTmp l.cache q → q ≠ cpath →
      (∀ k, l.key = some k → q ≠ bucketPath cfg l.cache k) →
      (crash env (lcommit cfg l) fs n t).get q = some x) ∧
    absStore l.cache ((crash env (lcommit cfg l) fs n t).del cpath) = absStore l.cache (fs.del cpath) ∧
    (absIndex cfg l.cache (crash env (lcommit cfg l) fs n t) = absIndex cfg l.cache fs ∨
      ∃ k rec tm, l.key = some k ∧
        declCheck l.opts l.data.length (Sri.compute cfg.H l.algo l.data) = .ok rec ∧
        tm ≤ timeMax ∧ (∀ t', l.opts.time = some t' → tm = t') ∧
        absIndex cfg l.cache (crash env (lcommit cfg l) fs n t) =
          insIndex (absIndex cfg l.cache fs) k (declOpts l rec) tm ∧
        (crash env (lcommit cfg l) fs n t).get cpath = (run env (lcommit cfg (bare l)) fs).2.1.get cpath) :=
  CrashMore.lcommit_crash cfg env l cpath hcp fs h hw n t

open ListRefine FaultMore CrashMore Refine Json in
/-- **Any history, one `remove_fully` or `clear` killed anywhere, any history afterwards**: every answer
of `post` is what the abstract cache gives from an admissible state (old / dangling / new for
`remove_fully`; any sub-state for `clear`), and the cache is healthy and tidy throughout. -/
theorem crash_then_continue_ext (pre post : List (Env × XOp)) (env : Env) (op : MOp) (fs : FS)
    (h : XHealthy cfg cache fs) (hl : HexLen cfg) (hpre : ∀ x ∈ pre, x.2.WF cfg) (hop : op.WF)
    (hpost : ∀ x ∈ post, x.2.WF cfg) (n t : Nat) :
    ∃ m', AdmissibleM cfg (xSpecRun cfg pre (absX cfg cache fs)).2 op m' ∧
      XHealthy cfg cache (crashM cfg cache env op (xRunOps cfg cache pre fs).2 n t) ∧
      absX cfg cache (crashM cfg cache env op (xRunOps cfg cache pre fs).2 n t) = m' ∧
      Answers (xRunOps cfg cache pre fs).1 (xSpecRun cfg pre (absX cfg cache fs)).1 ∧
      Answers (xRunOps cfg cache post (crashM cfg cache env op (xRunOps cfg cache pre fs).2 n t)).1
        (xSpecRun cfg post m').1 ∧
      absX cfg cache (xRunOps cfg cache post (crashM cfg cache env op (xRunOps cfg cache pre fs).2 n t)).2 =
        (xSpecRun cfg post m').2 ∧
      XHealthy cfg cache (xRunOps cfg cache post (crashM cfg cache env op (xRunOps cfg cache pre fs).2 n t)).2 :=
  CrashMore.crash_then_continue_ext cfg cache pre post env op fs h hl hpre hop hpost n t

end Cacache.C04x
