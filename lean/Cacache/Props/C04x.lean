/-
C04 (extension) — crash anywhere, then carry on: recoverability at the level of the whole cache.

`Lemmas/CrashRefine.lean` connects the per-operation crash theorems of `Props/C04.lean` with the
refinement of operation sequences (`Lemmas/CacheRefine.lean`): a process kill on entry to ANY call
of ANY operation, with the in-flight call torn at ANY length, leaves a healthy cache whose abstract
state (key ↦ entry, address ↦ bytes) is the old one, the new one, or — for a keyed write — the old
index over a store that already holds the new content; and every later operation sequence answers
exactly as the abstract map says from that state.  (This file exists because `CrashRefine` imports
`Props/C04`; the check counts its theorems with C04's.)
-/
import Cacache.Lemmas.CrashRefine

namespace Cacache.C04x
open Prog CacheRefine CrashRefine

variable (cfg : Cfg) (cache : Path)

/-- **Old, new, or published-but-not-yet-indexed — and healthy** (every operation, every kill point). -/
theorem crash_leaves_admissible_state (env : Env) (op : COp) (fs : FS) (h : Healthy cfg cache fs)
    (hl : HexLen cfg) (hop : op.WF cfg) (n t : Nat) :
    Healthy cfg cache (crashOp cfg cache env op fs n t) ∧
    Admissible cfg (absCache cfg cache fs) op (absCache cfg cache (crashOp cfg cache env op fs n t)) :=
  crashOp_admissible cfg cache env op fs h hl hop n t

/-- **All-or-nothing for the interrupted key**: after a keyed write killed anywhere, reading the
key answers exactly as before the write, or returns exactly the new data — never an error caused
by a half-made entry (side condition: the key's old entry does not already point at the new
data's address, in which case "old" and "new" coincide up to the digest). -/
theorem read_after_crashed_write (env env' : Env) (fl : Flavour) (key : Bytes) (o : WriteOpts)
    (chunks : List Bytes) (fs : FS) (h : Healthy cfg cache fs) (hl : HexLen cfg)
    (hw : PutWF key o chunks) (n t : Nat)
    (hne : ∀ e, Refine.absIndex cfg cache fs key = some e →
      addrOf e.sri ≠ some (o.algo.getD .sha256, Bytes.hex (cfg.H (o.algo.getD .sha256) chunks.flatten))) :
    (run env' (read cfg cache key) (crash env (writeStream cfg cache fl (some key) o chunks) fs n t)).1 =
      (run env' (read cfg cache key) fs).1 ∨
    (run env' (read cfg cache key) (crash env (writeStream cfg cache fl (some key) o chunks) fs n t)).1 =
      .ok chunks.flatten :=
  get_after_crashed_put_old_or_new cfg cache env env' fl key o chunks fs h hl hw n t hne

/-- **Every other key keeps its value; later writes to the same key succeed and become visible**:
after any crashed operation, `write` of any key (also the interrupted one) answers ok, reads back
exactly its data, and leaves a healthy cache without temp files of its own. -/
theorem write_after_any_crash (env env1 env2 : Env) (op : COp) (fs : FS) (h : Healthy cfg cache fs)
    (hl : HexLen cfg) (hop : op.WF cfg) (n t : Nat) (fl : Flavour) (a : Algo) (key data : Bytes)
    (hk : Json.utf8Valid key = true) (hd : data.length ≤ Rec.u64Max) :
    (run env1 (write cfg fl cache a key data) (crashOp cfg cache env op fs n t)).1 = .ok (Sri.compute cfg.H a data) ∧
    (run env2 (read cfg cache key)
      (run env1 (write cfg fl cache a key data) (crashOp cfg cache env op fs n t)).2.1).1 = .ok data ∧
    Healthy cfg cache (run env1 (write cfg fl cache a key data) (crashOp cfg cache env op fs n t)).2.1 :=
  let r := write_after_crash cfg cache env env1 env2 op fs h hl hop n t fl a key data hk hd
  ⟨r.1, r.2.1, r.2.2.1⟩

/-- **The cache stays fully usable**: operations `pre`, then `op` killed at `(n, t)`, then any
operations `post` — `post` answers exactly what the abstract specification answers from one of the
admissible states, and the cache is healthy at the end. -/
theorem crash_then_continue (pre post : List (Env × COp)) (env : Env) (op : COp) (fs : FS)
    (h : Healthy cfg cache fs) (hl : HexLen cfg) (hpre : ∀ x ∈ pre, x.2.WF cfg) (hop : op.WF cfg)
    (hpost : ∀ x ∈ post, x.2.WF cfg) (n t : Nat) :
    ∃ m', Admissible cfg (cSpecRun cfg pre (absCache cfg cache fs)).2 op m' ∧
      (cRunOps cfg cache post (crashOp cfg cache env op (cRunOps cfg cache pre fs).2 n t)).1 =
        (cSpecRun cfg post m').1 ∧
      Healthy cfg cache (cRunOps cfg cache post (crashOp cfg cache env op (cRunOps cfg cache pre fs).2 n t)).2 := by
  obtain ⟨m', h1, _, _, _, h5, _, h7⟩ := crash_then_post cfg cache pre post env op fs h hl hpre hop hpost n t
  exact ⟨m', h1, h5, h7⟩

end Cacache.C04x
