/-
C19 — linked entries (link_to) read back verified target bytes, never copy or clobber.
-/
import Cacache.Lemmas.ReadBack
import Cacache.Props.C01
import Cacache.Props.C15
import Cacache.Lemmas.LinkRefine

namespace Cacache.C19
open Prog

variable (cfg : Cfg) (env : Env) (cache : Path)

/-- **The target is never modified**: every mutating call of a link commit is aimed inside the
cache directory — whatever the calls answer — so a target outside the cache is not among them. -/
theorem target_untouched (l : Linker) (tp : Path) (hout : ¬ l.cache <+: tp) (fs : FS)
    (plan : Nat → Option Fault) :
    ∀ c ∈ (runFault env plan (lcommit cfg l) fs 0).2.2, tp ∉ c.targets := by
  intro c hc hin
  have hw := AllCalls.traceFault (C15.linkTo_confined cfg l) env plan fs 0 c hc
  obtain ⟨root, hr, hp⟩ := hw tp hin
  simp only [List.mem_singleton] at hr
  subst hr
  exact hout hp

/-- **The link is made absolute**: whatever form the caller used, the link text written into the
cache is the absolute path of the target as seen from the calling process (so a relative target
keeps pointing at the file the caller named — the pre-repair code stored the text as given). -/
theorem link_text_absolute (cache : Path) (key : Option Bytes) (t : Target) (o : WriteOpts) (fs : FS)
    (l : Linker) (h : (run env (lopen cache key t o) fs).1 = .ok l) :
    l.target = .abs (targetFromCwd t) ∧ l.cache = cache ∧
      fs.readFile (targetFromCwd t) = .ok l.data := by
  unfold lopen at h
  simp only [bind_eq, pure_eq, call, bind_sys, bind_done, run, exec] at h
  cases hr : fs.readFile (targetFromCwd t) with
  | error e => simp [hr, run] at h
  | ok b =>
    simp only [hr, run] at h
    cases h
    exact ⟨rfl, rfl, rfl⟩

/-- Calls that could duplicate file data into the cache. -/
def copies : Call → Bool
  | .copyFile _ _ | .rename _ _ | .hardLink _ _ | .reflink _ _ | .writeAt _ _ _ | .mkTemp _ => true
  | _ => false

/-- **No copy**: a link commit never issues a call that could place the target's data into the
cache (no copy, rename, hard link, reflink, temp file or content write): its only creating calls are
`create_dir_all`, `symlink` and the index append. -/
theorem no_copy (l : Linker) : AllCalls (fun c => copies c = false) (lcommit cfg l) := by
  unfold lcommit insert getTime appendRec
  repeat' ac_step
  all_goals first | rfl | trivial

/-- **Reads through a link are verified like any other read** (C01): whatever the target holds
now — changed, truncated, replaced, removed — a read by the linked address answers an error or
bytes that pass the check of that address. -/
theorem linked_read_sound (fs : FS) (sri : Integrity) (b : Bytes) (plan : Nat → Option Fault)
    (h : (runFault env plan (readHash cfg cache sri) fs 0).1 = .ok b) : C01.Passes cfg sri b :=
  (C01.readHash_sound_run cfg env fs plan cache sri b).2 h

/-- Reading follows the link: if the content path is a symlink to a regular file, `read_hash`
sees that file's bytes. -/
theorem read_follows_link (fs : FS) (cpath tp : Path) (b : Bytes)
    (hl : fs.get cpath = some (.link (.abs tp))) (ht : fs.get tp = some (.file b)) (htp : tp ≠ []) :
    fs.readFile cpath = .ok b := by
  cases tp with
  | nil => exact absurd rfl htp
  | cons x xs => simp [FS.readFile, FS.resolveFuel, FS.resolve, hl, FS.targetPath, ht]

/-- Declared size / integrity are enforced by the same checks as for writers.  With a declared
size that differs from the target's length (and no declared integrity), whatever the calls answer
the link commit answers **exactly the size error** `.error (.size n len)`, unless the link phase
failed before the checks were reached: then an I/O error of the link phase (or `panic`: a computed
integrity without content path, excluded for digests of ≥ 2 bytes, or `mkTempLink` answering
neither a path nor an error, which no run does — `C20.lcommit_no_panic`).  Never `.ok`, never
another error.  The decision order (link phase, integrity, size) on any filesystem is
`C19x.linkto_size_exact`; total correctness in the four situations at the address is
`C19x.link_declared_size_mismatch_total`. -/
theorem linkto_size_enforced (l : Linker) (n : Nat) (hn : l.opts.size = some n) (hne : n ≠ l.data.length)
    (hs : l.opts.sri = none) :
    AllCallsR (fun _ => True)
      (fun r => r = .error (.size n l.data.length) ∨ (∃ e, r = .error (.io e)) ∨ r = .error .panic)
      (lcommit cfg l) := by
  unfold lcommit dropTmp
  simp only [hn, hs, hne, ne_eq, not_false_eq_true, if_true]
  repeat' ac_step
  all_goals first
    | trivial
    | exact Or.inl rfl
    | exact Or.inr (Or.inl ⟨_, rfl⟩)
    | exact Or.inr (Or.inr rfl)
    | exact Or.inl trivial
    | exact Or.inr (Or.inr trivial)
    | exact Or.inr (Or.inl trivial)
    | exact Or.inr (Or.inl ⟨_, trivial⟩)

/-- The weaker reading kept for reference: such a commit never answers ok. -/
theorem linkto_size_never_ok (l : Linker) (n : Nat) (hn : l.opts.size = some n)
    (hne : n ≠ l.data.length) (hs : l.opts.sri = none) :
    AllCallsR (fun _ => True) (fun r => ∀ s, r ≠ .ok s) (lcommit cfg l) :=
  (linkto_size_enforced cfg l n hn hne hs).mono (fun _ h => h) (fun r h s hr => by
    subst hr
    rcases h with h | ⟨e, h⟩ | h <;> cases h)

/-! ### total correctness of the link commit (healthy run), incl. the replacement of an earlier link
(F18) unless it already leads to the target's file.  Proofs in `Lemmas/LinkRefine.lean`; `hd` / `ht`: the directory chains of the address and of
`<cache>/tmp` are absent or directories, so that `create_dir_all` succeeds. -/

open LinkRefine Refine CacheRefine in
/-- **An earlier link at the address is replaced** when it does not already lead to the target's
file (`hns : NotSameFile …` — stale, dangling or pointing elsewhere; checkable forms:
`LinkRefine.notSameFile_of_dangling`, `LinkRefine.notSameFile_of_ne`): the commit answers the digest
of the target just read, the address is a link to that target afterwards, the temp link it went
through is gone, and nothing else changes (apart from directories created on the way). -/
theorem relink_replaces_old_link (l : Linker) (fs : FS) (cpath : Path) (t0 : Target)
    (hk : l.key = none) (hs : l.opts.sri = none) (hz : l.opts.size = none)
    (hcp : contentPath l.cache (Sri.compute cfg.H l.algo l.data) = some cpath)
    (hd : ∀ q, q ≠ [] → q <+: FS.parent cpath → NoneOrDir fs q)
    (ht : ∀ q, q ≠ [] → q <+: l.cache ++ [dTmp] → NoneOrDir fs q)
    (hold : fs.get cpath = some (.link t0)) (hns : NotSameFile fs cpath l.target) :
    (run env (lcommit cfg l) fs).1 = .ok (Sri.compute cfg.H l.algo l.data) ∧
    (run env (lcommit cfg l) fs).2.1.get cpath = some (.link l.target) ∧
    (run env (lcommit cfg l) fs).2.1.get ((l.cache ++ [dTmp]) ++ [tmpName fs.next]) = none ∧
    (∀ q, q ≠ cpath → q ≠ (l.cache ++ [dTmp]) ++ [tmpName fs.next] →
      Grow2 fs (run env (lcommit cfg l) fs).2.1 q (FS.parent cpath) (l.cache ++ [dTmp])) :=
  let h := LinkRefine.relink_replaces_old_link cfg env l fs cpath t0 hk hs hz hcp hd ht hold hns
  ⟨h.1, h.2.1, h.2.2.1, h.2.2.2.1⟩

open LinkRefine Refine CacheRefine in
/-- **An earlier link that already leads to the target's file is kept** (`hsm : SameFile …`;
checkable form `LinkRefine.sameFile_of_eq`): the commit answers ok, the link at the address is
untouched, no temp name is used (`cache/tmp` need not even be writable), nothing else changes
(apart from directories created on the way to the address). -/
theorem relink_same_file_kept (l : Linker) (fs : FS) (cpath : Path) (t0 : Target)
    (hk : l.key = none) (hs : l.opts.sri = none) (hz : l.opts.size = none)
    (hcp : contentPath l.cache (Sri.compute cfg.H l.algo l.data) = some cpath)
    (hd : ∀ q, q ≠ [] → q <+: FS.parent cpath → NoneOrDir fs q)
    (hold : fs.get cpath = some (.link t0)) (hsm : SameFile fs cpath l.target) :
    (run env (lcommit cfg l) fs).1 = .ok (Sri.compute cfg.H l.algo l.data) ∧
    (run env (lcommit cfg l) fs).2.1.get cpath = some (.link t0) ∧
    (∀ q, Grow fs (run env (lcommit cfg l) fs).2.1 q (FS.parent cpath)) ∧
    (run env (lcommit cfg l) fs).2.1.next = fs.next :=
  LinkRefine.relink_same_file_kept cfg env l fs cpath t0 hk hs hz hcp hd hold hsm

open LinkRefine Refine CacheRefine in
/-- A free address gets the link. -/
theorem link_fresh_address (l : Linker) (fs : FS) (cpath : Path)
    (hk : l.key = none) (hs : l.opts.sri = none) (hz : l.opts.size = none)
    (hcp : contentPath l.cache (Sri.compute cfg.H l.algo l.data) = some cpath)
    (hd : ∀ q, q ≠ [] → q <+: FS.parent cpath → NoneOrDir fs q)
    (hfree : fs.get cpath = none) :
    (run env (lcommit cfg l) fs).1 = .ok (Sri.compute cfg.H l.algo l.data) ∧
    (run env (lcommit cfg l) fs).2.1.get cpath = some (.link l.target) ∧
    (∀ q, q ≠ cpath → Grow fs (run env (lcommit cfg l) fs).2.1 q (FS.parent cpath)) :=
  let h := LinkRefine.link_fresh_address cfg env l fs cpath hk hs hz hcp hd hfree
  ⟨h.1, h.2.1, h.2.2.1⟩

open LinkRefine Refine CacheRefine in
/-- **Regular content at the address is never replaced by a link** (no clobbering of what a
writer stored): the commit answers ok and the file stays. -/
theorem link_keeps_regular_content (l : Linker) (fs : FS) (cpath : Path) (b : Bytes)
    (hk : l.key = none) (hs : l.opts.sri = none) (hz : l.opts.size = none)
    (hcp : contentPath l.cache (Sri.compute cfg.H l.algo l.data) = some cpath)
    (hd : ∀ q, q ≠ [] → q <+: FS.parent cpath → NoneOrDir fs q)
    (hold : fs.get cpath = some (.file b)) :
    (run env (lcommit cfg l) fs).1 = .ok (Sri.compute cfg.H l.algo l.data) ∧
    (run env (lcommit cfg l) fs).2.1.get cpath = some (.file b) ∧
    (∀ q, Grow fs (run env (lcommit cfg l) fs).2.1 q (FS.parent cpath)) :=
  let h := LinkRefine.link_keeps_regular_content cfg env l fs cpath b hk hs hz hcp hd hold
  ⟨h.1, h.2.1, h.2.2.1⟩

open LinkRefine Refine CacheRefine in
/-- **After the commit onto an earlier link the returned address reads the target's bytes** through
the library's verified read — whatever the earlier link pointed at (it is replaced, or it already
led to the target's file and is kept). -/
theorem relinked_address_readHash (l : Linker) (fs : FS) (cpath : Path) (t0 : Target)
    (hk : l.key = none) (hs : l.opts.sri = none) (hz : l.opts.size = none)
    (hcp : contentPath l.cache (Sri.compute cfg.H l.algo l.data) = some cpath)
    (hd : ∀ q, q ≠ [] → q <+: FS.parent cpath → NoneOrDir fs q)
    (ht : ∀ q, q ≠ [] → q <+: l.cache ++ [dTmp] → NoneOrDir fs q)
    (hold : fs.get cpath = some (.link t0))
    (tp : Path) (htgt : l.target = .abs tp) (htp : tp ≠ []) (hout : ¬ l.cache <+: tp)
    (hfile : fs.get tp = some (.file l.data)) :
    (run env (readHash cfg l.cache (Sri.compute cfg.H l.algo l.data))
      (run env (lcommit cfg l) fs).2.1).1 = .ok l.data :=
  LinkRefine.relinked_address_readHash cfg env l fs cpath t0 hk hs hz hcp hd ht hold tp htgt htp hout hfile

open LinkRefine Refine CacheRefine in
/-- **Keyed: after the commit onto an earlier link the key reads the target's bytes** (lookup, then
the verified read by the recorded address), on a healthy index — whatever the earlier link pointed
at (replaced, or kept because it already led to the target's file). -/
theorem relinked_key_reads_target (l : Linker) (k : Bytes) (fs : FS) (cpath : Path) (t0 : Target)
    (hk : l.key = some k) (hs : l.opts.sri = none) (hz : l.opts.size = none)
    (hcp : contentPath l.cache (Sri.compute cfg.H l.algo l.data) = some cpath)
    (hd : ∀ q, q ≠ [] → q <+: FS.parent cpath → NoneOrDir fs q)
    (ht : ∀ q, q ≠ [] → q <+: l.cache ++ [dTmp] → NoneOrDir fs q)
    (hI : HealthyIndex cfg l.cache fs)
    (hold : fs.get cpath = some (.link t0))
    (hw : OptsWF k l.opts) (hlen : l.data.length ≤ Rec.u64Max)
    (tp : Path) (htgt : l.target = .abs tp) (htp : tp ≠ []) (hout : ¬ l.cache <+: tp)
    (hfile : fs.get tp = some (.file l.data)) :
    (run env (read cfg l.cache k) (run env (lcommit cfg l) fs).2.1).1 = .ok l.data :=
  LinkRefine.relinked_key_reads_target cfg env l k fs cpath t0 hk hs hz hcp hd ht hI hold hw hlen tp htgt
    htp hout hfile

end Cacache.C19
