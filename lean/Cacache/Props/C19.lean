/-
C19 — linked entries (link_to) read back verified target bytes, never copy or clobber.
-/
import Cacache.Lemmas.ReadBack
import Cacache.Props.C01
import Cacache.Props.C15

namespace Cacache.C19
open Prog

variable (cfg : Cfg) (env : Env) (cache : Path)

/-- **The target is never modified**: every mutating call of a link commit is aimed inside the
cache directory — whatever the calls answer — so a target outside the cache is not among them. -/
theorem target_untouched (l : Linker) (tp : Path) (hout : ¬ l.cache <+: tp) (fs : FS)
    (plan : Nat → Option Fault) :
    ∀ c ∈ (runFault env plan (lcommit cfg l) fs 0).2.2, tp ∉ c.targets := by
  intro c hc hin
  have hw := AllCalls.traceFault (C15.linkTo_confined cfg l) env plan fs 0 c hc
  obtain ⟨root, hr, hp⟩ := hw tp hin
  simp only [List.mem_singleton] at hr
  subst hr
  exact hout hp

/-- **The link is made absolute**: whatever form the caller used, the link text written into the
cache is the absolute path of the target as seen from the calling process (so a relative target
keeps pointing at the file the caller named — the pre-repair code stored the text as given). -/
theorem link_text_absolute (cache : Path) (key : Option Bytes) (t : Target) (o : WriteOpts) (fs : FS)
    (l : Linker) (h : (run env (lopen cache key t o) fs).1 = .ok l) :
    l.target = .abs (targetFromCwd t) ∧ l.cache = cache ∧
      fs.readFile (targetFromCwd t) = .ok l.data := by
  unfold lopen at h
  simp only [bind_eq, pure_eq, call, bind_sys, bind_done, run, exec] at h
  cases hr : fs.readFile (targetFromCwd t) with
  | error e => simp [hr, run] at h
  | ok b =>
    simp only [hr, run] at h
    cases h
    exact ⟨rfl, rfl, rfl⟩

/-- Calls that could duplicate file data into the cache. -/
def copies : Call → Bool
  | .copyFile _ _ | .rename _ _ | .hardLink _ _ | .reflink _ _ | .writeAt _ _ _ | .mkTemp _ => true
  | _ => false

/-- **No copy**: a link commit never issues a call that could place the target's data into the
cache (no copy, rename, hard link, reflink, temp file or content write): its only creating calls are
`create_dir_all`, `symlink` and the index append. -/
theorem no_copy (l : Linker) : AllCalls (fun c => copies c = false) (lcommit cfg l) := by
  unfold lcommit insert getTime appendRec
  repeat' ac_step
  all_goals first | rfl | trivial

/-- **Reads through a link are verified like any other read** (C01): whatever the target holds
now — changed, truncated, replaced, removed — a read by the linked address answers an error or
bytes that pass the check of that address. -/
theorem linked_read_sound (fs : FS) (sri : Integrity) (b : Bytes) (plan : Nat → Option Fault)
    (h : (runFault env plan (readHash cfg cache sri) fs 0).1 = .ok b) : C01.Passes cfg sri b :=
  (C01.readHash_sound_run cfg env fs plan cache sri b).2 h

/-- Reading follows the link: if the content path is a symlink to a regular file, `read_hash`
sees that file's bytes. -/
theorem read_follows_link (fs : FS) (cpath tp : Path) (b : Bytes)
    (hl : fs.get cpath = some (.link (.abs tp))) (ht : fs.get tp = some (.file b)) (htp : tp ≠ []) :
    fs.readFile cpath = .ok b := by
  cases tp with
  | nil => exact absurd rfl htp
  | cons x xs => simp [FS.readFile, FS.resolveFuel, FS.resolve, hl, FS.targetPath, ht]

/-- Declared size / integrity are enforced by the same checks as for writers: the link commit
answers the size error when the declared size differs from the target's length. -/
theorem linkto_size_enforced (l : Linker) (n : Nat) (hn : l.opts.size = some n) (hne : n ≠ l.data.length)
    (hs : l.opts.sri = none) :
    AllCallsR (fun _ => True) (fun r => ∀ s, r ≠ .ok s) (lcommit cfg l) := by
  unfold lcommit
  simp only [hn, hs, hne, ne_eq, not_false_eq_true, if_true]
  repeat' ac_step
  all_goals first
    | (intro s h; cases h)
    | trivial

end Cacache.C19
