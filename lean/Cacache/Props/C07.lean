/-
C07 — concurrent, lock-free use behaves like some serial order.

`Prog.interleave env ps fs sched` runs any number of programs against one filesystem; `sched`
(an arbitrary list of process indices) picks who performs its next *call* — the granularity of
individual filesystem system calls, under the model assumption that one call is atomic (a single
`write(2)` on an `O_APPEND` descriptor, a `rename(2)`, an `open(2)`; see DESIGN.md §7).
Theorems hold for every number of processes and every schedule:

* `conc_no_splice` — whatever interleaving of index insertions, removals (tombstone
  insertions), lookups, listings, content removals and whole writer lifetimes: every bucket is at
  all times its initial bytes followed by *whole* framed well-formed records (`∃ rs`).
  Hence (C05) every reader decodes the initial records followed by whole records only: no partial
  record, no splice, nothing of the initial bytes overwritten.  The statement does NOT say which
  records `rs` are (it does not relate them to the processes that appended them); that — every
  FINISHED insertion is in the serial order and its record is what later lookups see, i.e. no lost
  append — is `C07x.index_ops_linearizable` / `C07x.no_finished_insert_lost` (healthy index) and
  `C07x.lookup_snapshot`.
* `conc_content_valid` — the content store stays valid under EVERY interleaving of ANY NUMBER of
  whole writers (open, feed chunks, commit / clean up: mapped or plain, keyed or by address, either
  flavour) and quiet operations (index insertions, removals, `remove_hash`, `remove_fully`, `clear`,
  link commits, every read-only operation).  Rely/guarantee proof in `Lemmas/Concurrent.lean`: temp
  names are fresh forever, nobody but its owner ever creates or changes a regular file at a writer's
  temp path (others may delete it), so at its publishing `rename` the source either still holds the
  bytes whose digest is the target address or is gone and the rename fails.
  (`conc_content_valid_nonpublishing`, the earlier non-publishing special case, is kept.)
* `conc_confined` — under every interleaving every call stays inside the cache directory.
-/
import Cacache.Lemmas.Interleave
import Cacache.Props.C05
import Cacache.Lemmas.CodecLaws
import Cacache.Lemmas.Concurrent

namespace Cacache.C07
open Prog

variable (cfg : Cfg) (env : Env) (cache : Path) (W : Rec → Prop)

/-- The options' own time stamp is a `u128`, and every record built from them is in `W`. -/
def OptsOk (key : Bytes) (o : WriteOpts) : Prop :=
  (∀ t, o.time = some t → t ≤ timeMax) ∧ ∀ tm, tm ≤ timeMax → W (mkRec key o tm)

/-- A bucket path of this cache (any key's). -/
def IsBucket (q : Path) : Prop := InArea cache dIndex q ∧ q.length = cache.length + 4

theorem bucket_isBucket (key : Bytes) : IsBucket cache (bucketPath cfg cache key) :=
  ⟨bucket_inIndex cfg cache key, by simp [bucketPath]⟩

/-- An index insertion, seen from any bucket `q` of the cache: each of its calls is off `q`, or
opens `q` for appending, or appends one whole framed record to `q`. -/
theorem insert_wholeRecords (key : Bytes) (o : WriteOpts) (hW : OptsOk W key o) (q : Path)
    (hq : IsBucket cache q) :
    AllCalls (Call.wholeRecords (codec cfg) W q) (insert cfg cache key o) := by
  unfold insert getTime appendRec
  by_cases hsame : bucketPath cfg cache key = q
  · subst hsame
    repeat' ac_step
    all_goals first
      | exact Or.inr (Or.inl rfl)
      | (refine Or.inr (Or.inr ⟨_, ?_, rfl⟩)
         apply hW.2
         first
           | exact Nat.zero_le _
           | exact hW.1 _ (by assumption)
           | exact now_answer (by assumption))
      | (left; intro fs ht; simp only [Call.touches] at ht; done)
      | (left; intro fs ht; simp only [Call.touches] at ht
         exact bucket_not_prefix_parent cfg cache key ht)
  · repeat' ac_step
    all_goals first
      | (left; intro fs ht; simp only [Call.touches] at ht; done)
      | (left; intro fs ht; simp only [Call.touches] at ht; exact hsame ht.symm)
      | (left; intro fs ht; simp only [Call.touches] at ht
         have h1 := ht.length_le
         have h2 : (FS.parent (bucketPath cfg cache key)).length = cache.length + 3 := by
           simp [bucketPath, FS.parent]
         rw [h2, hq.2] at h1; omega)

/-- Programs whose calls all aim at other areas than the index are trivially "whole-record". -/
theorem wholeRecords_of_areas {α : Type} {Ok : α → Prop} {p : Prog α} {tops : List Bytes}
    (h : AllCallsR (Call.inAreas cache tops) Ok p) (hn : dIndex ∉ tops) (q : Path)
    (hq : IsBucket cache q) : AllCalls (Call.wholeRecords (codec cfg) W q) p :=
  h.mono (fun c hc => Or.inl (hc.avoids hq.1 hn)) (fun _ _ => trivial)

theorem wholeRecords_of_readOnly {α : Type} {p : Prog α} (h : AllCalls ReadOnly p) (q : Path) :
    AllCalls (Call.wholeRecords (codec cfg) W q) p :=
  h.mono (fun c hc => Or.inl (fun fs ht => by
    cases c <;> simp [ReadOnly, Call.mutating] at hc <;> simp [Call.touches] at ht)) (fun _ h => h)

/-- **No splice, no partial record, nothing overwritten — under every schedule.**  Any number of
processes, each running a program all of whose calls are whole-record for bucket `q` (index
insertions and removals of any keys, lookups, listings, reads, writer phases …): after any
interleaving, `q` holds its initial bytes followed by whole framed records `rs` (some list of
well-formed records: this theorem does not say whose; that no FINISHED insertion's record is
missing from it is `C07x.index_ops_linearizable` / `C07x.no_finished_insert_lost`). -/
theorem conc_no_splice {α : Type} (q : Path) (b0 : Bytes) (ps : List (Prog α))
    (hp : ∀ p ∈ ps, AllCalls (Call.wholeRecords (codec cfg) W q) p) (fs : FS)
    (h0 : BucketIs fs q b0) (sched : List Nat) :
    ∃ rs, (∀ r ∈ rs, W r) ∧
      BucketIs (interleave env ps fs sched).2 q ((codec cfg).appendAll b0 rs) :=
  (interleave_invariant env (Call.wholeRecords (codec cfg) W q) (WholeRecords (codec cfg) W q b0)
    (fun c fs hc hi => wholeRecords_step (codec cfg) W env q b0 c fs hc hi) ps hp fs
    ⟨[], by simp, by simpa [Codec.appendAll] using h0⟩ sched).1

/-- … so a reader at any moment decodes the initial records followed by exactly the appended
ones, in append order (no partial index record is ever observable). -/
theorem conc_reads_whole_records (L : (codec cfg).Laws W) {α : Type} (q : Path) (b0 : Bytes)
    (ps : List (Prog α)) (hp : ∀ p ∈ ps, AllCalls (Call.wholeRecords (codec cfg) W q) p) (fs : FS)
    (h0 : BucketIs fs q b0) (hs : (codec cfg).Settled b0) (sched : List Nat) :
    ∃ rs bytes, BucketIs (interleave env ps fs sched).2 q bytes ∧
      (codec cfg).entries bytes = (codec cfg).entries b0 ++ rs := by
  obtain ⟨rs, hWs, hb⟩ := conc_no_splice cfg env W q b0 ps hp fs h0 sched
  refine ⟨rs, _, hb, ?_⟩
  have := L.settled_appendAll b0 rs hWs hs
  rw [this, L.entriesT_appendAll _ _ hWs, ← hs]

/-- Non-publishing calls keep the content store valid; so any interleaving of programs made of
them does. -/
theorem conc_content_valid_nonpublishing {α : Type} (ps : List (Prog α))
    (hp : ∀ p ∈ ps, AllCalls (Call.noPublish cache) p) (fs : FS)
    (hv : ContentValid cfg cache fs) (sched : List Nat) :
    ContentValid cfg cache (interleave env ps fs sched).2 :=
  (interleave_invariant env (Call.noPublish cache) (ContentValid cfg cache)
    (fun c fs hc hi => step_contentValid .ok (hc fs) hi) ps hp fs hv sched).1

/-- **Concurrent publishing writers keep the content store valid — every schedule, any number
of processes.**  Each process is a whole writer lifetime (`writeStream`: any flavour, keyed or by
address, any options, any chunks) or a program all of whose calls are quiet (never create or change
a regular file at a content address or inside `<cache>/tmp`; deleting is allowed).  For an
arbitrary digest function. -/
theorem conc_content_valid (ps : List (Prog (Res Integrity))) (hp : ∀ p ∈ ps, Proc cfg cache p)
    (fs : FS) (hv : ContentValid cfg cache fs) (sched : List Nat) :
    ContentValid cfg cache (interleave env ps fs sched).2 :=
  conc_writers_content_valid cfg env cache ps hp fs hv sched

/-- The same for processes of different result types (results discarded by `Prog.forget`). -/
theorem conc_content_valid_any (ps : List (Prog Unit)) (hp : ∀ p ∈ ps, ProcU cfg cache p)
    (fs : FS) (hv : ContentValid cfg cache fs) (sched : List Nat) :
    ContentValid cfg cache (interleave env ps fs sched).2 :=
  conc_writers_content_valid_any cfg env cache ps hp fs hv sched

/-- The operations of the library are processes in that sense: whole writers, and — quiet —
index insertion, removal by key, `remove_hash`, `remove_fully`, `clear`, lookups and reads. -/
theorem library_ops_are_procs (fl : Flavour) (key : Bytes) (o : WriteOpts) (chunks : List Bytes)
    (sri : Integrity) :
    ProcU cfg cache (writeStream cfg cache fl (some key) o chunks).forget ∧
    ProcU cfg cache (writeStream cfg cache fl none o chunks).forget ∧
    ProcU cfg cache (insert cfg cache key o).forget ∧
    ProcU cfg cache (delete cfg cache key).forget ∧
    ProcU cfg cache (removeHash cache sri).forget ∧
    ProcU cfg cache (removeFully cfg cache key).forget ∧
    ProcU cfg cache (clear cache).forget ∧
    ProcU cfg cache (find cfg cache key).forget ∧
    ProcU cfg cache (read cfg cache key).forget ∧
    ProcU cfg cache (readHash cfg cache sri).forget :=
  ⟨.writer fl (some key) o chunks, .writer fl none o chunks,
   .quiet _ (insert_quiet cfg cache key o), .quiet _ (delete_quiet cfg cache key),
   .quiet _ (removeHash_quiet cache sri), .quiet _ (removeFully_quiet cfg cache key),
   .quiet _ (clear_quiet cache), .quiet _ (readOnly_quiet cache (find_ro cfg cache key)),
   .quiet _ (readOnly_quiet cache (read_ro cfg cache key)),
   .quiet _ (readOnly_quiet cache (readHash_ro cfg cache sri))⟩

/-- Index insertions / removals never publish content. -/
theorem insert_noPublish (key : Bytes) (o : WriteOpts) :
    AllCalls (Call.noPublish cache) (insert cfg cache key o) := by
  have hb := bucket_not_addr cfg cache key
  unfold insert getTime appendRec
  repeat' ac_step
  all_goals (
    intro fs q hq
    simp only [Call.fileTargets, List.mem_singleton, List.not_mem_nil] at hq
    try (subst hq; exact hb))

/-- Read-only programs never publish. -/
theorem readOnly_noPublish {α : Type} {p : Prog α} (h : AllCalls ReadOnly p) :
    AllCalls (Call.noPublish cache) p :=
  h.mono (fun c hc fs q hq => by
    cases c <;> simp [ReadOnly, Call.mutating] at hc <;> simp [Call.fileTargets] at hq) (fun _ h => h)

/-- Under every interleaving every call of every process stays inside the cache directory: the
predicate is about calls, so it holds of whatever prefix of each program the schedule ran. -/
theorem conc_confined {α : Type} (ps : List (Prog α))
    (hp : ∀ p ∈ ps, AllCalls (Call.within [cache]) p) (fs : FS) (sched : List Nat) :
    ∀ p ∈ (interleave env ps fs sched).1, AllCalls (Call.within [cache]) p :=
  (interleave_invariant env (Call.within [cache]) (fun _ => True) (fun _ _ _ _ => trivial)
    ps hp fs trivial sched).2

/-- Non-vacuity: two concurrent insertions into the same bucket and a lookup satisfy the
hypotheses of `conc_no_splice`. -/
example (k1 k2 : Bytes) (o1 o2 : WriteOpts) (h1 : OptsOk W k1 o1) (h2 : OptsOk W k2 o2) (q : Path)
    (hq : IsBucket cache q) :
    ∀ p ∈ [insert cfg cache k1 o1, insert cfg cache k2 o2],
      AllCalls (Call.wholeRecords (codec cfg) W q) p := by
  intro p hp
  simp only [List.mem_cons, List.not_mem_nil, or_false] at hp
  rcases hp with rfl | rfl
  · exact insert_wholeRecords cfg cache W _ _ h1 q hq
  · exact insert_wholeRecords cfg cache W _ _ h2 q hq

/-! ### the concrete codec -/

/-- Well-formed options give `OptsOk` for `Rec.WF`. -/
theorem optsOk_of_wf (key : Bytes) (o : WriteOpts) (h : OptsWF key o) : OptsOk Rec.WF key o :=
  ⟨h.time, fun tm htm => mkRec_wf key o tm h htm⟩

/-- **Concurrent index operations on cacache's own record format**: any number of processes
inserting / removing (well-formed options) any keys, under every schedule — a reader of bucket `q`
decodes at any moment the initial records followed by exactly the appended ones.  No hypothesis
about the record codec or the hash function is left. -/
theorem conc_reads_whole_records_cacache {α : Type} (q : Path) (b0 : Bytes) (ps : List (Prog α))
    (hp : ∀ p ∈ ps, AllCalls (Call.wholeRecords (codec cfg) Rec.WF q) p) (fs : FS)
    (h0 : BucketIs fs q b0) (hs : (codec cfg).Settled b0) (sched : List Nat) :
    ∃ rs bytes, BucketIs (interleave env ps fs sched).2 q bytes ∧
      (codec cfg).entries bytes = (codec cfg).entries b0 ++ rs :=
  conc_reads_whole_records cfg env Rec.WF (codec_laws cfg) q b0 ps hp fs h0 hs sched

example (k1 k2 : Bytes) (o1 o2 : WriteOpts) (h1 : OptsWF k1 o1) (h2 : OptsWF k2 o2) (q : Path)
    (hq : IsBucket cache q) :
    ∀ p ∈ [insert cfg cache k1 o1, insert cfg cache k2 o2],
      AllCalls (Call.wholeRecords (codec cfg) Rec.WF q) p := by
  intro p hp
  simp only [List.mem_cons, List.not_mem_nil, or_false] at hp
  rcases hp with rfl | rfl
  · exact insert_wholeRecords cfg cache Rec.WF _ _ (optsOk_of_wf _ _ h1) q hq
  · exact insert_wholeRecords cfg cache Rec.WF _ _ (optsOk_of_wf _ _ h2) q hq

end Cacache.C07
