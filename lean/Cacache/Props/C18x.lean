/-
C18 (extension) — the error kinds of extraction, and unchecked extraction onto an existing destination.
Proofs in `Lemmas/Gaps.lean` (which imports this property's base module, hence this separate module).
-/
import Cacache.Lemmas.Gaps

namespace Cacache.C18x
open Prog

variable (cfg : Cfg)

/-- **Missing content is the I/O not-found error** (checked extraction, every kind), and nothing changes. -/
theorem extractHash_missing_content (env : Env) (fs : FS) (how : Extract) (cache : Path)
    (sri : Integrity) (dest cpath : Path) (hc : contentPath cache sri = some cpath)
    (hmiss : fs.get cpath = none) :
    (run env (extractHash cfg how cache sri dest) fs).1 = .error (.io .notFound) ∧
    (run env (extractHash cfg how cache sri dest) fs).2.1 = fs :=
  Gaps.extractHash_missing_content cfg env fs how cache sri dest cpath hc hmiss

/-- **A missing key is the entry-not-found error, never an I/O error**, and nothing changes. -/
theorem extract_missing_key_total (env : Env) (fs : FS) (checked : Bool) (how : Extract) (cache : Path)
    (key : Bytes) (dest : Path) (h : (run env (find cfg cache key) fs).1 = .ok none) :
    (run env (extract cfg checked how cache key dest) fs).1 = .error .notFound ∧
    (∀ e, (run env (extract cfg checked how cache key dest) fs).1 ≠ .error (.io e)) ∧
    (run env (extract cfg checked how cache key dest) fs).2.1 = fs :=
  Gaps.extract_missing_key_total cfg env fs checked how cache key dest h

/-- **An unchecked copy onto an existing regular file replaces its bytes** and returns the count. -/
theorem extractUnchecked_copy_overwrites (env : Env) (fs : FS) (cache : Path) (sri : Integrity)
    (dest cpath : Path) (b old : Bytes) (hc : contentPath cache sri = some cpath)
    (hfile : fs.get cpath = some (.file b)) (hdest : fs.get dest = some (.file old))
    (hparent : fs.isDir (FS.parent dest) = true) :
    (run env (extractUnchecked .copy cache sri dest) fs).1 = .ok b.length ∧
    (run env (extractUnchecked .copy cache sri dest) fs).2.1.get dest = some (.file b) ∧
    ∀ q, q ≠ dest → (run env (extractUnchecked .copy cache sri dest) fs).2.1.get q = fs.get q :=
  Gaps.extractUnchecked_copy_overwrites env fs cache sri dest cpath b old hc hfile hdest hparent

/-- **A hard link onto anything that exists answers already-exists and leaves everything as it was.** -/
theorem extractUnchecked_hardLink_exists (env : Env) (fs : FS) (cache : Path) (sri : Integrity)
    (dest cpath : Path) (b : Bytes) (hc : contentPath cache sri = some cpath)
    (hfile : fs.get cpath = some (.file b)) (hdest : (fs.get dest).isSome = true) :
    (run env (extractUnchecked .hardLink cache sri dest) fs).1 = .error (.io .exists) ∧
    (run env (extractUnchecked .hardLink cache sri dest) fs).2.1 = fs :=
  Gaps.extractUnchecked_hardLink_exists env fs cache sri dest cpath b hc hfile hdest

end Cacache.C18x
