/-
C05 — a key lookup returns the most recent committed entry, or absent after removal.

Stated over the bytes of one bucket file and any codec satisfying `Codec.Laws` (the concrete
serde/SHA-256 codec is an instance: `Lemmas/Record.lean`).  A history is the list of records that
successful inserts / removals appended, in order; the initial file `b0` is arbitrary (any garbage,
foreign records, torn tails).  No bound on the number, order or size of records.
-/
import Cacache.Lemmas.Index
import Cacache.Lemmas.CodecLaws
import Cacache.Lemmas.Refine

namespace Cacache.C05

variable {R M : Type} {W : R → Prop}

/-- **Last wins.**  After any initial file `b0` and any history `pre ++ [r] ++ post` in which no
later record concerns `r`'s key, looking that key up is decided by `r`: the entry it carries, or
`none` for a removal (`Cls.apply`; a record with an unparsable integrity — which no insert
produces — leaves the earlier answer). -/
theorem lookup_last_wins (c : Codec R M) (L : c.Laws W) (b0 : Bytes) (pre post : List R) (r : R)
    (hW : ∀ x ∈ pre ++ r :: post, W x) (hpost : ∀ s ∈ post, c.key s ≠ c.key r) :
    c.find (c.appendAll b0 (pre ++ r :: post)) (c.key r) =
      (c.cls r).apply (c.findIn (c.key r) (c.entriesT b0 ++ pre)) := by
  unfold Codec.find
  rw [L.entries_appendAll_ne_nil b0 _ hW (by simp), ← List.append_assoc]
  exact c.findIn_last _ post r hpost

/-- A live record that is last for its key is what the lookup returns. -/
theorem lookup_returns_last_write (c : Codec R M) (L : c.Laws W) (b0 : Bytes) (pre post : List R)
    (r : R) (m : M) (hW : ∀ x ∈ pre ++ r :: post, W x) (hr : c.cls r = .live m)
    (hpost : ∀ s ∈ post, c.key s ≠ c.key r) :
    c.find (c.appendAll b0 (pre ++ r :: post)) (c.key r) = some m := by
  rw [lookup_last_wins c L b0 pre post r hW hpost, hr]; rfl

/-- A removal that is last for its key makes the key absent: earlier entries never resurface. -/
theorem lookup_absent_after_removal (c : Codec R M) (L : c.Laws W) (b0 : Bytes) (pre post : List R)
    (r : R) (hW : ∀ x ∈ pre ++ r :: post, W x) (hr : c.cls r = .tomb)
    (hpost : ∀ s ∈ post, c.key s ≠ c.key r) :
    c.find (c.appendAll b0 (pre ++ r :: post)) (c.key r) = none := by
  rw [lookup_last_wins c L b0 pre post r hW hpost, hr]; rfl

/-- Writes to other keys never change what a key returns: records of other keys can be erased
from the history without affecting the lookup. -/
theorem lookup_ignores_other_keys (c : Codec R M) (L : c.Laws W) (b0 : Bytes) (rs : List R)
    (k : Bytes) (hW : ∀ x ∈ rs, W x) (hrs : rs ≠ []) :
    c.find (c.appendAll b0 rs) k =
      c.findIn k ((c.entriesT b0 ++ rs).filter (fun r => c.key r = k)) := by
  unfold Codec.find
  rw [L.entries_appendAll_ne_nil b0 rs hW hrs]
  exact c.findIn_filter k _

/-- A key never mentioned in the file or the history is not found. -/
theorem lookup_never_written (c : Codec R M) (L : c.Laws W) (b0 : Bytes) (rs : List R) (k : Bytes)
    (hW : ∀ x ∈ rs, W x) (hrs : rs ≠ []) (h0 : ∀ s ∈ c.entriesT b0, c.key s ≠ k) (h : ∀ s ∈ rs, c.key s ≠ k) :
    c.find (c.appendAll b0 rs) k = none := by
  unfold Codec.find
  rw [L.entries_appendAll_ne_nil b0 rs hW hrs]
  apply c.findIn_none
  intro s hs
  rcases List.mem_append.mp hs with h1 | h2
  · exact h0 s h1
  · exact h s h2

/-! ### the concrete codec: no hypothesis about the record format left -/

/-- **Last wins, for cacache's own bucket format** (any hash function): the codec laws are proved
(`codec_laws`), what remains is that the history's records are well-formed (`Rec.WF`: what Rust's
types guarantee, plus JSON nesting < 127 — see known finding F9 for the excluded point). -/
theorem lookup_last_wins_cacache (cfg : Cfg) (b0 : Bytes) (pre post : List Rec) (r : Rec)
    (hW : ∀ x ∈ pre ++ r :: post, x.WF) (hpost : ∀ s ∈ post, s.key ≠ r.key) :
    (codec cfg).find ((codec cfg).appendAll b0 (pre ++ r :: post)) r.key =
      (Rec.cls r).apply ((codec cfg).findIn r.key ((codec cfg).entriesT b0 ++ pre)) :=
  lookup_last_wins (codec cfg) (codec_laws cfg) b0 pre post r hW hpost

theorem lookup_never_written_cacache (cfg : Cfg) (b0 : Bytes) (rs : List Rec) (k : Bytes)
    (hW : ∀ x ∈ rs, x.WF) (hrs : rs ≠ []) (h0 : ∀ s ∈ (codec cfg).entriesT b0, s.key ≠ k)
    (h : ∀ s ∈ rs, s.key ≠ k) : (codec cfg).find ((codec cfg).appendAll b0 rs) k = none :=
  lookup_never_written (codec cfg) (codec_laws cfg) b0 rs k hW hrs h0 h

/-! ### program level: any sequence of index operations refines a map

`Lemmas/Refine.lean`: the real programs `insert` / `delete` / `find`, run one after the other on the
model filesystem from a healthy index (every bucket absent or a settled regular file, every
ancestor of a bucket absent or a directory — the empty cache is healthy), answer exactly like the
abstract map `key ↦ Option Meta`, keep the abstraction in step and keep the index healthy — by
induction over arbitrary operation sequences, each operation with its own clock answer, SHA-1
collisions of keys allowed, total correctness included (every insert SUCCEEDS). -/

open Refine in
/-- **The index is a map** (refinement). -/
theorem index_refines_map (cfg : Cfg) (cache : Path) (ops : List (Env × IOp)) (fs : FS)
    (h : HealthyIndex cfg cache fs) (hops : ∀ x ∈ ops, OpWF cfg x.2) :
    (runOps cfg cache ops fs).1 = (specRun ops (absIndex cfg cache fs)).1 ∧
    absIndex cfg cache (runOps cfg cache ops fs).2 = (specRun ops (absIndex cfg cache fs)).2 ∧
    HealthyIndex cfg cache (runOps cfg cache ops fs).2 :=
  Refine.index_refines_map cfg cache ops fs h hops

open Refine in
/-- **C05 at program level, "most recent write"**: after any operation sequence in which
`ins key o` (integrity computed by the library) is the last operation writing `key`, the lookup
program returns exactly that insert's entry. -/
theorem program_lookup_returns_last_insert (cfg : Cfg) (cache : Path) (pre post : List (Env × IOp))
    (env : Env) (key : Bytes) (o : WriteOpts) (a : Algo) (data : Bytes) (fs : FS)
    (h : HealthyIndex cfg cache fs) (hops : ∀ x ∈ pre ++ (env, IOp.ins key o) :: post, OpWF cfg x.2)
    (hsri : o.sri = some (Sri.compute cfg.H a data)) (hpost : ∀ x ∈ post, ¬ x.2.writes key) (env' : Env) :
    (Prog.run env' (find cfg cache key) (runOps cfg cache (pre ++ (env, IOp.ins key o) :: post) fs).2).1 =
      .ok (some { key := key, sri := Sri.compute cfg.H a data, time := stamp env o, size := o.size.getD 0, metadata := o.metadata.getD .null, raw := o.raw }) :=
  Refine.look_returns_last_insert cfg cache pre post env key o a data fs h hops hsri hpost env'

open Refine in
/-- **"… and 'not found' otherwise; earlier entries never resurface"**: if the last operation
writing `key` is a removal (or a tombstone insert), the lookup program finds nothing. -/
theorem program_lookup_absent_after_removal (cfg : Cfg) (cache : Path) (pre post : List (Env × IOp))
    (env : Env) (key : Bytes) (op : IOp) (hop : op = IOp.del key ∨ ∃ o, op = IOp.ins key o ∧ o.sri = none)
    (fs : FS) (h : HealthyIndex cfg cache fs) (hops : ∀ x ∈ pre ++ (env, op) :: post, OpWF cfg x.2)
    (hpost : ∀ x ∈ post, ¬ x.2.writes key) (env' : Env) :
    (Prog.run env' (find cfg cache key) (runOps cfg cache (pre ++ (env, op) :: post) fs).2).1 = .ok none :=
  Refine.look_absent_after_removal cfg cache pre post env key op hop fs h hops hpost env'

open Refine in
/-- **"Writes to one key never change what another key returns"** — also for keys sharing a
bucket through a SHA-1 collision. -/
theorem program_lookup_ignores_other_keys (cfg : Cfg) (cache : Path) (ops : List (Env × IOp)) (fs : FS)
    (h : HealthyIndex cfg cache fs) (hops : ∀ x ∈ ops, OpWF cfg x.2) (key : Bytes)
    (hkey : ∀ x ∈ ops, ¬ x.2.writes key) (env' : Env) :
    (Prog.run env' (find cfg cache key) (runOps cfg cache ops fs).2).1 =
      (Prog.run env' (find cfg cache key) fs).1 :=
  (Refine.look_ignores_other_keys cfg cache ops fs h hops key hkey env').2

open Refine in
/-- The empty cache is a healthy index (non-vacuity of the refinement's hypothesis). -/
theorem empty_cache_healthy (cfg : Cfg) (cache : Path) (fs : FS)
    (hanc : ∀ q, q ≠ [] → q <+: cache → NoneOrDir fs q)
    (hbelow : ∀ q, cache <+: q → q ≠ cache → fs.get q = none) : HealthyIndex cfg cache fs :=
  Refine.healthy_of_empty_cache cfg cache fs hanc hbelow

/-- Non-vacuity of `lookup_last_wins_cacache`, on a two-record history: the bucket that holds the
record of an insert of the key "key" for data `d1` followed by the record of an insert of the same
key for data `d2` (integrities computed by the library, explicit times 1 and 2; any hash function,
any data) satisfies its hypotheses, and the lookup returns exactly the SECOND entry. -/
example (cfg : Cfg) (a : Algo) (d1 d2 : Bytes) :
    (codec cfg).find
      ((codec cfg).appendAll []
        [mkRec [107, 101, 121] { sri := some (Sri.compute cfg.H a d1), time := some 1 } 1,
         mkRec [107, 101, 121] { sri := some (Sri.compute cfg.H a d2), time := some 2 } 2])
      [107, 101, 121] =
    some { key := [107, 101, 121], sri := Sri.compute cfg.H a d2, time := 2, size := 0,
           metadata := .null, raw := none } := by
  have hwf : ∀ (d : Bytes) (t : Nat), t ≤ 2 →
      (mkRec [107, 101, 121] { sri := some (Sri.compute cfg.H a d), time := some t } t).WF := by
    intro d t ht
    have ht' : t ≤ timeMax := by rw [timeMax_eq]; omega
    refine mkRec_wf _ _ t ⟨by decide, ?_, by simp, ?_, by simp⟩ ht'
    · intro t' h; cases h; exact ht'
    · intro s h; cases h; exact Sri.compute_wf cfg.H a d
  have h := lookup_last_wins_cacache cfg []
    [mkRec [107, 101, 121] { sri := some (Sri.compute cfg.H a d1), time := some 1 } 1] []
    (mkRec [107, 101, 121] { sri := some (Sri.compute cfg.H a d2), time := some 2 } 2)
    (by
      intro x hx
      simp only [List.cons_append, List.nil_append, List.mem_cons, List.not_mem_nil, or_false] at hx
      rcases hx with rfl | rfl
      · exact hwf d1 1 (by omega)
      · exact hwf d2 2 (by omega))
    (by simp)
  have hcls : Rec.cls (mkRec [107, 101, 121]
      { sri := some (Sri.compute cfg.H a d2), time := some 2 } 2) =
      .live { key := [107, 101, 121], sri := Sri.compute cfg.H a d2, time := 2, size := 0,
              metadata := .null, raw := none } := by
    simp [Rec.cls, mkRec, Sri.parse_print_compute]
  rw [hcls] at h
  exact h

end Cacache.C05
