/-
C20 — no public call panics, aborts or hangs; every failure is a returned error.

In the model the Rust panics that exist are explicit results `Err.panic`: `content_path` on an
integrity whose first digest is not decodable base64 or shorter than two bytes (`to_hex().unwrap()`
and the hex slicing), and on an empty integrity.  `NoPanic` says a result is not that.
* Every operation that takes an integrity argument is panic-free for well-formed arguments
  (`contentPath cache sri ≠ none`) — whatever the filesystem holds and whatever the calls answer
  (so every on-disk state, fault plan and interleaving).
* Writes are panic-free for every key, data, chunking, option combination — including zero-length
  data, declared-size data in several chunks, more or fewer bytes than declared — provided digests
  are at least two bytes long (every real algorithm's are).
* Index operations (lookup, insert, remove, list) never panic, whatever the bucket files contain.
* Reads *by key* inherit the integrity from the index record: they are panic-free when that
  record's integrity is a usable address (`hrec`).  A foreign-written, correctly checksummed record
  with an undecodable digest makes them panic in the real code too — known finding F13.
Termination: every model function is total (structural recursion; Lean accepted them without
`partial`), so the modelled control flow cannot loop; the Rust loops themselves are exercised
under the harness watchdog.
-/
import Cacache.Lemmas.Commit
import Cacache.Lemmas.Hex

namespace Cacache.C20
open Prog

variable (cfg : Cfg) (cache : Path)

def NoPanic {α : Type} (r : Res α) : Prop := r ≠ .error .panic

/-- Close `NoPanic` goals for literal results. -/
syntax "np_leaf" : tactic
macro_rules
  | `(tactic| np_leaf) => `(tactic| first
      | exact trivial
      | (intro h; cases h)
      | (unfold NoPanic; intro h; cases h))

theorem find_no_panic (key : Bytes) : AllCallsR (fun _ => True) NoPanic (find cfg cache key) := by
  unfold find bucketEntries
  repeat' ac_step
  all_goals np_leaf

theorem insert_no_panic (key : Bytes) (o : WriteOpts) :
    AllCallsR (fun _ => True) NoPanic (insert cfg cache key o) := by
  unfold insert getTime appendRec
  repeat' ac_step
  all_goals np_leaf

theorem remove_no_panic (key : Bytes) : AllCallsR (fun _ => True) NoPanic (delete cfg cache key) := by
  unfold delete insert getTime appendRec
  repeat' ac_step
  all_goals np_leaf

/-- Listing never panics, whatever the bucket files hold: records whose integrity does not parse
are skipped (the pre-repair `unwrap` is gone), errors become items. -/
theorem ls_total (es : List (Path × Bool)) : AllCalls (fun _ => True) (lsBuckets cfg es) := by
  induction es with
  | nil => unfold lsBuckets; trivial
  | cons e es ih =>
    obtain ⟨p, d⟩ := e
    cases d
    · unfold lsBuckets bucketEntries
      simp only [bind_eq, pure_eq, call, bind_sys, bind_done, allCallsR_sys]
      refine ⟨trivial, fun r _ => ?_⟩
      split <;> (simp only [bind_done]; exact AllCallsR.bind ih (fun _ _ => trivial))
    · unfold lsBuckets; exact ih

/-- Operations taking an integrity argument: panic-free for well-formed arguments. -/
theorem readHash_no_panic (sri : Integrity) (h : contentPath cache sri ≠ none) :
    AllCallsR (fun _ => True) NoPanic (readHash cfg cache sri) := by
  unfold readHash
  cases hc : contentPath cache sri with
  | none => exact absurd hc h
  | some p =>
    repeat' ac_step
    all_goals np_leaf

theorem exists_no_panic (sri : Integrity) (h : contentPath cache sri ≠ none) :
    AllCallsR (fun _ => True) NoPanic (existsHash cache sri) := by
  unfold existsHash
  cases hc : contentPath cache sri with
  | none => exact absurd hc h
  | some p =>
    repeat' ac_step
    all_goals np_leaf

theorem removeHash_no_panic (sri : Integrity) (h : contentPath cache sri ≠ none) :
    AllCallsR (fun _ => True) NoPanic (removeHash cache sri) := by
  unfold removeHash
  cases hc : contentPath cache sri with
  | none => exact absurd hc h
  | some p =>
    repeat' ac_step
    all_goals np_leaf

theorem extractUnchecked_no_panic (how : Extract) (sri : Integrity) (dest : Path)
    (h : contentPath cache sri ≠ none) :
    AllCallsR (fun _ => True) NoPanic (extractUnchecked how cache sri dest) := by
  unfold extractUnchecked
  cases hc : contentPath cache sri with
  | none => exact absurd hc h
  | some p =>
    cases how <;> (repeat' ac_step) <;> np_leaf

/-- Reads by key: panic-free as soon as the record found carries a usable address. -/
theorem read_no_panic (key : Bytes)
    (hrec : ∀ m : Meta, contentPath cache m.sri ≠ none) :
    AllCallsR (fun _ => True) NoPanic (read cfg cache key) := by
  unfold read
  simp only [bind_eq, pure_eq]
  apply AllCallsR.bind (find_no_panic cfg cache key)
  intro r hr
  split
  · rename_i e; intro h; cases h; exact hr rfl
  · np_leaf
  · exact readHash_no_panic cfg cache _ (hrec _)

/-- **Writers never panic**: any options (declared size right, wrong, zero; declared integrity),
any chunks (several chunks for a declared size, more or fewer bytes than declared, empty chunks,
zero-length data), every flavour — as long as digests have at least two bytes. -/
theorem wopen_no_panic (fl : Flavour) (key : Option Bytes) (o : WriteOpts) :
    AllCallsR (fun _ => True) NoPanic (wopen cfg fl cache key o) := by
  unfold wopen dropTmp
  repeat' ac_step
  all_goals np_leaf

theorem wclose_no_panic (w : Writer) (hH : ∀ a d, 2 ≤ (cfg.H a d).length) :
    AllCallsR (fun _ => True) NoPanic (wclose cfg w) := by
  unfold wclose
  dsimp only
  rw [contentPath_compute]
  have : ¬ (Bytes.hex (cfg.H w.algo w.hashed)).length < 4 := by
    rw [Bytes.hex_length]; have := hH w.algo w.hashed; omega
  simp only [this, if_false]
  unfold dropTmp
  repeat' ac_step
  all_goals np_leaf

theorem wcommit_no_panic (w : Writer) (hH : ∀ a d, 2 ≤ (cfg.H a d).length) :
    AllCallsR (fun _ => True) NoPanic (wcommit cfg w) := by
  unfold wcommit wcommitCheck
  simp only [bind_eq, pure_eq]
  apply AllCallsR.bind (p := Prog.bind (wclose cfg w) _) (Ok := NoPanic)
  · apply AllCallsR.bind (wclose_no_panic cfg w hH)
    intro r hr
    split
    · rename_i e; intro h; cases h; exact hr rfl
    · split
      · rename_i e he
        intro h; cases h
        rcases C08_checks_errors w _ _ he with h1 | ⟨n, h1⟩ <;> cases h1
      · np_leaf
  · intro r hr
    split
    · rename_i e; intro h; cases h; exact hr rfl
    · unfold wcommitIndex
      split
      · exact insert_no_panic cfg _ _ _
      · np_leaf
where
  C08_checks_errors (w : Writer) (wsri : Integrity) (e : Err) (h : commitChecks w wsri = .error e) :
      e = .integrity ∨ ∃ n, e = .size n w.written := by
    unfold commitChecks commitChecks.sizeCheck at h
    split at h
    · split at h
      · cases h; exact Or.inl rfl
      · split at h
        · split at h
          · cases h; exact Or.inr ⟨_, rfl⟩
          · cases h
        · cases h
    · split at h
      · split at h
        · cases h; exact Or.inr ⟨_, rfl⟩
        · cases h
      · cases h

/-- The promised consequence for every run: healthy or under any fault plan, no panic result. -/
theorem no_panic_in_any_run {α : Type} (p : Prog (Res α)) (h : AllCallsR (fun _ => True) NoPanic p)
    (env : Env) (fs : FS) (plan : Nat → Option Fault) :
    (run env p fs).1 ≠ .error .panic ∧ (runFault env plan p fs 0).1 ≠ .error .panic :=
  ⟨h.result env fs, h.resultFault env plan fs 0⟩

end Cacache.C20
