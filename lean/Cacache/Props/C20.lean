/-
C20 — no public call panics, aborts or hangs; every failure is a returned error.

In the model the Rust panics that exist are explicit results `Err.panic`: `content_path` on an
integrity whose first digest is not decodable base64 or shorter than two bytes (`to_hex().unwrap()`
and the hex slicing), and on an empty integrity.  `NoPanic` says a result is not that.
* Every operation that takes an integrity argument (`readHash`, `existsHash`, `removeHash`,
  `ropenHash`, `verify`, `extractHash`, `extractUnchecked`) is panic-free for well-formed arguments
  (`contentPath cache sri ≠ none`) — whatever the filesystem holds and whatever the calls answer
  (so every on-disk state, fault plan and interleaving).  `clear`, `lopen`, `lopenAuto` are
  panic-free unconditionally.
* Writes are panic-free for every key, data, chunking, option combination — including zero-length
  data, declared-size data in several chunks, more or fewer bytes than declared — provided digests
  are at least two bytes long (every real algorithm's are).
* Index operations (lookup, insert, remove) never panic, whatever the bucket files contain; a
  listing never contains a `panic` item (`ls_total`, `ls_no_panic`).
* Operations *by key* (`read`, `ropen`, `extract`, `removeFully`) inherit the integrity from the
  index record: they answer `panic` exactly when the lookup found an entry whose integrity is not
  a usable address (`*_panic_only_if`, `read_panic_iff`); in particular never when every record of
  the key in the bucket carries a usable address (`read_no_panic`).  A foreign-written,
  correctly checksummed record with an undecodable digest makes them panic in the real code too —
  known finding F13.
* `lcommit` has one more `panic` arm (`mkTempLink` answering something that is neither a path nor
  an error).  No answer of the filesystem model has that form: the arm is unreachable in every
  healthy run and under every fault plan (`lcommit_no_panic`, `lcommit_no_panic_run`), although
  `AllCallsR`, which quantifies over all answers, cannot exclude it.
Termination: every model function is total (structural recursion; Lean accepted them without
`partial`), so the modelled control flow cannot loop; the Rust loops themselves are exercised
under the harness watchdog.
-/
import Cacache.Lemmas.Commit
import Cacache.Lemmas.Hex
import Cacache.Lemmas.Refine
import Cacache.Lemmas.Audit

namespace Cacache.C20
open Prog

variable (cfg : Cfg) (cache : Path)

def NoPanic {α : Type} (r : Res α) : Prop := r ≠ .error .panic

/-- Close `NoPanic` goals for literal results. -/
syntax "np_leaf" : tactic
macro_rules
  | `(tactic| np_leaf) => `(tactic| first
      | exact trivial
      | (intro h; cases h)
      | (unfold NoPanic; intro h; cases h))

theorem find_no_panic (key : Bytes) : AllCallsR (fun _ => True) NoPanic (find cfg cache key) := by
  unfold find bucketEntries
  repeat' ac_step
  all_goals np_leaf

theorem insert_no_panic (key : Bytes) (o : WriteOpts) :
    AllCallsR (fun _ => True) NoPanic (insert cfg cache key o) := by
  unfold insert getTime appendRec
  repeat' ac_step
  all_goals np_leaf

theorem remove_no_panic (key : Bytes) : AllCallsR (fun _ => True) NoPanic (delete cfg cache key) := by
  unfold delete insert getTime appendRec
  repeat' ac_step
  all_goals np_leaf

theorem bucketEntries_no_panic (p : Path) :
    AllCallsR (fun _ => True) NoPanic (bucketEntries cfg p) := by
  unfold bucketEntries
  repeat' ac_step
  all_goals np_leaf

/-- No item of a listing is the error `panic`. -/
def NoPanicItems (items : List LsItem) : Prop := ∀ e, LsItem.err e ∈ items → e ≠ .panic

/-- **Listing never reports a panic**, whatever the bucket files hold and whatever the calls
answer: records whose integrity does not parse are skipped (the pre-repair `unwrap` is gone), and
the errors that become items are I/O errors.  (A listing returns a plain list of items, not a
`Res`: it has no panic result of its own by its type.) -/
theorem ls_total (es : List (Path × Bool)) :
    AllCallsR (fun _ => True) NoPanicItems (lsBuckets cfg es) := by
  induction es with
  | nil => unfold lsBuckets; intro e he; cases he
  | cons e es ih =>
    obtain ⟨p, d⟩ := e
    cases d
    · unfold lsBuckets
      simp only [bind_eq, pure_eq]
      apply AllCallsR.bind (bucketEntries_no_panic cfg p)
      intro here hh
      apply AllCallsR.bind ih
      intro more hm e he
      rcases List.mem_append.mp he with h | h
      · cases here with
        | ok rs =>
          obtain ⟨c, _, hc⟩ := List.mem_filterMap.mp h
          split at hc <;> cases hc
        | error e' =>
          simp only [List.mem_singleton, LsItem.err.injEq] at h
          subst h
          intro hp; exact hh (by rw [hp])
      · exact hm e h
    · unfold lsBuckets; exact ih

theorem ls_no_panic : AllCallsR (fun _ => True) NoPanicItems (ls cfg cache) := by
  unfold ls
  simp only [bind_eq, pure_eq, call, bind_sys, bind_done, allCallsR_sys]
  refine ⟨trivial, fun r _ => ?_⟩
  split
  · exact ls_total cfg _
  · intro e he
    simp only [List.mem_singleton, LsItem.err.injEq] at he
    subst he; intro h; cases h
  · intro e he
    simp only [List.mem_singleton, LsItem.err.injEq] at he
    subst he; intro h; cases h

/-- Operations taking an integrity argument: panic-free for well-formed arguments. -/
theorem readHash_no_panic (sri : Integrity) (h : contentPath cache sri ≠ none) :
    AllCallsR (fun _ => True) NoPanic (readHash cfg cache sri) := by
  unfold readHash
  cases hc : contentPath cache sri with
  | none => exact absurd hc h
  | some p =>
    repeat' ac_step
    all_goals np_leaf

theorem exists_no_panic (sri : Integrity) (h : contentPath cache sri ≠ none) :
    AllCallsR (fun _ => True) NoPanic (existsHash cache sri) := by
  unfold existsHash
  cases hc : contentPath cache sri with
  | none => exact absurd hc h
  | some p =>
    repeat' ac_step
    all_goals np_leaf

theorem removeHash_no_panic (sri : Integrity) (h : contentPath cache sri ≠ none) :
    AllCallsR (fun _ => True) NoPanic (removeHash cache sri) := by
  unfold removeHash
  cases hc : contentPath cache sri with
  | none => exact absurd hc h
  | some p =>
    repeat' ac_step
    all_goals np_leaf

theorem extractUnchecked_no_panic (how : Extract) (sri : Integrity) (dest : Path)
    (h : contentPath cache sri ≠ none) :
    AllCallsR (fun _ => True) NoPanic (extractUnchecked how cache sri dest) := by
  unfold extractUnchecked
  cases hc : contentPath cache sri with
  | none => exact absurd hc h
  | some p =>
    cases how <;> (repeat' ac_step) <;> np_leaf

/-! ### operations by key: the integrity comes from the index -/

/-- A usable address: the first digest decodes and has at least four hex digits. -/
theorem contentPath_ne_none_iff (sri : Integrity) :
    contentPath cache sri ≠ none ↔ ∃ a hex, Sri.toHex sri = some (a, hex) ∧ 4 ≤ hex.length := by
  unfold contentPath
  cases h : Sri.toHex sri with
  | none => simp
  | some ah =>
    obtain ⟨a, hex⟩ := ah
    by_cases hl : hex.length < 4
    · simp only [hl, if_true, ne_eq, not_true_eq_false, false_iff]
      rintro ⟨a', hex', he, hl'⟩
      cases he; omega
    · simp only [hl, if_false]
      exact ⟨fun _ => ⟨a, hex, rfl, by omega⟩, fun _ h => by cases h⟩

/-- The shape of every operation by key: a lookup, then a continuation.  If the continuation is
panic-free for every lookup answer that is not itself a panic and whose entry (if any) carries a
usable address, then — healthy or under any fault plan — the operation answers `panic` only if
**the lookup found an entry whose integrity is not a usable address**. -/
theorem keyed_panic_only_if {α : Type} (key : Bytes) (k : Res (Option Meta) → Prog (Res α))
    (hk : ∀ fr, fr ≠ .error .panic → (∀ m, fr = .ok (some m) → contentPath cache m.sri ≠ none) →
      AllCallsR (fun _ => True) NoPanic (k fr))
    (env : Env) (plan : Nat → Option Fault) (fs : FS) (i : Nat)
    (h : (runFault env plan (Prog.bind (find cfg cache key) k) fs i).1 = .error .panic) :
    ∃ m, (runFault env plan (find cfg cache key) fs i).1 = .ok (some m) ∧
      contentPath cache m.sri = none := by
  rw [runFault_bind_fst] at h
  have hf := (find_no_panic cfg cache key).resultFault env plan fs i
  by_cases hex : ∃ m, (runFault env plan (find cfg cache key) fs i).1 = .ok (some m) ∧
      contentPath cache m.sri = none
  · exact hex
  · exfalso
    refine (hk _ hf ?_).resultFault env plan _ _ h
    intro m hm hc
    exact hex ⟨m, hm, hc⟩

/-- **`read` answers `panic` exactly when the lookup found an entry whose integrity is not a usable
address** — in the healthy run (`plan := fun _ => none`) and under every fault plan.  (The earlier form of `read_no_panic` assumed "every `Meta` has a usable address", which
nothing satisfies; `read_no_panic` below now has a hypothesis on the bucket's records.) -/
theorem read_panic_iff (key : Bytes) (env : Env) (plan : Nat → Option Fault) (fs : FS) (i : Nat) :
    (runFault env plan (read cfg cache key) fs i).1 = .error .panic ↔
      ∃ m, (runFault env plan (find cfg cache key) fs i).1 = .ok (some m) ∧
        contentPath cache m.sri = none := by
  constructor
  · intro h
    unfold read at h
    simp only [bind_eq, pure_eq] at h
    refine keyed_panic_only_if cfg cache key _ ?_ env plan fs i h
    intro fr hfr hm
    cases fr with
    | error e => intro h; cases h; exact hfr rfl
    | ok mo =>
      cases mo with
      | none => intro h; cases h
      | some m => exact readHash_no_panic cfg cache m.sri (hm m rfl)
  · rintro ⟨m, hm, hc⟩
    unfold read
    simp only [bind_eq, pure_eq]
    rw [runFault_bind_fst, hm]
    simp only [readHash, hc]
    rfl

theorem read_panic_only_if (key : Bytes) (env : Env) (plan : Nat → Option Fault) (fs : FS) (i : Nat)
    (h : (runFault env plan (read cfg cache key) fs i).1 = .error .panic) :
    ∃ m, (runFault env plan (find cfg cache key) fs i).1 = .ok (some m) ∧
      contentPath cache m.sri = none :=
  (read_panic_iff cfg cache key env plan fs i).mp h

/-- The healthy run. -/
theorem read_panic_iff_run (key : Bytes) (env : Env) (fs : FS) :
    (run env (read cfg cache key) fs).1 = .error .panic ↔
      ∃ m, (run env (find cfg cache key) fs).1 = .ok (some m) ∧ contentPath cache m.sri = none := by
  have := read_panic_iff cfg cache key env (fun _ => none) fs 0
  rwa [runFault_none, runFault_none] at this

/-- What a lookup can answer when the bucket's bytes are `b`, healthy or under any fault plan: an
error, "absent", or the lookup in the records of `b`. -/
theorem find_fault_cases (key : Bytes) (env : Env) (plan : Nat → Option Fault) (fs : FS) (i : Nat)
    (b : Bytes) (hb : BucketIs fs (bucketPath cfg cache key) b) :
    (∃ e, (runFault env plan (find cfg cache key) fs i).1 = .error e) ∨
    (runFault env plan (find cfg cache key) fs i).1 = .ok none ∨
    (runFault env plan (find cfg cache key) fs i).1 =
      .ok ((codec cfg).findIn key ((codec cfg).entries b)) := by
  unfold find bucketEntries
  simp only [bind_eq, pure_eq, call, bind_sys, bind_done, runFault]
  split
  · rename_i f _
    cases f.e <;> simp [runFault, Codec.findIn]
  · simp only [exec]
    rcases hb with hf | ⟨rfl, hn⟩
    · rw [readFile_of_file (Refine.bucket_ne_nil cfg cache key) hf]
      exact Or.inr (Or.inr rfl)
    · rw [Refine.readFile_absent (Refine.bucket_ne_nil cfg cache key) hn]
      exact Or.inr (Or.inl rfl)

/-- **A satisfiable sufficient condition.**  If every record of the key in the bucket that
classifies as a live entry carries a usable address (its first digest decodes and has at least
four hex digits — `contentPath_ne_none_iff`), `read` never answers `panic`: healthy or under any
fault plan. -/
theorem read_no_panic (key : Bytes) (fs : FS) (b : Bytes)
    (hb : BucketIs fs (bucketPath cfg cache key) b)
    (hrec : ∀ r ∈ (codec cfg).entries b, ∀ m, (codec cfg).key r = key →
      (codec cfg).cls r = .live m → contentPath cache m.sri ≠ none)
    (env : Env) (plan : Nat → Option Fault) (i : Nat) :
    (runFault env plan (read cfg cache key) fs i).1 ≠ .error .panic := by
  intro h
  obtain ⟨m, hm, hc⟩ := read_panic_only_if cfg cache key env plan fs i h
  rcases find_fault_cases cfg cache key env plan fs i b hb with ⟨e, he⟩ | he | he
  · rw [he] at hm; cases hm
  · rw [he] at hm; cases hm
  · rw [he] at hm
    have hm' : (codec cfg).findIn key ((codec cfg).entries b) = some m := by
      injection hm
    obtain ⟨r, hr, hk, hcl⟩ := (codec cfg).findIn_some key _ m hm'
    exact hrec r hr m hk hcl hc

theorem read_no_panic_run (key : Bytes) (fs : FS) (b : Bytes)
    (hb : BucketIs fs (bucketPath cfg cache key) b)
    (hrec : ∀ r ∈ (codec cfg).entries b, ∀ m, (codec cfg).key r = key →
      (codec cfg).cls r = .live m → contentPath cache m.sri ≠ none)
    (env : Env) : (run env (read cfg cache key) fs).1 ≠ .error .panic := by
  have := read_no_panic cfg cache key fs b hb hrec env (fun _ => none) 0
  rwa [runFault_none] at this

/-- Non-vacuity of `read_no_panic`: a bucket holding the one record a keyed commit of
`data` appends (integrity computed by the library, digests of at least two bytes, options as
Rust's types allow them) satisfies its hypothesis, whatever the key and the hash function. -/
example (key data : Bytes) (a : Algo) (o : WriteOpts) (tm : Nat) (fs : FS)
    (hH : 2 ≤ (cfg.H a data).length) (ho : o.sri = some (Sri.compute cfg.H a data))
    (hw : OptsWF key o) (htm : tm ≤ timeMax)
    (hb : fs.get (bucketPath cfg cache key) = some (.file ((codec cfg).frame (mkRec key o tm))))
    (env : Env) (plan : Nat → Option Fault) (i : Nat) :
    (runFault env plan (read cfg cache key) fs i).1 ≠ .error .panic := by
  refine read_no_panic cfg cache key fs _ (Or.inl hb) ?_ env plan i
  have he : (codec cfg).entries ((codec cfg).frame (mkRec key o tm)) = [mkRec key o tm] := by
    have := (codec_laws cfg).entries_append_frame [] (mkRec key o tm) (mkRec_wf key o tm hw htm)
    have h0 : (codec cfg).entriesT [] = [] := by
      have hs : (codec cfg).entries [] = (codec cfg).entriesT [] := (codec_laws cfg).settled_nil
      rw [← hs]; rfl
    rw [h0] at this
    simpa using this
  intro r hr m _ hcl
  rw [he, List.mem_singleton] at hr
  subst hr
  have hs : m.sri = Sri.compute cfg.H a data := by
    simp only [codec, Rec.codec, Rec.cls, mkRec, ho, Option.map_some, Sri.parse_print_compute] at hcl
    cases hcl; rfl
  rw [hs, contentPath_compute]
  have : ¬ (Bytes.hex (cfg.H a data)).length < 4 := by rw [Bytes.hex_length]; omega
  simp [this]

/-- The same sufficient condition for every operation by key. -/
theorem keyed_no_panic_of_bucket {α : Type} (key : Bytes) (k : Res (Option Meta) → Prog (Res α))
    (hk : ∀ fr, fr ≠ .error .panic → (∀ m, fr = .ok (some m) → contentPath cache m.sri ≠ none) →
      AllCallsR (fun _ => True) NoPanic (k fr))
    (fs : FS) (b : Bytes) (hb : BucketIs fs (bucketPath cfg cache key) b)
    (hrec : ∀ r ∈ (codec cfg).entries b, ∀ m, (codec cfg).key r = key →
      (codec cfg).cls r = .live m → contentPath cache m.sri ≠ none)
    (env : Env) (plan : Nat → Option Fault) (i : Nat) :
    (runFault env plan (Prog.bind (find cfg cache key) k) fs i).1 ≠ .error .panic := by
  intro h
  obtain ⟨m, hm, hc⟩ := keyed_panic_only_if cfg cache key k hk env plan fs i h
  rcases find_fault_cases cfg cache key env plan fs i b hb with ⟨e, he⟩ | he | he
  · rw [he] at hm; cases hm
  · rw [he] at hm; cases hm
  · rw [he] at hm
    have hm' : (codec cfg).findIn key ((codec cfg).entries b) = some m := by
      injection hm
    obtain ⟨r, hr, hk, hcl⟩ := (codec cfg).findIn_some key _ m hm'
    exact hrec r hr m hk hcl hc

/-! ### the remaining operations -/

theorem existsHash_no_panic (sri : Integrity) (h : contentPath cache sri ≠ none) :
    AllCallsR (fun _ => True) NoPanic (existsHash cache sri) :=
  exists_no_panic cache sri h

/-- Opening a reader by address: `content_path` must be usable; the second panic of the Rust
(`pick_algorithm` on an empty integrity) is then excluded too, an empty integrity having no
content path. -/
theorem ropenHash_no_panic (sri : Integrity) (h : contentPath cache sri ≠ none) :
    AllCallsR (fun _ => True) NoPanic (ropenHash cache sri) := by
  unfold ropenHash
  cases hc : contentPath cache sri with
  | none => exact absurd hc h
  | some p =>
    cases sri with
    | nil => exact absurd rfl h
    | cons x xs =>
      simp only [List.isEmpty_cons, Bool.false_eq_true, if_false]
      repeat' ac_step
      all_goals np_leaf

theorem verify_no_panic (sri : Integrity) (h : contentPath cache sri ≠ none) :
    AllCallsR (fun _ => True) NoPanic (verify cfg cache sri) := by
  unfold verify
  simp only [bind_eq, pure_eq]
  apply AllCallsR.bind (ropenHash_no_panic cache sri h)
  intro r hr
  split
  · rename_i e; intro h; cases h; exact hr rfl
  · split
    · np_leaf
    · rename_i e he
      unfold Reader.check at he
      split at he
      · cases he
      · cases he; np_leaf

theorem extractHash_no_panic (how : Extract) (sri : Integrity) (dest : Path)
    (h : contentPath cache sri ≠ none) :
    AllCallsR (fun _ => True) NoPanic (extractHash cfg how cache sri dest) := by
  unfold extractHash
  simp only [bind_eq, pure_eq]
  apply AllCallsR.bind (verify_no_panic cfg cache sri h)
  intro r hr
  split
  · rename_i e; intro h; cases h; exact hr rfl
  · apply AllCallsR.bind (extractUnchecked_no_panic cache how sri dest h)
    intro r2 hr2
    split
    · rename_i e; intro h; cases h; exact hr2 rfl
    · np_leaf

/-- `ropen`, `extract` (checked or not, every kind) and `removeFully` answer `panic` only if the
lookup found an entry whose integrity is not a usable address. -/
theorem ropen_panic_only_if (key : Bytes) (env : Env) (plan : Nat → Option Fault) (fs : FS) (i : Nat)
    (h : (runFault env plan (ropen cfg cache key) fs i).1 = .error .panic) :
    ∃ m, (runFault env plan (find cfg cache key) fs i).1 = .ok (some m) ∧
      contentPath cache m.sri = none := by
  unfold ropen at h
  simp only [bind_eq, pure_eq] at h
  refine keyed_panic_only_if cfg cache key _ ?_ env plan fs i h
  intro fr hfr hm
  cases fr with
  | error e => intro h; cases h; exact hfr rfl
  | ok mo =>
    cases mo with
    | none => intro h; cases h
    | some m => exact ropenHash_no_panic cache m.sri (hm m rfl)

theorem extract_panic_only_if (checked : Bool) (how : Extract) (key : Bytes) (dest : Path)
    (env : Env) (plan : Nat → Option Fault) (fs : FS) (i : Nat)
    (h : (runFault env plan (extract cfg checked how cache key dest) fs i).1 = .error .panic) :
    ∃ m, (runFault env plan (find cfg cache key) fs i).1 = .ok (some m) ∧
      contentPath cache m.sri = none := by
  unfold extract at h
  simp only [bind_eq, pure_eq] at h
  refine keyed_panic_only_if cfg cache key _ ?_ env plan fs i h
  intro fr hfr hm
  cases fr with
  | error e => intro h; cases h; exact hfr rfl
  | ok mo =>
    cases mo with
    | none => intro h; cases h
    | some m =>
      cases checked
      · exact extractUnchecked_no_panic cache how m.sri dest (hm m rfl)
      · exact extractHash_no_panic cfg cache how m.sri dest (hm m rfl)

/-- The continuation of `removeFully` after the lookup is panic-free when the entry found (if
any) carries a usable address. -/
theorem removeFully_panic_only_if (key : Bytes) (env : Env) (plan : Nat → Option Fault) (fs : FS)
    (i : Nat) (h : (runFault env plan (removeFully cfg cache key) fs i).1 = .error .panic) :
    ∃ m, (runFault env plan (find cfg cache key) fs i).1 = .ok (some m) ∧
      contentPath cache m.sri = none := by
  unfold removeFully at h
  simp only [bind_eq, pure_eq] at h
  refine keyed_panic_only_if cfg cache key _ ?_ env plan fs i h
  intro fr hfr hm
  cases fr with
  | error e => intro h; cases h; exact hfr rfl
  | ok mo =>
    cases mo with
    | none =>
      repeat' ac_step
      all_goals np_leaf
    | some m =>
      dsimp only
      apply AllCallsR.bind (removeHash_no_panic cache m.sri (hm m rfl))
      intro r hr
      split
      · repeat' ac_step
        all_goals np_leaf
      · rename_i e _; intro h; cases h; exact hr rfl
      · repeat' ac_step
        all_goals np_leaf

theorem removeEach_no_panic (es : List (Path × Bool)) :
    AllCallsR (fun _ => True) NoPanic (removeEach es) := by
  induction es with
  | nil => unfold removeEach; np_leaf
  | cons e es ih =>
    obtain ⟨p, d⟩ := e
    unfold removeEach
    simp only [bind_eq, pure_eq, call, bind_sys, bind_done, allCallsR_sys]
    refine ⟨trivial, fun r _ => ?_⟩
    split
    · np_leaf
    · exact ih

theorem clear_no_panic : AllCallsR (fun _ => True) NoPanic (clear cache) := by
  unfold clear
  simp only [bind_eq, pure_eq, call, bind_sys, bind_done, allCallsR_sys]
  refine ⟨trivial, fun r _ => ?_⟩
  split
  · exact removeEach_no_panic _
  · np_leaf
  · np_leaf

theorem lopen_no_panic (key : Option Bytes) (t : Target) (o : WriteOpts) :
    AllCallsR (fun _ => True) NoPanic (lopen cache key t o) := by
  unfold lopen
  repeat' ac_step
  all_goals np_leaf

theorem lopenAuto_no_panic (key : Option Bytes) (t : Target) :
    AllCallsR (fun _ => True) NoPanic (lopenAuto cache key t) := by
  unfold lopenAuto
  simp only [bind_eq, pure_eq, call, bind_sys, bind_done, allCallsR_sys]
  refine ⟨trivial, fun r _ => ?_⟩
  split
  · exact lopen_no_panic cache key t _
  · np_leaf
  · np_leaf

/-- **Writers never panic**: any options (declared size right, wrong, zero; declared integrity),
any chunks (several chunks for a declared size, more or fewer bytes than declared, empty chunks,
zero-length data), every flavour — as long as digests have at least two bytes. -/
theorem wopen_no_panic (fl : Flavour) (key : Option Bytes) (o : WriteOpts) :
    AllCallsR (fun _ => True) NoPanic (wopen cfg fl cache key o) := by
  unfold wopen dropTmp
  repeat' ac_step
  all_goals np_leaf

theorem wclose_no_panic (w : Writer) (hH : ∀ a d, 2 ≤ (cfg.H a d).length) :
    AllCallsR (fun _ => True) NoPanic (wclose cfg w) := by
  unfold wclose
  dsimp only
  rw [contentPath_compute]
  have : ¬ (Bytes.hex (cfg.H w.algo w.hashed)).length < 4 := by
    rw [Bytes.hex_length]; have := hH w.algo w.hashed; omega
  simp only [this, if_false]
  unfold dropTmp
  repeat' ac_step
  all_goals np_leaf

theorem wcommit_no_panic (w : Writer) (hH : ∀ a d, 2 ≤ (cfg.H a d).length) :
    AllCallsR (fun _ => True) NoPanic (wcommit cfg w) := by
  unfold wcommit wcommitCheck
  simp only [bind_eq, pure_eq]
  apply AllCallsR.bind (p := Prog.bind (wclose cfg w) _) (Ok := NoPanic)
  · apply AllCallsR.bind (wclose_no_panic cfg w hH)
    intro r hr
    split
    · rename_i e; intro h; cases h; exact hr rfl
    · split
      · rename_i e he
        intro h; cases h
        rcases C08_checks_errors w _ _ he with h1 | ⟨n, h1⟩ <;> cases h1
      · np_leaf
  · intro r hr
    split
    · rename_i e; intro h; cases h; exact hr rfl
    · unfold wcommitIndex
      split
      · exact insert_no_panic cfg _ _ _
      · np_leaf
where
  C08_checks_errors (w : Writer) (wsri : Integrity) (e : Err) (h : commitChecks w wsri = .error e) :
      e = .integrity ∨ ∃ n, e = .size n w.written := by
    unfold commitChecks commitChecks.sizeCheck at h
    split at h
    · split at h
      · cases h; exact Or.inl rfl
      · split at h
        · split at h
          · cases h; exact Or.inr ⟨_, rfl⟩
          · cases h
        · cases h
    · split at h
      · split at h
        · cases h; exact Or.inr ⟨_, rfl⟩
        · cases h
      · cases h

/-! ### `link_to` commit -/

/-- Break an `AllRets` goal about a `do`-block into one goal per leaf. -/
syntax "ar_step" : tactic
macro_rules
  | `(tactic| ar_step) => `(tactic| first
      | exact trivial
      | (refine fun (_ : Ret) _ => ?_)
      | (simp only [bind_eq, pure_eq, call, bind_sys, bind_done, allRets_sys, allRets_done])
      | (dsimp only)
      | split)

/-- **`lcommit` never answers `panic` when every call answers with the constructor the
filesystem model uses** (`Shaped`: an `Answer`, and for the two temp-name calls a path or an
error), provided digests have at least two bytes (so that the computed integrity has a content
path).  The one `panic` arm that survives that hypothesis on the hash — `mkTempLink` answering
neither a path nor an error — needs an answer no `exec` / injected fault gives. -/
theorem lcommit_no_panic (l : Linker) (hH : ∀ a d, 2 ≤ (cfg.H a d).length) :
    AllRets Shaped NoPanic (lcommit cfg l) := by
  unfold lcommit
  dsimp only
  rw [contentPath_compute]
  have : ¬ (Bytes.hex (cfg.H l.algo l.data)).length < 4 := by
    rw [Bytes.hex_length]; have := hH l.algo l.data; omega
  simp only [this, if_false]
  unfold dropTmp
  repeat' (first | exact (insert_no_panic cfg _ _ _).shaped | ar_step)
  all_goals first
    | exact trivial
    | (intro h; cases h; done)
    | (intro h; cases h; rename_i heq; (split at heq <;> (try split at heq) <;> cases heq); done)
    | (intro h; cases h; rename_i hs _ h1 h2
       rcases hs.2 with ⟨p, hp⟩ | ⟨e, he⟩
       · exact h1 _ hp
       · exact h2 _ he)

/-- … hence in no healthy run and under no fault plan. -/
theorem lcommit_no_panic_run (l : Linker) (hH : ∀ a d, 2 ≤ (cfg.H a d).length) (env : Env)
    (plan : Nat → Option Fault) (fs : FS) (i : Nat) :
    (run env (lcommit cfg l) fs).1 ≠ .error .panic ∧
      (runFault env plan (lcommit cfg l) fs i).1 ≠ .error .panic :=
  ⟨(lcommit_no_panic cfg l hH).shaped_run env fs,
   (lcommit_no_panic cfg l hH).shaped_runFault env plan fs i⟩

/-- The promised consequence for every run: healthy or under any fault plan, no panic result. -/
theorem no_panic_in_any_run {α : Type} (p : Prog (Res α)) (h : AllCallsR (fun _ => True) NoPanic p)
    (env : Env) (fs : FS) (plan : Nat → Option Fault) :
    (run env p fs).1 ≠ .error .panic ∧ (runFault env plan p fs 0).1 ≠ .error .panic :=
  ⟨h.result env fs, h.resultFault env plan fs 0⟩

/-- The same from the weaker premise "for all answers of the right constructor". -/
theorem no_panic_in_any_run_shaped {α : Type} (p : Prog (Res α)) (h : AllRets Shaped NoPanic p)
    (env : Env) (fs : FS) (plan : Nat → Option Fault) :
    (run env p fs).1 ≠ .error .panic ∧ (runFault env plan p fs 0).1 ≠ .error .panic :=
  ⟨h.shaped_run env fs, h.shaped_runFault env plan fs 0⟩

end Cacache.C20
