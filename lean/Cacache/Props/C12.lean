/-
C12 — sync, async-std and tokio flavours of the API are observationally equivalent.

In the model an operation is one program; `Flavour` is an explicit parameter of exactly the
operations whose Rust differs between `_sync` and async entry points (the writers: whether the
temp file is memory-mapped, whether a size is declared).  Lookups, reads, streamed readers,
extractions, removals, listing and index insertion have *no* flavour parameter at all: their
equivalence is by construction, and what gives that content is the three correspondences — the
same ops files run through the sync API, the async-std API and the tokio API of the real builds
against this one model (and against each other).
For the writers the theorems below say the flavour is unobservable in the result and in the
observable state a successful write leaves: the postconditions established for every flavour
(`StreamPost`, `BucketPost`, `ContentValid`, `GrowingAny`) do not mention it.
-/
import Cacache.Props.C02
import Cacache.Props.C16

namespace Cacache.C12
open Prog

variable (cfg : Cfg) (env : Env) (cache : Path)

/-- Two flavours writing the same chunks under the same options return the same integrity
whenever both answer ok — healthy or under any (possibly different) fault plans. -/
theorem same_answer (f1 f2 : Flavour) (key : Option Bytes) (o : WriteOpts) (chunks : List Bytes)
    (fs1 fs2 : FS) (hv1 : ContentValid cfg cache fs1) (hv2 : ContentValid cfg cache fs2)
    (p1 p2 : Nat → Option Fault) (s1 s2 : Integrity)
    (h1 : (runFault env p1 (writeStream cfg cache f1 key o chunks) fs1 0).1 = .ok s1)
    (h2 : (runFault env p2 (writeStream cfg cache f2 key o chunks) fs2 0).1 = .ok s2) : s1 = s2 := by
  have a1 := ((wpD_fault (writeStream_wp cfg env cache f1 key o chunks hv1) p1 0).2 s1 h1).1
  have a2 := ((wpD_fault (writeStream_wp cfg env cache f2 key o chunks hv2) p2 0).2 s2 h2).1
  rw [a1, a2]

/-- Both flavours leave the key's bucket as the old bytes plus the same record (same integrity,
same size, same metadata; the timestamp is the explicit one or the clock's answer). -/
theorem same_record (f1 f2 : Flavour) (key : Bytes) (o : WriteOpts) (chunks : List Bytes) (b0 : Bytes)
    (fs : FS) (hv : ContentValid cfg cache fs) (hb : BucketIs fs (bucketPath cfg cache key) b0)
    (s1 s2 : Integrity)
    (h1 : (run env (writeStream cfg cache f1 (some key) o chunks) fs).1 = .ok s1)
    (h2 : (run env (writeStream cfg cache f2 (some key) o chunks) fs).1 = .ok s2) :
    ∃ tm1 tm2,
      (run env (writeStream cfg cache f1 (some key) o chunks) fs).2.1.get (bucketPath cfg cache key) =
        some (.file (b0 ++ (codec cfg).frame
          (mkRec key { o with sri := some s1, size := some (o.size.getD chunks.flatten.length) } tm1))) ∧
      (run env (writeStream cfg cache f2 (some key) o chunks) fs).2.1.get (bucketPath cfg cache key) =
        some (.file (b0 ++ (codec cfg).frame
          (mkRec key { o with sri := some s1, size := some (o.size.getD chunks.flatten.length) } tm2))) ∧
      (∀ t, o.time = some t → tm1 = t ∧ tm2 = t) := by
  have e : s1 = s2 := same_answer cfg env cache f1 f2 (some key) o chunks fs fs hv hv
    (fun _ => none) (fun _ => none) s1 s2 (by rw [runFault_none]; exact h1) (by rw [runFault_none]; exact h2)
  have b1 := (wpD_run (writeStream_keyed_wp cfg env cache f1 key o chunks b0 hv hb)).2.2 s1 h1
  have b2 := (wpD_run (writeStream_keyed_wp cfg env cache f2 key o chunks b0 hv hb)).2.2 s2 h2
  obtain ⟨tm1, ht1, g1, _⟩ := b1
  obtain ⟨tm2, ht2, g2, _⟩ := b2
  refine ⟨tm1, tm2, g1, ?_, fun t ht => ⟨ht1 t ht, ht2 t ht⟩⟩
  rw [e]; exact g2

/-- Both flavours keep the content store valid at every kill point (C03 holds per flavour). -/
theorem both_crash_safe (f : Flavour) (key : Option Bytes) (o : WriteOpts) (chunks : List Bytes)
    (fs : FS) (hv : ContentValid cfg cache fs) (n t : Nat) :
    ContentValid cfg cache (crash env (writeStream cfg cache f key o chunks) fs n t) :=
  wpD_crash (writeStream_wp cfg env cache f key o chunks hv) n t

/-- A cache written by one flavour is read identically by the others: reading has no flavour.
(A DEFINITIONAL fact about the model, proved by `rfl`: the model has ONE `read` program, without a
`Flavour` parameter, for the sync and async entry points — this records that modelling decision,
it is not a result about two programs.  What gives it content is the correspondence of the three
real builds with this one model (header), and for the writers — which do have a flavour —
`same_answer`, `same_record`, `flavour_assignment_irrelevant`.) -/
theorem cross_flavour_read (fs' : FS) (key : Bytes) :
    (fun (_ : Flavour) => (run env (read cfg cache key) fs').1) Flavour.sync =
    (fun (_ : Flavour) => (run env (read cfg cache key) fs').1) Flavour.async := rfl

/-! ### total correctness: whole programs in any mix of flavours -/

open CacheRefine Refine in
/-- The same operation through the other flavour. -/
def withFlavour (f : Flavour) : CacheRefine.COp → CacheRefine.COp
  | .put _ key o chunks => .put f key o chunks
  | op => op

open CacheRefine Refine in
theorem withFlavour_wf (f : Flavour) (op : CacheRefine.COp) (h : op.WF cfg) : (withFlavour f op).WF cfg := by
  cases op <;> exact h

open CacheRefine Refine in
/-- The abstract cache does not know flavours. -/
theorem cSpecRun_flavour (fl : Nat → Flavour) (ops : List (Env × CacheRefine.COp)) (m : AbsCache) (i : Nat) :
    cSpecRun cfg ((ops.zipIdx i).map (fun x => (x.1.1, withFlavour (fl x.2) x.1.2))) m = cSpecRun cfg ops m := by
  induction ops generalizing m i with
  | nil => rfl
  | cons x ops ih =>
    obtain ⟨env, op⟩ := x
    simp only [List.zipIdx_cons, List.map_cons, cSpecRun]
    have e : ∀ m, cSpecStep cfg env m (withFlavour (fl i) op) = cSpecStep cfg env m op := by
      intro m; cases op <;> rfl
    rw [e, ih]

open CacheRefine Refine in
/-- **Any program, any assignment of flavours to its steps** (all sync, all async, mixed in any
pattern — `fl` picks the flavour of step `i`): started from a healthy cache, the program run with
the flavours `fl` returns at every step exactly what the program run as written returns, and leaves
a cache with the same abstract content (index map and content store) — i.e. every later lookup,
read and listing answers the same.  Keyed writes of every shape, reads, index and by-address
operations; unbounded length. -/
theorem flavour_assignment_irrelevant (fl : Nat → Flavour) (ops : List (Env × CacheRefine.COp)) (fs : FS)
    (h : Healthy cfg cache fs) (hl : HexLen cfg) (hops : ∀ x ∈ ops, x.2.WF cfg) :
    (cRunOps cfg cache ((ops.zipIdx 0).map (fun x => (x.1.1, withFlavour (fl x.2) x.1.2))) fs).1 =
      (cRunOps cfg cache ops fs).1 ∧
    absCache cfg cache (cRunOps cfg cache ((ops.zipIdx 0).map (fun x => (x.1.1, withFlavour (fl x.2) x.1.2))) fs).2 =
      absCache cfg cache (cRunOps cfg cache ops fs).2 := by
  have hops' : ∀ x ∈ (ops.zipIdx 0).map (fun x => (x.1.1, withFlavour (fl x.2) x.1.2)), x.2.WF cfg := by
    intro x hx
    obtain ⟨y, hy, rfl⟩ := List.mem_map.mp hx
    exact withFlavour_wf cfg _ _ (hops y.1 (List.fst_mem_of_mem_zipIdx hy))
  obtain ⟨a1, a2, _⟩ := cache_refines_map cfg cache _ fs h hl hops'
  obtain ⟨b1, b2, _⟩ := cache_refines_map cfg cache ops fs h hl hops
  rw [a1, a2, b1, b2, cSpecRun_flavour]
  exact ⟨rfl, rfl⟩

end Cacache.C12
