/-
C14 (extension) — an abandoned writer leaves no temporary file.
Proofs in `Lemmas/Gaps.lean` (which imports this property's base module, hence this separate module).
-/
import Cacache.Lemmas.Gaps

namespace Cacache.C14x
open Prog

open Refine CacheRefine

variable (cfg : Cfg) (cache : Path)

/-- **The whole life of a writer that is dropped** (opened, fed any chunks, dropped), from ANY filesystem
on which it could be opened: afterwards nothing is at its temp path, every other entry of `cache/tmp` is
as it was, and outside `cache/tmp` nothing changed but directories created on the way. -/
theorem abandon_leaves_no_tmp (env : Env) (fl : Flavour) (key : Option Bytes) (o : WriteOpts)
    (fed : List Bytes) (fs : FS) (w : Writer)
    (hopen : (run env (wopen cfg fl cache key o) fs).1 = .ok w) :
    w.tmp = (cache ++ [dTmp]) ++ [tmpName fs.next] ∧
    (run env (C14.abandon cfg fl cache key o fed) fs).2.1.get w.tmp = none ∧
    TmpClean cache fs (run env (C14.abandon cfg fl cache key o fed) fs).2.1 ∧
    ∀ q, q ≠ w.tmp → Grow fs (run env (C14.abandon cfg fl cache key o fed) fs).2.1 q (cache ++ [dTmp]) :=
  Gaps.abandon_leaves_no_tmp cfg cache env fl key o fed fs w hopen

end Cacache.C14x
