/-
C16 — addresses are pure digests: identical data is stored once, algorithms coexist.
-/
import Cacache.Lemmas.Commit
import Cacache.Lemmas.CacheRefine

namespace Cacache.C16
open Prog

variable (cfg : Cfg) (env : Env) (cache : Path)

/-- **The address is the digest.**  Whenever a write without a declared integrity answers ok —
healthy or under any fault plan, keyed or by address, any flavour, any prior state — the returned
integrity is `[⟨algo, base64 (H algo data)⟩]` for `data` = all the bytes fed, whatever the key
and however the data was chunked. -/
theorem address_is_digest (fl : Flavour) (key : Option Bytes) (o : WriteOpts) (chunks : List Bytes)
    (fs : FS) (hv : ContentValid cfg cache fs) (hs : o.sri = none) (plan : Nat → Option Fault)
    (sri : Integrity) :
    ((run env (writeStream cfg cache fl key o chunks) fs).1 = .ok sri →
      sri = [{ algo := o.algo.getD .sha256, digest := B64.encode (cfg.H (o.algo.getD .sha256) chunks.flatten) }]) ∧
    ((runFault env plan (writeStream cfg cache fl key o chunks) fs 0).1 = .ok sri →
      sri = [{ algo := o.algo.getD .sha256, digest := B64.encode (cfg.H (o.algo.getD .sha256) chunks.flatten) }]) := by
  have h := writeStream_wp cfg env cache fl key o chunks hv
  exact ⟨fun hr => ((wpD_run h).2 sri hr).2.1 hs, fun hr => ((wpD_fault h plan 0).2 sri hr).2.1 hs⟩

/-- The address depends on the data only: two chunkings of the same bytes, two keys, two
flavours give the same integrity. -/
theorem address_depends_on_data_only (a : Algo) (c1 c2 : List Bytes) (h : c1.flatten = c2.flatten) :
    Sri.compute cfg.H a c1.flatten = Sri.compute cfg.H a c2.flatten := by rw [h]

/-- A successful write leaves its data's content path present. -/
theorem content_present_after_write (fl : Flavour) (key : Option Bytes) (o : WriteOpts)
    (chunks : List Bytes) (fs : FS) (hv : ContentValid cfg cache fs) (sri : Integrity)
    (hr : (run env (writeStream cfg cache fl key o chunks) fs).1 = .ok sri) :
    ∃ cpath, contentPath cache (Sri.compute cfg.H (o.algo.getD .sha256) chunks.flatten) = some cpath ∧
      ((run env (writeStream cfg cache fl key o chunks) fs).2.1.get cpath).isSome :=
  ((wpD_run (writeStream_wp cfg env cache fl key o chunks hv)).2 sri hr).2.2.2.2

/-- **Stored once, byte-identical.**  In a valid store, whatever regular file sits at the address
of some data has exactly that data's digest; so a second copy under the same address cannot differ
(given non-colliding digests it *is* the data), and publishing the same bytes again rewrites the
same path with the same bytes. -/
theorem same_address_same_digest (fs : FS) (hv : ContentValid cfg cache fs) (a : Algo)
    (data b : Bytes) (hl : 4 ≤ (Bytes.hex (cfg.H a data)).length)
    (hf : fs.get (addrPath cache a (Bytes.hex (cfg.H a data))) = some (.file b)) :
    Bytes.hex (cfg.H a b) = Bytes.hex (cfg.H a data) :=
  (hv a _ b hl hf).symm

/-- Publishing bytes that are already stored leaves the stored copy byte-identical. -/
theorem republish_identical (fs : FS) (tmp : Path) (a : Algo) (data : Bytes)
    (hpresent : fs.get (addrPath cache a (Bytes.hex (cfg.H a data))) = some (.file data)) :
    ((fs.del tmp).put (addrPath cache a (Bytes.hex (cfg.H a data))) (.file data)).get
      (addrPath cache a (Bytes.hex (cfg.H a data))) = fs.get (addrPath cache a (Bytes.hex (cfg.H a data))) := by
  rw [FS.get_put_same, hpresent]

/-- **Algorithms coexist**: content paths of different algorithms are different paths, so entries
hashed with different algorithms cannot affect each other; and an address is found under exactly
one (algorithm, digest). -/
theorem algos_disjoint (a a' : Algo) (h h' : Bytes) (hne : a ≠ a') :
    addrPath cache a h ≠ addrPath cache a' h' :=
  fun e => hne (addrPath_injective e).1

theorem address_unique (a a' : Algo) (h h' : Bytes) (e : addrPath cache a h = addrPath cache a' h') :
    a = a' ∧ h = h' := addrPath_injective e

/-- A read verifies with the algorithm of the stored integrity: the check of a single-hash
integrity uses exactly that hash's algorithm. -/
theorem verified_with_own_algorithm (a : Algo) (d : Bytes) (b : Bytes) (x : Algo)
    (h : Sri.check cfg.H [{ algo := a, digest := d }] b = some x) :
    x = a ∧ d = B64.encode (cfg.H a b) := by
  unfold Sri.check at h
  simp at h
  obtain ⟨h1, h2⟩ := h
  exact ⟨h2.symm, h1.symm ▸ rfl⟩

/-! ### the content store refines a map from addresses to bytes -/

open CacheRefine in
/-- **Any sequence of by-address operations** (`write_hash` / streamed by-address writers of any
flavour, options and chunking; `read_hash`; `exists`; `remove_hash`) run from a healthy store
answers like the abstract map `(algorithm, hex digest) ↦ bytes`: a put maps the address of the
digest of the bytes — which depends on (algorithm, bytes) only — to the bytes and touches no other
address; total correctness included. -/
theorem store_refines_map (cfg : Cfg) (cache : Path) (ops : List (Env × SOp)) (fs : FS)
    (h : HealthyStore cfg cache fs) (hl : HexLen cfg) :
    (sRunOps cfg cache ops fs).1 = (sSpecRun cfg ops (absStore cache fs)).1 ∧
    absStore cache (sRunOps cfg cache ops fs).2 = (sSpecRun cfg ops (absStore cache fs)).2 ∧
    HealthyStore cfg cache (sRunOps cfg cache ops fs).2 :=
  CacheRefine.store_refines_map cfg cache ops fs h hl

end Cacache.C16
