/-
C16 — addresses are pure digests: identical data is stored once, algorithms coexist.
-/
import Cacache.Lemmas.Commit
import Cacache.Lemmas.CacheRefine

namespace Cacache.C16
open Prog

variable (cfg : Cfg) (env : Env) (cache : Path)

/-- **The address is the digest.**  Whenever a write without a declared integrity answers ok —
healthy or under any fault plan, keyed or by address, any flavour, any prior state — the returned
integrity is `[⟨algo, base64 (H algo data)⟩]` for `data` = all the bytes fed, whatever the key
and however the data was chunked. -/
theorem address_is_digest (fl : Flavour) (key : Option Bytes) (o : WriteOpts) (chunks : List Bytes)
    (fs : FS) (hv : ContentValid cfg cache fs) (hs : o.sri = none) (plan : Nat → Option Fault)
    (sri : Integrity) :
    ((run env (writeStream cfg cache fl key o chunks) fs).1 = .ok sri →
      sri = [{ algo := o.algo.getD .sha256, digest := B64.encode (cfg.H (o.algo.getD .sha256) chunks.flatten) }]) ∧
    ((runFault env plan (writeStream cfg cache fl key o chunks) fs 0).1 = .ok sri →
      sri = [{ algo := o.algo.getD .sha256, digest := B64.encode (cfg.H (o.algo.getD .sha256) chunks.flatten) }]) := by
  have h := writeStream_wp cfg env cache fl key o chunks hv
  exact ⟨fun hr => ((wpD_run h).2 sri hr).2.1 hs, fun hr => ((wpD_fault h plan 0).2 sri hr).2.1 hs⟩

/-- The address depends on the data only: two chunkings of the same bytes, two keys, two
flavours give the same integrity.  (A DEFINITIONAL fact about the model, by congruence: the
computed integrity `Sri.compute` is a function of the algorithm and the concatenated bytes and has
no key / flavour / chunking argument.  That the write PROGRAMS return exactly this value is
`address_is_digest`.) -/
theorem address_depends_on_data_only (a : Algo) (c1 c2 : List Bytes) (h : c1.flatten = c2.flatten) :
    Sri.compute cfg.H a c1.flatten = Sri.compute cfg.H a c2.flatten := by rw [h]

/-- A successful write leaves its data's content path present: the path EXISTS (`isSome` — some
node is there, e.g. the regular file just renamed, or whatever an earlier publisher or `link_to`
left).  That it can be READ BACK as the data needs the node to be a regular file holding it
(`some (.file b)`): that is the hypothesis / conclusion of the end-to-end theorems
(`rewrite_same_bytes` below, `C02`'s read-back theorems, `CacheRefine.cache_refines_map`). -/
theorem content_present_after_write (fl : Flavour) (key : Option Bytes) (o : WriteOpts)
    (chunks : List Bytes) (fs : FS) (hv : ContentValid cfg cache fs) (sri : Integrity)
    (hr : (run env (writeStream cfg cache fl key o chunks) fs).1 = .ok sri) :
    ∃ cpath, contentPath cache (Sri.compute cfg.H (o.algo.getD .sha256) chunks.flatten) = some cpath ∧
      ((run env (writeStream cfg cache fl key o chunks) fs).2.1.get cpath).isSome :=
  ((wpD_run (writeStream_wp cfg env cache fl key o chunks hv)).2 sri hr).2.2.2.2

/-- **Stored once, byte-identical.**  In a valid store, whatever regular file sits at the address
of some data has exactly that data's digest; so a second copy under the same address cannot differ
(given non-colliding digests it *is* the data), and publishing the same bytes again rewrites the
same path with the same bytes. -/
theorem same_address_same_digest (fs : FS) (hv : ContentValid cfg cache fs) (a : Algo)
    (data b : Bytes) (hl : 4 ≤ (Bytes.hex (cfg.H a data)).length)
    (hf : fs.get (addrPath cache a (Bytes.hex (cfg.H a data))) = some (.file b)) :
    Bytes.hex (cfg.H a b) = Bytes.hex (cfg.H a data) :=
  (hv a _ b hl hf).symm

/-- Publishing bytes that are already stored leaves the stored copy byte-identical.  (A fact about
the filesystem model's `del` / `put` only — the effect of the publishing `rename` spelled out —,
not about a program; the program-level statement is `rewrite_same_bytes` below.) -/
theorem republish_identical (fs : FS) (tmp : Path) (a : Algo) (data : Bytes)
    (hpresent : fs.get (addrPath cache a (Bytes.hex (cfg.H a data))) = some (.file data)) :
    ((fs.del tmp).put (addrPath cache a (Bytes.hex (cfg.H a data))) (.file data)).get
      (addrPath cache a (Bytes.hex (cfg.H a data))) = fs.get (addrPath cache a (Bytes.hex (cfg.H a data))) := by
  rw [FS.get_put_same, hpresent]

open CacheRefine Refine in
/-- **Identical data is stored once (program level).**  From a healthy cache, write some bytes under
a key, then write THE SAME bytes again — any other key, any flavour, any clocks: after the first
write the address of the data holds a regular file with exactly the data; after the second write it
holds that same file, byte-identical, the whole abstract content store (address ↦ bytes) is
unchanged by the second write, and the cache is healthy (in particular `ContentValid`). -/
theorem rewrite_same_bytes (env1 env2 : Env) (fl1 fl2 : Flavour) (key1 key2 : Bytes) (a : Algo)
    (data : Bytes) (fs : FS) (h : Healthy cfg cache fs) (hl : HexLen cfg)
    (hk1 : Json.utf8Valid key1 = true) (hk2 : Json.utf8Valid key2 = true)
    (hd : data.length ≤ Rec.u64Max) :
    (run env1 (write cfg fl1 cache a key1 data) fs).2.1.get
        (addrPath cache a (Bytes.hex (cfg.H a data))) = some (.file data) ∧
    (run env2 (write cfg fl2 cache a key2 data)
        (run env1 (write cfg fl1 cache a key1 data) fs).2.1).2.1.get
        (addrPath cache a (Bytes.hex (cfg.H a data))) = some (.file data) ∧
    absStore cache (run env2 (write cfg fl2 cache a key2 data)
        (run env1 (write cfg fl1 cache a key1 data) fs).2.1).2.1 =
      absStore cache (run env1 (write cfg fl1 cache a key1 data) fs).2.1 ∧
    Healthy cfg cache (run env2 (write cfg fl2 cache a key2 data)
        (run env1 (write cfg fl1 cache a key1 data) fs).2.1).2.1 := by
  have hfl : [data].flatten = data := by simp
  -- what one write does to the abstract store
  have one : ∀ (env : Env) (fl : Flavour) (key : Bytes) (s : FS), Healthy cfg cache s →
      Json.utf8Valid key = true →
      absStore cache (run env (write cfg fl cache a key data) s).2.1 =
        (absStore cache s).set a (Bytes.hex (cfg.H a data)) (some data) ∧
      Healthy cfg cache (run env (write cfg fl cache a key data) s).2.1 := by
    intro env fl key s hs hk
    have hwf := write_wf cfg fl key a data hk hd
    rw [write_eq_stream]
    cases fl with
    | sync =>
      obtain ⟨_, h2, h3, _⟩ := run_putKeyed cfg cache env .sync key { algo := some a } [data] s hs hl hwf
      refine ⟨?_, h3⟩
      have := congrArg AbsCache.store h2
      rw [putSpec_store] at this
      simpa [absCache, hfl] using this
    | async =>
      obtain ⟨_, h2, h3, _⟩ := run_putKeyed cfg cache env .async key
        { algo := some a, size := some data.length } [data] s hs hl hwf
      refine ⟨?_, h3⟩
      have := congrArg AbsCache.store h2
      rw [putSpec_store] at this
      simpa [absCache, hfl] using this
  have file_of : ∀ s : FS, absStore cache s a (Bytes.hex (cfg.H a data)) = some data →
      s.get (addrPath cache a (Bytes.hex (cfg.H a data))) = some (.file data) := by
    intro s hs
    unfold absStore at hs
    split at hs
    · rename_i b hb; cases hs; exact hb
    · cases hs
  obtain ⟨s1, h1⟩ := one env1 fl1 key1 fs h hk1
  obtain ⟨s2, h2⟩ := one env2 fl2 key2 _ h1 hk2
  have e1 : absStore cache (run env1 (write cfg fl1 cache a key1 data) fs).2.1 a
      (Bytes.hex (cfg.H a data)) = some data := by rw [s1, AbsStore.set_same]
  have e12 : absStore cache (run env2 (write cfg fl2 cache a key2 data)
      (run env1 (write cfg fl1 cache a key1 data) fs).2.1).2.1 =
      absStore cache (run env1 (write cfg fl1 cache a key1 data) fs).2.1 := by
    rw [s2]
    funext a' h'
    by_cases hh : a' = a ∧ h' = Bytes.hex (cfg.H a data)
    · obtain ⟨rfl, rfl⟩ := hh
      rw [AbsStore.set_same, e1]
    · rw [AbsStore.set_other _ _ hh]
  exact ⟨file_of _ e1, file_of _ (by rw [e12]; exact e1), e12, h2⟩

/-- **Algorithms coexist**: content paths of different algorithms are different paths, so entries
hashed with different algorithms cannot affect each other; and an address is found under exactly
one (algorithm, digest). -/
theorem algos_disjoint (a a' : Algo) (h h' : Bytes) (hne : a ≠ a') :
    addrPath cache a h ≠ addrPath cache a' h' :=
  fun e => hne (addrPath_injective e).1

theorem address_unique (a a' : Algo) (h h' : Bytes) (e : addrPath cache a h = addrPath cache a' h') :
    a = a' ∧ h = h' := addrPath_injective e

/-- A read verifies with the algorithm of the stored integrity: the check of a single-hash
integrity uses exactly that hash's algorithm. -/
theorem verified_with_own_algorithm (a : Algo) (d : Bytes) (b : Bytes) (x : Algo)
    (h : Sri.check cfg.H [{ algo := a, digest := d }] b = some x) :
    x = a ∧ d = B64.encode (cfg.H a b) := by
  unfold Sri.check at h
  simp at h
  obtain ⟨h1, h2⟩ := h
  exact ⟨h2.symm, h1.symm ▸ rfl⟩

/-! ### the content store refines a map from addresses to bytes -/

open CacheRefine in
/-- **Any sequence of by-address operations** (`write_hash` / streamed by-address writers of any
flavour, options and chunking; `read_hash`; `exists`; `remove_hash`) run from a healthy store
answers like the abstract map `(algorithm, hex digest) ↦ bytes`: a put maps the address of the
digest of the bytes — which depends on (algorithm, bytes) only — to the bytes and touches no other
address; total correctness included. -/
theorem store_refines_map (cfg : Cfg) (cache : Path) (ops : List (Env × SOp)) (fs : FS)
    (h : HealthyStore cfg cache fs) (hl : HexLen cfg) :
    (sRunOps cfg cache ops fs).1 = (sSpecRun cfg ops (absStore cache fs)).1 ∧
    absStore cache (sRunOps cfg cache ops fs).2 = (sSpecRun cfg ops (absStore cache fs)).2 ∧
    HealthyStore cfg cache (sRunOps cfg cache ops fs).2 :=
  CacheRefine.store_refines_map cfg cache ops fs h hl

end Cacache.C16
