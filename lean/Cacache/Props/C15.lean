/-
C15 — effects stay inside the cache directory; keys are opaque; reads do not mutate.

`AllCalls P p` says: every call the program `p` can ever issue — whatever the calls answer, so in
particular on every filesystem state, under every fault plan and in every interleaving — satisfies
`P`.  `Call.within roots c` says every path the call is aimed at lies at or below one of `roots`.
The theorems therefore quantify over all keys, data, options and states at once.
(`create_dir_all` may create missing *ancestors* of the cache directory on the way to
`<cache>/tmp`; they are directories the caller's cache path itself requires.)
-/
import Cacache.Lemmas.Ops

namespace Cacache.C15
open Prog

variable (cfg : Cfg)

/-- Every mutating call of every keyed or by-address write is aimed inside the cache directory. -/
theorem write_confined (fl : Flavour) (cache : Path) (algo : Algo) (key data : Bytes) :
    AllCalls (Call.within [cache]) (write cfg fl cache algo key data) :=
  write_within cfg fl cache algo key data

theorem writeHash_confined (fl : Flavour) (cache : Path) (algo : Algo) (data : Bytes) :
    AllCalls (Call.within [cache]) (writeHash cfg fl cache algo data) :=
  writeHash_within cfg fl cache algo data

/-- … of every streamed writer: open (any options), any chunks, commit or drop. -/
theorem writer_confined (fl : Flavour) (cache : Path) (key : Option Bytes) (o : WriteOpts)
    (chunks : List Bytes) :
    AllCalls (Call.within [cache]) (do
      match ← wopen cfg fl cache key o with
      | .error e => pure (.error e)
      | .ok w =>
        match ← wwriteAll w chunks with
        | .error e => do dropTmp w.tmp; pure (.error (.io e))
        | .ok w' => wcommit cfg w') := by
  simp only [bind_eq, pure_eq]
  apply AllCallsR.bind (wopen_within cfg fl cache key o)
  intro r hr
  split
  · trivial
  · rename_i w
    obtain ⟨hc, hw⟩ := hr w rfl
    subst hc
    apply AllCallsR.bind (wwriteAll_within w chunks hw)
    intro r2 hr2
    split
    · apply AllCallsR.bind (dropTmp_within _ _ hw.prefix)
      intro _ _; trivial
    · rename_i w'
      have hs := hr2 w' rfl
      have := wcommit_within cfg w' (hs.ok hw)
      rw [hs.1] at this
      exact this

/-- … of index insertion, removal, full removal, content removal and clearing. -/
theorem insert_confined (cache : Path) (key : Bytes) (o : WriteOpts) :
    AllCalls (Call.within [cache]) (insert cfg cache key o) := insert_within cfg cache key o

theorem remove_confined (cache : Path) (key : Bytes) :
    AllCalls (Call.within [cache]) (delete cfg cache key) := delete_within cfg cache key

theorem removeHash_confined (cache : Path) (sri : Integrity) :
    AllCalls (Call.within [cache]) (removeHash cache sri) := removeHash_within cache sri

theorem removeFully_confined (cache : Path) (key : Bytes) :
    AllCalls (Call.within [cache]) (removeFully cfg cache key) := removeFully_within cfg cache key

theorem clear_confined (cache : Path) : AllCalls (Call.within [cache]) (clear cache) :=
  clear_within cache

/-- An extraction (copy / hard link / reflink, checked or not, by key or by address) mutates
nothing but the destination it was given. -/
theorem extract_confined (checked : Bool) (how : Extract) (cache : Path) (key : Bytes)
    (dest : Path) : AllCalls (Call.within [dest]) (extract cfg checked how cache key dest) :=
  extract_within cfg checked how cache key dest

theorem extractHash_confined (how : Extract) (cache : Path) (sri : Integrity) (dest : Path) :
    AllCalls (Call.within [dest]) (extractHash cfg how cache sri dest) :=
  extractHash_within cfg how cache sri dest

/-- `link_to` never aims a mutating call at the target: everything it changes is in the cache. -/
theorem linkTo_confined (l : Linker) : AllCalls (Call.within [l.cache]) (lcommit cfg l) :=
  lcommit_within cfg l

/-- **Read-only calls perform no filesystem mutation at all**: lookup, read by key and by address,
opening streamed readers, the verification pass, `exists`, listing. -/
theorem readonly_calls (cache : Path) (key : Bytes) (sri : Integrity) :
    AllCalls ReadOnly (find cfg cache key) ∧ AllCalls ReadOnly (read cfg cache key) ∧
    AllCalls ReadOnly (readHash cfg cache sri) ∧ AllCalls ReadOnly (ropen cfg cache key) ∧
    AllCalls ReadOnly (ropenHash cache sri) ∧ AllCalls ReadOnly (verify cfg cache sri) ∧
    AllCalls ReadOnly (existsHash cache sri) ∧ AllCalls ReadOnly (ls cfg cache) :=
  ⟨find_ro cfg cache key, read_ro cfg cache key, readHash_ro cfg cache sri, ropen_ro cfg cache key,
   ropenHash_ro cache sri, verify_ro cfg cache sri, existsHash_ro cache sri, ls_ro cfg cache⟩

/-- … and therefore leave every filesystem state exactly as it was. -/
theorem readonly_pure (env : Env) (fs : FS) (cache : Path) (key : Bytes) (sri : Integrity) :
    (run env (find cfg cache key) fs).2.1 = fs ∧ (run env (read cfg cache key) fs).2.1 = fs ∧
    (run env (readHash cfg cache sri) fs).2.1 = fs ∧ (run env (ls cfg cache) fs).2.1 = fs ∧
    (run env (existsHash cache sri) fs).2.1 = fs := by
  have h := readonly_calls cfg cache key sri
  have lift : ∀ {α : Type} (p : Prog α), AllCalls ReadOnly p → (run env p fs).2.1 = fs := by
    intro α p hp
    exact AllCalls.after_eq env (hp.mono (fun c hc => exec_readOnly env c hc) (fun _ h => h)) fs
  exact ⟨lift _ h.1, lift _ h.2.1, lift _ h.2.2.1, lift _ h.2.2.2.2.2.2.2, lift _ h.2.2.2.2.2.2.1⟩

/-- **Keys are opaque** (the path function): two keys with the same SHA-1 have the same bucket
path.  That the bucket path (and its parent directory) is the ONLY way a key reaches a path of any
call of the index operations is the program-level statement `index_ops_paths` below. -/
theorem key_opaque (cache : Path) (k1 k2 : Bytes) (h : cfg.H .sha1 k1 = cfg.H .sha1 k2) :
    bucketPath cfg cache k1 = bucketPath cfg cache k2 := by
  unfold bucketPath keyHex; rw [h]

/-! ### keys are opaque, at program level -/

def _root_.Cacache.Target.path : Target → Path
  | .abs p => p
  | .rel p => p

/-- EVERY path a call mentions — read or written, source or destination, link texts included. -/
def _root_.Cacache.Call.allPaths : Call → List Path
  | .mkdirP p | .mkTemp p | .fallocate p _ | .writeAt p _ _ | .truncate p _ | .openAppend p
  | .appendWrite p _ | .readFile p | .existsF p | .sizeOf p | .unlink p | .walk p | .readDir p
  | .removeTree p | .isLink p => [p]
  | .rename s d | .hardLink s d | .copyFile s d | .reflink s d | .renameLink s d => [s, d]
  | .symlink t p | .mkTempLink p t | .sameFile p t => [p, t.path]
  | .now => []

/-- Every path the call mentions is the bucket file of `key` or the directory holding it. -/
def OnlyBucketOf (cache : Path) (key : Bytes) (c : Call) : Prop :=
  ∀ p ∈ c.allPaths, p = bucketPath cfg cache key ∨ p = FS.parent (bucketPath cfg cache key)

/-- … or the content path of some integrity value (the entry's, for a full removal). -/
def OnlyBucketOrContentOf (cache : Path) (key : Bytes) (c : Call) : Prop :=
  ∀ p ∈ c.allPaths, p = bucketPath cfg cache key ∨ p = FS.parent (bucketPath cfg cache key) ∨
    ∃ sri, contentPath cache sri = some p

/-- Close the per-call goals: the call's paths are literally the bucket / its parent. -/
syntax "kp_leaf" : tactic
macro_rules
  | `(tactic| kp_leaf) => `(tactic| first
      | exact trivial
      | ((first | unfold OnlyBucketOf | unfold OnlyBucketOrContentOf)
         intro p hp
         simp only [Call.allPaths, List.mem_cons, List.mem_singleton, List.not_mem_nil, or_false] at hp <;>
         first
           | exact Or.inl hp
           | exact Or.inr hp
           | exact Or.inr (Or.inl hp)
           | exact Or.inr (Or.inr ⟨_, by rw [hp]; assumption⟩)))

/-- **Keys are opaque (program level).**  Whatever the calls answer — every filesystem state,
fault plan, interleaving — every path that any call of `find` / `insert` / `delete` for `key`
mentions (reads included) is `bucketPath cfg cache key` or its parent directory: the key reaches
the filesystem's name space through the hex SHA-1 in `bucketPath` and through nothing else
(separators, `..`, NUL bytes, case in the key never reach a path; the key's bytes only occur
inside the record DATA that is appended). -/
theorem index_ops_paths (cache : Path) (key : Bytes) (o : WriteOpts) :
    AllCalls (OnlyBucketOf cfg cache key) (find cfg cache key) ∧
    AllCalls (OnlyBucketOf cfg cache key) (insert cfg cache key o) ∧
    AllCalls (OnlyBucketOf cfg cache key) (delete cfg cache key) := by
  refine ⟨?_, ?_, ?_⟩
  · unfold find bucketEntries
    repeat' ac_step
    all_goals kp_leaf
  · unfold insert getTime appendRec
    repeat' ac_step
    all_goals kp_leaf
  · unfold delete insert getTime appendRec
    repeat' ac_step
    all_goals kp_leaf

/-- A full removal mentions, besides those two, only a content path (that of the entry found). -/
theorem removeFully_paths (cache : Path) (key : Bytes) :
    AllCalls (OnlyBucketOrContentOf cfg cache key) (removeFully cfg cache key) := by
  unfold removeFully find bucketEntries removeHash
  repeat' ac_step
  all_goals kp_leaf

/-- Hence two keys with the same SHA-1 are indistinguishable as far as paths go: every path any
call of an index operation on `k1` mentions is the bucket of `k2` or its parent. -/
theorem same_sha1_same_paths (cache : Path) (k1 k2 : Bytes) (o : WriteOpts)
    (h : cfg.H .sha1 k1 = cfg.H .sha1 k2) :
    AllCalls (OnlyBucketOf cfg cache k2) (find cfg cache k1) ∧
    AllCalls (OnlyBucketOf cfg cache k2) (insert cfg cache k1 o) ∧
    AllCalls (OnlyBucketOf cfg cache k2) (delete cfg cache k1) ∧
    AllCalls (OnlyBucketOrContentOf cfg cache k2) (removeFully cfg cache k1) := by
  have e : bucketPath cfg cache k1 = bucketPath cfg cache k2 := key_opaque cfg cache k1 k2 h
  have e1 : OnlyBucketOf cfg cache k1 = OnlyBucketOf cfg cache k2 := by
    unfold OnlyBucketOf; rw [e]
  have e2 : OnlyBucketOrContentOf cfg cache k1 = OnlyBucketOrContentOf cfg cache k2 := by
    unfold OnlyBucketOrContentOf; rw [e]
  rw [← e1, ← e2]
  exact ⟨(index_ops_paths cfg cache k1 o).1, (index_ops_paths cfg cache k1 o).2.1,
    (index_ops_paths cfg cache k1 o).2.2, removeFully_paths cfg cache k1⟩

/-- The calls the statement is about are soundly collected: what `AllCalls` asserts holds of the
trace of every healthy run and of every run under any fault plan. -/
theorem confined_in_every_run {α : Type} (roots : List Path) (p : Prog α)
    (h : AllCalls (Call.within roots) p) (env : Env) (fs : FS) (plan : Nat → Option Fault) :
    (∀ c ∈ (run env p fs).2.2, c.within roots) ∧
    (∀ c ∈ (runFault env plan p fs 0).2.2, c.within roots) :=
  ⟨AllCalls.trace h env fs, AllCalls.traceFault h env plan fs 0⟩

end Cacache.C15
