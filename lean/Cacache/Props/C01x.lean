/-
C01 (extension) — streamed reads start from what `open` answers, and a keyed read is sound under every fault plan.
Proofs in `Lemmas/Gaps.lean` (which imports this property's base module, hence this separate module).
-/
import Cacache.Lemmas.Gaps

namespace Cacache.C01x
open Prog

variable (cfg : Cfg)

/-- **A streamed read by address is sound from `open` on**: the only hypothesis is that `open_hash`
succeeded.  Whatever sizes the caller reads with, the bytes handed out are a prefix of the content
file as it was at `open`, all of it once the reader is at the end, and `check()` answers ok only if
they pass the integrity check of the REQUESTED address. -/
theorem read_stream_sound_from_openHash (env : Env) (fs : FS) (cache : Path) (sri : Integrity)
    (r : Reader) (ns : List Nat) (h : (run env (ropenHash cache sri) fs).1 = .ok r) :
    ∃ cpath file, contentPath cache sri = some cpath ∧ fs.readFile cpath = .ok file ∧
      (C01.readMany r ns).2 = file.take (C01.readMany r ns).1.pos ∧
      ((C01.readMany r ns).1.pos = file.length → (C01.readMany r ns).2 = file) ∧
      ∀ a, (C01.readMany r ns).1.check cfg = .ok a → C01.Passes cfg sri (C01.readMany r ns).2 :=
  Gaps.read_stream_sound_from_openHash cfg env fs cache sri r ns h

/-- The same by key: the integrity checked is the one of the entry the lookup found. -/
theorem read_stream_sound_from_open (env : Env) (fs : FS) (cache : Path) (key : Bytes)
    (r : Reader) (ns : List Nat) (h : (run env (ropen cfg cache key) fs).1 = .ok r) :
    ∃ m cpath file, (run env (find cfg cache key) fs).1 = .ok (some m) ∧
      contentPath cache m.sri = some cpath ∧ fs.readFile cpath = .ok file ∧
      (C01.readMany r ns).2 = file.take (C01.readMany r ns).1.pos ∧
      ((C01.readMany r ns).1.pos = file.length → (C01.readMany r ns).2 = file) ∧
      ∀ a, (C01.readMany r ns).1.check cfg = .ok a → C01.Passes cfg m.sri (C01.readMany r ns).2 :=
  Gaps.read_stream_sound_from_open cfg env fs cache key r ns h

/-- **A keyed read that answers ok under ANY fault plan**: no fault fired, nothing changed, and the bytes
pass the integrity check of the entry the key's bucket really holds. -/
theorem read_fault_sound (env : Env) (plan : Nat → Option Fault) (fs : FS) (i : Nat) (cache : Path)
    (key : Bytes) (b : Bytes) (h : (runFault env plan (read cfg cache key) fs i).1 = .ok b) :
    plan i = none ∧ (runFault env plan (read cfg cache key) fs i).2.1 = fs ∧
    ∃ m bytes, fs.readFile (bucketPath cfg cache key) = .ok bytes ∧
      (codec cfg).findIn key ((codec cfg).entries bytes) = some m ∧
      (run env (find cfg cache key) fs).1 = .ok (some m) ∧ C01.Passes cfg m.sri b :=
  Gaps.read_fault_sound cfg env plan fs i cache key b h

end Cacache.C01x
