/-
C07 (extension) — the RESULTS of concurrent operations are those of a serial order.

`Props/C07.lean` is about the filesystem state under every schedule (no splice, whole records,
valid content).  Here: what the operations *answer*.  Proofs in `Lemmas/Linearize.lean` (which
imports `Props/C07` and `Props/C04`, hence this separate module).
-/
import Cacache.Lemmas.Linearize

namespace Cacache.C07x
open Prog Refine Linearize

variable (cfg : Cfg) (env : Env) (cache : Path)

/-- **Any number of concurrent index operations linearize to the abstract map — every schedule.**
Process `j` runs the library's program of `ops[j]` (`insert`, `delete` or `find`, any keys, any mix,
any number; well-formed arguments) from a healthy index.  After every schedule the index is healthy
and there is a duplicate-free serial history of the abstract map `key ↦ Option Meta`, from the
abstraction of the initial state to the abstraction of the current state, in which exactly the
finished processes occur, each with exactly the answer it returned. -/
theorem index_ops_linearizable (ops : List IOp) (hops : ∀ op ∈ ops, OpWF cfg op) (fs : FS)
    (h : HealthyIndex cfg cache fs) (sched : List Nat) :
    HealthyIndex cfg cache (interleave env (ops.map (opProg cfg cache)) fs sched).2 ∧
    ∃ hist : List (Nat × Out), (hist.map Prod.fst).Nodup ∧
      Legal (specAt env ops) hist (absIndex cfg cache fs)
        (absIndex cfg cache (interleave env (ops.map (opProg cfg cache)) fs sched).2) ∧
      ∀ j out, (j, out) ∈ hist ↔
        FinishedWith env (ops.map (opProg cfg cache)) fs sched j out :=
  Linearize.index_ops_linearizable cfg env cache ops hops fs h sched

/-- **… and to the library itself run sequentially**: running the real programs of the finished
processes one after the other, in the order of that history, from the initial filesystem returns
exactly the answers the concurrent execution returned, and leaves an index in which every lookup of
every key answers as in the filesystem the concurrent execution left. -/
theorem index_ops_serializable (ops : List IOp) (hops : ∀ op ∈ ops, OpWF cfg op) (fs : FS)
    (h : HealthyIndex cfg cache fs) (sched : List Nat) :
    ∃ hist : List (Nat × Out), (hist.map Prod.fst).Nodup ∧
      (∀ j out, (j, out) ∈ hist ↔ FinishedWith env (ops.map (opProg cfg cache)) fs sched j out) ∧
      (runOps cfg cache (hist.map (fun x => (env, ops.getD x.1 (.look [])))) fs).1 =
        hist.map Prod.snd ∧
      (∀ key env', (run env' (find cfg cache key)
          (runOps cfg cache (hist.map (fun x => (env, ops.getD x.1 (.look [])))) fs).2).1 =
        (run env' (find cfg cache key) (interleave env (ops.map (opProg cfg cache)) fs sched).2).1) :=
  Linearize.index_ops_serializable cfg env cache ops hops fs h sched

/-- **One writer, one lookup, no hypothesis about the index**: a lookup of ANY key that runs
concurrently with an insertion — under every schedule, whatever the bucket holds (damaged records
included) — answers exactly what it answers alone before the insertion or alone after it. -/
theorem lookup_linearizable_insert (key key' : Bytes) (o : WriteOpts) (b : Bytes) (fs : FS)
    (hb : BucketIs fs (bucketPath cfg cache key') b) (sched : List Nat) (r : Res (Option Meta))
    (hfin : FinishedWith env [(insert cfg cache key o).mapRes Sum.inl,
      (find cfg cache key').mapRes (Sum.inr : _ → Res Integrity ⊕ Res (Option Meta))] fs sched 1 (.inr r)) :
    r = (run env (find cfg cache key') fs).1 ∨
    r = (run env (find cfg cache key') (run env (insert cfg cache key o) fs).2.1).1 :=
  Linearize.lookup_linearizable_insert_sum cfg env cache key key' o b fs hb sched r hfin

/-- The same next to a removal. -/
theorem lookup_linearizable_delete (key key' : Bytes) (b : Bytes) (fs : FS)
    (hb : BucketIs fs (bucketPath cfg cache key') b) (sched : List Nat) (r : Res (Option Meta))
    (hfin : FinishedWith env [(delete cfg cache key).mapRes Sum.inl,
      (find cfg cache key').mapRes (Sum.inr : _ → Res Unit ⊕ Res (Option Meta))] fs sched 1 (.inr r)) :
    r = (run env (find cfg cache key') fs).1 ∨
    r = (run env (find cfg cache key') (run env (delete cfg cache key) fs).2.1).1 :=
  Linearize.lookup_linearizable_delete_sum cfg env cache key key' b fs hb sched r hfin

/-- **Both results and the final filesystem are those of a serial execution**: when the insertion
and the lookup have both finished, (insertion's result, lookup's result, filesystem) is literally
what "lookup, then insertion" or "insertion, then lookup" gives. -/
theorem insert_find_serial {γ : Type} (f : Res Integrity → γ) (g : Res (Option Meta) → γ)
    (key key' : Bytes) (o : WriteOpts) (b : Bytes) (fs : FS)
    (hb : BucketIs fs (bucketPath cfg cache key') b) (sched : List Nat) (c0 c1 : γ)
    (h0 : FinishedWith env [(insert cfg cache key o).mapRes f, (find cfg cache key').mapRes g] fs sched 0 c0)
    (h1 : FinishedWith env [(insert cfg cache key o).mapRes f, (find cfg cache key').mapRes g] fs sched 1 c1) :
    (∃ x y, (x, y, (interleave env [(insert cfg cache key o).mapRes f, (find cfg cache key').mapRes g] fs sched).2) =
        serialRW env (insert cfg cache key o) (find cfg cache key') fs ∧ c0 = f x ∧ c1 = g y) ∨
    (∃ x y, (x, y, (interleave env [(insert cfg cache key o).mapRes f, (find cfg cache key').mapRes g] fs sched).2) =
        serialWR env (insert cfg cache key o) (find cfg cache key') fs ∧ c0 = f x ∧ c1 = g y) :=
  Linearize.insert_find_serial cfg env cache f g key key' o b fs hb sched c0 c1 h0 h1

/-- **A lookup among any number of concurrent processes answers from a consistent snapshot**:
every other process is a program all of whose calls are whole-record for the lookup's bucket (index
insertions / removals of any keys, lookups, listings, reads, content writers).  For every schedule
after which the lookup has finished, its answer is the lookup in `entries b0 ++ rs` for whole
well-formed records `rs` appended so far — never an error, never a partial or spliced record — and
the bucket holds `b0` followed by the frames of `rs ++ rs'` (the snapshot is a prefix of the
bucket's history). -/
theorem lookup_snapshot {γ : Type} (g : Res (Option Meta) → γ) (key' : Bytes) (b0 : Bytes)
    (hs : (codec cfg).Settled b0) (ps : List (Prog γ)) (i : Nat)
    (hi : ps[i]? = some ((find cfg cache key').mapRes g))
    (hp : ∀ j p, j ≠ i → ps[j]? = some p →
      AllCalls (Call.wholeRecords (codec cfg) Rec.WF (bucketPath cfg cache key')) p)
    (fs : FS) (h0 : BucketIs fs (bucketPath cfg cache key') b0) (sched : List Nat) (c : γ)
    (hfin : FinishedWith env ps fs sched i c) :
    ∃ rs rs', (∀ r ∈ rs ++ rs', r.WF) ∧
      c = g (.ok ((codec cfg).findIn key' ((codec cfg).entries b0 ++ rs))) ∧
      BucketIs (interleave env ps fs sched).2 (bucketPath cfg cache key')
        ((codec cfg).appendAll b0 (rs ++ rs')) :=
  Linearize.lookup_snapshot cfg env cache g key' b0 hs ps i hi hp fs h0 sched c hfin

end Cacache.C07x
