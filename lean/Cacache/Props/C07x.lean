/-
C07 (extension) — the RESULTS of concurrent operations are those of a serial order.

`Props/C07.lean` is about the filesystem state under every schedule (no splice, whole records,
valid content).  Here: what the operations *answer*.  Proofs in `Lemmas/Linearize.lean` (which
imports `Props/C07` and `Props/C04`, hence this separate module).
-/
import Cacache.Lemmas.Linearize
import Cacache.Lemmas.LinearizeLs

namespace Cacache.C07x
open Prog Refine Linearize ListRefine LinearizeLs

variable (cfg : Cfg) (env : Env) (cache : Path)

/-- **Any number of concurrent index operations linearize to the abstract map — every schedule.**
Process `j` runs the library's program of `ops[j]` (`insert`, `delete` or `find`, any keys, any mix,
any number; well-formed arguments) from a healthy index.  After every schedule the index is healthy
and there is a duplicate-free serial history of the abstract map `key ↦ Option Meta`, from the
abstraction of the initial state to the abstraction of the current state, in which exactly the
finished processes occur, each with exactly the answer it returned. -/
theorem index_ops_linearizable (ops : List IOp) (hops : ∀ op ∈ ops, OpWF cfg op) (fs : FS)
    (h : HealthyIndex cfg cache fs) (sched : List Nat) :
    HealthyIndex cfg cache (interleave env (ops.map (opProg cfg cache)) fs sched).2 ∧
    ∃ hist : List (Nat × Out), (hist.map Prod.fst).Nodup ∧
      Legal (specAt env ops) hist (absIndex cfg cache fs)
        (absIndex cfg cache (interleave env (ops.map (opProg cfg cache)) fs sched).2) ∧
      ∀ j out, (j, out) ∈ hist ↔
        FinishedWith env (ops.map (opProg cfg cache)) fs sched j out :=
  Linearize.index_ops_linearizable cfg env cache ops hops fs h sched

/-- **… and to the library itself run sequentially**: running the real programs of the finished
processes one after the other, in the order of that history, from the initial filesystem returns
exactly the answers the concurrent execution returned, and leaves an index in which every lookup of
every key answers as in the filesystem the concurrent execution left. -/
theorem index_ops_serializable (ops : List IOp) (hops : ∀ op ∈ ops, OpWF cfg op) (fs : FS)
    (h : HealthyIndex cfg cache fs) (sched : List Nat) :
    ∃ hist : List (Nat × Out), (hist.map Prod.fst).Nodup ∧
      (∀ j out, (j, out) ∈ hist ↔ FinishedWith env (ops.map (opProg cfg cache)) fs sched j out) ∧
      (runOps cfg cache (hist.map (fun x => (env, ops.getD x.1 (.look [])))) fs).1 =
        hist.map Prod.snd ∧
      (∀ key env', (run env' (find cfg cache key)
          (runOps cfg cache (hist.map (fun x => (env, ops.getD x.1 (.look [])))) fs).2).1 =
        (run env' (find cfg cache key) (interleave env (ops.map (opProg cfg cache)) fs sched).2).1) :=
  Linearize.index_ops_serializable cfg env cache ops hops fs h sched

/-- **One writer, one lookup, no hypothesis about the index**: a lookup of ANY key that runs
concurrently with an insertion — under every schedule, whatever the bucket holds (damaged records
included) — answers exactly what it answers alone before the insertion or alone after it. -/
theorem lookup_linearizable_insert (key key' : Bytes) (o : WriteOpts) (b : Bytes) (fs : FS)
    (hb : BucketIs fs (bucketPath cfg cache key') b) (sched : List Nat) (r : Res (Option Meta))
    (hfin : FinishedWith env [(insert cfg cache key o).mapRes Sum.inl,
      (find cfg cache key').mapRes (Sum.inr : _ → Res Integrity ⊕ Res (Option Meta))] fs sched 1 (.inr r)) :
    r = (run env (find cfg cache key') fs).1 ∨
    r = (run env (find cfg cache key') (run env (insert cfg cache key o) fs).2.1).1 :=
  Linearize.lookup_linearizable_insert_sum cfg env cache key key' o b fs hb sched r hfin

/-- The same next to a removal. -/
theorem lookup_linearizable_delete (key key' : Bytes) (b : Bytes) (fs : FS)
    (hb : BucketIs fs (bucketPath cfg cache key') b) (sched : List Nat) (r : Res (Option Meta))
    (hfin : FinishedWith env [(delete cfg cache key).mapRes Sum.inl,
      (find cfg cache key').mapRes (Sum.inr : _ → Res Unit ⊕ Res (Option Meta))] fs sched 1 (.inr r)) :
    r = (run env (find cfg cache key') fs).1 ∨
    r = (run env (find cfg cache key') (run env (delete cfg cache key) fs).2.1).1 :=
  Linearize.lookup_linearizable_delete_sum cfg env cache key key' b fs hb sched r hfin

/-- **Both results and the final filesystem are those of a serial execution**: when the insertion
and the lookup have both finished, (insertion's result, lookup's result, filesystem) is literally
what "lookup, then insertion" or "insertion, then lookup" gives. -/
theorem insert_find_serial {γ : Type} (f : Res Integrity → γ) (g : Res (Option Meta) → γ)
    (key key' : Bytes) (o : WriteOpts) (b : Bytes) (fs : FS)
    (hb : BucketIs fs (bucketPath cfg cache key') b) (sched : List Nat) (c0 c1 : γ)
    (h0 : FinishedWith env [(insert cfg cache key o).mapRes f, (find cfg cache key').mapRes g] fs sched 0 c0)
    (h1 : FinishedWith env [(insert cfg cache key o).mapRes f, (find cfg cache key').mapRes g] fs sched 1 c1) :
    (∃ x y, (x, y, (interleave env [(insert cfg cache key o).mapRes f, (find cfg cache key').mapRes g] fs sched).2) =
        serialRW env (insert cfg cache key o) (find cfg cache key') fs ∧ c0 = f x ∧ c1 = g y) ∨
    (∃ x y, (x, y, (interleave env [(insert cfg cache key o).mapRes f, (find cfg cache key').mapRes g] fs sched).2) =
        serialWR env (insert cfg cache key o) (find cfg cache key') fs ∧ c0 = f x ∧ c1 = g y) :=
  Linearize.insert_find_serial cfg env cache f g key key' o b fs hb sched c0 c1 h0 h1

/-- **A lookup among any number of concurrent processes answers from a consistent snapshot**:
every other process is a program all of whose calls are whole-record for the lookup's bucket (index
insertions / removals of any keys, lookups, listings, reads, content writers).  For every schedule
after which the lookup has finished, its answer is the lookup in `entries b0 ++ rs` for whole
well-formed records `rs` appended so far — never an error, never a partial or spliced record — and
the bucket holds `b0` followed by the frames of `rs ++ rs'` (the snapshot is a prefix of the
bucket's history). -/
theorem lookup_snapshot {γ : Type} (g : Res (Option Meta) → γ) (key' : Bytes) (b0 : Bytes)
    (hs : (codec cfg).Settled b0) (ps : List (Prog γ)) (i : Nat)
    (hi : ps[i]? = some ((find cfg cache key').mapRes g))
    (hp : ∀ j p, j ≠ i → ps[j]? = some p →
      AllCalls (Call.wholeRecords (codec cfg) Rec.WF (bucketPath cfg cache key')) p)
    (fs : FS) (h0 : BucketIs fs (bucketPath cfg cache key') b0) (sched : List Nat) (c : γ)
    (hfin : FinishedWith env ps fs sched i c) :
    ∃ rs rs', (∀ r ∈ rs ++ rs', r.WF) ∧
      c = g (.ok ((codec cfg).findIn key' ((codec cfg).entries b0 ++ rs))) ∧
      BucketIs (interleave env ps fs sched).2 (bucketPath cfg cache key')
        ((codec cfg).appendAll b0 (rs ++ rs')) :=
  Linearize.lookup_snapshot cfg env cache g key' b0 hs ps i hi hp fs h0 sched c hfin

/-! ### listers (Lemmas/LinearizeLs)

A listing is not a snapshot of the whole index (one walk, then one read per bucket), but every concurrent
single-key operation touches ONE bucket file and operations on different bucket files commute: an
operation whose linearization point comes while the lister still has to read its bucket goes before
the lister, every other one after it.  Listings are compared up to the order of their items (the
model's walk order means nothing, as the real `read_dir` order).  `hwarm` (`index-v5` exists) is what
excludes the cold-cache lister, known finding F23. -/

/-- **Any number of index writers / removers / readers and ONE lister are serializable - every
schedule**: there is a duplicate-free serial history containing exactly the finished processes;
running the REAL programs sequentially in that order (`runHist`) gives the same answers one by one
(a listing up to order), the same abstract index, the same lookups of every key and the same
listing afterwards as the filesystem the concurrent execution left. -/
theorem ls_among_writers_serializable (ops : List IOp) (hops : ∀ op ∈ ops, OpWF cfg op) (fs : FS)
    (hX : XHealthy cfg cache fs) (hwarm : fs.get (cache ++ [dIndex]) = some .dir) (sched : List Nat) :
    ∃ hist : List (Nat × (Out ⊕ List LsItem)), (hist.map Prod.fst).Nodup ∧
      (∀ j out, (j, out) ∈ hist ↔
        FinishedWith env (procs cfg cache Sum.inl Sum.inr ops) fs sched j out) ∧
      SameAnswers (hist.map Prod.snd) (runHist cfg env cache ops (hist.map Prod.fst) fs).1 ∧
      absIndex cfg cache (runHist cfg env cache ops (hist.map Prod.fst) fs).2 =
        absIndex cfg cache (interleave env (procs cfg cache Sum.inl Sum.inr ops) fs sched).2 ∧
      (∀ key env', (run env' (find cfg cache key) (runHist cfg env cache ops (hist.map Prod.fst) fs).2).1 =
        (run env' (find cfg cache key) (interleave env (procs cfg cache Sum.inl Sum.inr ops) fs sched).2).1) ∧
      ∀ env', (run env' (ls cfg cache) (runHist cfg env cache ops (hist.map Prod.fst) fs).2).1.Perm
        (run env' (ls cfg cache) (interleave env (procs cfg cache Sum.inl Sum.inr ops) fs sched).2).1 :=
  LinearizeLs.ls_among_writers_serializable cfg env cache ops hops fs hX hwarm sched

/-- **… and to the abstract map**: each writer answers the abstract operation at its position, the
lister's items list exactly the abstract index at its position (`ListsIndex`), and the index is
healthy with the side invariant again, so the statement composes. -/
theorem ls_among_writers_linearizable {γ : Type} (f : Out → γ) (g : List LsItem → γ) (ops : List IOp)
    (hops : ∀ op ∈ ops, OpWF cfg op) (fs : FS) (h : HealthyIndex cfg cache fs)
    (hS : Side cfg cache fs) (sched : List Nat) :
    (HealthyIndex cfg cache (interleave env (procs cfg cache f g ops) fs sched).2 ∧
      Side cfg cache (interleave env (procs cfg cache f g ops) fs sched).2) ∧
    ∃ hist : List (Nat × γ), (hist.map Prod.fst).Nodup ∧
      LegalLs (specF env f ops) ops.length g hist (absIndex cfg cache fs)
        (absIndex cfg cache (interleave env (procs cfg cache f g ops) fs sched).2) ∧
      ∀ j out, (j, out) ∈ hist ↔ FinishedWith env (procs cfg cache f g ops) fs sched j out :=
  LinearizeLs.ls_among_writers_linearizable cfg env cache f g ops hops fs h hS sched

/-- **One inserter and one lister**: under every schedule the listing is (up to order) what `ls`
answers alone before the insertion or alone after it. -/
theorem ls_linearizable_insert (key : Bytes) (o : WriteOpts) (hw : OptsWF key o) (hs : SriOK cfg o)
    (fs : FS) (hX : XHealthy cfg cache fs) (hwarm : fs.get (cache ++ [dIndex]) = some .dir)
    (sched : List Nat) (r : List LsItem)
    (hfin : FinishedWith env [(insert cfg cache key o).mapRes Sum.inl,
      (ls cfg cache).mapRes (Sum.inr : _ → Res Integrity ⊕ List LsItem)] fs sched 1 (.inr r)) :
    r.Perm (run env (ls cfg cache) fs).1 ∨
    r.Perm (run env (ls cfg cache) (run env (insert cfg cache key o) fs).2.1).1 :=
  LinearizeLs.ls_linearizable_insert cfg env cache key o hw hs fs hX hwarm sched r hfin

/-- The same next to a removal. -/
theorem ls_linearizable_delete (key : Bytes) (hk : Json.utf8Valid key = true)
    (fs : FS) (hX : XHealthy cfg cache fs) (hwarm : fs.get (cache ++ [dIndex]) = some .dir)
    (sched : List Nat) (r : List LsItem)
    (hfin : FinishedWith env [(delete cfg cache key).mapRes Sum.inl,
      (ls cfg cache).mapRes (Sum.inr : _ → Res Unit ⊕ List LsItem)] fs sched 1 (.inr r)) :
    r.Perm (run env (ls cfg cache) fs).1 ∨
    r.Perm (run env (ls cfg cache) (run env (delete cfg cache key) fs).2.1).1 :=
  LinearizeLs.ls_linearizable_delete cfg env cache key hk fs hX hwarm sched r hfin

/-- **Both results and the final filesystem are those of a serial execution** (insertion's result and
filesystem literally, the listing up to order). -/
theorem ls_insert_serial (key : Bytes) (o : WriteOpts) (hw : OptsWF key o) (hs : SriOK cfg o)
    (fs : FS) (hX : XHealthy cfg cache fs) (hwarm : fs.get (cache ++ [dIndex]) = some .dir)
    (sched : List Nat) (c0 c1 : Res Integrity ⊕ List LsItem)
    (h0 : FinishedWith env [(insert cfg cache key o).mapRes Sum.inl,
      (ls cfg cache).mapRes Sum.inr] fs sched 0 c0)
    (h1 : FinishedWith env [(insert cfg cache key o).mapRes Sum.inl,
      (ls cfg cache).mapRes Sum.inr] fs sched 1 c1) :
    ∃ x r, c0 = .inl x ∧ c1 = .inr r ∧
      ((x = (serialRW env (insert cfg cache key o) (ls cfg cache) fs).1 ∧
        r.Perm (serialRW env (insert cfg cache key o) (ls cfg cache) fs).2.1 ∧
        (interleave env [(insert cfg cache key o).mapRes Sum.inl, (ls cfg cache).mapRes Sum.inr] fs sched).2 =
          (serialRW env (insert cfg cache key o) (ls cfg cache) fs).2.2) ∨
       (x = (serialWR env (insert cfg cache key o) (ls cfg cache) fs).1 ∧
        r.Perm (serialWR env (insert cfg cache key o) (ls cfg cache) fs).2.1 ∧
        (interleave env [(insert cfg cache key o).mapRes Sum.inl, (ls cfg cache).mapRes Sum.inr] fs sched).2 =
          (serialWR env (insert cfg cache key o) (ls cfg cache) fs).2.2)) :=
  LinearizeLs.ls_insert_serial cfg env cache key o hw hs fs hX hwarm sched c0 c1 h0 h1

/-- **The property's quantifier literally - three operations**: two index operations (any two of
insert / delete / find, any keys) and one lister: the finished processes' answers are those of a
serial run of the real programs, and the listing is (up to order) `ls` alone on the initial
filesystem, after `w1`, after `w2`, after `w1; w2` or after `w2; w1`. -/
theorem ls_two_writers_serializable (w1 w2 : IOp) (h1 : OpWF cfg w1) (h2 : OpWF cfg w2) (fs : FS)
    (hX : XHealthy cfg cache fs) (hwarm : fs.get (cache ++ [dIndex]) = some .dir) (sched : List Nat) :
    (∃ hist : List (Nat × (Out ⊕ List LsItem)), (hist.map Prod.fst).Nodup ∧
      (∀ j out, (j, out) ∈ hist ↔
        FinishedWith env [(opProg cfg cache w1).mapRes Sum.inl, (opProg cfg cache w2).mapRes Sum.inl,
          (ls cfg cache).mapRes Sum.inr] fs sched j out) ∧
      SameAnswers (hist.map Prod.snd) (runHist cfg env cache [w1, w2] (hist.map Prod.fst) fs).1 ∧
      absIndex cfg cache (runHist cfg env cache [w1, w2] (hist.map Prod.fst) fs).2 =
        absIndex cfg cache (interleave env [(opProg cfg cache w1).mapRes Sum.inl,
          (opProg cfg cache w2).mapRes Sum.inl, (ls cfg cache).mapRes Sum.inr] fs sched).2) ∧
    ∀ c, FinishedWith env [(opProg cfg cache w1).mapRes Sum.inl, (opProg cfg cache w2).mapRes Sum.inl,
        (ls cfg cache).mapRes Sum.inr] fs sched 2 c →
      ∃ r, c = .inr r ∧
        (r.Perm (run env (ls cfg cache) fs).1 ∨
         r.Perm (run env (ls cfg cache) (runOp cfg cache env w1 fs).2).1 ∨
         r.Perm (run env (ls cfg cache) (runOp cfg cache env w2 fs).2).1 ∨
         r.Perm (run env (ls cfg cache) (runOp cfg cache env w2 (runOp cfg cache env w1 fs).2).2).1 ∨
         r.Perm (run env (ls cfg cache) (runOp cfg cache env w1 (runOp cfg cache env w2 fs).2).2).1) :=
  LinearizeLs.ls_two_writers_serializable cfg env cache w1 w2 h1 h2 fs hX hwarm sched

end Cacache.C07x
