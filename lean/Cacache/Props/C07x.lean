/-
C07 (extension) — the RESULTS of concurrent operations are those of a serial order.

`Props/C07.lean` is about the filesystem state under every schedule (no splice, whole records,
valid content).  Here: what the operations *answer*.  Proofs in `Lemmas/Linearize.lean` (which
imports `Props/C07` and `Props/C04`, hence this separate module).

Terminology: "linearizable" / "serializable" is used here for "there is ONE serial order of the
finished operations that explains all their answers and the final state" — what C07 asks for
("some sequential ordering").  There is no real-time clause: the theorems do not claim that an
operation that finished before another one started precedes it in that order (for the index
operations it does hold, the linearization point of each being its last call, but it is not part
of the statements).
-/
import Cacache.Lemmas.Linearize
import Cacache.Lemmas.LinearizeLs
import Cacache.Lemmas.LinearizeRead
import Cacache.Lemmas.TwoWriters
import Cacache.Lemmas.Gaps
import Cacache.Lemmas.LinearizeRepair

namespace Cacache.C07x
open Prog Refine Linearize ListRefine LinearizeLs

variable (cfg : Cfg) (env : Env) (cache : Path)

/-- **Any number of concurrent index operations linearize to the abstract map — every schedule.**
Process `j` runs the library's program of `ops[j]` (`insert`, `delete` or `find`, any keys, any mix,
any number; well-formed arguments) from a healthy index.  After every schedule the index is healthy
and there is a duplicate-free serial history of the abstract map `key ↦ Option Meta`, from the
abstraction of the initial state to the abstraction of the current state, in which exactly the
finished processes occur, each with exactly the answer it returned. -/
theorem index_ops_linearizable (ops : List IOp) (hops : ∀ op ∈ ops, OpWF cfg op) (fs : FS)
    (h : HealthyIndex cfg cache fs) (sched : List Nat) :
    HealthyIndex cfg cache (interleave env (ops.map (opProg cfg cache)) fs sched).2 ∧
    ∃ hist : List (Nat × Out), (hist.map Prod.fst).Nodup ∧
      Legal (specAt env ops) hist (absIndex cfg cache fs)
        (absIndex cfg cache (interleave env (ops.map (opProg cfg cache)) fs sched).2) ∧
      ∀ j out, (j, out) ∈ hist ↔
        FinishedWith env (ops.map (opProg cfg cache)) fs sched j out :=
  Linearize.index_ops_linearizable cfg env cache ops hops fs h sched

/-- **… and to the library itself run sequentially**: running the real programs of the finished
processes one after the other, in the order of that history, from the initial filesystem returns
exactly the answers the concurrent execution returned, and leaves an index in which every lookup of
every key answers as in the filesystem the concurrent execution left. -/
theorem index_ops_serializable (ops : List IOp) (hops : ∀ op ∈ ops, OpWF cfg op) (fs : FS)
    (h : HealthyIndex cfg cache fs) (sched : List Nat) :
    ∃ hist : List (Nat × Out), (hist.map Prod.fst).Nodup ∧
      (∀ j out, (j, out) ∈ hist ↔ FinishedWith env (ops.map (opProg cfg cache)) fs sched j out) ∧
      (runOps cfg cache (hist.map (fun x => (env, ops.getD x.1 (.look [])))) fs).1 =
        hist.map Prod.snd ∧
      (∀ key env', (run env' (find cfg cache key)
          (runOps cfg cache (hist.map (fun x => (env, ops.getD x.1 (.look [])))) fs).2).1 =
        (run env' (find cfg cache key) (interleave env (ops.map (opProg cfg cache)) fs sched).2).1) :=
  Linearize.index_ops_serializable cfg env cache ops hops fs h sched

/-- **One writer, one lookup, no hypothesis about the index**: a lookup of ANY key that runs
concurrently with an insertion — under every schedule, whatever the bucket holds (damaged records
included) — answers exactly what it answers alone before the insertion or alone after it. -/
theorem lookup_linearizable_insert (key key' : Bytes) (o : WriteOpts) (b : Bytes) (fs : FS)
    (hb : BucketIs fs (bucketPath cfg cache key') b) (sched : List Nat) (r : Res (Option Meta))
    (hfin : FinishedWith env [(insert cfg cache key o).mapRes Sum.inl,
      (find cfg cache key').mapRes (Sum.inr : _ → Res Integrity ⊕ Res (Option Meta))] fs sched 1 (.inr r)) :
    r = (run env (find cfg cache key') fs).1 ∨
    r = (run env (find cfg cache key') (run env (insert cfg cache key o) fs).2.1).1 :=
  Linearize.lookup_linearizable_insert_sum cfg env cache key key' o b fs hb sched r hfin

/-- The same next to a removal. -/
theorem lookup_linearizable_delete (key key' : Bytes) (b : Bytes) (fs : FS)
    (hb : BucketIs fs (bucketPath cfg cache key') b) (sched : List Nat) (r : Res (Option Meta))
    (hfin : FinishedWith env [(delete cfg cache key).mapRes Sum.inl,
      (find cfg cache key').mapRes (Sum.inr : _ → Res Unit ⊕ Res (Option Meta))] fs sched 1 (.inr r)) :
    r = (run env (find cfg cache key') fs).1 ∨
    r = (run env (find cfg cache key') (run env (delete cfg cache key) fs).2.1).1 :=
  Linearize.lookup_linearizable_delete_sum cfg env cache key key' b fs hb sched r hfin

/-- **Both results and the final filesystem are those of a serial execution**: when the insertion
and the lookup have both finished, (insertion's result, lookup's result, filesystem) is literally
what "lookup, then insertion" or "insertion, then lookup" gives. -/
theorem insert_find_serial {γ : Type} (f : Res Integrity → γ) (g : Res (Option Meta) → γ)
    (key key' : Bytes) (o : WriteOpts) (b : Bytes) (fs : FS)
    (hb : BucketIs fs (bucketPath cfg cache key') b) (sched : List Nat) (c0 c1 : γ)
    (h0 : FinishedWith env [(insert cfg cache key o).mapRes f, (find cfg cache key').mapRes g] fs sched 0 c0)
    (h1 : FinishedWith env [(insert cfg cache key o).mapRes f, (find cfg cache key').mapRes g] fs sched 1 c1) :
    (∃ x y, (x, y, (interleave env [(insert cfg cache key o).mapRes f, (find cfg cache key').mapRes g] fs sched).2) =
        serialRW env (insert cfg cache key o) (find cfg cache key') fs ∧ c0 = f x ∧ c1 = g y) ∨
    (∃ x y, (x, y, (interleave env [(insert cfg cache key o).mapRes f, (find cfg cache key').mapRes g] fs sched).2) =
        serialWR env (insert cfg cache key o) (find cfg cache key') fs ∧ c0 = f x ∧ c1 = g y) :=
  Linearize.insert_find_serial cfg env cache f g key key' o b fs hb sched c0 c1 h0 h1

/-- **A lookup among any number of concurrent processes answers from a consistent snapshot**:
every other process is a program all of whose calls are whole-record for the lookup's bucket (index
insertions / removals of any keys, lookups, listings, reads, content writers).  For every schedule
after which the lookup has finished, its answer is the lookup in `entries b0 ++ rs` for whole
well-formed records `rs` appended so far — never an error, never a partial or spliced record — and
the bucket holds `b0` followed by the frames of `rs ++ rs'` (the snapshot is a prefix of the
bucket's history). -/
theorem lookup_snapshot {γ : Type} (g : Res (Option Meta) → γ) (key' : Bytes) (b0 : Bytes)
    (hs : (codec cfg).Settled b0) (ps : List (Prog γ)) (i : Nat)
    (hi : ps[i]? = some ((find cfg cache key').mapRes g))
    (hp : ∀ j p, j ≠ i → ps[j]? = some p →
      AllCalls (Call.wholeRecords (codec cfg) Rec.WF (bucketPath cfg cache key')) p)
    (fs : FS) (h0 : BucketIs fs (bucketPath cfg cache key') b0) (sched : List Nat) (c : γ)
    (hfin : FinishedWith env ps fs sched i c) :
    ∃ rs rs', (∀ r ∈ rs ++ rs', r.WF) ∧
      c = g (.ok ((codec cfg).findIn key' ((codec cfg).entries b0 ++ rs))) ∧
      BucketIs (interleave env ps fs sched).2 (bucketPath cfg cache key')
        ((codec cfg).appendAll b0 (rs ++ rs')) :=
  Linearize.lookup_snapshot cfg env cache g key' b0 hs ps i hi hp fs h0 sched c hfin

/-! ### listers (Lemmas/LinearizeLs)

A listing is not a snapshot of the whole index (one walk, then one read per bucket), but every concurrent
single-key operation touches ONE bucket file and operations on different bucket files commute: an
operation whose linearization point comes while the lister still has to read its bucket goes before
the lister, every other one after it.  Listings are compared up to the order of their items (the
model's walk order means nothing, as the real `read_dir` order).  `hwarm` (`index-v5` exists) is what
excludes the cold-cache lister, known finding F23. -/

/-- **Any number of index writers / removers / readers and ONE lister are serializable - every
schedule**: there is a duplicate-free serial history containing exactly the finished processes;
running the REAL programs sequentially in that order (`runHist`) gives the same answers one by one
(a listing up to order), the same abstract index, the same lookups of every key and the same
listing afterwards as the filesystem the concurrent execution left. -/
theorem ls_among_writers_serializable (ops : List IOp) (hops : ∀ op ∈ ops, OpWF cfg op) (fs : FS)
    (hX : XHealthy cfg cache fs) (hwarm : fs.get (cache ++ [dIndex]) = some .dir) (sched : List Nat) :
    ∃ hist : List (Nat × (Out ⊕ List LsItem)), (hist.map Prod.fst).Nodup ∧
      (∀ j out, (j, out) ∈ hist ↔
        FinishedWith env (procs cfg cache Sum.inl Sum.inr ops) fs sched j out) ∧
      SameAnswers (hist.map Prod.snd) (runHist cfg env cache ops (hist.map Prod.fst) fs).1 ∧
      absIndex cfg cache (runHist cfg env cache ops (hist.map Prod.fst) fs).2 =
        absIndex cfg cache (interleave env (procs cfg cache Sum.inl Sum.inr ops) fs sched).2 ∧
      (∀ key env', (run env' (find cfg cache key) (runHist cfg env cache ops (hist.map Prod.fst) fs).2).1 =
        (run env' (find cfg cache key) (interleave env (procs cfg cache Sum.inl Sum.inr ops) fs sched).2).1) ∧
      ∀ env', (run env' (ls cfg cache) (runHist cfg env cache ops (hist.map Prod.fst) fs).2).1.Perm
        (run env' (ls cfg cache) (interleave env (procs cfg cache Sum.inl Sum.inr ops) fs sched).2).1 :=
  LinearizeLs.ls_among_writers_serializable cfg env cache ops hops fs hX hwarm sched

/-- **… and to the abstract map**: each writer answers the abstract operation at its position, the
lister's items list exactly the abstract index at its position (`ListsIndex`), and the index is
healthy with the side invariant again, so the statement composes. -/
theorem ls_among_writers_linearizable {γ : Type} (f : Out → γ) (g : List LsItem → γ) (ops : List IOp)
    (hops : ∀ op ∈ ops, OpWF cfg op) (fs : FS) (h : HealthyIndex cfg cache fs)
    (hS : Side cfg cache fs) (sched : List Nat) :
    (HealthyIndex cfg cache (interleave env (procs cfg cache f g ops) fs sched).2 ∧
      Side cfg cache (interleave env (procs cfg cache f g ops) fs sched).2) ∧
    ∃ hist : List (Nat × γ), (hist.map Prod.fst).Nodup ∧
      LegalLs (specF env f ops) ops.length g hist (absIndex cfg cache fs)
        (absIndex cfg cache (interleave env (procs cfg cache f g ops) fs sched).2) ∧
      ∀ j out, (j, out) ∈ hist ↔ FinishedWith env (procs cfg cache f g ops) fs sched j out :=
  LinearizeLs.ls_among_writers_linearizable cfg env cache f g ops hops fs h hS sched

/-- **One inserter and one lister**: under every schedule the listing is (up to order) what `ls`
answers alone before the insertion or alone after it. -/
theorem ls_linearizable_insert (key : Bytes) (o : WriteOpts) (hw : OptsWF key o) (hs : SriOK cfg o)
    (fs : FS) (hX : XHealthy cfg cache fs) (hwarm : fs.get (cache ++ [dIndex]) = some .dir)
    (sched : List Nat) (r : List LsItem)
    (hfin : FinishedWith env [(insert cfg cache key o).mapRes Sum.inl,
      (ls cfg cache).mapRes (Sum.inr : _ → Res Integrity ⊕ List LsItem)] fs sched 1 (.inr r)) :
    r.Perm (run env (ls cfg cache) fs).1 ∨
    r.Perm (run env (ls cfg cache) (run env (insert cfg cache key o) fs).2.1).1 :=
  LinearizeLs.ls_linearizable_insert cfg env cache key o hw hs fs hX hwarm sched r hfin

/-- The same next to a removal. -/
theorem ls_linearizable_delete (key : Bytes) (hk : Json.utf8Valid key = true)
    (fs : FS) (hX : XHealthy cfg cache fs) (hwarm : fs.get (cache ++ [dIndex]) = some .dir)
    (sched : List Nat) (r : List LsItem)
    (hfin : FinishedWith env [(delete cfg cache key).mapRes Sum.inl,
      (ls cfg cache).mapRes (Sum.inr : _ → Res Unit ⊕ List LsItem)] fs sched 1 (.inr r)) :
    r.Perm (run env (ls cfg cache) fs).1 ∨
    r.Perm (run env (ls cfg cache) (run env (delete cfg cache key) fs).2.1).1 :=
  LinearizeLs.ls_linearizable_delete cfg env cache key hk fs hX hwarm sched r hfin

/-- **Both results and the final filesystem are those of a serial execution** (insertion's result and
filesystem literally, the listing up to order). -/
theorem ls_insert_serial (key : Bytes) (o : WriteOpts) (hw : OptsWF key o) (hs : SriOK cfg o)
    (fs : FS) (hX : XHealthy cfg cache fs) (hwarm : fs.get (cache ++ [dIndex]) = some .dir)
    (sched : List Nat) (c0 c1 : Res Integrity ⊕ List LsItem)
    (h0 : FinishedWith env [(insert cfg cache key o).mapRes Sum.inl,
      (ls cfg cache).mapRes Sum.inr] fs sched 0 c0)
    (h1 : FinishedWith env [(insert cfg cache key o).mapRes Sum.inl,
      (ls cfg cache).mapRes Sum.inr] fs sched 1 c1) :
    ∃ x r, c0 = .inl x ∧ c1 = .inr r ∧
      ((x = (serialRW env (insert cfg cache key o) (ls cfg cache) fs).1 ∧
        r.Perm (serialRW env (insert cfg cache key o) (ls cfg cache) fs).2.1 ∧
        (interleave env [(insert cfg cache key o).mapRes Sum.inl, (ls cfg cache).mapRes Sum.inr] fs sched).2 =
          (serialRW env (insert cfg cache key o) (ls cfg cache) fs).2.2) ∨
       (x = (serialWR env (insert cfg cache key o) (ls cfg cache) fs).1 ∧
        r.Perm (serialWR env (insert cfg cache key o) (ls cfg cache) fs).2.1 ∧
        (interleave env [(insert cfg cache key o).mapRes Sum.inl, (ls cfg cache).mapRes Sum.inr] fs sched).2 =
          (serialWR env (insert cfg cache key o) (ls cfg cache) fs).2.2)) :=
  LinearizeLs.ls_insert_serial cfg env cache key o hw hs fs hX hwarm sched c0 c1 h0 h1

/-- **The property's quantifier literally - three operations**: two index operations (any two of
insert / delete / find, any keys) and one lister: the finished processes' answers are those of a
serial run of the real programs, and the listing is (up to order) `ls` alone on the initial
filesystem, after `w1`, after `w2`, after `w1; w2` or after `w2; w1`. -/
theorem ls_two_writers_serializable (w1 w2 : IOp) (h1 : OpWF cfg w1) (h2 : OpWF cfg w2) (fs : FS)
    (hX : XHealthy cfg cache fs) (hwarm : fs.get (cache ++ [dIndex]) = some .dir) (sched : List Nat) :
    (∃ hist : List (Nat × (Out ⊕ List LsItem)), (hist.map Prod.fst).Nodup ∧
      (∀ j out, (j, out) ∈ hist ↔
        FinishedWith env [(opProg cfg cache w1).mapRes Sum.inl, (opProg cfg cache w2).mapRes Sum.inl,
          (ls cfg cache).mapRes Sum.inr] fs sched j out) ∧
      SameAnswers (hist.map Prod.snd) (runHist cfg env cache [w1, w2] (hist.map Prod.fst) fs).1 ∧
      absIndex cfg cache (runHist cfg env cache [w1, w2] (hist.map Prod.fst) fs).2 =
        absIndex cfg cache (interleave env [(opProg cfg cache w1).mapRes Sum.inl,
          (opProg cfg cache w2).mapRes Sum.inl, (ls cfg cache).mapRes Sum.inr] fs sched).2) ∧
    ∀ c, FinishedWith env [(opProg cfg cache w1).mapRes Sum.inl, (opProg cfg cache w2).mapRes Sum.inl,
        (ls cfg cache).mapRes Sum.inr] fs sched 2 c →
      ∃ r, c = .inr r ∧
        (r.Perm (run env (ls cfg cache) fs).1 ∨
         r.Perm (run env (ls cfg cache) (runOp cfg cache env w1 fs).2).1 ∨
         r.Perm (run env (ls cfg cache) (runOp cfg cache env w2 fs).2).1 ∨
         r.Perm (run env (ls cfg cache) (runOp cfg cache env w2 (runOp cfg cache env w1 fs).2).2).1 ∨
         r.Perm (run env (ls cfg cache) (runOp cfg cache env w1 (runOp cfg cache env w2 fs).2).2).1) :=
  LinearizeLs.ls_two_writers_serializable cfg env cache w1 w2 h1 h2 fs hX hwarm sched

/-! ### the two-step `read` next to mutators (Lemmas/LinearizeRead)

`read` = one lookup in the index, then one verified read of the content file the entry names: two
linearization points.  `PlainFor` / `NoLinkedContent`: the content paths involved are no symlinks
(`link_to` entries are outside these statements).  `hother` of the writer theorem: the new data's
address is not the address of the reader's current entry, or already holds exactly these bytes. -/

open LinearizeRead in
/-- **A keyed read next to an index insertion** (any keys): the reader answers as alone before or
alone after; the insertion's answer and the final filesystem are those of its solo run. -/
theorem read_insert_linearizable {γ : Type} (f : Res Integrity → γ) (g : Res Bytes → γ)
    (key key' : Bytes) (o : WriteOpts) (b : Bytes) (fs : FS)
    (hb : BucketIs fs (bucketPath cfg cache key') b)
    (hpl : PlainFor cache fs (.ok ((codec cfg).findIn key' ((codec cfg).entries b))))
    (sched : List Nat) :
    (∀ c, FinishedWith env [(insert cfg cache key o).mapRes f, (read cfg cache key').mapRes g] fs sched 1 c →
      c = g (run env (read cfg cache key') fs).1 ∨
      c = g (run env (read cfg cache key') (run env (insert cfg cache key o) fs).2.1).1) ∧
    (∀ c, FinishedWith env [(insert cfg cache key o).mapRes f, (read cfg cache key').mapRes g] fs sched 0 c →
      c = f (run env (insert cfg cache key o) fs).1 ∧
      (interleave env [(insert cfg cache key o).mapRes f, (read cfg cache key').mapRes g] fs sched).2 =
        (run env (insert cfg cache key o) fs).2.1) :=
  LinearizeRead.read_insert_linearizable cfg env cache f g key key' o b fs hb hpl sched

open LinearizeRead in
/-- **A keyed read next to `remove_hash`** of any address - the one the key's entry names included: the
schedule "lookup, removal, content read" answers what "removal, then read" answers. -/
theorem read_removeHash_linearizable {γ : Type} (f : Res Unit → γ) (g : Res Bytes → γ)
    (key' : Bytes) (sri : Integrity) (b : Bytes) (fs : FS)
    (hb : BucketIs fs (bucketPath cfg cache key') b) (sched : List Nat) :
    (∀ c, FinishedWith env [(removeHash cache sri).mapRes f, (read cfg cache key').mapRes g] fs sched 1 c →
      c = g (run env (read cfg cache key') fs).1 ∨
      c = g (run env (read cfg cache key') (run env (removeHash cache sri) fs).2.1).1) ∧
    (∀ c, FinishedWith env [(removeHash cache sri).mapRes f, (read cfg cache key').mapRes g] fs sched 0 c →
      c = f (run env (removeHash cache sri) fs).1 ∧
      (interleave env [(removeHash cache sri).mapRes f, (read cfg cache key').mapRes g] fs sched).2 =
        (run env (removeHash cache sri) fs).2.1) :=
  LinearizeRead.read_removeHash_linearizable cfg env cache f g key' sri b fs hb sched

open LinearizeRead in
/-- **A keyed read next to a WHOLE keyed write** (content phase, rename, index append; any keys, the
reader's own included): as alone before or alone after the whole write. -/
theorem read_write_linearizable {γ : Type} (f : Res Integrity → γ) (g : Res Bytes → γ)
    (fl : Flavour) (algo : Algo) (key key' data : Bytes) (b : Bytes) (fs : FS)
    (hv : ContentValid cfg cache fs)
    (hb : BucketIs fs (bucketPath cfg cache key') b)
    (hpl : PlainFor cache fs (.ok ((codec cfg).findIn key' ((codec cfg).entries b))))
    (hother : ∀ m cp, (codec cfg).findIn key' ((codec cfg).entries b) = some m →
      contentPath cache m.sri = some cp →
      contentPath cache (Sri.compute cfg.H algo data) ≠ some cp ∨ fs.get cp = some (.file data))
    (sched : List Nat) :
    (∀ c, FinishedWith env [(write cfg fl cache algo key data).mapRes f,
        (read cfg cache key').mapRes g] fs sched 1 c →
      c = g (run env (read cfg cache key') fs).1 ∨
      c = g (run env (read cfg cache key') (run env (write cfg fl cache algo key data) fs).2.1).1) ∧
    (∀ c, FinishedWith env [(write cfg fl cache algo key data).mapRes f,
        (read cfg cache key').mapRes g] fs sched 0 c →
      c = f (run env (write cfg fl cache algo key data) fs).1 ∧
      (interleave env [(write cfg fl cache algo key data).mapRes f,
        (read cfg cache key').mapRes g] fs sched).2 =
        (run env (write cfg fl cache algo key data) fs).2.1) :=
  LinearizeRead.read_write_linearizable' cfg env cache f g fl algo key key' data b fs hv hb hpl hother sched

open LinearizeRead in
/-- **A read by address next to `remove_hash` / next to a whole by-address writer.** -/
theorem readHash_removeHash_linearizable {γ : Type} (f : Res Unit → γ) (g : Res Bytes → γ)
    (sri sri' : Integrity) (fs : FS) (sched : List Nat) :
    (∀ c, FinishedWith env [(removeHash cache sri').mapRes f, (readHash cfg cache sri).mapRes g] fs sched 1 c →
      c = g (run env (readHash cfg cache sri) fs).1 ∨
      c = g (run env (readHash cfg cache sri) (run env (removeHash cache sri') fs).2.1).1) ∧
    (∀ c, FinishedWith env [(removeHash cache sri').mapRes f, (readHash cfg cache sri).mapRes g] fs sched 0 c →
      c = f (run env (removeHash cache sri') fs).1 ∧
      (interleave env [(removeHash cache sri').mapRes f, (readHash cfg cache sri).mapRes g] fs sched).2 =
        (run env (removeHash cache sri') fs).2.1) :=
  LinearizeRead.readHash_removeHash_linearizable cfg env cache f g sri sri' fs sched

open LinearizeRead in
theorem readHash_writeHash_linearizable {γ : Type} (f : Res Integrity → γ) (g : Res Bytes → γ)
    (fl : Flavour) (algo : Algo) (data : Bytes) (sri : Integrity) (fs : FS)
    (hpl : PlainAt cache fs sri) (sched : List Nat) :
    (∀ c, FinishedWith env [(writeHash cfg fl cache algo data).mapRes f,
        (readHash cfg cache sri).mapRes g] fs sched 1 c →
      c = g (run env (readHash cfg cache sri) fs).1 ∨
      c = g (run env (readHash cfg cache sri) (run env (writeHash cfg fl cache algo data) fs).2.1).1) ∧
    (∀ c, FinishedWith env [(writeHash cfg fl cache algo data).mapRes f,
        (readHash cfg cache sri).mapRes g] fs sched 0 c →
      c = f (run env (writeHash cfg fl cache algo data) fs).1 ∧
      (interleave env [(writeHash cfg fl cache algo data).mapRes f,
        (readHash cfg cache sri).mapRes g] fs sched).2 =
        (run env (writeHash cfg fl cache algo data) fs).2.1) :=
  LinearizeRead.readHash_writeHash_linearizable cfg env cache f g fl algo data sri fs hpl sched

open LinearizeRead in
/-- **Three operations - reader, index insertion, `remove_hash`**: one of four serial orders of the
real programs explains all three answers (the scenario "entry found, key re-pointed, old content
removed, content read fails" is the order remove - read - insert). -/
theorem read_insert_removeHash_serial {γ : Type} (gR : Res Bytes → γ) (gI : Res Integrity → γ)
    (gU : Res Unit → γ) (key key' : Bytes) (o : WriteOpts) (sri : Integrity) (b : Bytes) (fs : FS)
    (hb : BucketIs fs (bucketPath cfg cache key') b) (hnl : NoLinkedContent cache fs)
    (sched : List Nat) (c0 c1 c2 : γ)
    (h0 : FinishedWith env [(read cfg cache key').mapRes gR, (insert cfg cache key o).mapRes gI,
        (removeHash cache sri).mapRes gU] fs sched 0 c0)
    (h1 : FinishedWith env [(read cfg cache key').mapRes gR, (insert cfg cache key o).mapRes gI,
        (removeHash cache sri).mapRes gU] fs sched 1 c1)
    (h2 : FinishedWith env [(read cfg cache key').mapRes gR, (insert cfg cache key o).mapRes gI,
        (removeHash cache sri).mapRes gU] fs sched 2 c2) :
    ∃ order ∈ [[0, 1, 2], [1, 0, 2], [2, 0, 1], [1, 2, 0]],
      serialRun env [(read cfg cache key').mapRes gR, (insert cfg cache key o).mapRes gI,
        (removeHash cache sri).mapRes gU] order fs =
      order.map (fun i => match i with | 0 => c0 | 1 => c1 | _ => c2) :=
  LinearizeRead.read_insert_removeHash_serial cfg env cache gR gI gU key key' o sri b fs hb hnl sched c0 c1 c2 h0 h1 h2

/-! ### two WHOLE mutating operations (Lemmas/TwoWriters)

`Serializable`: after every schedule that finishes both, the cache is `Healthy`, no temp file is
left (`TmpClean`), both ANSWERS are literally those of "p0 then p1" or of "p1 then p0" and the final
ABSTRACT cache (index map, content store) is that serial run's (temp names differ between schedules, so
filesystems are compared through `absCache`).  `hcoll`: two writers of ONE key do not write different
bytes with one digest - without it the statement is false in the model
(`writer_writer_collision_counterexample`; `H` is arbitrary there). -/

open CacheRefine TwoWriters in
theorem write_removeHash_serializable (hl : HexLen cfg) (fl : Flavour) (algo : Algo) (key data : Bytes)
    (hk : Json.utf8Valid key = true) (hd : data.length ≤ Rec.u64Max)
    (sri : Integrity) (fs : FS) (hH : Healthy cfg cache fs) (sched : List Nat)
    (c0 c1 : Res Integrity ⊕ Res Unit)
    (f0 : FinishedWith env [(write cfg fl cache algo key data).mapRes Sum.inl,
      (removeHash cache sri).mapRes Sum.inr] fs sched 0 c0)
    (f1 : FinishedWith env [(write cfg fl cache algo key data).mapRes Sum.inl,
      (removeHash cache sri).mapRes Sum.inr] fs sched 1 c1) :
    Serializable cfg env cache (write cfg fl cache algo key data) (removeHash cache sri) fs sched c0 c1 :=
  TwoWriters.write_removeHash_serializable cfg env cache hl fl algo key data hk hd sri fs hH sched c0 c1 f0 f1

open CacheRefine TwoWriters in
theorem writeHash_removeHash_serializable (hl : HexLen cfg) (fl : Flavour) (algo : Algo) (data : Bytes)
    (sri : Integrity) (fs : FS) (hH : Healthy cfg cache fs) (sched : List Nat)
    (c0 c1 : Res Integrity ⊕ Res Unit)
    (f0 : FinishedWith env [(writeHash cfg fl cache algo data).mapRes Sum.inl,
      (removeHash cache sri).mapRes Sum.inr] fs sched 0 c0)
    (f1 : FinishedWith env [(writeHash cfg fl cache algo data).mapRes Sum.inl,
      (removeHash cache sri).mapRes Sum.inr] fs sched 1 c1) :
    Serializable cfg env cache (writeHash cfg fl cache algo data) (removeHash cache sri) fs sched c0 c1 :=
  TwoWriters.writeHash_removeHash_serializable cfg env cache hl fl algo data sri fs hH sched c0 c1 f0 f1

open CacheRefine TwoWriters in
/-- **Two whole keyed writers** - different keys and data, different keys with the SAME data (one
address, the second rename replaces the file by an identical one), or the SAME key (the key ends up
with the data of whoever appended its record last; both answer ok with their own integrity). -/
theorem write_write_serializable (hl : HexLen cfg) (fl0 fl1 : Flavour) (a0 a1 : Algo)
    (key0 key1 d0 d1 : Bytes)
    (hk0 : Json.utf8Valid key0 = true) (hd0 : d0.length ≤ Rec.u64Max)
    (hk1 : Json.utf8Valid key1 = true) (hd1 : d1.length ≤ Rec.u64Max)
    (hcoll : key0 = key1 → a0 = a1 → Bytes.hex (cfg.H a0 d0) = Bytes.hex (cfg.H a1 d1) → d0 = d1)
    (fs : FS) (hH : Healthy cfg cache fs) (sched : List Nat)
    (c0 c1 : Res Integrity ⊕ Res Integrity)
    (f0 : FinishedWith env [(write cfg fl0 cache a0 key0 d0).mapRes Sum.inl,
      (write cfg fl1 cache a1 key1 d1).mapRes Sum.inr] fs sched 0 c0)
    (f1 : FinishedWith env [(write cfg fl0 cache a0 key0 d0).mapRes Sum.inl,
      (write cfg fl1 cache a1 key1 d1).mapRes Sum.inr] fs sched 1 c1) :
    Serializable cfg env cache (write cfg fl0 cache a0 key0 d0) (write cfg fl1 cache a1 key1 d1)
      fs sched c0 c1 :=
  TwoWriters.write_write_serializable cfg env cache hl fl0 fl1 a0 a1 key0 key1 d0 d1 hk0 hd0 hk1 hd1 hcoll fs hH
    sched c0 c1 f0 f1

open CacheRefine TwoWriters in
theorem write_delete_serializable (hl : HexLen cfg) (fl : Flavour) (algo : Algo) (key data : Bytes)
    (hk : Json.utf8Valid key = true) (hd : data.length ≤ Rec.u64Max)
    (key' : Bytes) (hk' : Json.utf8Valid key' = true)
    (fs : FS) (hH : Healthy cfg cache fs) (sched : List Nat)
    (c0 c1 : Res Integrity ⊕ Res Unit)
    (f0 : FinishedWith env [(write cfg fl cache algo key data).mapRes Sum.inl,
      (delete cfg cache key').mapRes Sum.inr] fs sched 0 c0)
    (f1 : FinishedWith env [(write cfg fl cache algo key data).mapRes Sum.inl,
      (delete cfg cache key').mapRes Sum.inr] fs sched 1 c1) :
    Serializable cfg env cache (write cfg fl cache algo key data) (delete cfg cache key')
      fs sched c0 c1 :=
  TwoWriters.write_delete_serializable cfg env cache hl fl algo key data hk hd key' hk' fs hH sched c0 c1 f0 f1

open CacheRefine TwoWriters in
/-- **The quantifier's three operations: writer, writer, `remove_hash`** - one of the six serial
orders gives all three answers and the final abstract cache. -/
theorem write_write_removeHash_serializable {γ : Type} (hl : HexLen cfg) (i0 i1 : Res Integrity → γ)
    (i2 : Res Unit → γ) (fl0 fl1 : Flavour) (a0 a1 : Algo) (key0 key1 d0 d1 : Bytes)
    (hk0 : Json.utf8Valid key0 = true) (hd0 : d0.length ≤ Rec.u64Max)
    (hk1 : Json.utf8Valid key1 = true) (hd1 : d1.length ≤ Rec.u64Max)
    (hcoll : key0 = key1 → a0 = a1 → Bytes.hex (cfg.H a0 d0) = Bytes.hex (cfg.H a1 d1) → d0 = d1)
    (sri : Integrity) (fs : FS) (hH : Healthy cfg cache fs) (sched : List Nat) (c0 c1 c2 : γ)
    (f0 : FinishedWith env [(write cfg fl0 cache a0 key0 d0).mapRes i0,
      (write cfg fl1 cache a1 key1 d1).mapRes i1, (removeHash cache sri).mapRes i2] fs sched 0 c0)
    (f1 : FinishedWith env [(write cfg fl0 cache a0 key0 d0).mapRes i0,
      (write cfg fl1 cache a1 key1 d1).mapRes i1, (removeHash cache sri).mapRes i2] fs sched 1 c1)
    (f2 : FinishedWith env [(write cfg fl0 cache a0 key0 d0).mapRes i0,
      (write cfg fl1 cache a1 key1 d1).mapRes i1, (removeHash cache sri).mapRes i2] fs sched 2 c2) :
    Serializable3 cfg env cache ((write cfg fl0 cache a0 key0 d0).mapRes i0)
      ((write cfg fl1 cache a1 key1 d1).mapRes i1) ((removeHash cache sri).mapRes i2)
      fs sched c0 c1 c2 :=
  TwoWriters.write_write_removeHash_serializable cfg env cache hl i0 i1 i2 fl0 fl1 a0 a1 key0 key1 d0 d1 hk0 hd0
    hk1 hd1 hcoll sri fs hH sched c0 c1 c2 f0 f1 f2

/-! ### no finished insertion is lost -/

/-- In a list with an element `x` satisfying `P`, the LAST element satisfying `P` is `x` or comes
after `x`. -/
theorem last_satisfying {α : Type} (P : α → Prop) (l : List α) (x : α) (hx : x ∈ l) (hP : P x) :
    ∃ pre y post, l = pre ++ y :: post ∧ P y ∧ (∀ z ∈ post, ¬ P z) ∧ (y = x ∨ x ∈ pre) := by
  induction l generalizing x with
  | nil => cases hx
  | cons a t ih =>
    by_cases ht : ∃ z ∈ t, P z
    · obtain ⟨z, hz, hPz⟩ := ht
      rcases List.mem_cons.mp hx with rfl | hxt
      · obtain ⟨pre, y, post, rfl, hy, hpost, _⟩ := ih z hz hPz
        exact ⟨x :: pre, y, post, rfl, hy, hpost, Or.inr List.mem_cons_self⟩
      · obtain ⟨pre, y, post, rfl, hy, hpost, hor⟩ := ih x hxt hP
        exact ⟨a :: pre, y, post, rfl, hy, hpost, hor.imp id (List.mem_cons_of_mem _)⟩
    · rcases List.mem_cons.mp hx with rfl | hxt
      · exact ⟨[], x, t, rfl, hP, fun z hz hPz => ht ⟨z, hz, hPz⟩, Or.inl rfl⟩
      · exact absurd ⟨x, hxt, hP⟩ ht

/-- **No finished insertion is lost** — any number of concurrent `insert` / `delete` / `find`
processes of any keys (same bucket or not) on a healthy index, every schedule.  If process `j` is
an insertion of `key` and HAS FINISHED, then in the serial order `hist` that explains all answers
(`index_ops_linearizable`) the last writer `j'` of `key` is `j` itself or a process placed AFTER
`j`, `j'` has finished too, and every later lookup of `key` in the filesystem the concurrent
execution left answers what `j'` wrote: the entry of `j'`'s insertion (`insEntry`: its integrity,
size, metadata, and time), or "absent" if `j'` is a removal.  In particular (`post`-free case) if
no other process writes `key`, the lookup answers `j`'s entry whatever the other processes append
to the same bucket. -/
theorem no_finished_insert_lost (ops : List IOp) (hops : ∀ op ∈ ops, OpWF cfg op) (fs : FS)
    (h : HealthyIndex cfg cache fs) (sched : List Nat) (j : Nat) (key : Bytes) (o : WriteOpts)
    (out : Out) (hj : ops[j]? = some (.ins key o))
    (hfin : FinishedWith env (ops.map (opProg cfg cache)) fs sched j out) :
    ∃ hist : List (Nat × Out), (hist.map Prod.fst).Nodup ∧
      (∀ i r, (i, r) ∈ hist ↔ FinishedWith env (ops.map (opProg cfg cache)) fs sched i r) ∧
      Legal (specAt env ops) hist (absIndex cfg cache fs)
        (absIndex cfg cache (interleave env (ops.map (opProg cfg cache)) fs sched).2) ∧
      ∃ pre j' out' post, hist = pre ++ (j', out') :: post ∧
        (j' = j ∨ (j, out) ∈ pre) ∧
        (∀ x ∈ post, ¬ (ops.getD x.1 (.look [])).writes key) ∧
        ((∃ o', ops[j']? = some (.ins key o') ∧ ∀ env',
            (run env' (find cfg cache key)
              (interleave env (ops.map (opProg cfg cache)) fs sched).2).1 =
              .ok (insEntry env key o')) ∨
         (ops[j']? = some (.del key) ∧ ∀ env',
            (run env' (find cfg cache key)
              (interleave env (ops.map (opProg cfg cache)) fs sched).2).1 = .ok none)) := by
  obtain ⟨hH, hist, hnd, hleg, hiff⟩ :=
    Linearize.index_ops_linearizable cfg env cache ops hops fs h sched
  refine ⟨hist, hnd, hiff, hleg, ?_⟩
  have hmem : (j, out) ∈ hist := (hiff j out).mpr hfin
  have hPj : (ops.getD (j, out).1 (.look [])).writes key := by
    show (ops.getD j (.look [])).writes key
    rw [List.getD_eq_getElem?_getD, hj]; rfl
  obtain ⟨pre, y, post, hsplit, hy, hpost, hor⟩ :=
    last_satisfying (fun x : Nat × Out => (ops.getD x.1 (.look [])).writes key) hist (j, out) hmem hPj
  obtain ⟨j', out'⟩ := y
  refine ⟨pre, j', out', post, hsplit, ?_, hpost, ?_⟩
  · rcases hor with e | e
    · left; exact congrArg Prod.fst e
    · right; exact e
  · have hs := Linearize.legal_specRun env ops hist _ _ hleg
    have hval : absIndex cfg cache (interleave env (ops.map (opProg cfg cache)) fs sched).2 key =
        (specStep env (specRun (pre.map (fun x => (env, ops.getD x.1 (.look []))))
          (absIndex cfg cache fs)).2 (ops.getD j' (.look []))).1 key := by
      have h2 := congrArg (fun x => x.2 key) hs
      simp only at h2
      rw [← h2, hsplit, List.map_append, List.map_cons]
      exact specRun_last _ _ env _ _ key (fun x hx => by
        obtain ⟨z, hz, rfl⟩ := List.mem_map.mp hx
        exact hpost z hz)
    have hfind : ∀ env', (run env' (find cfg cache key)
        (interleave env (ops.map (opProg cfg cache)) fs sched).2).1 =
        .ok (absIndex cfg cache (interleave env (ops.map (opProg cfg cache)) fs sched).2 key) :=
      fun env' => (run_find cfg cache env' key _ hH).1
    have hy' : (ops.getD j' (.look [])).writes key := hy
    rw [List.getD_eq_getElem?_getD] at hy' hval
    cases hget : ops[j']? with
    | none => rw [hget] at hy'; exact absurd hy' (by simp [IOp.writes])
    | some op' =>
      rw [hget] at hy' hval
      simp only [Option.getD_some] at hy' hval
      cases op' with
      | ins k o' =>
        have hk : k = key := hy'
        subst hk
        refine Or.inl ⟨o', rfl, fun env' => ?_⟩
        rw [hfind env', hval]; simp [specStep]
      | del k =>
        have hk : k = key := hy'
        subst hk
        refine Or.inr ⟨rfl, fun env' => ?_⟩
        rw [hfind env', hval]; simp [specStep]
      | look k => exact absurd hy' (by simp [IOp.writes])


/-! ### From `Lemmas/Gaps.lean`: the reader is `exists`, the writers are by-address -/

/-- **`exists_hash sri ∥` a whole writer** - keyed or by address, of any bytes (in particular the
bytes `sri` addresses), any flavour / options / chunking; every schedule: `exists` answers as alone
before or alone after the whole write, and the writer's answer and final state are its own. -/
theorem existsHash_anyWriter_linearizable {γ : Type} (f : Res Integrity → γ) (g : Res Bool → γ)
    (fl : Flavour) (key : Option Bytes) (o : WriteOpts) (chunks : List Bytes) (sri : Integrity)
    (fs : FS) (hpl : LinearizeRead.PlainAt cache fs sri) (sched : List Nat) :
    (∀ c, FinishedWith env [(writeStream cfg cache fl key o chunks).mapRes f,
        (existsHash cache sri).mapRes g] fs sched 1 c →
      c = g (run env (existsHash cache sri) fs).1 ∨
      c = g (run env (existsHash cache sri)
        (run env (writeStream cfg cache fl key o chunks) fs).2.1).1) ∧
    (∀ c, FinishedWith env [(writeStream cfg cache fl key o chunks).mapRes f,
        (existsHash cache sri).mapRes g] fs sched 0 c →
      c = f (run env (writeStream cfg cache fl key o chunks) fs).1 ∧
      (interleave env [(writeStream cfg cache fl key o chunks).mapRes f,
        (existsHash cache sri).mapRes g] fs sched).2 =
        (run env (writeStream cfg cache fl key o chunks) fs).2.1) :=
  Gaps.existsHash_anyWriter_linearizable cfg env cache f g fl key o chunks sri fs hpl sched

open TwoWriters CacheRefine in
/-- **`write_hash ∥ write_hash`**: two whole by-address writers of ANY data (the same bytes, different
bytes, colliding digests included), any flavours and algorithms, from a healthy cache, after EVERY
schedule that finishes both: healthy, no temp file left, and both answers and the final abstract cache
are those of one of the two serial orders.  No collision hypothesis: that one is about two writers of
the SAME KEY, and by-address writers have none. -/
theorem writeHash_writeHash_serializable (hl : HexLen cfg) (fl0 fl1 : Flavour) (a0 a1 : Algo)
    (d0 d1 : Bytes) (fs : FS) (hH : Healthy cfg cache fs) (sched : List Nat)
    (c0 c1 : Res Integrity ⊕ Res Integrity)
    (f0 : Linearize.FinishedWith env [(writeHash cfg fl0 cache a0 d0).mapRes Sum.inl,
      (writeHash cfg fl1 cache a1 d1).mapRes Sum.inr] fs sched 0 c0)
    (f1 : Linearize.FinishedWith env [(writeHash cfg fl0 cache a0 d0).mapRes Sum.inl,
      (writeHash cfg fl1 cache a1 d1).mapRes Sum.inr] fs sched 1 c1) :
    Serializable cfg env cache (writeHash cfg fl0 cache a0 d0) (writeHash cfg fl1 cache a1 d1)
      fs sched c0 c1 :=
  Gaps.writeHash_writeHash_serializable cfg env cache hl fl0 fl1 a0 a1 d0 d1 fs hH sched c0 c1 f0 f1


/-! ### From `Lemmas/LinearizeRepair.lean`: the two-step read next to a whole writer, NO hypothesis on the address -/

open LinearizeRead LinearizeRepair in
/-- **`read key' ∥ write key data` with no hypothesis on the address written** - another address, the
same address already holding the bytes, or the same address holding anything else (nothing, corrupt
bytes, a directory: the writer's `rename` REPAIRS the file the reader's entry names, and a reader that
looked the key up before may read the repaired bytes).  Under every schedule the finished reader
answers as `read` alone before or alone after the WHOLE write; the finished writer answers, and leaves
the filesystem, as alone.  Hypotheses: the reader's bucket is a regular file (or absent) whose bytes end
in a whole line, the content node of the entry it holds is not a symbolic link, the writer's key is
UTF-8 and the data length a `u64` (what Rust's types give). -/
theorem read_write_linearizable_total {γ : Type} (f : Res Integrity → γ) (g : Res Bytes → γ)
    (fl : Flavour) (algo : Algo) (key key' data : Bytes) (b : Bytes) (fs : FS)
    (hb : BucketIs fs (bucketPath cfg cache key') b)
    (hpl : PlainFor cache fs (.ok ((codec cfg).findIn key' ((codec cfg).entries b))))
    (hs : (codec cfg).Settled b) (hkey : Json.utf8Valid key = true)
    (hlen : data.length ≤ Rec.u64Max) (sched : List Nat) :
    (∀ c, FinishedWith env [(write cfg fl cache algo key data).mapRes f,
        (read cfg cache key').mapRes g] fs sched 1 c →
      c = g (run env (read cfg cache key') fs).1 ∨
      c = g (run env (read cfg cache key') (run env (write cfg fl cache algo key data) fs).2.1).1) ∧
    (∀ c, FinishedWith env [(write cfg fl cache algo key data).mapRes f,
        (read cfg cache key').mapRes g] fs sched 0 c →
      c = f (run env (write cfg fl cache algo key data) fs).1 ∧
      (interleave env [(write cfg fl cache algo key data).mapRes f,
        (read cfg cache key').mapRes g] fs sched).2 =
        (run env (write cfg fl cache algo key data) fs).2.1) :=
  LinearizeRepair.read_write_linearizable_total cfg env cache f g fl algo key key' data b fs hb hpl hs hkey hlen sched

open LinearizeRead LinearizeRepair in
/-- The same for a streamed writer with any options and chunking.  The two extra hypotheses are asked
ONLY when the reader's entry is at the very address written (`SameAddress`): `hwf` - the appended
record is well-formed and the old bucket settled (else the lookup after the write need not lead to this
address); `hdecl` (same key, declared integrity only) - the declaration has the content path of the
computed integrity and survives its text form: a declaration `[a-X, a-<computed>]` is accepted and
recorded with the content path of `X` (that is known finding F24). -/
theorem read_writeStream_linearizable_repair {γ : Type} (f : Res Integrity → γ) (g : Res Bytes → γ)
    (fl : Flavour) (key key' : Bytes) (o : WriteOpts) (chunks : List Bytes) (b : Bytes) (fs : FS)
    (hb : BucketIs fs (bucketPath cfg cache key') b)
    (hpl : PlainFor cache fs (.ok ((codec cfg).findIn key' ((codec cfg).entries b))))
    (hwf : SameAddress cfg cache key' b (Sri.compute cfg.H (o.algo.getD .sha256) chunks.flatten) →
      bucketPath cfg cache key' = bucketPath cfg cache key →
      OptsWF key (recordedOpts cfg o chunks.flatten) ∧ (codec cfg).Settled b)
    (hdecl : SameAddress cfg cache key' b (Sri.compute cfg.H (o.algo.getD .sha256) chunks.flatten) →
      key' = key → ∀ s, o.sri = some s →
      contentPath cache s =
        contentPath cache (Sri.compute cfg.H (o.algo.getD .sha256) chunks.flatten) ∧
      Sri.parse (Sri.print s) = some s)
    (sched : List Nat) :
    (∀ c, FinishedWith env [(writeStream cfg cache fl (some key) o chunks).mapRes f,
        (read cfg cache key').mapRes g] fs sched 1 c →
      c = g (run env (read cfg cache key') fs).1 ∨
      c = g (run env (read cfg cache key')
        (run env (writeStream cfg cache fl (some key) o chunks) fs).2.1).1) ∧
    (∀ c, FinishedWith env [(writeStream cfg cache fl (some key) o chunks).mapRes f,
        (read cfg cache key').mapRes g] fs sched 0 c →
      c = f (run env (writeStream cfg cache fl (some key) o chunks) fs).1 ∧
      (interleave env [(writeStream cfg cache fl (some key) o chunks).mapRes f,
        (read cfg cache key').mapRes g] fs sched).2 =
        (run env (writeStream cfg cache fl (some key) o chunks) fs).2.1) :=
  LinearizeRepair.read_writeStream_linearizable_repair cfg env cache f g fl key key' o chunks b fs hb hpl hwf hdecl sched

end Cacache.C07x
