/-
C08 (extension) — total correctness of commits with a DECLARED integrity, on any healthy cache.

`Props/C08.lean` states the decision logic and that a rejected commit leaves every index path
untouched; here the whole write (open, any chunks, commit; any flavour) is run from a healthy cache
and related to the abstract cache.  Proofs in `Lemmas/DeclRefine.lean` (which imports `Props/C08`).
`PutWF'`: well-formed options, a `u64` byte count, and a declared integrity whose printed text
parses back to itself (`SriRT`; true of every integrity in canonical form, `parse_print_canon`).
-/
import Cacache.Lemmas.DeclRefine
import Cacache.Lemmas.Gaps
import Cacache.Lemmas.HeldWriter3

namespace Cacache.C08x
open Prog Refine CacheRefine DeclRefine

variable (cfg : Cfg) (cache : Path)

/-- **A keyed write whose data does not satisfy the declared integrity — rejected, totally**: from
any healthy cache, any flavour, chunking and options (no well-formedness needed: nothing is encoded):
the answer is the integrity error; the abstract INDEX is unchanged — the key's previous mapping,
and everybody else's, is untouched; the cache is healthy and nothing of the writer stays in `tmp`.
(The content is published by address before the check, which no lookup shows.) -/
theorem declared_mismatch_total (env : Env) (fl : Flavour) (key : Bytes) (o : WriteOpts) (chunks : List Bytes)
    (fs : FS) (h : Healthy cfg cache fs) (hl : HexLen cfg) (s : Integrity) (hs : o.sri = some s)
    (hm : Sri.declaredOk s (Sri.compute cfg.H (o.algo.getD .sha256) chunks.flatten) = none) :
    (run env (writeStream cfg cache fl (some key) o chunks) fs).1 = .error .integrity ∧
    absIndex cfg cache (run env (writeStream cfg cache fl (some key) o chunks) fs).2.1 = absIndex cfg cache fs ∧
    Healthy cfg cache (run env (writeStream cfg cache fl (some key) o chunks) fs).2.1 ∧
    TmpClean cache fs (run env (writeStream cfg cache fl (some key) o chunks) fs).2.1 :=
  let h' := DeclRefine.declared_mismatch_total cfg cache env fl key o chunks fs h hl s hs hm
  ⟨h'.1, h'.2.1, h'.2.2.2.1, h'.2.2.2.2⟩

/-- … so every lookup of every key answers after the rejected write what it answered before. -/
theorem declared_mismatch_find (env env' : Env) (fl : Flavour) (key : Bytes) (o : WriteOpts)
    (chunks : List Bytes) (fs : FS) (h : Healthy cfg cache fs) (hl : HexLen cfg) (s : Integrity)
    (hs : o.sri = some s)
    (hm : Sri.declaredOk s (Sri.compute cfg.H (o.algo.getD .sha256) chunks.flatten) = none) (k : Bytes) :
    (run env' (find cfg cache k) (run env (writeStream cfg cache fl (some key) o chunks) fs).2.1).1 =
      (run env' (find cfg cache k) fs).1 :=
  DeclRefine.declared_mismatch_find cfg cache env env' fl key o chunks fs h hl s hs hm k

/-- **When the declarations match, the commit succeeds**: the answer is the declared integrity, the
key maps to the entry carrying it (and the declared or counted size), every other key is as before,
the cache is healthy, `tmp` is clean. -/
theorem declared_match_total (env : Env) (fl : Flavour) (key : Bytes) (o : WriteOpts) (chunks : List Bytes)
    (fs : FS) (h : Healthy cfg cache fs) (hl : HexLen cfg) (hw : PutWF' key o chunks)
    (s : Integrity) (hs : o.sri = some s)
    (hm : (Sri.declaredOk s (Sri.compute cfg.H (o.algo.getD .sha256) chunks.flatten)).isSome)
    (hz : o.size = none ∨ o.size = some chunks.flatten.length) :
    (run env (writeStream cfg cache fl (some key) o chunks) fs).1 = .ok s ∧
    absIndex cfg cache (run env (writeStream cfg cache fl (some key) o chunks) fs).2.1 key =
      insEntry env key { o with sri := some s, size := some (o.size.getD chunks.flatten.length) } ∧
    (∀ k, k ≠ key → absIndex cfg cache (run env (writeStream cfg cache fl (some key) o chunks) fs).2.1 k =
      absIndex cfg cache fs k) ∧
    Healthy cfg cache (run env (writeStream cfg cache fl (some key) o chunks) fs).2.1 ∧
    TmpClean cache fs (run env (writeStream cfg cache fl (some key) o chunks) fs).2.1 :=
  let h' := DeclRefine.declared_match_total cfg cache env fl key o chunks fs h hl hw s hs hm hz
  ⟨h'.1, h'.2.1, h'.2.2.1, h'.2.2.2.2.1, h'.2.2.2.2.2⟩

/-- **… and the key then reads back the data**, provided every digest the declaration lists under
the writer's algorithm is the computed one (with several different digests of that algorithm the
recorded address is that of whichever sorts first — the known finding F24, for which the file
`Lemmas/DeclRefine.lean` proves a concrete counter-example). -/
theorem declared_match_readable (env : Env) (fl : Flavour) (key : Bytes) (o : WriteOpts) (chunks : List Bytes)
    (fs : FS) (h : Healthy cfg cache fs) (hl : HexLen cfg) (hw : PutWF' key o chunks)
    (s : Integrity) (hs : o.sri = some s)
    (hm : (Sri.declaredOk s (Sri.compute cfg.H (o.algo.getD .sha256) chunks.flatten)).isSome)
    (hz : o.size = none ∨ o.size = some chunks.flatten.length)
    (h1 : ∀ x ∈ s, x.algo = o.algo.getD .sha256 → x = computedHash cfg o chunks.flatten) (env' : Env) :
    (run env' (read cfg cache key) (run env (writeStream cfg cache fl (some key) o chunks) fs).2.1).1 =
      .ok chunks.flatten :=
  (DeclRefine.declared_match_readable cfg cache env fl key o chunks fs h hl hw s hs hm hz h1 env').1

/-- The by-address writer with a declaration that the data does not satisfy. -/
theorem declared_putHash_mismatch (env : Env) (fl : Flavour) (o : WriteOpts) (chunks : List Bytes)
    (fs : FS) (h : Healthy cfg cache fs) (hl : HexLen cfg) (s : Integrity) (hs : o.sri = some s)
    (hm : Sri.declaredOk s (Sri.compute cfg.H (o.algo.getD .sha256) chunks.flatten) = none) :
    (run env (writeStream cfg cache fl none o chunks) fs).1 = .error .integrity ∧
    absIndex cfg cache (run env (writeStream cfg cache fl none o chunks) fs).2.1 = absIndex cfg cache fs ∧
    Healthy cfg cache (run env (writeStream cfg cache fl none o chunks) fs).2.1 :=
  let h' := DeclRefine.declared_putHash_mismatch cfg cache env fl o chunks fs h hl s hs hm
  ⟨h'.1, h'.2.1, h'.2.2.2.1⟩

/-- **Whole programs with declared integrities refine the abstract cache** (`cache_refines_map`
without the "no declared integrity" restriction). -/
theorem cache_refines_map_declared (ops : List (Env × COp)) (fs : FS) (h : Healthy cfg cache fs)
    (hl : HexLen cfg) (hops : ∀ x ∈ ops, DeclRefine.WF' x.2) :
    (cRunOps cfg cache ops fs).1 = (cSpecRun cfg ops (absCache cfg cache fs)).1 ∧
    absCache cfg cache (cRunOps cfg cache ops fs).2 = (cSpecRun cfg ops (absCache cfg cache fs)).2 ∧
    Healthy cfg cache (cRunOps cfg cache ops fs).2 :=
  DeclRefine.cache_refines_map' cfg cache ops fs h hl hops


/-- **A by-address write with a wrong declared size, totally** (from `Lemmas/Gaps.lean`).  From a
healthy cache, a whole by-address writer (any flavour, algorithm, chunking) that declared the size `n`
but was fed another number of bytes: the answer is exactly the size error; every lookup of every key
answers as before; what IS published is stated exactly - the content store maps the address of the
bytes fed to those bytes and nothing else changed; healthy, nothing left in `cache/tmp`. -/
theorem putHash_wrong_size_total (env : Env) (fl : Flavour) (o : WriteOpts) (chunks : List Bytes)
    (fs : FS) (h : Healthy cfg cache fs) (hl : HexLen cfg) (n : Nat) (hs : o.sri = none)
    (hz : o.size = some n) (hne : n ≠ chunks.flatten.length) :
    (run env (writeStream cfg cache fl none o chunks) fs).1 = .error (.size n chunks.flatten.length) ∧
    absIndex cfg cache (run env (writeStream cfg cache fl none o chunks) fs).2.1 = absIndex cfg cache fs ∧
    (∀ env' key, (run env' (find cfg cache key) (run env (writeStream cfg cache fl none o chunks) fs).2.1).1 =
      (run env' (find cfg cache key) fs).1) ∧
    absStore cache (run env (writeStream cfg cache fl none o chunks) fs).2.1 =
      (absStore cache fs).set (o.algo.getD .sha256)
        (Bytes.hex (cfg.H (o.algo.getD .sha256) chunks.flatten)) (some chunks.flatten) ∧
    (∀ env', (run env' (readHash cfg cache (Sri.compute cfg.H (o.algo.getD .sha256) chunks.flatten))
        (run env (writeStream cfg cache fl none o chunks) fs).2.1).1 = .ok chunks.flatten) ∧
    Healthy cfg cache (run env (writeStream cfg cache fl none o chunks) fs).2.1 ∧
    TmpClean cache fs (run env (writeStream cfg cache fl none o chunks) fs).2.1 :=
  Gaps.putHash_wrong_size_total cfg cache env fl o chunks fs h hl n hs hz hne


open HeldWriter in
/-- **A declared integrity on a writer HELD OPEN across other operations** (from `Lemmas/HeldWriter3.lean`).  Open and
feed a keyed writer from a healthy cache (`fs1`); let `fs2` be any healthy state in which its temp file is untouched
(what every operation of the library but `clear` guarantees: `C02x.ops_preserve_tmp`); commit from `fs2`:
* the declaration is NOT satisfied by the bytes fed: exactly the integrity error, the abstract index is unchanged -
  every lookup of every key as in `fs2` -, the store gains the address of the bytes (the model, like the code,
  publishes the content before the check), healthy, temp file gone;
* it IS satisfied (declared size absent or right, Rust-typed options): ok with the DECLARED integrity, the key maps to
  the declared entry, other keys as in `fs2`, healthy, temp file gone. -/
theorem held_commit_declared (env env' : Env) (fl : Flavour) (k : Bytes) (o : WriteOpts)
    (chunks : List Bytes) (fs0 fs1 fs2 : FS) (w : Writer)
    (h0 : Healthy cfg cache fs0) (hl : HexLen cfg)
    (hopen : (run env (heldOpen cfg cache fl (some k) o chunks) fs0).1 = .ok w)
    (hfs1 : (run env (heldOpen cfg cache fl (some k) o chunks) fs0).2.1 = fs1)
    (h2 : Healthy cfg cache fs2)
    (hkeep : fs2.get w.tmp = fs1.get w.tmp)
    (s : Integrity) (hs : o.sri = some s) :
    (Sri.declaredOk s (Sri.compute cfg.H (o.algo.getD .sha256) chunks.flatten) = none →
      (run env' (wcommit cfg w) fs2).1 = .error .integrity ∧
      absIndex cfg cache (run env' (wcommit cfg w) fs2).2.1 = absIndex cfg cache fs2 ∧
      absStore cache (run env' (wcommit cfg w) fs2).2.1 =
        (absStore cache fs2).set (o.algo.getD .sha256)
          (Bytes.hex (cfg.H (o.algo.getD .sha256) chunks.flatten)) (some chunks.flatten) ∧
      Healthy cfg cache (run env' (wcommit cfg w) fs2).2.1 ∧
      (run env' (wcommit cfg w) fs2).2.1.get w.tmp = none) ∧
    ((Sri.declaredOk s (Sri.compute cfg.H (o.algo.getD .sha256) chunks.flatten)).isSome →
      (o.size = none ∨ o.size = some chunks.flatten.length) → PutWF' k o chunks →
      (run env' (wcommit cfg w) fs2).1 = .ok s ∧
      absIndex cfg cache (run env' (wcommit cfg w) fs2).2.1 k =
        some { key := k, sri := s, time := stamp env' o, size := chunks.flatten.length,
               metadata := o.metadata.getD .null, raw := o.raw } ∧
      (∀ k', k' ≠ k → absIndex cfg cache (run env' (wcommit cfg w) fs2).2.1 k' = absIndex cfg cache fs2 k') ∧
      absStore cache (run env' (wcommit cfg w) fs2).2.1 =
        (absStore cache fs2).set (o.algo.getD .sha256)
          (Bytes.hex (cfg.H (o.algo.getD .sha256) chunks.flatten)) (some chunks.flatten) ∧
      Healthy cfg cache (run env' (wcommit cfg w) fs2).2.1 ∧
      (run env' (wcommit cfg w) fs2).2.1.get w.tmp = none) :=
  HeldWriter3.held_commit_declared cfg cache env env' fl k o chunks fs0 fs1 fs2 w h0 hl hopen hfs1 h2 hkeep s hs

end Cacache.C08x
