/-
C11 — index metadata is returned exactly as supplied, with truthful defaults.

The chain: a successful keyed write leaves the key's bucket ending in the frame of the record
`mkRec key o' tm` built from the writer's options (`C02.write_ok_means` / `BucketPost`); a lookup
of that bucket returns what that record classifies as (`C05`, given the codec laws); and the
classification carries every field through unchanged.
`record_fields_returned` is that last step, for every key, every explicit timestamp (any natural
number — 128 bits in the code), every JSON value, every byte string of raw metadata, every size.
The defaults: an absent timestamp is whatever the clock call answered; an absent size is the
number of data bytes written (`BucketPost` pins `size := o.size.getD (total bytes)`); absent
metadata is `null`.
The codec round trip `dec (enc r) = some r` for the serde/SHA-256 codec — the JSON half of "returned
exactly" — is PROVED (`codec_laws`, `Lemmas/CodecLaws.lean`, for every well-formed record and every
hash function; it used to be a hypothesis `Codec.Laws`); it is also exercised by the C11/C17
correspondence against serde_json itself (type-directed JSON, 64-bit integer edges, control /
non-ASCII strings, 128-bit times, all 256 raw byte values).
-/
import Cacache.Lemmas.ReadBack
import Cacache.Lemmas.Stream
import Cacache.Props.C05
import Cacache.Lemmas.CodecLaws

namespace Cacache.C11
open Prog

variable (cfg : Cfg) (env : Env) (cache : Path)

/-- What a lookup returns for the record of a successful keyed write with computed integrity:
every supplied field verbatim, defaults as specified. -/
theorem record_fields_returned (key : Bytes) (o : WriteOpts) (a : Algo) (data : Bytes) (tm : Nat) :
    (codec cfg).cls (mkRec key { o with sri := some (Sri.compute cfg.H a data) } tm) =
      .live { key := key, sri := Sri.compute cfg.H a data, time := tm, size := o.size.getD 0,
              metadata := o.metadata.getD .null, raw := o.raw } :=
  cls_mkRec_compute cfg key o a data tm

/-- **Lookup after a successful keyed write** returns exactly the supplied metadata: the key, the
integrity, the explicit timestamp (if one was given: `htm`), the size (declared, else the number
of bytes written — `hsize` is what `BucketPost` provides), the JSON metadata (else null), the raw
metadata. -/
theorem metadata_returned {W : Rec → Prop} (L : (codec cfg).Laws W) (fs' : FS) (key : Bytes)
    (o : WriteOpts) (a : Algo) (data b0 : Bytes) (tm : Nat) (nbytes : Nat)
    (hW : W (mkRec key { o with sri := some (Sri.compute cfg.H a data), size := some (o.size.getD nbytes) } tm))
    (hbucket : fs'.get (bucketPath cfg cache key) = some (.file (b0 ++ (codec cfg).frame
      (mkRec key { o with sri := some (Sri.compute cfg.H a data), size := some (o.size.getD nbytes) } tm)))) :
    (run env (find cfg cache key) fs').1 =
      .ok (some { key := key, sri := Sri.compute cfg.H a data, time := tm, size := o.size.getD nbytes,
                  metadata := o.metadata.getD .null, raw := o.raw }) := by
  rw [find_of_bucket cfg env cache fs' key _ hbucket]
  congr 1
  have hk : (codec cfg).key (mkRec key { o with sri := some (Sri.compute cfg.H a data), size := some (o.size.getD nbytes) } tm) = key := rfl
  have hcls := cls_mkRec_compute cfg key { o with size := some (o.size.getD nbytes) } a data tm
  have := C05.lookup_returns_last_write (codec cfg) L b0 [] [] _ _ (by simpa using hW) hcls (by simp)
  rw [hk] at this
  simpa [Codec.appendAll] using this

/-- An explicit timestamp is the one recorded (any value); without one the recorded time is the
answer of the clock call (a `u128`: `env.clock % 2^128`). -/
theorem time_recorded (key : Bytes) (o : WriteOpts) (b0 : Bytes) (fs : FS)
    (hb : BucketIs fs (bucketPath cfg cache key) b0) (s : Integrity)
    (hr : (run env (insert cfg cache key o) fs).1 = .ok s) :
    ∃ tm, (∀ t, o.time = some t → tm = t) ∧
      (run env (insert cfg cache key o) fs).2.1.get (bucketPath cfg cache key) =
        some (.file (b0 ++ (codec cfg).frame (mkRec key o tm))) ∧
      ((∀ t, o.time = some t → t ≤ timeMax) → tm ≤ timeMax) :=
  (wpD_run (insert_bucket_wp cfg env cache key o b0 hb)).2 s hr

/-- The default timestamp really is the clock: with no explicit time the healthy run asks the
clock exactly once and records its answer (`env.clock`, Unix milliseconds in the harness). -/
theorem default_time_is_clock (o : WriteOpts) (h : o.time = none) (fs : FS) :
    (run env (getTime o) fs).1 = env.clock % (timeMax + 1) := by
  simp [getTime, h, run, call, exec]

theorem explicit_time_kept (o : WriteOpts) (t : Nat) (h : o.time = some t) (fs : FS) :
    (run env (getTime o) fs).1 = t := by
  simp [getTime, h, run]

/-- The record's JSON text lists the six fields in the fixed order with the supplied values:
`encJson` *is* the serialisation (definitional), stated here so that the format is visible. -/
theorem record_text (r : Rec) :
    Rec.encJson r = Rec.kKey ++ Json.renderStr r.key ++ Rec.kIntegrity ++ Rec.renderOptStr r.integrity ++
      Rec.kTime ++ Json.renderNat r.time ++ Rec.kSize ++ Json.renderNat r.size ++
      Rec.kMetadata ++ Json.render r.metadata ++ Rec.kRaw ++ Rec.renderOptRaw r.raw ++ [125] := rfl

/-- **Metadata fidelity for cacache's own record format**: with well-formed options (and a byte
count that is a `usize`) the lookup returns exactly what was supplied.  The JSON round trip
(`Json.parse (render v) = some v` for every well-formed value nested < 127 levels, numbers
included) is `Lemmas/JsonRT.lean`; nesting ≥ 127 is the excluded point — known finding F9. -/
theorem metadata_returned_cacache (fs' : FS) (key : Bytes) (o : WriteOpts) (ho : OptsWF key o) (a : Algo)
    (data b0 : Bytes) (tm : Nat) (htm : tm ≤ timeMax) (nbytes : Nat) (hn : nbytes ≤ Rec.u64Max)
    (hbucket : fs'.get (bucketPath cfg cache key) = some (.file (b0 ++ (codec cfg).frame
      (mkRec key { o with sri := some (Sri.compute cfg.H a data), size := some (o.size.getD nbytes) } tm)))) :
    (run env (find cfg cache key) fs').1 =
      .ok (some { key := key, sri := Sri.compute cfg.H a data, time := tm, size := o.size.getD nbytes,
                  metadata := o.metadata.getD .null, raw := o.raw }) := by
  refine metadata_returned cfg env cache (codec_laws cfg) fs' key o a data b0 tm nbytes ?_ hbucket
  have hsz : o.size.getD nbytes ≤ Rec.u64Max := by
    cases hs : o.size with
    | none => simpa using hn
    | some n => simpa using ho.size n hs
  exact mkRec_wf key _ tm ((ho.with_computed cfg.H a data).with_size _ hsz) htm

/-- **C11, end to end.**  Any flavour, key, well-formed options (no declared integrity), chunking,
any initial state with a valid store whose bucket for the key is absent or a regular file: if the
keyed write answers ok, the lookup in the resulting state returns exactly what was supplied — the
key, the digest of the bytes, the explicit time stamp (else a `u128` clock answer), the declared
size (else the byte count), the JSON metadata (else null) and the raw metadata.
(The time here is SOME `tm ≤ timeMax`, equal to the caller's when one was given; that without an
explicit time it is exactly the clock's answer `stamp env o` is pinned by the refinement theorems:
`C08x.declared_match_total` / `CacheRefine.run_putKeyed` via `putSpec` / `insEntry`.) -/
theorem write_then_metadata (fl : Flavour) (key : Bytes) (o : WriteOpts) (ho : OptsWF key o)
    (hnone : o.sri = none) (chunks : List Bytes) (hlen : chunks.flatten.length ≤ Rec.u64Max) (b0 : Bytes)
    (fs : FS) (hv : ContentValid cfg cache fs) (hb : BucketIs fs (bucketPath cfg cache key) b0)
    (sri : Integrity) (hok : (run env (writeStream cfg cache fl (some key) o chunks) fs).1 = .ok sri) :
    ∃ tm, (∀ t, o.time = some t → tm = t) ∧ tm ≤ timeMax ∧
      (run env (find cfg cache key) (run env (writeStream cfg cache fl (some key) o chunks) fs).2.1).1 =
        .ok (some { key := key, sri := Sri.compute cfg.H (o.algo.getD .sha256) chunks.flatten, time := tm,
                    size := o.size.getD chunks.flatten.length, metadata := o.metadata.getD .null, raw := o.raw }) := by
  have hw := (wpD_run (writeStream_keyed_wp cfg env cache fl key o chunks b0 hv hb)).2
  have hs := (hw.1 sri hok).2.1 hnone
  obtain ⟨tm, htm, hbucket, hle⟩ := hw.2 sri hok
  subst hs
  exact ⟨tm, htm, hle ho.time, metadata_returned_cacache cfg env cache _ key o ho _ chunks.flatten b0 tm
    (hle ho.time) chunks.flatten.length hlen hbucket⟩

end Cacache.C11
