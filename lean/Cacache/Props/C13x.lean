/-
C13 (extension) — a keyed write that fails half-way under ANY fault plan leaves a healthy cache in
an admissible abstract state, and everything keeps working (`Lemmas/CrashRefine.lean`, statement 4).
-/
import Cacache.Lemmas.CrashRefine
import Cacache.Lemmas.FaultStrict

namespace Cacache.C13x
open Prog CacheRefine CrashRefine

variable (cfg : Cfg) (cache : Path)

/-- Under every fault plan a keyed write leaves a HEALTHY cache whose abstract state is: the old
one; the old index over a store that holds the new content; the new state; or (fault-only: the
publishing rename failed but the address was already occupied) the new index over the old store. -/
theorem faulty_write_leaves_admissible_state (env : Env) (fl : Flavour) (key : Bytes) (o : WriteOpts)
    (chunks : List Bytes) (fs : FS) (h : Healthy cfg cache fs) (hl : HexLen cfg) (hw : PutWF key o chunks)
    (plan : Nat → Option Fault) :
    Healthy cfg cache (runFault env plan (writeStream cfg cache fl (some key) o chunks) fs 0).2.1 ∧
    AdmissibleF cfg env (absCache cfg cache fs) key o chunks
      (absCache cfg cache (runFault env plan (writeStream cfg cache fl (some key) o chunks) fs 0).2.1) :=
  put_fault_sem cfg cache env fl key o chunks fs h hl hw plan

/-- **Other entries are unaffected**: in every such state keys other than the written one map as
before and addresses other than the data's hold what they held. -/
theorem faulty_write_leaves_others (env : Env) (m m' : AbsCache) (key : Bytes) (o : WriteOpts)
    (chunks : List Bytes) (h : AdmissibleF cfg env m key o chunks m') :
    (∀ key', key' ≠ key → m'.index key' = m.index key') ∧
    (∀ a hx, ¬ (a = o.algo.getD .sha256 ∧ hx = Bytes.hex (cfg.H (o.algo.getD .sha256) chunks.flatten)) →
      m'.store a hx = m.store a hx) :=
  admissibleF_untouched cfg h

/-- **Once the fault is gone everything works**: any later operation sequence answers as the
abstract specification says from that state; the cache ends healthy. -/
theorem fault_then_continue (post : List (Env × COp)) (env : Env) (fl : Flavour) (key : Bytes)
    (o : WriteOpts) (chunks : List Bytes) (fs : FS) (h : Healthy cfg cache fs) (hl : HexLen cfg)
    (hw : PutWF key o chunks) (hpost : ∀ x ∈ post, x.2.WF cfg) (plan : Nat → Option Fault) :
    ∃ m', AdmissibleF cfg env (absCache cfg cache fs) key o chunks m' ∧
      (cRunOps cfg cache post (runFault env plan (writeStream cfg cache fl (some key) o chunks) fs 0).2.1).1 =
        (cSpecRun cfg post m').1 ∧
      Healthy cfg cache
        (cRunOps cfg cache post (runFault env plan (writeStream cfg cache fl (some key) o chunks) fs 0).2.1).2 := by
  obtain ⟨m', h1, h2, _, h4⟩ := fault_then_post cfg cache post env fl key o chunks fs h hl hw hpost plan
  exact ⟨m', h1, h2, h4⟩

/-! ### "a truthful success": operations that tolerate no error (Lemmas/FaultStrict.lean) -/

open FaultStrict ListRefine in
/-- **A strict operation that reports success under faults did exactly what the fault-free run does**:
if every call whose answer is an error makes the result "not ok" (`Strict`), then for every fault plan
an ok result means that no fault fired: result, filesystem and call trace are those of the healthy run. -/
theorem fault_ok_is_healthy {α : Type} {ok : α → Prop} {p : Prog α} (hs : Strict ok p)
    (env : Env) (plan : Nat → Option Fault) (fs : FS) (i : Nat)
    (h : ok (runFault env plan p fs i).1) :
    runFault env plan p fs i = run env p fs :=
  FaultStrict.fault_ok_is_healthy hs env plan fs i h

open FaultStrict ListRefine CacheRefine Refine in
/-- **`clear` never reports a success it did not achieve** (F26 was its negation in the real code):
on a healthy, tidy cache an ok answer under ANY fault plan leaves the filesystem of the healthy run —
nothing below the cache directory, the cache directory itself in place, a healthy, tidy, EMPTY cache. -/
theorem clear_ok_truthful (cfg : Cfg) (cache : Path) (env : Env) (plan : Nat → Option Fault) (fs : FS) (i : Nat)
    (hH : Healthy cfg cache fs) (hT : Tidy cfg cache fs)
    (h : (runFault env plan (clear cache) fs i).1 = .ok ()) :
    (runFault env plan (clear cache) fs i).2.1 = (run env (clear cache) fs).2.1 ∧
    (∀ q, cache <+: q → q ≠ cache → (runFault env plan (clear cache) fs i).2.1.get q = none) ∧
    (runFault env plan (clear cache) fs i).2.1.isDir cache = true ∧
    Healthy cfg cache (runFault env plan (clear cache) fs i).2.1 ∧
    absCache cfg cache (runFault env plan (clear cache) fs i).2.1 = AbsCache.empty :=
  let h' := FaultStrict.clear_ok_truthful cfg cache env plan fs i hH hT h
  ⟨h'.1, h'.2.2.1, h'.2.2.2.1, h'.2.2.2.2.1, h'.2.2.2.2.2.2⟩

open FaultStrict in
/-- Removal by address and index insertion with an explicit time are strict; an insertion / removal
whose time comes from the clock tolerates exactly one error — a failing clock read, which is
indistinguishable from a clock that reads 0. -/
theorem removeHash_ok_is_healthy (cache : Path) (sri : Integrity) (env : Env)
    (plan : Nat → Option Fault) (fs : FS) (i : Nat)
    (h : (runFault env plan (removeHash cache sri) fs i).1 = .ok ()) :
    runFault env plan (removeHash cache sri) fs i = run env (removeHash cache sri) fs :=
  FaultStrict.removeHash_ok_is_healthy cache sri env plan fs i h

open FaultStrict in
theorem delete_ok_clock (cfg : Cfg) (cache : Path) (key : Bytes) (env : Env)
    (plan : Nat → Option Fault) (fs : FS) (i : Nat)
    (h : (runFault env plan (delete cfg cache key) fs i).1 = .ok ()) :
    runFault env plan (delete cfg cache key) fs i = run env (delete cfg cache key) fs ∨
    runFault env plan (delete cfg cache key) fs i =
      run { env with clock := 0 } (delete cfg cache key) fs :=
  FaultStrict.delete_ok_clock cfg cache key env plan fs i h

end Cacache.C13x
