/-
C13 (extension) — a keyed write that fails half-way under ANY fault plan leaves a healthy cache in
an admissible abstract state, and everything keeps working (`Lemmas/CrashRefine.lean`, statement 4).
-/
import Cacache.Lemmas.CrashRefine

namespace Cacache.C13x
open Prog CacheRefine CrashRefine

variable (cfg : Cfg) (cache : Path)

/-- Under every fault plan a keyed write leaves a HEALTHY cache whose abstract state is: the old
one; the old index over a store that holds the new content; the new state; or (fault-only: the
publishing rename failed but the address was already occupied) the new index over the old store. -/
theorem faulty_write_leaves_admissible_state (env : Env) (fl : Flavour) (key : Bytes) (o : WriteOpts)
    (chunks : List Bytes) (fs : FS) (h : Healthy cfg cache fs) (hl : HexLen cfg) (hw : PutWF key o chunks)
    (plan : Nat → Option Fault) :
    Healthy cfg cache (runFault env plan (writeStream cfg cache fl (some key) o chunks) fs 0).2.1 ∧
    AdmissibleF cfg env (absCache cfg cache fs) key o chunks
      (absCache cfg cache (runFault env plan (writeStream cfg cache fl (some key) o chunks) fs 0).2.1) :=
  put_fault_sem cfg cache env fl key o chunks fs h hl hw plan

/-- **Other entries are unaffected**: in every such state keys other than the written one map as
before and addresses other than the data's hold what they held. -/
theorem faulty_write_leaves_others (env : Env) (m m' : AbsCache) (key : Bytes) (o : WriteOpts)
    (chunks : List Bytes) (h : AdmissibleF cfg env m key o chunks m') :
    (∀ key', key' ≠ key → m'.index key' = m.index key') ∧
    (∀ a hx, ¬ (a = o.algo.getD .sha256 ∧ hx = Bytes.hex (cfg.H (o.algo.getD .sha256) chunks.flatten)) →
      m'.store a hx = m.store a hx) :=
  admissibleF_untouched cfg h

/-- **Once the fault is gone everything works**: any later operation sequence answers as the
abstract specification says from that state; the cache ends healthy. -/
theorem fault_then_continue (post : List (Env × COp)) (env : Env) (fl : Flavour) (key : Bytes)
    (o : WriteOpts) (chunks : List Bytes) (fs : FS) (h : Healthy cfg cache fs) (hl : HexLen cfg)
    (hw : PutWF key o chunks) (hpost : ∀ x ∈ post, x.2.WF cfg) (plan : Nat → Option Fault) :
    ∃ m', AdmissibleF cfg env (absCache cfg cache fs) key o chunks m' ∧
      (cRunOps cfg cache post (runFault env plan (writeStream cfg cache fl (some key) o chunks) fs 0).2.1).1 =
        (cSpecRun cfg post m').1 ∧
      Healthy cfg cache
        (cRunOps cfg cache post (runFault env plan (writeStream cfg cache fl (some key) o chunks) fs 0).2.1).2 := by
  obtain ⟨m', h1, h2, _, h4⟩ := fault_then_post cfg cache post env fl key o chunks fs h hl hw hpost plan
  exact ⟨m', h1, h2, h4⟩

end Cacache.C13x
