/-
C13 (extension) — a keyed write that fails half-way under ANY fault plan leaves a healthy cache in
an admissible abstract state, and everything keeps working (`Lemmas/CrashRefine.lean`, statement 4).
-/
import Cacache.Lemmas.CrashRefine
import Cacache.Lemmas.FaultStrict
import Cacache.Lemmas.FaultMore
import Cacache.Lemmas.Gaps

namespace Cacache.C13x
open Prog CacheRefine CrashRefine

variable (cfg : Cfg) (cache : Path)

/-- Under every fault plan a keyed write leaves a HEALTHY cache whose abstract state is: the old
one; the old index over a store that holds the new content; the new state; or (fault-only: the
publishing rename failed but the address was already occupied) the new index over the old store. -/
theorem faulty_write_leaves_admissible_state (env : Env) (fl : Flavour) (key : Bytes) (o : WriteOpts)
    (chunks : List Bytes) (fs : FS) (h : Healthy cfg cache fs) (hl : HexLen cfg) (hw : PutWF key o chunks)
    (plan : Nat → Option Fault) :
    Healthy cfg cache (runFault env plan (writeStream cfg cache fl (some key) o chunks) fs 0).2.1 ∧
    AdmissibleF cfg env (absCache cfg cache fs) key o chunks
      (absCache cfg cache (runFault env plan (writeStream cfg cache fl (some key) o chunks) fs 0).2.1) :=
  put_fault_sem cfg cache env fl key o chunks fs h hl hw plan

/-- **Other entries are unaffected**: in every such state keys other than the written one map as
before and addresses other than the data's hold what they held. -/
theorem faulty_write_leaves_others (env : Env) (m m' : AbsCache) (key : Bytes) (o : WriteOpts)
    (chunks : List Bytes) (h : AdmissibleF cfg env m key o chunks m') :
    (∀ key', key' ≠ key → m'.index key' = m.index key') ∧
    (∀ a hx, ¬ (a = o.algo.getD .sha256 ∧ hx = Bytes.hex (cfg.H (o.algo.getD .sha256) chunks.flatten)) →
      m'.store a hx = m.store a hx) :=
  admissibleF_untouched cfg h

/-- **Once the fault is gone everything works**: any later operation sequence answers as the
abstract specification says from that state; the cache ends healthy. -/
theorem fault_then_continue (post : List (Env × COp)) (env : Env) (fl : Flavour) (key : Bytes)
    (o : WriteOpts) (chunks : List Bytes) (fs : FS) (h : Healthy cfg cache fs) (hl : HexLen cfg)
    (hw : PutWF key o chunks) (hpost : ∀ x ∈ post, x.2.WF cfg) (plan : Nat → Option Fault) :
    ∃ m', AdmissibleF cfg env (absCache cfg cache fs) key o chunks m' ∧
      (cRunOps cfg cache post (runFault env plan (writeStream cfg cache fl (some key) o chunks) fs 0).2.1).1 =
        (cSpecRun cfg post m').1 ∧
      Healthy cfg cache
        (cRunOps cfg cache post (runFault env plan (writeStream cfg cache fl (some key) o chunks) fs 0).2.1).2 := by
  obtain ⟨m', h1, h2, _, h4⟩ := fault_then_post cfg cache post env fl key o chunks fs h hl hw hpost plan
  exact ⟨m', h1, h2, h4⟩

/-! ### "a truthful success": operations that tolerate no error (Lemmas/FaultStrict.lean) -/

open FaultStrict ListRefine in
/-- **A strict operation that reports success under faults did exactly what the fault-free run does**:
if every call whose answer is an error makes the result "not ok" (`Strict`), then for every fault plan
an ok result means that no fault fired: result, filesystem and call trace are those of the healthy run. -/
theorem fault_ok_is_healthy {α : Type} {ok : α → Prop} {p : Prog α} (hs : Strict ok p)
    (env : Env) (plan : Nat → Option Fault) (fs : FS) (i : Nat)
    (h : ok (runFault env plan p fs i).1) :
    runFault env plan p fs i = run env p fs :=
  FaultStrict.fault_ok_is_healthy hs env plan fs i h

open FaultStrict ListRefine CacheRefine Refine in
/-- **`clear` never reports a success it did not achieve** (F26 was its negation in the real code):
on a healthy, tidy cache an ok answer under ANY fault plan leaves the filesystem of the healthy run —
nothing below the cache directory, the cache directory itself in place, a healthy, tidy, EMPTY cache. -/
theorem clear_ok_truthful (cfg : Cfg) (cache : Path) (env : Env) (plan : Nat → Option Fault) (fs : FS) (i : Nat)
    (hH : Healthy cfg cache fs) (hT : Tidy cfg cache fs)
    (h : (runFault env plan (clear cache) fs i).1 = .ok ()) :
    (runFault env plan (clear cache) fs i).2.1 = (run env (clear cache) fs).2.1 ∧
    (∀ q, cache <+: q → q ≠ cache → (runFault env plan (clear cache) fs i).2.1.get q = none) ∧
    (runFault env plan (clear cache) fs i).2.1.isDir cache = true ∧
    Healthy cfg cache (runFault env plan (clear cache) fs i).2.1 ∧
    absCache cfg cache (runFault env plan (clear cache) fs i).2.1 = AbsCache.empty :=
  let h' := FaultStrict.clear_ok_truthful cfg cache env plan fs i hH hT h
  ⟨h'.1, h'.2.2.1, h'.2.2.2.1, h'.2.2.2.2.1, h'.2.2.2.2.2.2⟩

open FaultStrict in
/-- Removal by address and index insertion with an explicit time are strict; an insertion / removal
whose time comes from the clock tolerates exactly one error — a failing clock read, which is
indistinguishable from a clock that reads 0. -/
theorem removeHash_ok_is_healthy (cache : Path) (sri : Integrity) (env : Env)
    (plan : Nat → Option Fault) (fs : FS) (i : Nat)
    (h : (runFault env plan (removeHash cache sri) fs i).1 = .ok ()) :
    runFault env plan (removeHash cache sri) fs i = run env (removeHash cache sri) fs :=
  FaultStrict.removeHash_ok_is_healthy cache sri env plan fs i h

open FaultStrict in
theorem delete_ok_clock (cfg : Cfg) (cache : Path) (key : Bytes) (env : Env)
    (plan : Nat → Option Fault) (fs : FS) (i : Nat)
    (h : (runFault env plan (delete cfg cache key) fs i).1 = .ok ()) :
    runFault env plan (delete cfg cache key) fs i = run env (delete cfg cache key) fs ∨
    runFault env plan (delete cfg cache key) fs i =
      run { env with clock := 0 } (delete cfg cache key) fs :=
  FaultStrict.delete_ok_clock cfg cache key env plan fs i h

/-! ### the remaining operations under EVERY fault plan (Lemmas/FaultMore)

`copy*`, `hard_link*`, `reflink*` (checked), `list`, `remove_fully` and `clear` - the operations of
the property's quantifier that the theorems above do not cover.  Model limits to keep in mind when
reading them: a failing `copyFile` / `hardLink` / `reflink` has no partial effect in the model (a real
failing `fs::copy` may leave a created or partly written destination; what carries over is the error
answer plus the cache frame), and a copy writes THROUGH a symlinked destination (hence `destTargets`). -/

open FaultMore ListRefine Refine in
/-- **Checked extraction by address, any fault plan**: an error answer means the filesystem is exactly
as before; a success answer `n` means the content file held bytes `b` of length `n` that PASS the
integrity check and the destination holds exactly `b` (never unverified bytes with a success); and
nothing but the destination ever changes - the content and index areas in particular. -/
theorem extractHash_fault (how : Extract) (sri : Integrity) (dest : Path) (env : Env)
    (plan : Nat → Option Fault) (fs : FS) (i : Nat) :
    ExtractPost cfg how cache sri dest fs
      (runFault env plan (extractHash cfg how cache sri dest) fs i).1
      (runFault env plan (extractHash cfg how cache sri dest) fs i).2.1 :=
  FaultMore.extractHash_fault cfg how cache sri dest env plan fs i

open FaultMore ListRefine Refine in
/-- The same by key (the entry is the one a healthy lookup of the key finds). -/
theorem extract_fault (how : Extract) (key : Bytes) (dest : Path) (env : Env)
    (plan : Nat → Option Fault) (fs : FS) (i : Nat) :
    (∀ e, (runFault env plan (extract cfg true how cache key dest) fs i).1 = .error e →
      (runFault env plan (extract cfg true how cache key dest) fs i).2.1 = fs) ∧
    (∀ n, (runFault env plan (extract cfg true how cache key dest) fs i).1 = .ok n →
      ∃ m cpath b, (run env (find cfg cache key) fs).1 = .ok (some m) ∧
        contentPath cache m.sri = some cpath ∧ fs.readFile cpath = .ok b ∧ b.length = n ∧
        C01.Passes cfg m.sri b ∧
        DestHolds fs (runFault env plan (extract cfg true how cache key dest) fs i).2.1 dest b) ∧
    (∀ q, q ∉ destTargets how fs dest →
      (runFault env plan (extract cfg true how cache key dest) fs i).2.1.get q = fs.get q) :=
  FaultMore.extract_fault cfg how cache key dest env plan fs i

open FaultMore ListRefine Refine in
/-- **A listing under any fault plan is read-only and invents nothing**: the filesystem is unchanged,
the listed entries are a sublist of the healthy listing's, and on a healthy tidy cache every listed
entry is what a lookup of its key finds; keys are listed at most once. -/
theorem ls_fault_genuine (env : Env) (plan : Nat → Option Fault) (fs : FS) (i : Nat)
    (hH : Healthy cfg cache fs) (hT : Tidy cfg cache fs) :
    (runFault env plan (ls cfg cache) fs i).2.1 = fs ∧
    (entriesOf (runFault env plan (ls cfg cache) fs i).1).Sublist
      (entriesOf (run env (ls cfg cache) fs).1) ∧
    (∀ m, LsItem.entry m ∈ (runFault env plan (ls cfg cache) fs i).1 →
      absIndex cfg cache fs m.key = some m ∧ (run env (find cfg cache m.key) fs).1 = .ok (some m)) ∧
    ((entriesOf (runFault env plan (ls cfg cache) fs i).1).map (fun m => m.key)).Nodup :=
  ⟨FaultMore.ls_fault_readonly cfg cache env plan fs i, FaultMore.ls_fault_sublist cfg cache env plan fs i,
   FaultMore.ls_fault_genuine cfg cache env plan fs i hH hT⟩

open FaultMore ListRefine Refine in
/-- **Full removal, any fault plan, truthful success**: `ok` means the bucket is gone and every later
lookup of the key - healthy or itself faulty - never finds an entry.  No hypothesis on the filesystem. -/
theorem removeFully_ok_absent (key : Bytes) (env : Env) (plan : Nat → Option Fault) (fs : FS) (i : Nat)
    (h : (runFault env plan (removeFully cfg cache key) fs i).1 = .ok ()) :
    (runFault env plan (removeFully cfg cache key) fs i).2.1.get (bucketPath cfg cache key) = none ∧
    (∀ env', (run env' (find cfg cache key) (runFault env plan (removeFully cfg cache key) fs i).2.1).1 =
      .ok none) ∧
    (∀ env' plan' j m, (runFault env' plan' (find cfg cache key)
      (runFault env plan (removeFully cfg cache key) fs i).2.1 j).1 ≠ .ok (some m)) :=
  FaultMore.removeFully_ok_absent cfg cache key env plan fs i h

open FaultMore ListRefine Refine in
/-- **Full removal, any fault plan, other entries unaffected**: the cache stays healthy; keys in other
bucket files look up as before; on an error EVERY key looks up as before. -/
theorem removeFully_fault_healthy (key : Bytes) (env : Env) (plan : Nat → Option Fault) (fs : FS)
    (i : Nat) (hH : Healthy cfg cache fs) :
    Healthy cfg cache (runFault env plan (removeFully cfg cache key) fs i).2.1 ∧
    (∀ k, ¬ SameBucket cfg k key → ∀ env',
      (run env' (find cfg cache k) (runFault env plan (removeFully cfg cache key) fs i).2.1).1 =
        (run env' (find cfg cache k) fs).1) ∧
    (∀ e, (runFault env plan (removeFully cfg cache key) fs i).1 = .error e → ∀ k env',
      (run env' (find cfg cache k) (runFault env plan (removeFully cfg cache key) fs i).2.1).1 =
        (run env' (find cfg cache k) fs).1) ∧
    ((runFault env plan (removeFully cfg cache key) fs i).1 = .ok () → ∀ k, SameBucket cfg k key →
      ∀ env', (run env' (find cfg cache k) (runFault env plan (removeFully cfg cache key) fs i).2.1).1 =
        .ok none) :=
  FaultMore.removeFully_fault_healthy cfg cache key env plan fs i hH

open FaultMore ListRefine Refine in
/-- **`clear` for EVERY order in which the directory's children come back, any fault plan** (`σ` is any
permutation of what `read_dir` answers; the plan covers the `read_dir` call and the partial removals
of a failing `remove_dir_all`): what remains is a sub-filesystem (nothing created or altered), nothing
outside the cache directory changes, the cache stays healthy, and on a tidy cache an `ok` answer means
everything below the cache directory is gone - path by path the state the healthy `clear` leaves. -/
theorem clear_any_order_fault (σ : List (Path × Bool) → List (Path × Bool)) (hσ : ∀ es, (σ es).Perm es)
    (env : Env) (plan : Nat → Option Fault) (fs : FS) (i : Nat) (hH : Healthy cfg cache fs) :
    SubFS fs (runFault env plan (clearIn σ cache) fs i).2.1 ∧
    (∀ q, (¬ cache <+: q ∨ q = cache) → (runFault env plan (clearIn σ cache) fs i).2.1.get q = fs.get q) ∧
    Healthy cfg cache (runFault env plan (clearIn σ cache) fs i).2.1 ∧
    (Tidy cfg cache fs → (runFault env plan (clearIn σ cache) fs i).1 = .ok () →
      fs.isDir cache = true ∧
      (∀ q, cache <+: q → q ≠ cache → (runFault env plan (clearIn σ cache) fs i).2.1.get q = none) ∧
      (∀ q, (runFault env plan (clearIn σ cache) fs i).2.1.get q = (run env (clear cache) fs).2.1.get q) ∧
      (runFault env plan (clearIn σ cache) fs i).2.1.isDir cache = true ∧
      Tidy cfg cache (runFault env plan (clearIn σ cache) fs i).2.1 ∧
      absCache cfg cache (runFault env plan (clearIn σ cache) fs i).2.1 = AbsCache.empty) :=
  FaultMore.clearIn_fault cfg cache σ hσ env plan fs i hH

open FaultMore ListRefine Refine in
/-- The quantifier's "in pairs", literally: any two calls of an extraction failing with any errors. -/
theorem extractHash_pairs (how : Extract) (sri : Integrity) (dest : Path) (env : Env) (fs : FS)
    (a b : Nat) (f g : Fault) :
    ExtractPost cfg how cache sri dest fs
      (runFault env (pairPlan a b f g) (extractHash cfg how cache sri dest) fs 0).1
      (runFault env (pairPlan a b f g) (extractHash cfg how cache sri dest) fs 0).2.1 :=
  FaultMore.extractHash_pairs cfg cache how sri dest env fs a b f g


open Refine CacheRefine ListRefine FaultMore CrashMore in
/-- **Retrying `remove_fully` after a fault** (from `Lemmas/Gaps.lean`).  From a healthy, tidy cache
run `remove_fully key` under ANY fault plan, then again without faults: the state in between is healthy
and tidy, so the retry answers what the specification answers there; if the faulty run answered an
ERROR, it left the old or the dangling abstract state and the retry ends in EXACTLY the state an
uninterrupted `remove_fully` would have reached; if it answered OK, the retry answers not-found
and changes no node. -/
theorem removeFully_fault_retry (env env' : Env) (plan : Nat → Option Fault) (key : Bytes) (fs : FS)
    (i : Nat) (hH : Healthy cfg cache fs) (hl : HexLen cfg) (hT : Tidy cfg cache fs) :
    XHealthy cfg cache (runFault env plan (removeFully cfg cache key) fs i).2.1 ∧
    (run env' (removeFully cfg cache key) (runFault env plan (removeFully cfg cache key) fs i).2.1).1 =
      (removeFullySpec cfg (absX cfg cache (runFault env plan (removeFully cfg cache key) fs i).2.1) key).2 ∧
    XHealthy cfg cache
      (run env' (removeFully cfg cache key) (runFault env plan (removeFully cfg cache key) fs i).2.1).2.1 ∧
    (∀ e, (runFault env plan (removeFully cfg cache key) fs i).1 = .error e →
      (absX cfg cache (runFault env plan (removeFully cfg cache key) fs i).2.1 = absX cfg cache fs ∨
       absX cfg cache (runFault env plan (removeFully cfg cache key) fs i).2.1 =
        danglingX (absX cfg cache fs) key) ∧
      absX cfg cache
        (run env' (removeFully cfg cache key) (runFault env plan (removeFully cfg cache key) fs i).2.1).2.1 =
        (removeFullySpec cfg (absX cfg cache fs) key).1) ∧
    ((runFault env plan (removeFully cfg cache key) fs i).1 = .ok () →
      (run env' (removeFully cfg cache key) (runFault env plan (removeFully cfg cache key) fs i).2.1).1 =
        .error (.io .notFound) ∧
      ∀ q, (run env' (removeFully cfg cache key)
          (runFault env plan (removeFully cfg cache key) fs i).2.1).2.1.get q =
        (runFault env plan (removeFully cfg cache key) fs i).2.1.get q) :=
  Gaps.removeFully_fault_retry cfg cache env env' plan key fs i hH hl hT

end Cacache.C13x
