/-
C05 (extension) — the lookup results of every history depend on the filesystem only through the
abstract cache (`Lemmas/SpecLaws.lean`; counted with C05's theorems by the check).
-/
import Cacache.Lemmas.SpecLaws

namespace Cacache.C05x
open Prog CacheRefine ListRefine Refine

variable (cfg : Cfg) (cache : Path)

/-- **Lookups see the latest entries and nothing of how they are laid out**: two healthy caches
with the same key → entry and address → bytes maps answer every sequence of keyed writes, reads,
lookups, index insertions / removals and by-address operations identically, and reach the same
maps again — superseded records, tombstones, other keys' records in the bucket and the directory
skeleton cannot make an earlier entry resurface or a live one disappear. -/
theorem lookups_depend_on_abstraction_only (ops : List (Env × COp)) (fs1 fs2 : FS)
    (h1 : Healthy cfg cache fs1) (h2 : Healthy cfg cache fs2) (hl : HexLen cfg)
    (hops : ∀ x ∈ ops, x.2.WF cfg) (habs : absCache cfg cache fs1 = absCache cfg cache fs2) :
    (cRunOps cfg cache ops fs1).1 = (cRunOps cfg cache ops fs2).1 ∧
    absCache cfg cache (cRunOps cfg cache ops fs1).2 = absCache cfg cache (cRunOps cfg cache ops fs2).2 :=
  SpecLaws.representation_independent cfg cache ops fs1 fs2 h1 h2 hl hops habs

/-- The same with listings, full removals and `clear` in the history (a listing is specified up to
the order of its items, hence "both runs satisfy one specification"). -/
theorem lookups_depend_on_abstraction_only_ext (ops : List (Env × XOp)) (fs1 fs2 : FS)
    (h1 : XHealthy cfg cache fs1) (h2 : XHealthy cfg cache fs2) (hl : HexLen cfg)
    (hops : ∀ x ∈ ops, x.2.WF cfg) (habs : absX cfg cache fs1 = absX cfg cache fs2) :
    ∃ spec, Answers (xRunOps cfg cache ops fs1).1 spec ∧ Answers (xRunOps cfg cache ops fs2).1 spec ∧
    absX cfg cache (xRunOps cfg cache ops fs1).2 = absX cfg cache (xRunOps cfg cache ops fs2).2 :=
  SpecLaws.representation_independent_ext cfg cache ops fs1 fs2 h1 h2 hl hops habs

/-- The hypotheses are satisfiable (the empty cache, with itself). -/
example : Healthy cfg cache FS.empty ∧ absCache cfg cache FS.empty = absCache cfg cache FS.empty :=
  ⟨healthy_of_empty_cache cfg cache FS.empty (fun _ _ _ => Or.inl rfl) (fun _ _ _ => rfl), rfl⟩

/-- **Earlier entries never resurface**: whatever was done to a key (`op1`: an insertion, a removal, a
lookup), once that key is inserted or removed again (`op2`), the cache is indistinguishable — by
EVERY later history of keyed writes, reads, lookups, index and by-address operations — from the
cache on which only `op2` was done; the two also reach the same abstract cache.  The shadowed
record is still in the bucket file, and no sequence of calls can bring it back or detect it. -/
theorem shadowed_entry_never_resurfaces (env1 env2 : Env) (op1 op2 : IOp) (fs : FS)
    (h : Healthy cfg cache fs) (hl : HexLen cfg) (w1 : OpWF cfg op1) (w2 : OpWF cfg op2)
    (hk : SpecLaws.iopKey op1 = SpecLaws.iopKey op2) (hw : SpecLaws.isIndexWrite op2 = true)
    (later : List (Env × COp)) (hlater : ∀ x ∈ later, x.2.WF cfg) :
    (cRunOps cfg cache later (cRunOps cfg cache [(env1, .index op1), (env2, .index op2)] fs).2).1 =
      (cRunOps cfg cache later (cRunOps cfg cache [(env2, .index op2)] fs).2).1 ∧
    absCache cfg cache
        (cRunOps cfg cache later (cRunOps cfg cache [(env1, .index op1), (env2, .index op2)] fs).2).2 =
      absCache cfg cache (cRunOps cfg cache later (cRunOps cfg cache [(env2, .index op2)] fs).2).2 :=
  SpecLaws.shadowed_op_unobservable cfg cache env1 env2 op1 op2 fs h hl w1 w2 hk hw later hlater

/-- The hypotheses on the two operations are satisfiable: an insertion shadowed by a removal. -/
example (o : WriteOpts) : SpecLaws.iopKey (.ins [7] o) = SpecLaws.iopKey (.del [7]) ∧
    SpecLaws.isIndexWrite (.del [7]) = true := ⟨rfl, rfl⟩

end Cacache.C05x
