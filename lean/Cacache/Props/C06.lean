/-
C06 — damage to an index file is contained to the damaged records.

Generic in the codec (`Codec.Laws`); `b`, `a`, `c`, `x` range over *all* byte strings, so the
statements cover truncation, bit flips, garbage, NUL bytes, invalid UTF-8, torn tails, duplicated
and reordered fragments alike.  The reader is the skip-and-continue reader both flavours use.
-/
import Cacache.Lemmas.Index
import Cacache.Lemmas.Record

namespace Cacache.C06

variable {R M : Type} {W : R → Prop}

/-- **Cut.**  A newline separates a bucket into two independently decoded halves. -/
theorem entries_cut (c : Codec R M) (a x : Bytes) :
    c.entries (a ++ NL :: x) = c.entriesT a ++ c.entries x :=
  c.entries_append_nl a x

/-- **Containment.**  Whatever newline-free bytes `x` stand between two newlines — a record cut
at any length, flipped bits, garbage, NULs, bytes that are not UTF-8 — the records before and
after are decoded exactly as without it, and `x` itself contributes at most what it decodes to. -/
theorem damage_contained (c : Codec R M) (a x z : Bytes) (hx : NL ∉ x) :
    c.entries (a ++ NL :: (x ++ NL :: z)) =
      c.entriesT a ++ (c.decLine (lineT c.valid x)).toList ++ c.entries z := by
  rw [c.entries_append_nl, c.entries_append_nl, List.append_assoc]
  congr 1
  unfold Codec.entriesT
  rw [splitNL_no_nl x hx]
  cases h : c.decLine (lineT c.valid x) <;> simp [linesT, h]

/-- Replacing the damaged bytes by *nothing decodable* (the typical case: the checksum no longer
matches) leaves exactly the undamaged records. -/
theorem damage_dropped (c : Codec R M) (a x z : Bytes) (hx : NL ∉ x)
    (hbad : c.decLine (lineT c.valid x) = none) :
    c.entries (a ++ NL :: (x ++ NL :: z)) = c.entriesT a ++ c.entries z := by
  rw [damage_contained c a x z hx, hbad]; simp

/-- An invalid-UTF-8 line is skipped and everything after it stays effective (this is the clause
the pre-repair sync reader violated: it stopped there). -/
theorem invalid_utf8_line_skipped (c : Codec R M) (a x z : Bytes) (hx : NL ∉ x)
    (hinv : c.valid x = false) :
    c.entries (a ++ NL :: (x ++ NL :: z)) = c.entriesT a ++ c.entries z := by
  apply damage_dropped c a x z hx
  simp [lineT, hinv, Codec.decLine]

/-- **A torn tail is harmless**: whatever prefix `t` of a record a crash left at the end of the
file, the next append's leading newline terminates it, the new record is effective, and the torn
bytes contribute at most what they decode to. -/
theorem torn_tail_then_append (c : Codec R M) (L : c.Laws W) (b t : Bytes) (ht : NL ∉ t) (r : R)
    (hr : W r) :
    c.entries ((b ++ NL :: t) ++ c.frame r) =
      c.entriesT b ++ (c.decLine (lineT c.valid t)).toList ++ [r] := by
  have : (b ++ NL :: t) ++ c.frame r = b ++ NL :: (t ++ NL :: c.enc r) := by
    simp [Codec.frame]
  rw [this, damage_contained c b t (c.enc r) ht, L.entries_enc r hr]

/-- **No forgery (generic).**  Every record a reader reports is the decoding of one line of the
file.  This holds of ANY codec by the definition of `entries`; what "decoding" demands of the
line — the checksum — is the concrete statement `no_forgery_cacache` below. -/
theorem no_forgery (c : Codec R M) (b : Bytes) (r : R) (hr : r ∈ c.entries b) :
    ∃ l ∈ lines c.valid b, c.decLine l = some r := by
  unfold Codec.entries at hr
  obtain ⟨l, hl, hd⟩ := List.mem_filterMap.mp hr
  exact ⟨l, hl, hd⟩

/-! ### the concrete codec: what a line must spell out -/

theorem splitOn_single (sep : UInt8 → Bool) (b j : Bytes) (h : Bytes.splitOn sep b = [j]) :
    b = j := by
  induction b generalizing j with
  | nil => simpa [Bytes.splitOn] using h.symm
  | cons c t ih =>
    have hu : Bytes.splitOn sep (c :: t) =
        if sep c then [] :: Bytes.splitOn sep t
        else match Bytes.splitOn sep t with
          | [] => [[c]]
          | l :: ls => (c :: l) :: ls := rfl
    rw [hu] at h
    split at h
    · simp only [List.cons.injEq] at h
      exact absurd h.2 (Rec.splitOn_ne_nil sep t)
    · split at h
      · rename_i he; exact absurd he (Rec.splitOn_ne_nil sep t)
      · rename_i l ls he
        simp only [List.cons.injEq] at h
        obtain ⟨rfl, rfl⟩ := h
        rw [ih l he]

/-- A byte string that splits into exactly two pieces is the first piece, one separator, the
second piece. -/
theorem splitOn_pair (sep : UInt8 → Bool) (b h j : Bytes) (hs : Bytes.splitOn sep b = [h, j]) :
    ∃ x, sep x = true ∧ b = h ++ x :: j := by
  induction b generalizing h with
  | nil => simp [Bytes.splitOn] at hs
  | cons c t ih =>
    have hu : Bytes.splitOn sep (c :: t) =
        if sep c then [] :: Bytes.splitOn sep t
        else match Bytes.splitOn sep t with
          | [] => [[c]]
          | l :: ls => (c :: l) :: ls := rfl
    rw [hu] at hs
    split at hs
    · rename_i hc
      simp only [List.cons.injEq] at hs
      obtain ⟨rfl, ht⟩ := hs
      exact ⟨c, hc, by rw [splitOn_single sep t j ht]; rfl⟩
    · split at hs
      · simp at hs
      · rename_i l ls he
        simp only [List.cons.injEq] at hs
        obtain ⟨rfl, rfl⟩ := hs
        obtain ⟨x, hx, rfl⟩ := ih l he
        exact ⟨x, hx, rfl⟩

/-- **What a bucket line must spell out to decode** (cacache's codec, any hash function `H`): if
`decLine` accepts `line` with record `r`, the line is `hex(sha256(json)) ++ TAB ++ json` for a
`json` text (free of tabs) that deserialises to `r`. -/
theorem decLine_spells (H : Algo → Bytes → Bytes) (line : Bytes) (r : Rec)
    (h : Rec.decLine H line = some r) :
    ∃ json, line = Rec.checksum H json ++ TAB :: json ∧ Rec.decJson json = some r := by
  unfold Rec.decLine at h
  split at h
  · rename_i hh j hs
    split at h
    · rename_i hc
      have hc' : Rec.checksum H j = hh := by simpa using hc
      obtain ⟨x, hx, hl⟩ := splitOn_pair _ line hh j hs
      have : x = TAB := by simpa using hx
      subst this
      exact ⟨j, by rw [hc']; exact hl, h⟩
    · cases h
  · cases h

/-- **No forgery (cacache's codec).**  Every record a lookup or listing can report from a bucket
`b` is spelled out by one valid-UTF-8 line of `b` of the form `hex(sha256(json)) ++ TAB ++ json`
whose `json` deserialises to exactly that record: nothing is reported that no checksummed line of
the file says. -/
theorem no_forgery_cacache (H : Algo → Bytes → Bytes) (b : Bytes) (r : Rec)
    (hr : r ∈ (Rec.codec H).entries b) :
    ∃ json, Line.ok (Rec.checksum H json ++ TAB :: json) ∈ lines Json.utf8Valid b ∧
      Rec.decJson json = some r := by
  obtain ⟨l, hl, hd⟩ := no_forgery (Rec.codec H) b r hr
  cases l with
  | invalid => cases hd
  | ok s =>
    obtain ⟨json, rfl, hj⟩ := decLine_spells H s r hd
    exact ⟨json, hl, hj⟩

/-- The stop-at-first-invalid-line reader (the pre-repair sync reader, kept in the model as
`entriesStop` to state the difference) agrees with the skip-and-continue reader exactly when no
line is invalid UTF-8. -/
theorem stop_reader_agrees_when_valid (c : Codec R M) (b : Bytes)
    (h : ∀ l ∈ lines c.valid b, l.isOk = true) : c.entriesStop b = c.entries b := by
  unfold Codec.entriesStop Codec.entries
  congr 1
  generalize lines c.valid b = ls at h
  induction ls with
  | nil => rfl
  | cons l ls ih =>
    have hl : l.isOk = true := h l (by simp)
    simp only [List.takeWhile_cons, hl, if_true]
    rw [ih (fun x hx => h x (by simp [hx]))]

end Cacache.C06
