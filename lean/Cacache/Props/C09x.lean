/-
C09 (extension) — full removal and `clear` at program level, inside the refinement
(`Lemmas/ListRefine.lean`, which imports `Props/C09`; counted with C09's theorems by the check).
-/
import Cacache.Lemmas.ListRefine
import Cacache.Lemmas.FaultMore
import Cacache.Lemmas.SpecLaws

namespace Cacache.C09x
open Prog CacheRefine ListRefine Refine

variable (cfg : Cfg) (cache : Path)

/-- **A full removal of a key deletes its entry and its content** — also when the content is
already gone (the repaired behaviour, F16): the program answers what `removeFullySpec` says, moves
the abstract state accordingly and keeps the cache healthy and tidy. -/
theorem removeFully_refines_spec (env : Env) (key : Bytes) (fs : FS) (h : Healthy cfg cache fs)
    (hl : HexLen cfg) (hT : Tidy cfg cache fs) :
    (run env (removeFully cfg cache key) fs).1 = (removeFullySpec cfg (absX cfg cache fs) key).2 ∧
    absX cfg cache (run env (removeFully cfg cache key) fs).2.1 =
      (removeFullySpec cfg (absX cfg cache fs) key).1 ∧
    Healthy cfg cache (run env (removeFully cfg cache key) fs).2.1 ∧
    Tidy cfg cache (run env (removeFully cfg cache key) fs).2.1 :=
  removeFully_refines cfg cache env key fs h hl hT

/-- What that specification says for a live key with a computed integrity: the call answers ok,
the key (and any key sharing its bucket through a SHA-1 collision) is unindexed, exactly the
address of its content is dropped from the store, every other key and address is as before. -/
theorem removeFully_of_live_key (hl : HexLen cfg) (m : XAbs) (key : Bytes) (e : Meta) (a : Algo)
    (d : Bytes) (hi : m.cache.index key = some e) (hs : e.sri = Sri.compute cfg.H a d)
    (hb : m.bucket key = true) :
    (removeFullySpec cfg m key).2 = .ok () ∧
    (removeFullySpec cfg m key).1.cache.store = m.cache.store.set a (Bytes.hex (cfg.H a d)) none ∧
    (removeFullySpec cfg m key).1.cache.index =
      (fun k => if SameBucket cfg k key then none else m.cache.index k) :=
  let r := removeFullySpec_of_entry cfg hl m key e a d hi hs hb
  ⟨r.1, r.2.1, r.2.2.1⟩

/-- **Clearing leaves an empty, still usable cache**: `clear` on a healthy tidy cache answers ok,
nothing is left below the cache directory, the cache directory itself stays, the result is healthy
and tidy and abstracts to the empty cache … -/
theorem clear_leaves_empty_cache (env : Env) (fs : FS) (hH : Healthy cfg cache fs) (hT : Tidy cfg cache fs)
    (hd : fs.isDir cache = true) :
    (run env (clear cache) fs).1 = .ok () ∧
    (∀ q, cache <+: q → q ≠ cache → (run env (clear cache) fs).2.1.get q = none) ∧
    Healthy cfg cache (run env (clear cache) fs).2.1 ∧ Tidy cfg cache (run env (clear cache) fs).2.1 ∧
    absCache cfg cache (run env (clear cache) fs).2.1 = AbsCache.empty :=
  let r := clear_empties cfg cache env fs hH hT hd
  ⟨r.1, r.2.2.1, r.2.2.2.2.1, r.2.2.2.2.2.1, r.2.2.2.2.2.2⟩

/-- … **and every operation sequence afterwards behaves as from a fresh cache.** -/
theorem operations_after_clear (env : Env) (fs : FS) (h : XHealthy cfg cache fs) (hd : fs.isDir cache = true)
    (ops : List (Env × XOp)) (hl : HexLen cfg) (hops : ∀ x ∈ ops, x.2.WF cfg) :
    (run env (clear cache) fs).1 = .ok () ∧
    Answers (xRunOps cfg cache ops (run env (clear cache) fs).2.1).1 (xSpecRun cfg ops XAbs.cleared).1 ∧
    XHealthy cfg cache (xRunOps cfg cache ops (run env (clear cache) fs).2.1).2 :=
  let r := ops_after_clear cfg cache env fs h hd ops hl hops
  ⟨r.1, r.2.1, r.2.2.2⟩

/-- **The whole API surface as one refinement**: keyed / by-address writes, reads, lookups, index
insertions, removals, `remove_hash`, `exists`, listings, full removals and clears, in any order. -/
theorem cache_refines_map_ext (ops : List (Env × XOp)) (fs : FS) (h : XHealthy cfg cache fs)
    (hl : HexLen cfg) (hops : ∀ x ∈ ops, x.2.WF cfg) :
    Answers (xRunOps cfg cache ops fs).1 (xSpecRun cfg ops (absX cfg cache fs)).1 ∧
    absX cfg cache (xRunOps cfg cache ops fs).2 = (xSpecRun cfg ops (absX cfg cache fs)).2 ∧
    XHealthy cfg cache (xRunOps cfg cache ops fs).2 :=
  ListRefine.cache_refines_map_ext cfg cache ops fs h hl hops

/-- The empty cache satisfies the invariant (non-vacuity). -/
theorem empty_cache_xhealthy (fs : FS)
    (hanc : ∀ q, q ≠ [] → q <+: cache → NoneOrDir fs q)
    (hbelow : ∀ q, cache <+: q → q ≠ cache → fs.get q = none) : XHealthy cfg cache fs :=
  xhealthy_of_empty_cache cfg cache fs hanc hbelow

/-- **The only paths a full removal can change** — healthy or under every fault plan, whatever the
filesystem holds: a path whose node differs after `remove_fully key` is the key's bucket file or
the content path of the entry the lookup of `key` found in the initial filesystem.  (Sharper than
`C09.removeFully_targets`, which exempts the whole content area: no OTHER content file can be
touched.)  Moreover the run only removes (`SubFS`): nothing is created or altered. -/
theorem removeFully_changes_only (env : Env) (plan : Nat → Option Fault) (key : Bytes) (fs : FS)
    (i : Nat) (q : Path)
    (hq : (runFault env plan (removeFully cfg cache key) fs i).2.1.get q ≠ fs.get q) :
    q = bucketPath cfg cache key ∨
    ∃ m cpath, (run env (find cfg cache key) fs).1 = .ok (some m) ∧
      contentPath cache m.sri = some cpath ∧ q = cpath := by
  by_cases hb : q = bucketPath cfg cache key
  · exact Or.inl hb
  · right
    apply Classical.byContradiction
    intro hno
    apply hq
    refine (FaultMore.removeFully_fault_removes cfg cache key env plan fs i).2.2.2 q ?_ hb
    intro m cpath hm hc e
    exact hno ⟨m, cpath, hm, hc, e⟩

/-- The healthy run. -/
theorem removeFully_changes_only_run (env : Env) (key : Bytes) (fs : FS) (q : Path)
    (hq : (run env (removeFully cfg cache key) fs).2.1.get q ≠ fs.get q) :
    q = bucketPath cfg cache key ∨
    ∃ m cpath, (run env (find cfg cache key) fs).1 = .ok (some m) ∧
      contentPath cache m.sri = some cpath ∧ q = cpath := by
  have := removeFully_changes_only cfg cache env (fun _ => none) key fs 0 q
  rw [runFault_none] at this
  exact this hq

/-- … and whatever changes is a removal. -/
theorem removeFully_only_removes (env : Env) (plan : Nat → Option Fault) (key : Bytes) (fs : FS)
    (i : Nat) (q : Path) :
    (runFault env plan (removeFully cfg cache key) fs i).2.1.get q = fs.get q ∨
    (runFault env plan (removeFully cfg cache key) fs i).2.1.get q = none :=
  (FaultMore.removeFully_fault_removes cfg cache key env plan fs i).1 q

/-- **Removing a key fully, twice, is removing it once** (`Lemmas/SpecLaws.lean`): on every healthy,
tidy cache the second `remove_fully key` leaves index, store, bucket files and directories exactly
as the first run left them (nothing ELSE is removed by repeating the call), keeps the cache healthy
and tidy, and answers what the abstract removal answers in the state the first run produced. -/
theorem removeFully_idempotent (env env' : Env) (key : Bytes) (fs : FS) (h : Healthy cfg cache fs)
    (hl : HexLen cfg) (hT : Tidy cfg cache fs) :
    absX cfg cache (run env' (removeFully cfg cache key) (run env (removeFully cfg cache key) fs).2.1).2.1 =
      absX cfg cache (run env (removeFully cfg cache key) fs).2.1 ∧
    Healthy cfg cache (run env' (removeFully cfg cache key) (run env (removeFully cfg cache key) fs).2.1).2.1 ∧
    Tidy cfg cache (run env' (removeFully cfg cache key) (run env (removeFully cfg cache key) fs).2.1).2.1 :=
  let r := SpecLaws.removeFully_twice cfg cache env env' key fs h hl hT
  ⟨r.1, r.2.1, r.2.2.1⟩

/-- … and when the first full removal answered ok, the second answers the NotFound of the bucket
file that is gone — an error value, not a panic, and not the removal of anything else. -/
theorem removeFully_again_answers_notFound (env env' : Env) (key : Bytes) (fs : FS)
    (h : Healthy cfg cache fs) (hl : HexLen cfg) (hT : Tidy cfg cache fs)
    (hok : (run env (removeFully cfg cache key) fs).1 = .ok ()) :
    (run env' (removeFully cfg cache key) (run env (removeFully cfg cache key) fs).2.1).1 =
      .error (.io .notFound) := by
  have r := (SpecLaws.removeFully_twice cfg cache env env' key fs h hl hT).2.2.2
  have a := (removeFully_refines cfg cache env key fs h hl hT).1
  rw [a] at hok
  exact r.trans (SpecLaws.removeFullySpec_again_notFound cfg _ key hok)

/-- **Clearing twice is clearing once**: the second `clear` answers ok and the cache directory
still exists with nothing below it; both states abstract to the empty cache. -/
theorem clear_idempotent (env env' : Env) (fs : FS) (hH : Healthy cfg cache fs) (hT : Tidy cfg cache fs)
    (hd : fs.isDir cache = true) :
    (run env' (clear cache) (run env (clear cache) fs).2.1).1 = .ok () ∧
    absCache cfg cache (run env' (clear cache) (run env (clear cache) fs).2.1).2.1 = AbsCache.empty ∧
    absCache cfg cache (run env (clear cache) fs).2.1 = AbsCache.empty ∧
    (∀ q, cache <+: q → q ≠ cache →
      (run env' (clear cache) (run env (clear cache) fs).2.1).2.1.get q = none) ∧
    (run env' (clear cache) (run env (clear cache) fs).2.1).2.1.isDir cache = true :=
  SpecLaws.clear_twice cfg cache env env' fs hH hT hd

/-- The abstract machine's removal and clear are idempotent for EVERY abstract state. -/
theorem spec_removals_idempotent (m : XAbs) (key : Bytes) :
    (removeFullySpec cfg (removeFullySpec cfg m key).1 key).1 = (removeFullySpec cfg m key).1 ∧
    clearSpec (clearSpec m).1 = clearSpec m :=
  ⟨SpecLaws.removeFullySpec_idem cfg m key, SpecLaws.clearSpec_idem m⟩

/-- **An operation on one key neither disturbs nor is disturbed by an operation on another**: on
every healthy cache a removal (or insertion, or lookup) of one key and any index operation on a
DIFFERENT key, run in either order, each answer the same and leave the same abstract cache — in
particular removing `k1` before or after anything done to `k2` removes exactly `k1`. -/
theorem index_ops_on_different_keys_commute (env1 env2 : Env) (op1 op2 : IOp) (fs : FS)
    (h : Healthy cfg cache fs) (hl : HexLen cfg) (w1 : OpWF cfg op1) (w2 : OpWF cfg op2)
    (hk : SpecLaws.iopKey op1 ≠ SpecLaws.iopKey op2) :
    ∃ a b, (cRunOps cfg cache [(env1, .index op1), (env2, .index op2)] fs).1 = [a, b] ∧
      (cRunOps cfg cache [(env2, .index op2), (env1, .index op1)] fs).1 = [b, a] ∧
      absCache cfg cache (cRunOps cfg cache [(env1, .index op1), (env2, .index op2)] fs).2 =
        absCache cfg cache (cRunOps cfg cache [(env2, .index op2), (env1, .index op1)] fs).2 :=
  SpecLaws.index_ops_commute cfg cache env1 env2 op1 op2 fs h hl w1 w2 hk

/-- The hypotheses are satisfiable: a removal of `[1]` and a lookup of `[2]` on the empty cache. -/
example : SpecLaws.iopKey (.del [1]) ≠ SpecLaws.iopKey (.look [2]) := by decide

end Cacache.C09x
