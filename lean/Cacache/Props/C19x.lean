/-
C19 (extension) — "declared size / integrity options are enforced as for ordinary writes": TOTAL
correctness of the link commit WITH declarations, in each of the four situations at the content
address (`LinkDecl.Situation`: nothing there / a regular file / an earlier link that is the same file
/ an earlier link that is not).  Proofs in `Lemmas/LinkDecl.lean` (which rests on `Lemmas/LinkRefine`
and `Lemmas/DeclRefine`, hence this separate module).
-/
import Cacache.Lemmas.LinkDecl

namespace Cacache.C19x
open Prog Refine CacheRefine LinkRefine DeclRefine LinkDecl

variable (cfg : Cfg) (env : Env)

/-- **A declared size that is not the target's length is rejected, and nothing is recorded**: the
commit answers exactly `.error (.size n len)`; the link phase has happened (as in the real code: the
address holds `nd`, unreferenced valid content), no path of the index area changed, every existing
node other than the address / temp name - the target in particular - is unchanged, and on a healthy
index every lookup of every key answers what it answered before (`OnlyLinked`). -/
theorem link_declared_size_mismatch_total (l : Linker) (fs : FS) (cpath : Path) (nd : Node) (mv : Bool)
    (n : Nat) (hz : l.opts.size = some n) (hne : n ≠ l.data.length)
    (hs : l.opts.sri = none ∨ ∃ s, l.opts.sri = some s ∧
      (Sri.declaredOk s (Sri.compute cfg.H l.algo l.data)).isSome)
    (hcp : contentPath l.cache (Sri.compute cfg.H l.algo l.data) = some cpath)
    (hd : ∀ q, q ≠ [] → q <+: FS.parent cpath → NoneOrDir fs q)
    (hsit : Situation fs l cpath nd mv) :
    (run env (lcommit cfg l) fs).1 = .error (.size n l.data.length) ∧
    OnlyLinked cfg l fs cpath nd mv (run env (lcommit cfg l) fs).2.1 :=
  LinkDecl.link_declared_size_mismatch_total cfg env l fs cpath nd mv n hz hne hs hcp hd hsit

/-- **A declared integrity the target's bytes do not satisfy is rejected** (checked before the size):
exactly `.error .integrity`, no lookup of any key changes. -/
theorem link_declared_integrity_mismatch_total (l : Linker) (fs : FS) (cpath : Path) (nd : Node)
    (mv : Bool) (s : Integrity) (hs : l.opts.sri = some s)
    (hm : Sri.declaredOk s (Sri.compute cfg.H l.algo l.data) = none)
    (hcp : contentPath l.cache (Sri.compute cfg.H l.algo l.data) = some cpath)
    (hd : ∀ q, q ≠ [] → q <+: FS.parent cpath → NoneOrDir fs q)
    (hsit : Situation fs l cpath nd mv) :
    (run env (lcommit cfg l) fs).1 = .error .integrity ∧
    OnlyLinked cfg l fs cpath nd mv (run env (lcommit cfg l) fs).2.1 :=
  LinkDecl.link_declared_integrity_mismatch_total cfg env l fs cpath nd mv s hs hm hcp hd hsit

/-- **Declarations that hold, by address**: the commit answers the computed integrity, the address
holds what `LinkRefine` says, nothing else happened. -/
theorem link_declared_match_total (l : Linker) (fs : FS) (cpath : Path) (nd : Node) (mv : Bool)
    (hk : l.key = none)
    (hz : l.opts.size = none ∨ l.opts.size = some l.data.length)
    (hs : l.opts.sri = none ∨ ∃ s, l.opts.sri = some s ∧
      (Sri.declaredOk s (Sri.compute cfg.H l.algo l.data)).isSome)
    (hcp : contentPath l.cache (Sri.compute cfg.H l.algo l.data) = some cpath)
    (hd : ∀ q, q ≠ [] → q <+: FS.parent cpath → NoneOrDir fs q)
    (hsit : Situation fs l cpath nd mv) :
    (run env (lcommit cfg l) fs).1 = .ok (Sri.compute cfg.H l.algo l.data) ∧
    OnlyLinked cfg l fs cpath nd mv (run env (lcommit cfg l) fs).2.1 :=
  LinkDecl.link_declared_match_total cfg env l fs cpath nd mv hk hz hs hcp hd hsit

/-- **Declarations that hold, keyed**: afterwards the key maps to the entry with the recorded
integrity (the declared one when declared) and the TARGET'S TRUE SIZE; every other key looks up as
before. -/
theorem link_declared_match_find_keyed (l : Linker) (k : Bytes) (fs : FS) (cpath : Path) (nd : Node)
    (mv : Bool) (hk : l.key = some k)
    (hz : l.opts.size = none ∨ l.opts.size = some l.data.length)
    (hs : l.opts.sri = none ∨ ∃ s, l.opts.sri = some s ∧
      (Sri.declaredOk s (Sri.compute cfg.H l.algo l.data)).isSome)
    (hcp : contentPath l.cache (Sri.compute cfg.H l.algo l.data) = some cpath)
    (hd : ∀ q, q ≠ [] → q <+: FS.parent cpath → NoneOrDir fs q)
    (hI : HealthyIndex cfg l.cache fs)
    (hsit : Situation fs l cpath nd mv)
    (hw : OptsWF k l.opts) (hlen : l.data.length ≤ Rec.u64Max)
    (hrt : ∀ s, l.opts.sri = some s → SriRT s) (env' : Env) :
    (run env' (find cfg l.cache k) (run env (lcommit cfg l) fs).2.1).1 =
      .ok (some (linkEntry env l k (l.opts.sri.getD (Sri.compute cfg.H l.algo l.data)))) ∧
    ∀ k', k' ≠ k →
      (run env' (find cfg l.cache k') (run env (lcommit cfg l) fs).2.1).1 =
        (run env' (find cfg l.cache k') fs).1 :=
  LinkDecl.link_declared_match_find_keyed cfg env l k fs cpath nd mv hk hz hs hcp hd hI hsit hw hlen hrt env'

/-- **… and the key reads the target's bytes** (declared integrity naming the computed hash as its
only hash of the linker's algorithm - `AddrCoincides`; the several-digests case is known finding F24). -/
theorem link_declared_match_readable_keyed (l : Linker) (k : Bytes) (fs : FS) (cpath : Path)
    (nd : Node) (mv : Bool) (hk : l.key = some k)
    (hz : l.opts.size = none ∨ l.opts.size = some l.data.length)
    (hs : l.opts.sri = none ∨ ∃ s, l.opts.sri = some s ∧
      (Sri.declaredOk s (Sri.compute cfg.H l.algo l.data)).isSome)
    (h1 : AddrCoincides cfg l)
    (hcp : contentPath l.cache (Sri.compute cfg.H l.algo l.data) = some cpath)
    (hd : ∀ q, q ≠ [] → q <+: FS.parent cpath → NoneOrDir fs q)
    (hI : HealthyIndex cfg l.cache fs)
    (hsit : Situation fs l cpath nd mv)
    (hw : OptsWF k l.opts) (hlen : l.data.length ≤ Rec.u64Max)
    (hrt : ∀ s, l.opts.sri = some s → SriRT s)
    (tp : Path) (htgt : l.target = .abs tp) (htp : tp ≠ []) (hout : ¬ l.cache <+: tp)
    (hfile : fs.get tp = some (.file l.data)) (hreg : ∀ b, nd = .file b → b = l.data) (env' : Env) :
    (run env' (read cfg l.cache k) (run env (lcommit cfg l) fs).2.1).1 = .ok l.data :=
  LinkDecl.link_declared_match_readable_keyed cfg env l k fs cpath nd mv hk hz hs h1 hcp hd hI hsit hw hlen
    hrt tp htgt htp hout hfile hreg env'

/-- **The decision, in the four situations**: the commit answers `linkAnswer`, and it answers `.ok _`
IF AND ONLY IF the size declaration is absent or right and the integrity declaration is absent or
accepted - exactly the decision of an ordinary writer's commit (`CacheRefine.declCheck`). -/
theorem link_commit_decision (l : Linker) (fs : FS) (cpath : Path) (nd : Node) (mv : Bool)
    (hcp : contentPath l.cache (Sri.compute cfg.H l.algo l.data) = some cpath)
    (hd : ∀ q, q ≠ [] → q <+: FS.parent cpath → NoneOrDir fs q)
    (hI : l.key = none ∨ HealthyIndex cfg l.cache fs)
    (hsit : Situation fs l cpath nd mv) :
    (run env (lcommit cfg l) fs).1 = linkAnswer cfg l ∧
    ((∃ s, (run env (lcommit cfg l) fs).1 = .ok s) ↔ (SizeOk l ∧ IntegrityOk cfg l)) :=
  LinkDecl.link_commit_decision cfg env l fs cpath nd mv hcp hd hI hsit

/-- **… and on any filesystem**: ok iff the link phase (the commit of the bare linker) is ok and both
declarations are absent or hold. -/
theorem lcommit_ok_iff (l : Linker) (fs : FS)
    (hins : l.key = none ∨ HealthyIndex cfg l.cache (run env (lcommit cfg (bare l)) fs).2.1) :
    (∃ s, (run env (lcommit cfg l) fs).1 = .ok s) ↔
      ((∃ s0, (run env (lcommit cfg (bare l)) fs).1 = .ok s0) ∧ SizeOk l ∧ IntegrityOk cfg l) :=
  LinkDecl.lcommit_ok_iff cfg env l fs hins

/-- **The decision order on ANY filesystem: link phase, then integrity, then size.**  With a declared
size that is not the target's length (and an integrity declaration that is absent or accepted):
if the link phase — the commit of the bare linker — answers ok, the commit answers EXACTLY
`.error (.size n len)`; if the link phase fails with `e`, the commit answers that `.error e`. -/
theorem linkto_size_exact (l : Linker) (fs : FS) (n : Nat) (hz : l.opts.size = some n)
    (hne : n ≠ l.data.length)
    (hs : l.opts.sri = none ∨ ∃ s, l.opts.sri = some s ∧
      (Sri.declaredOk s (Sri.compute cfg.H l.algo l.data)).isSome) :
    (∀ s0, (run env (lcommit cfg (bare l)) fs).1 = .ok s0 →
      (run env (lcommit cfg l) fs).1 = .error (.size n l.data.length)) ∧
    (∀ e, (run env (lcommit cfg (bare l)) fs).1 = .error e →
      (run env (lcommit cfg l) fs).1 = .error e) := by
  constructor
  · intro s0 h
    rw [(run_lcommit_of_phase cfg env l fs s0 h).1]
    exact (run_declTail_error cfg env l _ (declCheck_size_mismatch hz hne hs) _).1
  · intro e h
    exact (run_lcommit_of_phase_error cfg env l fs e h).1

/-- The same for a declared integrity the target's bytes do not satisfy (checked before the size,
so whatever the size declaration): exactly `.error .integrity` after a successful link phase. -/
theorem linkto_integrity_exact (l : Linker) (fs : FS) (s : Integrity) (hs : l.opts.sri = some s)
    (hm : Sri.declaredOk s (Sri.compute cfg.H l.algo l.data) = none) :
    (∀ s0, (run env (lcommit cfg (bare l)) fs).1 = .ok s0 →
      (run env (lcommit cfg l) fs).1 = .error .integrity) ∧
    (∀ e, (run env (lcommit cfg (bare l)) fs).1 = .error e →
      (run env (lcommit cfg l) fs).1 = .error e) := by
  constructor
  · intro s0 h
    rw [(run_lcommit_of_phase cfg env l fs s0 h).1]
    exact (run_declTail_error cfg env l _ (declCheck_mismatch _ hs hm) _).1
  · intro e h
    exact (run_lcommit_of_phase_error cfg env l fs e h).1

/-- What the link phase can answer, whatever the calls answer: the computed integrity, an I/O
error, or `panic` (see `C20.lcommit_no_panic` for when). -/
theorem link_phase_answers (l : Linker) :
    AllCallsR (fun _ => True)
      (fun r => r = .ok (Sri.compute cfg.H l.algo l.data) ∨ (∃ e, r = .error (.io e)) ∨
        r = .error .panic) (lcommit cfg (bare l)) := by
  unfold lcommit dropTmp bare
  dsimp only
  repeat' ac_step
  all_goals first
    | trivial
    | exact Or.inl rfl
    | exact Or.inr (Or.inl ⟨_, rfl⟩)
    | exact Or.inr (Or.inr rfl)
    | exact Or.inl trivial
    | exact Or.inr (Or.inr trivial)
    | exact Or.inr (Or.inl trivial)
    | exact Or.inr (Or.inl ⟨_, trivial⟩)

end Cacache.C19x
