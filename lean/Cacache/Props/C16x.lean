/-
C16 (extension) — the theorems instantiated at the configuration of the EXECUTABLE driver.

Everywhere else the digest function is the parameter `cfg.H`, and the refinement theorems carry
the hypothesis `HexLen cfg` (hex digests have at least 4 characters).  The compiled driver that is
compared with the real implementation runs the model at `mkCfg xx` (`Cacache/ShaCfg.lean`): SHA-1 /
SHA-256 / SHA-384 / SHA-512 from `Cacache/Sha.lean`, XXH3-128 from the harness's oracle table `xx`.
`Lemmas/ShaLen.lean` proves `HexLen (mkCfg xx)` (exact lengths 20 / 32 / 48 / 64 bytes for ALL
inputs).  Here the corollaries: the same statements with `cfg := mkCfg xx` and NO `HexLen`
hypothesis; the only side condition left is on the oracle table (`hxx`: no entry shorter than 2
bytes; `hxx16`, for exact XXH3 lengths: every entry has 16 bytes).  Nothing is re-proved.
-/
import Cacache.Lemmas.ShaLen
import Cacache.Lemmas.Content
import Cacache.Lemmas.CacheRefine
import Cacache.Lemmas.ListRefine
import Cacache.Lemmas.Gaps
import Cacache.Props.C16
import Cacache.Lemmas.SpecLaws

namespace Cacache.C16x
open Prog Refine CacheRefine ListRefine

variable (xx : List (Bytes × Bytes)) (cache : Path)

/-- The driver's configuration satisfies `HexLen` (restated from `Lemmas/ShaLen.lean`). -/
theorem hexLen_driver (hxx : ∀ e ∈ xx, 2 ≤ e.2.length) : HexLen (mkCfg xx) := hexLen_mkCfg xx hxx

/-! ### the shape of addresses -/

/-- **Shape of a content address in the driver, SHA algorithms.**  For every oracle table, SHA
algorithm `a` and data `d`, with `hx` the lowercase hex digest: the content path of the computed
integrity EXISTS (`content_path` does not panic) and is exactly
`<cache>/content-v2/<algo>/<hx[0..2]>/<hx[2..4]>/<hx[4..]>`, with components of 2, 2 and
`2 * dlen - 4` characters (36 / 60 / 92 / 124), which together are the `2 * dlen` characters of
`hx`. -/
theorem address_shape_driver (a : Algo) (d : Bytes) (ha : a ≠ .xxh3) :
    let hx := Bytes.hex ((mkCfg xx).H a d)
    contentPath cache (Sri.compute (mkCfg xx).H a d) =
        some (cache ++ [dContent, a.name, hx.take 2, (hx.drop 2).take 2, hx.drop 4]) ∧
      (hx.take 2).length = 2 ∧ ((hx.drop 2).take 2).length = 2 ∧
      (hx.drop 4).length = 2 * a.dlen - 4 ∧
      hx.take 2 ++ (hx.drop 2).take 2 ++ hx.drop 4 = hx ∧ hx.length = 2 * a.dlen := by
  intro hx
  have hlen : hx.length = 2 * a.dlen := hex_length_mkCfg_sha xx a d ha
  have h4 : 4 ≤ hx.length := by rw [hlen]; cases a <;> simp [Algo.dlen] at ha ⊢
  refine ⟨?_, ?_, ?_, ?_, ?_, hlen⟩
  · rw [contentPath_compute]
    have : ¬ hx.length < 4 := by omega
    simp only [hx] at this
    simp only [this, if_false, addrPath, hx]
  · rw [List.length_take]; omega
  · rw [List.length_take, List.length_drop]; omega
  · rw [List.length_drop, hlen]
  · rw [← List.take_add]; exact List.take_append_drop 4 hx

/-- The same for ALL five algorithms when every oracle entry has 16 bytes (XXH3-128: 32 hex
characters, last component 28). -/
theorem address_shape_driver_all (hxx16 : ∀ e ∈ xx, e.2.length = 16) (a : Algo) (d : Bytes) :
    let hx := Bytes.hex ((mkCfg xx).H a d)
    contentPath cache (Sri.compute (mkCfg xx).H a d) =
        some (cache ++ [dContent, a.name, hx.take 2, (hx.drop 2).take 2, hx.drop 4]) ∧
      (hx.take 2).length = 2 ∧ ((hx.drop 2).take 2).length = 2 ∧
      (hx.drop 4).length = 2 * a.dlen - 4 ∧
      hx.take 2 ++ (hx.drop 2).take 2 ++ hx.drop 4 = hx ∧ hx.length = 2 * a.dlen := by
  intro hx
  have hlen : hx.length = 2 * a.dlen := hex_length_mkCfg xx hxx16 a d
  have h4 : 4 ≤ hx.length := by rw [hlen]; cases a <;> simp [Algo.dlen]
  refine ⟨?_, ?_, ?_, ?_, ?_, hlen⟩
  · rw [contentPath_compute]
    have : ¬ hx.length < 4 := by omega
    simp only [hx] at this
    simp only [this, if_false, addrPath, hx]
  · rw [List.length_take]; omega
  · rw [List.length_take, List.length_drop]; omega
  · rw [List.length_drop, hlen]
  · rw [← List.take_add]; exact List.take_append_drop 4 hx

/-- With only `hxx` (entries of at least 2 bytes): the content path of every computed integrity
exists — `content_path` never panics in the driver — and its two directory components have 2
characters. -/
theorem address_exists_driver (hxx : ∀ e ∈ xx, 2 ≤ e.2.length) (a : Algo) (d : Bytes) :
    let hx := Bytes.hex ((mkCfg xx).H a d)
    contentPath cache (Sri.compute (mkCfg xx).H a d) =
        some (cache ++ [dContent, a.name, hx.take 2, (hx.drop 2).take 2, hx.drop 4]) ∧
      (hx.take 2).length = 2 ∧ ((hx.drop 2).take 2).length = 2 := by
  intro hx
  have h4 : 4 ≤ hx.length := hexLen_mkCfg xx hxx a d
  refine ⟨?_, ?_, ?_⟩
  · rw [contentPath_compute]
    have : ¬ hx.length < 4 := by omega
    simp only [hx] at this
    simp only [this, if_false, addrPath, hx]
  · rw [List.length_take]; omega
  · rw [List.length_take, List.length_drop]; omega

/-- **Shape of a bucket path in the driver**: `<cache>/index-v5/<h[0..2]>/<h[2..4]>/<h[4..]>` with
`h` the 40 hex characters of the SHA-1 of the key: components of 2, 2 and 36 characters. -/
theorem bucket_shape_driver (key : Bytes) :
    let h := Bytes.hex ((mkCfg xx).H .sha1 key)
    bucketPath (mkCfg xx) cache key = cache ++ [dIndex, h.take 2, (h.drop 2).take 2, h.drop 4] ∧
      (h.take 2).length = 2 ∧ ((h.drop 2).take 2).length = 2 ∧ (h.drop 4).length = 36 ∧
      h.length = 40 := by
  intro h
  have hlen : h.length = 40 := hex_length_mkCfg_sha xx .sha1 key (by decide)
  refine ⟨rfl, ?_, ?_, ?_, hlen⟩
  · rw [List.length_take]; omega
  · rw [List.length_take, List.length_drop]; omega
  · rw [List.length_drop, hlen]

/-! ### the refinement theorems at the driver's configuration -/

variable (hxx : ∀ e ∈ xx, 2 ≤ e.2.length)
include hxx

/-- `C16.store_refines_map` for the driver: any sequence of by-address operations run from a
healthy store answers like the abstract map `(algorithm, hex digest) ↦ bytes`. -/
theorem store_refines_map_driver (ops : List (Env × SOp)) (fs : FS)
    (h : HealthyStore (mkCfg xx) cache fs) :
    (sRunOps (mkCfg xx) cache ops fs).1 = (sSpecRun (mkCfg xx) ops (absStore cache fs)).1 ∧
    absStore cache (sRunOps (mkCfg xx) cache ops fs).2 =
      (sSpecRun (mkCfg xx) ops (absStore cache fs)).2 ∧
    HealthyStore (mkCfg xx) cache (sRunOps (mkCfg xx) cache ops fs).2 :=
  C16.store_refines_map (mkCfg xx) cache ops fs h (hexLen_mkCfg xx hxx)

/-- `CacheRefine.cache_refines_map` for the driver: **the cache the driver runs is a key/value map
over an address/bytes map** — any sequence of keyed writes, reads by key, index operations and
by-address operations from a healthy cache answers as the abstract cache, ends in a state that
abstracts to the final abstract cache, and the cache is healthy again. -/
theorem cache_refines_map_driver (ops : List (Env × COp)) (fs : FS)
    (h : Healthy (mkCfg xx) cache fs) (hops : ∀ x ∈ ops, x.2.WF (mkCfg xx)) :
    (cRunOps (mkCfg xx) cache ops fs).1 =
      (cSpecRun (mkCfg xx) ops (absCache (mkCfg xx) cache fs)).1 ∧
    absCache (mkCfg xx) cache (cRunOps (mkCfg xx) cache ops fs).2 =
      (cSpecRun (mkCfg xx) ops (absCache (mkCfg xx) cache fs)).2 ∧
    Healthy (mkCfg xx) cache (cRunOps (mkCfg xx) cache ops fs).2 :=
  cache_refines_map (mkCfg xx) cache ops fs h (hexLen_mkCfg xx hxx) hops

/-- `ListRefine.cache_refines_map_ext` for the driver: the extended refinement (the `COp`
operations plus listings, full removals and clears) from a healthy and tidy cache. -/
theorem cache_refines_map_ext_driver (ops : List (Env × XOp)) (fs : FS)
    (h : XHealthy (mkCfg xx) cache fs) (hops : ∀ x ∈ ops, x.2.WF (mkCfg xx)) :
    Answers (xRunOps (mkCfg xx) cache ops fs).1
      (xSpecRun (mkCfg xx) ops (absX (mkCfg xx) cache fs)).1 ∧
    absX (mkCfg xx) cache (xRunOps (mkCfg xx) cache ops fs).2 =
      (xSpecRun (mkCfg xx) ops (absX (mkCfg xx) cache fs)).2 ∧
    XHealthy (mkCfg xx) cache (xRunOps (mkCfg xx) cache ops fs).2 :=
  cache_refines_map_ext (mkCfg xx) cache ops fs h (hexLen_mkCfg xx hxx) hops

/-- `ListRefine.removeFully_refines` for the driver: total correctness of `remove_fully` on a
healthy, tidy cache, and refinement of `removeFullySpec`. -/
theorem removeFully_refines_driver (env : Env) (key : Bytes) (fs : FS)
    (h : Healthy (mkCfg xx) cache fs) (hT : Tidy (mkCfg xx) cache fs) :
    (run env (removeFully (mkCfg xx) cache key) fs).1 =
      (removeFullySpec (mkCfg xx) (absX (mkCfg xx) cache fs) key).2 ∧
    absX (mkCfg xx) cache (run env (removeFully (mkCfg xx) cache key) fs).2.1 =
      (removeFullySpec (mkCfg xx) (absX (mkCfg xx) cache fs) key).1 ∧
    Healthy (mkCfg xx) cache (run env (removeFully (mkCfg xx) cache key) fs).2.1 ∧
    Tidy (mkCfg xx) cache (run env (removeFully (mkCfg xx) cache key) fs).2.1 :=
  removeFully_refines (mkCfg xx) cache env key fs h (hexLen_mkCfg xx hxx) hT

/-- `Gaps.putHash_wrong_size_total` for the driver: a by-address writer that declared the size `n`
but was fed another number of bytes answers exactly the size error, leaves the index unchanged,
publishes exactly the bytes fed at their address, and leaves the cache healthy with a clean
`tmp`. -/
theorem putHash_wrong_size_total_driver (env : Env) (fl : Flavour) (o : WriteOpts)
    (chunks : List Bytes) (fs : FS) (h : Healthy (mkCfg xx) cache fs) (n : Nat) (hs : o.sri = none)
    (hz : o.size = some n) (hne : n ≠ chunks.flatten.length) :
    (run env (writeStream (mkCfg xx) cache fl none o chunks) fs).1 =
      .error (.size n chunks.flatten.length) ∧
    absIndex (mkCfg xx) cache (run env (writeStream (mkCfg xx) cache fl none o chunks) fs).2.1 =
      absIndex (mkCfg xx) cache fs ∧
    (∀ env' key, (run env' (find (mkCfg xx) cache key)
        (run env (writeStream (mkCfg xx) cache fl none o chunks) fs).2.1).1 =
      (run env' (find (mkCfg xx) cache key) fs).1) ∧
    absStore cache (run env (writeStream (mkCfg xx) cache fl none o chunks) fs).2.1 =
      (absStore cache fs).set (o.algo.getD .sha256)
        (Bytes.hex ((mkCfg xx).H (o.algo.getD .sha256) chunks.flatten)) (some chunks.flatten) ∧
    (∀ env', (run env' (readHash (mkCfg xx) cache
          (Sri.compute (mkCfg xx).H (o.algo.getD .sha256) chunks.flatten))
        (run env (writeStream (mkCfg xx) cache fl none o chunks) fs).2.1).1 = .ok chunks.flatten) ∧
    Healthy (mkCfg xx) cache (run env (writeStream (mkCfg xx) cache fl none o chunks) fs).2.1 ∧
    TmpClean cache fs (run env (writeStream (mkCfg xx) cache fl none o chunks) fs).2.1 :=
  Gaps.putHash_wrong_size_total (mkCfg xx) cache env fl o chunks fs h (hexLen_mkCfg xx hxx) n hs hz hne

/-- `C16.rewrite_same_bytes` for the driver: identical data is stored once — writing the same
bytes again (any key, flavour, clocks) leaves the same regular file, byte-identical, at the address
and the abstract content store unchanged. -/
theorem rewrite_same_bytes_driver (env1 env2 : Env) (fl1 fl2 : Flavour) (key1 key2 : Bytes)
    (a : Algo) (data : Bytes) (fs : FS) (h : Healthy (mkCfg xx) cache fs)
    (hk1 : Json.utf8Valid key1 = true) (hk2 : Json.utf8Valid key2 = true)
    (hd : data.length ≤ Rec.u64Max) :
    (run env1 (write (mkCfg xx) fl1 cache a key1 data) fs).2.1.get
        (addrPath cache a (Bytes.hex ((mkCfg xx).H a data))) = some (.file data) ∧
    (run env2 (write (mkCfg xx) fl2 cache a key2 data)
        (run env1 (write (mkCfg xx) fl1 cache a key1 data) fs).2.1).2.1.get
        (addrPath cache a (Bytes.hex ((mkCfg xx).H a data))) = some (.file data) ∧
    absStore cache (run env2 (write (mkCfg xx) fl2 cache a key2 data)
        (run env1 (write (mkCfg xx) fl1 cache a key1 data) fs).2.1).2.1 =
      absStore cache (run env1 (write (mkCfg xx) fl1 cache a key1 data) fs).2.1 ∧
    Healthy (mkCfg xx) cache (run env2 (write (mkCfg xx) fl2 cache a key2 data)
        (run env1 (write (mkCfg xx) fl1 cache a key1 data) fs).2.1).2.1 :=
  C16.rewrite_same_bytes (mkCfg xx) cache env1 env2 fl1 fl2 key1 key2 a data fs h
    (hexLen_mkCfg xx hxx) hk1 hk2 hd

/-- **Identical data is stored once, whenever it is written again** (any configuration `cfg`): on a
healthy store whose address for these bytes already holds them — written by any earlier call of
any flavour, however chunked, any number of operations ago — a by-address write of the same bytes
leaves every address → bytes mapping exactly as it was, keeps the store healthy and answers the
same integrity as the abstract write. -/
theorem rewrite_is_noop (cfg : Cfg) (env : Env) (fl : Flavour) (o : WriteOpts) (chunks : List Bytes)
    (fs : FS) (h : HealthyStore cfg cache fs) (hl : HexLen cfg)
    (hp : absStore cache fs (o.algo.getD .sha256)
      (Bytes.hex (cfg.H (o.algo.getD .sha256) chunks.flatten)) = some chunks.flatten) :
    absStore cache (sRunOps cfg cache [(env, .put fl o chunks)] fs).2 = absStore cache fs ∧
    HealthyStore cfg cache (sRunOps cfg cache [(env, .put fl o chunks)] fs).2 ∧
    (sRunOps cfg cache [(env, .put fl o chunks)] fs).1 = [.wrote (putAnswer cfg o chunks.flatten)] :=
  SpecLaws.rewrite_is_noop cfg cache env fl o chunks fs h hl hp

end Cacache.C16x

namespace AxiomCheckC16x
open Cacache.C16x
#print axioms hexLen_driver
#print axioms address_shape_driver
#print axioms address_shape_driver_all
#print axioms address_exists_driver
#print axioms bucket_shape_driver
#print axioms store_refines_map_driver
#print axioms cache_refines_map_driver
#print axioms cache_refines_map_ext_driver
#print axioms removeFully_refines_driver
#print axioms putHash_wrong_size_total_driver
#print axioms rewrite_same_bytes_driver
end AxiomCheckC16x
