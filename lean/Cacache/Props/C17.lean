/-
C17 — the on-disk layout is the fixed, versioned cacache format, readable by others.

`bucketPath`, `contentPath`/`addrPath`, `Rec.encJson`, `Rec.encLine`, `Rec.decLine` and
`Codec.frame` *are* the format specification (≈ 60 lines of definitions, readable on their own).
The theorems pin its shape and show the maps are injective — two keys / addresses share a file
only when their digests collide; the Lean driver executing these definitions is the independent
implementation the statement asks for, exercised in both directions by the C17 correspondence
(library writes → model decodes the real tree; model/reference writes → library reads), together
with a second independent implementation in Python (lib/vf/layout.py).
-/
import Cacache.Lemmas.ReadBack
import Cacache.Lemmas.Index
import Cacache.Lemmas.CodecLaws

namespace Cacache.C17
open Prog

variable (cfg : Cfg) (cache : Path)

/-- A key's records live in `<cache>/index-v5/<h[0..2]>/<h[2..4]>/<h[4..]>`, `h` the lowercase hex
SHA-1 of the key bytes. -/
theorem bucket_layout (key : Bytes) :
    bucketPath cfg cache key =
      cache ++ [dIndex, (Bytes.hex (cfg.H .sha1 key)).take 2,
                ((Bytes.hex (cfg.H .sha1 key)).drop 2).take 2, (Bytes.hex (cfg.H .sha1 key)).drop 4] := rfl

/-- Data lives at `<cache>/content-v2/<algorithm>/<d[0..2]>/<d[2..4]>/<d[4..]>`, `d` the lowercase
hex digest. -/
theorem content_layout (a : Algo) (data : Bytes) (h : ¬ (Bytes.hex (cfg.H a data)).length < 4) :
    contentPath cache (Sri.compute cfg.H a data) =
      some (cache ++ [dContent, a.name, (Bytes.hex (cfg.H a data)).take 2,
                      ((Bytes.hex (cfg.H a data)).drop 2).take 2, (Bytes.hex (cfg.H a data)).drop 4]) := by
  rw [contentPath_compute]; simp [h, addrPath]

/-- The directory names, byte for byte: "index-v5", "content-v2", "tmp". -/
theorem dir_names :
    dIndex = [105, 110, 100, 101, 120, 45, 118, 53] ∧
    dContent = [99, 111, 110, 116, 101, 110, 116, 45, 118, 50] ∧ dTmp = [116, 109, 112] :=
  ⟨rfl, rfl, rfl⟩

/-- Each record is a newline, the hex SHA-256 of the JSON text, a tab, and the JSON text. -/
theorem record_layout (r : Rec) :
    (codec cfg).frame r =
      NL :: (Bytes.hex (cfg.H .sha256 (Rec.encJson r)) ++ TAB :: Rec.encJson r) := rfl

/-- Two keys share a bucket file only if their SHA-1 digests are equal. -/
theorem bucket_injective (k1 k2 : Bytes) (h : bucketPath cfg cache k1 = bucketPath cfg cache k2) :
    cfg.H .sha1 k1 = cfg.H .sha1 k2 := by
  rw [bucket_layout, bucket_layout] at h
  have h' := List.append_cancel_left h
  simp only [List.cons.injEq, and_true, true_and] at h'
  obtain ⟨h1, h2, h3⟩ := h'
  apply Bytes.hex_injective
  rw [← recombine (Bytes.hex (cfg.H .sha1 k1)), ← recombine (Bytes.hex (cfg.H .sha1 k2)), h1, h2, h3]

/-- Two addresses share a content file only if algorithm and digest are equal. -/
theorem content_injective (a a' : Algo) (d d' : Bytes)
    (h : addrPath cache a (Bytes.hex d) = addrPath cache a' (Bytes.hex d')) : a = a' ∧ d = d' := by
  obtain ⟨h1, h2⟩ := addrPath_injective h
  exact ⟨h1, Bytes.hex_injective h2⟩

/-- Index and content areas (and the temp area) never share a path. -/
theorem areas_disjoint (q : Path) :
    ¬ (InArea cache dIndex q ∧ InArea cache dContent q) ∧
    ¬ (InArea cache dIndex q ∧ InArea cache dTmp q) ∧ ¬ (InArea cache dContent q ∧ InArea cache dTmp q) :=
  ⟨fun ⟨a, b⟩ => dIndex_ne_dContent (inArea_disjoint a b),
   fun ⟨a, b⟩ => dIndex_ne_dTmp (inArea_disjoint a b),
   fun ⟨a, b⟩ => dTmp_ne_dContent (inArea_disjoint a b).symm⟩

/-- **Decoding inverts encoding** at the level of a bucket file: a bucket made of framed records
(by this implementation or any other following the format) decodes to exactly those records, in
order — given the record-line round trip (`Codec.Laws`). -/
theorem decode_encode_bucket {W : Rec → Prop} (L : (codec cfg).Laws W) (rs : List Rec)
    (hW : ∀ r ∈ rs, W r) : (codec cfg).entriesT ((codec cfg).appendAll [] rs) = rs := by
  rw [L.entriesT_appendAll _ _ hW]
  have : (codec cfg).entriesT [] = [] := by
    have := L.settled_nil
    unfold Codec.Settled at this
    rw [← this]
    simp [Codec.entries, lines, splitNL, linesOfSegs, lineU]
  rw [this]; rfl

/-- **Decoding inverts encoding, proved for the real format**: one record line
(`hex(sha256(json)) \t json`, serde_json field order) decodes to the record it was made from, for
every well-formed record and every hash function … -/
theorem decode_encode_line (r : Rec) (h : r.WF) : Rec.decLine cfg.H (Rec.encLine cfg.H r) = some r :=
  Rec.dec_enc cfg.H r h

/-- … and a whole bucket of framed records decodes to exactly those records, in order. -/
theorem decode_encode_bucket_cacache (rs : List Rec) (hW : ∀ r ∈ rs, r.WF) :
    (codec cfg).entriesT ((codec cfg).appendAll [] rs) = rs :=
  decode_encode_bucket cfg (codec_laws cfg) rs hW

/-- A tombstone is a record whose integrity is `null`. -/
theorem tombstone_layout (key : Bytes) (tm : Nat) :
    (mkRec key {} tm).integrity = none ∧ (codec cfg).cls (mkRec key {} tm) = .tomb := ⟨rfl, rfl⟩

end Cacache.C17
