/-
C06 (extension) — 'damage that destroys a newline fuses and thereby invalidates the two records': exactly those two.
Proofs in `Lemmas/Gaps.lean` (which imports this property's base module, hence this separate module).
-/
import Cacache.Lemmas.Gaps

namespace Cacache.C06x
open Prog

variable (H : Algo → Bytes → Bytes)

/-- Two framed records with the newline between them replaced by anything: the fused line carries two
TABs and does not decode - whatever the records and the filler are. -/
theorem fused_line_undecodable (r1 r2 : Rec) (x : Bytes) :
    Rec.decLine H (Rec.encLine H r1 ++ x ++ Rec.encLine H r2) = none :=
  Gaps.fused_line_undecodable H r1 r2 x

/-- **… and the bucket loses exactly these two records, nothing else** (the intact bucket lists them, the
damaged one lists everything but them). -/
theorem destroyed_newline_exact (a z x : Bytes) (r1 r2 : Rec) (hx : NL ∉ x) (h1 : r1.WF) (h2 : r2.WF) :
    (Rec.codec H).entries (a ++ (Rec.codec H).frame r1 ++ (Rec.codec H).frame r2 ++ NL :: z) =
      (Rec.codec H).entriesT a ++ [r1, r2] ++ (Rec.codec H).entries z ∧
    (Rec.codec H).entries (a ++ (Rec.codec H).frame r1 ++ x ++ (Rec.codec H).enc r2 ++ NL :: z) =
      (Rec.codec H).entriesT a ++ (Rec.codec H).entries z :=
  Gaps.destroyed_newline_exact H a z x r1 r2 hx h1 h2

end Cacache.C06x
