/-
C04 — a keyed write or removal interrupted by a crash is all-or-nothing.

Two layers, and their composition (last section: `insert_crash_lookup`, `remove_crash_lookup`,
`keyed_write_crash_lookup` and the `_fault_` versions — from the filesystem a kill leaves behind
to what every lookup decodes from it, for the concrete codec and any hash function).
(1) Program level (`insert_crash_bucket`, from the demonic wp of `Lemmas/Bucket`): killed at any
    call of an index insertion / removal (a tombstone insertion), with the record append torn at
    any byte — or failing after any partial write — the key's bucket file is the old bytes followed
    by a *prefix of the one frame* `"\n" ++ record`; nothing else in the index changes.
(2) Codec level (`torn_entries`, `torn_then_history`): for any such prefix, what every reader
    decodes is exactly the old records or exactly the old records plus the new one — never a
    mixture — and after any continuation history the torn bytes are inert (the next record's
    leading newline terminates them).  Lookups of every key follow (C05).
`TornLaws.prefix_none`: a strict prefix of a record line does not decode (no tab yet, or a cut
JSON object, which never parses — proved for the concrete codec in `Lemmas/Record.lean` without
any assumption on the hash function).  The laws are required of the records in `W` only
(`Rec.WF` for the concrete codec).
-/
import Cacache.Lemmas.Bucket
import Cacache.Lemmas.Stream
import Cacache.Props.C06
import Cacache.Lemmas.CodecLaws

namespace Cacache.C04
open Prog

variable {R M : Type} {W : R → Prop}

/-- Laws about partial records, on top of `Codec.Laws` (`Codec.TornLaws`, Lemmas/Index). -/
abbrev TornLaws (c : Codec R M) (W : R → Prop) : Prop := c.TornLaws W

theorem stripCR_prefix (c : Codec R M) (L : TornLaws c W) (r : R) (hr : W r) (p : Bytes) (hp : p <+: c.enc r) :
    stripCR p = p := by
  apply stripCR_of_no_cr
  intro h
  have : CR ∈ p := by
    cases hl : p.getLast? with
    | none => rw [hl] at h; cases h
    | some x =>
      rw [hl] at h; cases h
      exact List.mem_of_getLast? hl
  exact L.enc_no_cr r hr (hp.subset this)

theorem no_nl_prefix (c : Codec R M) (L : TornLaws c W) (r : R) (hr : W r) (p : Bytes) (hp : p <+: c.enc r) :
    NL ∉ p := fun h => L.enc_no_nl r hr (hp.subset h)

/-- **Old or new, never a mixture.**  Whatever prefix (any byte length `k`) of the frame of `r`
follows a settled bucket `b0`, the records a reader decodes are exactly the old ones, or exactly
the old ones followed by `r`. -/
theorem torn_entries (c : Codec R M) (L : TornLaws c W) (b0 : Bytes) (hs : c.Settled b0) (r : R)
    (hr : W r) (k : Nat) :
    c.entries (b0 ++ (c.frame r).take k) = c.entries b0 ∨
    c.entries (b0 ++ (c.frame r).take k) = c.entries b0 ++ [r] := by
  cases k with
  | zero => left; simp
  | succ k =>
    have hfr : (c.frame r).take (k + 1) = NL :: (c.enc r).take k := by simp [Codec.frame]
    rw [hfr, c.entries_append_nl, ← hs]
    have hp : (c.enc r).take k <+: c.enc r := List.take_prefix _ _
    by_cases hfull : (c.enc r).take k = c.enc r
    · right; rw [hfull, L.entries_enc r hr]
    · left
      have hnl := no_nl_prefix c L r hr _ hp
      unfold Codec.entries
      rw [lines_no_nl _ _ hnl]
      unfold lineU
      split
      · simp
      · split
        · simp [Codec.decLine, L.prefix_none r hr _ hp hfull]
        · simp [Codec.decLine]

/-- **The cache stays fully usable.**  After the torn append, any further history of appends
`rs` (non-empty) is read as: the old records, possibly the interrupted record (only if it was
completely written), then exactly `rs` — the torn bytes never swallow or corrupt a later record. -/
theorem torn_then_history (c : Codec R M) (L : TornLaws c W) (b0 : Bytes) (hs : c.Settled b0)
    (r : R) (hr : W r) (k : Nat) (rs : List R) (hW : ∀ x ∈ rs, W x) (hrs : rs ≠ []) :
    c.entries (c.appendAll (b0 ++ (c.frame r).take k) rs) = c.entries b0 ++ rs ∨
    c.entries (c.appendAll (b0 ++ (c.frame r).take k) rs) = c.entries b0 ++ [r] ++ rs := by
  rw [L.entries_appendAll_ne_nil _ rs hW hrs]
  cases k with
  | zero => left; simp [hs.symm]
  | succ k =>
    have hfr : (c.frame r).take (k + 1) = NL :: (c.enc r).take k := by simp [Codec.frame]
    rw [hfr, c.entriesT_append_nl, ← hs]
    have hp : (c.enc r).take k <+: c.enc r := List.take_prefix _ _
    by_cases hfull : (c.enc r).take k = c.enc r
    · right; rw [hfull, L.entriesT_enc r hr]
    · left
      have hnl := no_nl_prefix c L r hr _ hp
      unfold Codec.entriesT
      rw [splitNL_no_nl _ hnl]
      simp only [linesT, List.map_cons, List.map_nil, lineT]
      split
      · simp [Codec.decLine, stripCR_prefix c L r hr _ hp, L.prefix_none r hr _ hp hfull]
      · simp [Codec.decLine]

/-- Lookup consequence: after a crash during an insert of `r`, every key is found exactly as
before the insert or exactly as after it; keys other than `r`'s are found as before. -/
theorem torn_lookup (c : Codec R M) (L : TornLaws c W) (b0 : Bytes) (hs : c.Settled b0) (r : R)
    (hr : W r) (k : Nat) (key : Bytes) :
    c.find (b0 ++ (c.frame r).take k) key = c.find b0 key ∨
    c.find (b0 ++ (c.frame r).take k) key = c.find (b0 ++ c.frame r) key := by
  unfold Codec.find
  rcases torn_entries c L b0 hs r hr k with h | h
  · left; rw [h]
  · right; rw [h, L.entries_append_frame _ r hr, ← hs]

theorem torn_lookup_other_key (c : Codec R M) (L : TornLaws c W) (b0 : Bytes) (hs : c.Settled b0)
    (r : R) (hr : W r) (k : Nat) (key : Bytes) (hk : c.key r ≠ key) :
    c.find (b0 ++ (c.frame r).take k) key = c.find b0 key := by
  unfold Codec.find
  rcases torn_entries c L b0 hs r hr k with h | h
  · rw [h]
  · rw [h, c.findIn_append]
    simp [Codec.findStep, hk]

/-! ### program level -/

variable (cfg : Cfg) (env : Env) (cache : Path)

/-- **Every kill point, every torn length** of an index insertion (keyed commit's last phase, and
removal = insertion of a tombstone): the bucket file is the old bytes plus a prefix of one frame. -/
theorem insert_crash_bucket (key : Bytes) (o : WriteOpts) (b0 : Bytes) (fs : FS)
    (hb : BucketIs fs (bucketPath cfg cache key) b0) (n t : Nat) :
    ∃ tm k, BucketIs (crash env (insert cfg cache key o) fs n t) (bucketPath cfg cache key)
      (b0 ++ ((codec cfg).frame (mkRec key o tm)).take k) :=
  (wpD_crash (insert_bucket_wp cfg env cache key o b0 hb) n t).bucket

/-- The same under every fault plan (any call failing, the append failing after any partial
write), with the success case: on `ok` the bucket is the old bytes plus the whole frame. -/
theorem insert_fault_bucket (key : Bytes) (o : WriteOpts) (b0 : Bytes) (fs : FS)
    (hb : BucketIs fs (bucketPath cfg cache key) b0) (plan : Nat → Option Fault) :
    (∃ tm k, BucketIs (runFault env plan (insert cfg cache key o) fs 0).2.1 (bucketPath cfg cache key)
      (b0 ++ ((codec cfg).frame (mkRec key o tm)).take k)) ∧
    (∀ s, (runFault env plan (insert cfg cache key o) fs 0).1 = .ok s → ∃ tm,
      (∀ t, o.time = some t → tm = t) ∧
      (runFault env plan (insert cfg cache key o) fs 0).2.1.get (bucketPath cfg cache key) =
        some (.file (b0 ++ (codec cfg).frame (mkRec key o tm))) ∧
      ((∀ t, o.time = some t → t ≤ timeMax) → tm ≤ timeMax)) :=
  ⟨(wpD_fault (insert_bucket_wp cfg env cache key o b0 hb) plan 0).1.bucket,
   (wpD_fault (insert_bucket_wp cfg env cache key o b0 hb) plan 0).2⟩

/-- Removal is the insertion of a tombstone: same guarantee. -/
theorem remove_crash_bucket (key : Bytes) (b0 : Bytes) (fs : FS)
    (hb : BucketIs fs (bucketPath cfg cache key) b0) (n t : Nat) :
    ∃ tm k, BucketIs (crash env (delete cfg cache key) fs n t) (bucketPath cfg cache key)
      (b0 ++ ((codec cfg).frame (mkRec key {} tm)).take k) := by
  unfold delete
  simp only [bind_eq, pure_eq]
  rw [crash_bind]
  split
  · exact insert_crash_bucket cfg env cache key {} b0 fs hb n t
  · have h := (wpD_run (insert_bucket_wp cfg env cache key {} b0 hb)).1.bucket
    generalize (run env (insert cfg cache key {}) fs) = rr at h ⊢
    obtain ⟨res, fs1, tr⟩ := rr
    cases res <;> (simp only [crash]; exact h)

/-- **The whole keyed write** (open, any chunks, commit), killed at any call with the in-flight
call torn at any byte: the content store is valid *and* the key's bucket is the old bytes plus a
prefix of one new record — so by `torn_entries` every lookup sees the old state or the new one. -/
theorem keyed_write_crash (fl : Flavour) (key : Bytes) (o : WriteOpts) (chunks : List Bytes)
    (b0 : Bytes) (fs : FS) (hv : ContentValid cfg cache fs)
    (hb : BucketIs fs (bucketPath cfg cache key) b0) (n t : Nat) :
    ContentValid cfg cache (crash env (writeStream cfg cache fl (some key) o chunks) fs n t) ∧
    GrowingAny cfg cache key b0 (crash env (writeStream cfg cache fl (some key) o chunks) fs n t) :=
  wpD_crash (writeStream_keyed_wp cfg env cache fl key o chunks b0 hv hb) n t

/-- Before the commit reaches its index phase nothing in the index area changes at all — in
particular a crash before the content is published cannot make the new entry visible: the phases
up to and including the checks never aim at the index area (C08.check_phase_no_index). -/
theorem content_first (w : Writer) (hw : w.Ok) (fs : FS) (q : Path) (hq : InArea w.cache dIndex q)
    (n t : Nat) : (crash env (wcommitCheck cfg w) fs n t).get q = fs.get q :=
  AllCalls.frame_crash
    ((wcommitCheck_areas cfg w hw).mono (fun c hc => hc.avoids hq (by decide)) (fun _ h => h)) env fs n t

/-! ### the concrete codec -/

/-- **Old or new, never a mixture — for cacache's own record format and any hash function.**
A keyed write / removal with well-formed options, torn at any byte `k` of its one index record:
every reader decodes exactly the old records or exactly the old ones plus the new one. -/
theorem torn_entries_cacache (b0 : Bytes) (hs : (codec cfg).Settled b0) (key : Bytes) (o : WriteOpts)
    (ho : OptsWF key o) (tm : Nat) (htm : tm ≤ timeMax) (k : Nat) :
    (codec cfg).entries (b0 ++ ((codec cfg).frame (mkRec key o tm)).take k) = (codec cfg).entries b0 ∨
    (codec cfg).entries (b0 ++ ((codec cfg).frame (mkRec key o tm)).take k) =
      (codec cfg).entries b0 ++ [mkRec key o tm] :=
  torn_entries (codec cfg) (codec_tornLaws cfg) b0 hs _ (mkRec_wf key o tm ho htm) k

/-- … hence every lookup, of any key, answers as before the write or as after it. -/
theorem torn_lookup_cacache (b0 : Bytes) (hs : (codec cfg).Settled b0) (key : Bytes) (o : WriteOpts)
    (ho : OptsWF key o) (tm : Nat) (htm : tm ≤ timeMax) (k : Nat) (key' : Bytes) :
    (codec cfg).find (b0 ++ ((codec cfg).frame (mkRec key o tm)).take k) key' = (codec cfg).find b0 key' ∨
    (codec cfg).find (b0 ++ ((codec cfg).frame (mkRec key o tm)).take k) key' =
      (codec cfg).find (b0 ++ (codec cfg).frame (mkRec key o tm)) key' :=
  torn_lookup (codec cfg) (codec_tornLaws cfg) b0 hs _ (mkRec_wf key o tm ho htm) k key'

/-- … and after any further history of well-formed appends the torn bytes are inert. -/
theorem torn_then_history_cacache (b0 : Bytes) (hs : (codec cfg).Settled b0) (key : Bytes)
    (o : WriteOpts) (ho : OptsWF key o) (tm : Nat) (htm : tm ≤ timeMax) (k : Nat) (rs : List Rec)
    (hW : ∀ x ∈ rs, x.WF) (hrs : rs ≠ []) :
    (codec cfg).entries ((codec cfg).appendAll (b0 ++ ((codec cfg).frame (mkRec key o tm)).take k) rs) =
      (codec cfg).entries b0 ++ rs ∨
    (codec cfg).entries ((codec cfg).appendAll (b0 ++ ((codec cfg).frame (mkRec key o tm)).take k) rs) =
      (codec cfg).entries b0 ++ [mkRec key o tm] ++ rs :=
  torn_then_history (codec cfg) (codec_tornLaws cfg) b0 hs _ (mkRec_wf key o tm ho htm) k rs hW hrs

/-- The empty bucket and every bucket ending in a whole record are settled (the hypothesis `hs`). -/
theorem settled_cacache (b0 : Bytes) (rs : List Rec) (hW : ∀ x ∈ rs, x.WF) :
    (codec cfg).Settled ((codec cfg).appendAll [] rs) ∧
    ((codec cfg).Settled b0 → (codec cfg).Settled ((codec cfg).appendAll b0 rs)) :=
  ⟨(codec_laws cfg).settled_appendAll [] rs hW (codec_laws cfg).settled_nil,
   fun h => (codec_laws cfg).settled_appendAll b0 rs hW h⟩

/-- Non-vacuity: the hypotheses of the codec-level theorems are met by the empty bucket. -/
example (c : Codec R M) (L : TornLaws c W) : c.Settled [] := L.toLaws.settled_nil

/-! ### end to end: the two layers composed

The crash invariant of the program level (`Growing`, Lemmas/Bucket) remembers that the record
under construction carries the caller's time or a clock answer, so it is well-formed whenever the
caller's options are (`mkRec_wf`), and the codec level applies to it.  The statements below speak
about the filesystem a kill (or a fault plan) leaves behind and about what every lookup decodes
from the key's bucket in it — no hypothesis on the hash function, none on the record. -/

/-- What the bucket bytes `b'` found after an interrupted append to `b0` of the one record
`mkRec key o tm` mean to a reader: exactly the old records, or exactly the old records followed by
the new one; `tm` is the caller's time when one was given, and a `u128` in any case. -/
def OldOrNew (key : Bytes) (o : WriteOpts) (b0 b' : Bytes) : Prop :=
  ∃ tm, tm ≤ timeMax ∧ (∀ t, o.time = some t → tm = t) ∧
    ((codec cfg).entries b' = (codec cfg).entries b0 ∨
     (codec cfg).entries b' = (codec cfg).entries b0 ++ [mkRec key o tm])

/-- From the crash invariant to the reader's view. -/
theorem growing_oldOrNew (key : Bytes) (o : WriteOpts) (ho : OptsWF key o) (b0 : Bytes)
    (hs : (codec cfg).Settled b0) (fs : FS) (hg : Growing cfg cache key o b0 fs) :
    ∃ b', BucketIs fs (bucketPath cfg cache key) b' ∧ OldOrNew cfg key o b0 b' := by
  obtain ⟨tm, k, hb, htm, hle⟩ := hg
  exact ⟨_, hb, tm, hle ho.time, htm, torn_entries_cacache cfg b0 hs key o ho tm (hle ho.time) k⟩

/-- Old-or-new records means old-or-new answers: every lookup, of any key, answers as before the
write or as after the complete append; keys other than the one written answer as before. -/
theorem OldOrNew.lookup {key : Bytes} {o : WriteOpts} {b0 b' : Bytes} (h : OldOrNew cfg key o b0 b')
    (ho : OptsWF key o) (hs : (codec cfg).Settled b0) :
    (∀ key', (codec cfg).find b' key' = (codec cfg).find b0 key' ∨
      ∃ tm, tm ≤ timeMax ∧
        (codec cfg).find b' key' = (codec cfg).find (b0 ++ (codec cfg).frame (mkRec key o tm)) key') ∧
    (∀ key', key' ≠ key → (codec cfg).find b' key' = (codec cfg).find b0 key') := by
  obtain ⟨tm, hle, _, h⟩ := h
  have hwf := mkRec_wf key o tm ho hle
  constructor
  · intro key'
    rcases h with h | h
    · left; unfold Codec.find; rw [h]
    · right
      refine ⟨tm, hle, ?_⟩
      unfold Codec.find
      rw [h, (codec_laws cfg).entries_append_frame b0 _ hwf, ← hs]
  · intro key' hk
    unfold Codec.find
    rcases h with h | h
    · rw [h]
    · rw [h, (codec cfg).findIn_append]
      have hne : (codec cfg).key (mkRec key o tm) ≠ key' := fun e => hk e.symm
      simp [Codec.findStep, hne]

/-- The bucket-and-lookup statement all the theorems below instantiate. -/
theorem growing_lookup (key : Bytes) (o : WriteOpts) (ho : OptsWF key o) (b0 : Bytes)
    (hs : (codec cfg).Settled b0) (fs : FS) (hg : Growing cfg cache key o b0 fs) :
    ∃ b', BucketIs fs (bucketPath cfg cache key) b' ∧
      (∀ key', (codec cfg).find b' key' = (codec cfg).find b0 key' ∨
        ∃ tm, tm ≤ timeMax ∧
          (codec cfg).find b' key' = (codec cfg).find (b0 ++ (codec cfg).frame (mkRec key o tm)) key') ∧
      (∀ key', key' ≠ key → (codec cfg).find b' key' = (codec cfg).find b0 key') := by
  obtain ⟨b', hb, h⟩ := growing_oldOrNew cfg cache key o ho b0 hs fs hg
  exact ⟨b', hb, h.lookup cfg ho hs⟩

/-- **C04 for an index insertion, end to end.**  From any state whose bucket for `key` holds
settled bytes `b0` (or is absent, `b0 = []`), an insertion with well-formed options killed on entry
to any call `n`, the in-flight call torn at any length `t`, leaves a bucket `b'` that every reader
decodes to exactly the old records or exactly the old records plus the new one. -/
theorem insert_crash_entries (key : Bytes) (o : WriteOpts) (ho : OptsWF key o) (b0 : Bytes)
    (hs : (codec cfg).Settled b0) (fs : FS) (hb : BucketIs fs (bucketPath cfg cache key) b0) (n t : Nat) :
    ∃ b', BucketIs (crash env (insert cfg cache key o) fs n t) (bucketPath cfg cache key) b' ∧
      OldOrNew cfg key o b0 b' :=
  growing_oldOrNew cfg cache key o ho b0 hs _ (wpD_crash (insert_bucket_wp cfg env cache key o b0 hb) n t)

/-- … hence a later lookup of any key answers exactly as before the insertion or exactly as after
its completion (with the caller's time, or some `u128` clock time), and keys other than `key`
answer as before. -/
theorem insert_crash_lookup (key : Bytes) (o : WriteOpts) (ho : OptsWF key o) (b0 : Bytes)
    (hs : (codec cfg).Settled b0) (fs : FS) (hb : BucketIs fs (bucketPath cfg cache key) b0) (n t : Nat) :
    ∃ b', BucketIs (crash env (insert cfg cache key o) fs n t) (bucketPath cfg cache key) b' ∧
      (∀ key', (codec cfg).find b' key' = (codec cfg).find b0 key' ∨
        ∃ tm, tm ≤ timeMax ∧
          (codec cfg).find b' key' = (codec cfg).find (b0 ++ (codec cfg).frame (mkRec key o tm)) key') ∧
      (∀ key', key' ≠ key → (codec cfg).find b' key' = (codec cfg).find b0 key') :=
  growing_lookup cfg cache key o ho b0 hs _ (wpD_crash (insert_bucket_wp cfg env cache key o b0 hb) n t)

/-- The same under every fault plan (any calls failing, the append failing after any partial
write). -/
theorem insert_fault_lookup (key : Bytes) (o : WriteOpts) (ho : OptsWF key o) (b0 : Bytes)
    (hs : (codec cfg).Settled b0) (fs : FS) (hb : BucketIs fs (bucketPath cfg cache key) b0)
    (plan : Nat → Option Fault) :
    ∃ b', BucketIs (runFault env plan (insert cfg cache key o) fs 0).2.1 (bucketPath cfg cache key) b' ∧
      (∀ key', (codec cfg).find b' key' = (codec cfg).find b0 key' ∨
        ∃ tm, tm ≤ timeMax ∧
          (codec cfg).find b' key' = (codec cfg).find (b0 ++ (codec cfg).frame (mkRec key o tm)) key') ∧
      (∀ key', key' ≠ key → (codec cfg).find b' key' = (codec cfg).find b0 key') :=
  growing_lookup cfg cache key o ho b0 hs _ (wpD_fault (insert_bucket_wp cfg env cache key o b0 hb) plan 0).1

/-- The crash invariant of a removal (`delete` = insertion of a tombstone with default options). -/
theorem delete_bucket_wp (key : Bytes) (b0 : Bytes) {fs : FS}
    (hb : BucketIs fs (bucketPath cfg cache key) b0) :
    wpD env (Growing cfg cache key {} b0) (fun _ _ => True) (delete cfg cache key) fs := by
  unfold delete
  simp only [bind_eq, pure_eq]
  apply wpD_bind
  refine wpD_mono ?_ (wpD_withQ (insert_bucket_wp cfg env cache key {} b0 hb))
  intro r fs1 ⟨hg, _⟩
  cases r <;> exact ⟨hg, trivial⟩

/-- **C04 for a removal, end to end**: killed at any `(n, t)`, every lookup answers as before the
removal or as after the complete tombstone (any key valid UTF-8, as Rust's `&str` is). -/
theorem remove_crash_lookup (key : Bytes) (hk : Json.utf8Valid key = true) (b0 : Bytes)
    (hs : (codec cfg).Settled b0) (fs : FS) (hb : BucketIs fs (bucketPath cfg cache key) b0) (n t : Nat) :
    ∃ b', BucketIs (crash env (delete cfg cache key) fs n t) (bucketPath cfg cache key) b' ∧
      (∀ key', (codec cfg).find b' key' = (codec cfg).find b0 key' ∨
        ∃ tm, tm ≤ timeMax ∧
          (codec cfg).find b' key' = (codec cfg).find (b0 ++ (codec cfg).frame (mkRec key {} tm)) key') ∧
      (∀ key', key' ≠ key → (codec cfg).find b' key' = (codec cfg).find b0 key') :=
  growing_lookup cfg cache key {} (optsWF_default hk) b0 hs _
    (wpD_crash (delete_bucket_wp cfg env cache key b0 hb) n t)

theorem remove_fault_lookup (key : Bytes) (hk : Json.utf8Valid key = true) (b0 : Bytes)
    (hs : (codec cfg).Settled b0) (fs : FS) (hb : BucketIs fs (bucketPath cfg cache key) b0)
    (plan : Nat → Option Fault) :
    ∃ b', BucketIs (runFault env plan (delete cfg cache key) fs 0).2.1 (bucketPath cfg cache key) b' ∧
      (∀ key', (codec cfg).find b' key' = (codec cfg).find b0 key' ∨
        ∃ tm, tm ≤ timeMax ∧
          (codec cfg).find b' key' = (codec cfg).find (b0 ++ (codec cfg).frame (mkRec key {} tm)) key') ∧
      (∀ key', key' ≠ key → (codec cfg).find b' key' = (codec cfg).find b0 key') :=
  growing_lookup cfg cache key {} (optsWF_default hk) b0 hs _
    (wpD_fault (delete_bucket_wp cfg env cache key b0 hb) plan 0).1

/-- What a keyed commit records is well-formed when the caller's options are and the data's
length is a `u64`: the integrity is the declared one or the computed one, the size the declared
one or the byte count. -/
theorem recordedOpts_wf {key : Bytes} {o : WriteOpts} (ho : OptsWF key o) (data : Bytes)
    (hlen : data.length ≤ Rec.u64Max) : OptsWF key (recordedOpts cfg o data) := by
  refine ⟨ho.key, ho.time, ?_, ?_, ho.md⟩
  · intro n hn
    simp only [recordedOpts, Option.some.injEq] at hn
    subst hn
    cases hz : o.size with
    | none => simpa using hlen
    | some m => simpa using ho.size m hz
  · intro s hsri
    simp only [recordedOpts, Option.some.injEq] at hsri
    subst hsri
    cases hz : o.sri with
    | none => simpa using Sri.compute_wf cfg.H _ data
    | some s' => simpa using ho.sri s' hz

/-- **C04 for the whole keyed write, end to end** (open, any chunks, commit; both flavours).
From a valid store whose bucket for `key` holds settled bytes `b0`, with well-formed options and
data of `u64` length: after a kill on entry to any call `n`, the in-flight call torn at any `t`,
the content store is still valid AND the key's bucket `b'` answers every lookup exactly as before
the write or exactly as after the complete append of the one record the write appends on success,
`mkRec key (recordedOpts cfg o chunks.flatten) tm` (`keyed_write_ok_is_new`); keys other than
`key` answer as before. -/
theorem keyed_write_crash_lookup (fl : Flavour) (key : Bytes) (o : WriteOpts) (ho : OptsWF key o)
    (chunks : List Bytes) (hlen : chunks.flatten.length ≤ Rec.u64Max) (b0 : Bytes)
    (hs : (codec cfg).Settled b0) (fs : FS) (hv : ContentValid cfg cache fs)
    (hb : BucketIs fs (bucketPath cfg cache key) b0) (n t : Nat) :
    ContentValid cfg cache (crash env (writeStream cfg cache fl (some key) o chunks) fs n t) ∧
    ∃ b', BucketIs (crash env (writeStream cfg cache fl (some key) o chunks) fs n t)
        (bucketPath cfg cache key) b' ∧
      (∀ key', (codec cfg).find b' key' = (codec cfg).find b0 key' ∨
        ∃ tm, tm ≤ timeMax ∧ (codec cfg).find b' key' = (codec cfg).find
          (b0 ++ (codec cfg).frame (mkRec key (recordedOpts cfg o chunks.flatten) tm)) key') ∧
      (∀ key', key' ≠ key → (codec cfg).find b' key' = (codec cfg).find b0 key') :=
  have h := wpD_crash (writeStream_keyed_wp_rec cfg env cache fl key o chunks b0 hv hb) n t
  ⟨h.1, growing_lookup cfg cache key _ (recordedOpts_wf cfg ho _ hlen) b0 hs _ h.2⟩

/-- The records-level form: exactly the old records, or exactly the old ones plus the new one. -/
theorem keyed_write_crash_entries (fl : Flavour) (key : Bytes) (o : WriteOpts) (ho : OptsWF key o)
    (chunks : List Bytes) (hlen : chunks.flatten.length ≤ Rec.u64Max) (b0 : Bytes)
    (hs : (codec cfg).Settled b0) (fs : FS) (hv : ContentValid cfg cache fs)
    (hb : BucketIs fs (bucketPath cfg cache key) b0) (n t : Nat) :
    ∃ b', BucketIs (crash env (writeStream cfg cache fl (some key) o chunks) fs n t)
        (bucketPath cfg cache key) b' ∧ OldOrNew cfg key (recordedOpts cfg o chunks.flatten) b0 b' :=
  growing_oldOrNew cfg cache key _ (recordedOpts_wf cfg ho _ hlen) b0 hs _
    (wpD_crash (writeStream_keyed_wp_rec cfg env cache fl key o chunks b0 hv hb) n t).2

/-- The same under every fault plan. -/
theorem keyed_write_fault_lookup (fl : Flavour) (key : Bytes) (o : WriteOpts) (ho : OptsWF key o)
    (chunks : List Bytes) (hlen : chunks.flatten.length ≤ Rec.u64Max) (b0 : Bytes)
    (hs : (codec cfg).Settled b0) (fs : FS) (hv : ContentValid cfg cache fs)
    (hb : BucketIs fs (bucketPath cfg cache key) b0) (plan : Nat → Option Fault) :
    ContentValid cfg cache (runFault env plan (writeStream cfg cache fl (some key) o chunks) fs 0).2.1 ∧
    ∃ b', BucketIs (runFault env plan (writeStream cfg cache fl (some key) o chunks) fs 0).2.1
        (bucketPath cfg cache key) b' ∧
      (∀ key', (codec cfg).find b' key' = (codec cfg).find b0 key' ∨
        ∃ tm, tm ≤ timeMax ∧ (codec cfg).find b' key' = (codec cfg).find
          (b0 ++ (codec cfg).frame (mkRec key (recordedOpts cfg o chunks.flatten) tm)) key') ∧
      (∀ key', key' ≠ key → (codec cfg).find b' key' = (codec cfg).find b0 key') :=
  have h := (wpD_fault (writeStream_keyed_wp_rec cfg env cache fl key o chunks b0 hv hb) plan 0).1
  ⟨h.1, growing_lookup cfg cache key _ (recordedOpts_wf cfg ho _ hlen) b0 hs _ h.2⟩

/-- The "new" state of the three theorems above is the state a successful write leaves: when the
healthy run answers ok, the bucket is `b0` followed by the whole frame of that very record. -/
theorem keyed_write_ok_is_new (fl : Flavour) (key : Bytes) (o : WriteOpts) (chunks : List Bytes)
    (b0 : Bytes) (fs : FS) (hv : ContentValid cfg cache fs)
    (hb : BucketIs fs (bucketPath cfg cache key) b0) (sri : Integrity)
    (hok : (run env (writeStream cfg cache fl (some key) o chunks) fs).1 = .ok sri) :
    ∃ tm, (∀ t, o.time = some t → tm = t) ∧
      (run env (writeStream cfg cache fl (some key) o chunks) fs).2.1.get (bucketPath cfg cache key) =
        some (.file (b0 ++ (codec cfg).frame (mkRec key (recordedOpts cfg o chunks.flatten) tm))) := by
  obtain ⟨hsp, hbp⟩ := (wpD_run (writeStream_keyed_wp_rec cfg env cache fl key o chunks b0 hv hb)).2
  obtain ⟨tm, htm, hget, _⟩ := hbp sri hok
  have hsri := (hsp sri hok).1
  simp only [Option.isSome_some, if_true] at hsri
  subst hsri
  exact ⟨tm, htm, hget⟩

/-- Non-vacuity of the end-to-end theorems: the empty (absent) bucket in the empty filesystem,
default options, an ASCII key — every hypothesis of `insert_crash_lookup` / `remove_crash_lookup`
is met, for every kill point. -/
example (n t : Nat) :
    ∃ b', BucketIs (crash env (delete cfg cache [107, 101, 121]) FS.empty n t)
        (bucketPath cfg cache [107, 101, 121]) b' ∧
      (∀ key', (codec cfg).find b' key' = (codec cfg).find [] key' ∨
        ∃ tm, tm ≤ timeMax ∧ (codec cfg).find b' key' =
          (codec cfg).find ([] ++ (codec cfg).frame (mkRec [107, 101, 121] {} tm)) key') ∧
      (∀ key', key' ≠ [107, 101, 121] → (codec cfg).find b' key' = (codec cfg).find [] key') :=
  remove_crash_lookup cfg env cache [107, 101, 121] (by decide) [] (codec_laws cfg).settled_nil
    FS.empty (Or.inr ⟨rfl, rfl⟩) n t

/-- … and of `keyed_write_crash_lookup`: the empty filesystem is a valid store with an absent
(hence empty, settled) bucket; default options, an ASCII key, any chunks of `u64` total length. -/
example (fl : Flavour) (chunks : List Bytes) (hlen : chunks.flatten.length ≤ Rec.u64Max) (n t : Nat) :
    ContentValid cfg cache (crash env (writeStream cfg cache fl (some [107, 101, 121]) {} chunks) FS.empty n t) :=
  (keyed_write_crash_lookup cfg env cache fl [107, 101, 121] {} (optsWF_default (by decide)) chunks hlen []
    (codec_laws cfg).settled_nil FS.empty (by intro a hexd b _ h; simp [FS.empty] at h) (Or.inr ⟨rfl, rfl⟩) n t).1

end Cacache.C04
