/-
C08 — commit enforces declared integrity and size; a rejected commit maps nothing.

Three layers: (1) the decision logic of `commit` stated outright (`commitChecks`);
(2) the program structure: everything up to and including the checks (`wcommitCheck`: publish the
temp file, compare) can only ever aim at the temp and content areas — for all answers of all calls —
while the index insertion that follows can never *return* an integrity or size error;
(3) hence, for every filesystem state, data, chunking, algorithm and flavour: a commit that
reports the integrity / size error has left every path of the index area exactly as it was.
-/
import Cacache.Lemmas.Avoid

namespace Cacache.C08
open Prog

variable (cfg : Cfg)

/-! ### (1) decision logic -/

/-- A declared integrity that the computed one does not satisfy ⇒ integrity error (checked before
the size). -/
theorem checks_reject_integrity (w : Writer) (wsri s : Integrity) (hs : w.opts.sri = some s)
    (hm : Sri.declaredOk s wsri = none) : commitChecks w wsri = .error .integrity := by
  simp [commitChecks, hs, hm]

/-- Declared size ≠ bytes accepted (and no integrity objection) ⇒ size-mismatch error carrying
exactly (wanted, actual). -/
theorem checks_reject_size (w : Writer) (wsri : Integrity) (n : Nat) (hn : w.opts.size = some n)
    (hne : n ≠ w.written)
    (hi : w.opts.sri = none ∨ ∃ s, w.opts.sri = some s ∧ (Sri.declaredOk s wsri).isSome) :
    commitChecks w wsri = .error (.size n w.written) := by
  rcases hi with h | ⟨s, h, hm⟩
  · simp [commitChecks, commitChecks.sizeCheck, h, hn, hne]
  · have : (Sri.declaredOk s wsri).isNone = false := by
      cases hx : Sri.declaredOk s wsri <;> simp [hx] at hm ⊢
    simp [commitChecks, commitChecks.sizeCheck, h, hn, hne, this]

/-- Matching declarations ⇒ the commit goes through and records the *declared* integrity (the
computed one when none was declared). -/
theorem checks_accept (w : Writer) (wsri : Integrity)
    (hsize : w.opts.size = none ∨ w.opts.size = some w.written) :
    (w.opts.sri = none → commitChecks w wsri = .ok wsri) ∧
    (∀ s, w.opts.sri = some s → (Sri.declaredOk s wsri).isSome → commitChecks w wsri = .ok s) := by
  constructor
  · intro h
    rcases hsize with hz | hz <;> simp [commitChecks, commitChecks.sizeCheck, h, hz]
  · intro s h hm
    have : (Sri.declaredOk s wsri).isNone = false := by
      cases hx : Sri.declaredOk s wsri <;> simp [hx] at hm ⊢
    rcases hsize with hz | hz <;> simp [commitChecks, commitChecks.sizeCheck, h, hz, this]

/-- **The strongest algorithm of a declaration governs** (F22): a declaration whose first — i.e.
strongest — hash is of another algorithm than the one the writer hashed with is rejected, whatever
weaker hashes it also lists (even a correct one of the writer's algorithm). -/
theorem declaredOk_other_algorithm (d c : Hash) (ds cs : Integrity) (h : (d.algo == c.algo) = false) :
    Sri.declaredOk (d :: ds) (c :: cs) = none := by
  simp [Sri.declaredOk, h]

/-- An accepted declaration has the writer's algorithm as its strongest one and lists the computed
hash under it. -/
theorem declaredOk_sound (s : Integrity) (c : Hash) (h : (Sri.declaredOk s [c]).isSome) :
    (∃ d ds, s = d :: ds ∧ d.algo = c.algo) ∧ c ∈ s := by
  unfold Sri.declaredOk at h
  split at h
  · rename_i d ds c' cs heq
    cases heq
    split at h
    · rename_i ha
      refine ⟨⟨d, ds, rfl, by simpa using ha⟩, ?_⟩
      unfold Sri.matchesSri at h
      simp only [Option.isSome_map] at h
      obtain ⟨x, hx⟩ := Option.isSome_iff_exists.mp h
      have hmem := List.mem_of_find?_eq_some hx
      have hp := List.find?_some hx
      simp only [List.filter_cons, beq_self_eq_true, if_true, List.filter_nil, List.any_cons,
        List.any_nil, Bool.or_false, beq_iff_eq] at hp
      subst hp
      exact (List.mem_filter.mp hmem).1
    · cases h
  · cases h

/-- **An accepted declaration with a single digest of its strongest algorithm resolves to the
address the content was stored at**: its first hash *is* the computed one, so the content path of
the recorded (declared) integrity is the content path of the computed one — the key is readable.
(With several digests of that algorithm the recorded address is that of whichever sorts first:
the known finding F24.) -/
theorem accepted_resolves (cache : Path) (s : Integrity) (c : Hash)
    (h : (Sri.declaredOk s [c]).isSome)
    (h1 : ∀ x ∈ s, x.algo = c.algo → x = c) :
    contentPath cache s = contentPath cache [c] := by
  obtain ⟨⟨d, ds, rfl, hd⟩, _⟩ := declaredOk_sound s c h
  have : d = c := h1 d List.mem_cons_self hd
  subst this
  rfl

/-- The only errors the checks produce are the integrity and the size-mismatch error. -/
theorem checks_errors (w : Writer) (wsri : Integrity) (e : Err) (h : commitChecks w wsri = .error e) :
    e = .integrity ∨ ∃ n, e = .size n w.written := by
  unfold commitChecks commitChecks.sizeCheck at h
  split at h
  · split at h
    · cases h; exact Or.inl rfl
    · split at h
      · split at h
        · cases h; exact Or.inr ⟨_, rfl⟩
        · cases h
      · cases h
  · split at h
    · split at h
      · cases h; exact Or.inr ⟨_, rfl⟩
      · cases h
    · cases h

/-! ### (2) structure -/

/-- Index insertion reports only I/O errors — never the integrity or size error. -/
theorem insert_never_rejects (cache : Path) (key : Bytes) (o : WriteOpts) :
    AllCallsR (fun _ => True) (fun r => r ≠ .error .integrity ∧ ∀ a b, r ≠ .error (.size a b))
      (insert cfg cache key o) := by
  unfold insert getTime appendRec
  repeat' ac_step
  all_goals first
    | (intro h; cases h)
    | exact ⟨fun h => (by cases h), fun a b h => (by cases h)⟩

theorem wcommitIndex_never_rejects (w : Writer) (wsri recorded : Integrity) :
    AllCallsR (fun _ => True) (fun r => r ≠ .error .integrity ∧ ∀ a b, r ≠ .error (.size a b))
      (wcommitIndex cfg w wsri recorded) := by
  unfold wcommitIndex
  split
  · exact insert_never_rejects cfg _ _ _
  · exact ⟨fun h => (by cases h), fun a b h => (by cases h)⟩

/-- Publishing and checking never aims at the index area, whatever the calls answer. -/
theorem check_phase_no_index (w : Writer) (hw : w.Ok) (q : Path) (hq : InArea w.cache dIndex q) :
    AllCalls (Call.avoids q) (wcommitCheck cfg w) :=
  (wcommitCheck_areas cfg w hw).mono (fun c hc => hc.avoids hq (by decide)) (fun _ h => h)

/-! ### (3) a rejected commit maps nothing -/

def Rejected (r : Res Integrity) : Prop := r = .error .integrity ∨ ∃ a b, r = .error (.size a b)

/-- **For every state**: if `commit` reports the integrity or the size-mismatch error, every path
in the index area — the key's bucket and every other — is exactly as before the commit. -/
theorem rejected_commit_maps_nothing (env : Env) (fs : FS) (w : Writer) (hw : w.Ok)
    (hr : Rejected (run env (wcommit cfg w) fs).1) (q : Path) (hq : InArea w.cache dIndex q) :
    (run env (wcommit cfg w) fs).2.1.get q = fs.get q := by
  have hframe := AllCalls.frame_run (check_phase_no_index cfg w hw q hq) env fs
  unfold wcommit at hr ⊢
  simp only [bind_eq, pure_eq] at hr ⊢
  rw [run_bind] at hr ⊢
  simp only at hr ⊢
  generalize hc : run env (wcommitCheck cfg w) fs = rc at hr hframe ⊢
  obtain ⟨r1, fs1, tr1⟩ := rc
  cases r1 with
  | error e => simpa [run] using hframe
  | ok pr =>
    obtain ⟨wsri, recorded⟩ := pr
    exfalso
    have hn := (wcommitIndex_never_rejects cfg w wsri recorded).result env fs1
    simp only at hr
    rcases hr with h | ⟨a, b, h⟩
    · exact hn.1 h
    · exact hn.2 a b h

/-- … and the rejection happens exactly when the declarations demand it: whenever the temp file
was published (`wclose` succeeded) the outcome of the first phase is the outcome of the checks on
the integrity of what was hashed. -/
theorem check_phase_result (env : Env) (fs : FS) (w : Writer) (wsri : Integrity)
    (hcl : (run env (wclose cfg w) fs).1 = .ok wsri) :
    (run env (wcommitCheck cfg w) fs).1 =
      (match commitChecks w wsri with
       | .error e => .error e
       | .ok recorded => .ok (wsri, recorded)) := by
  unfold wcommitCheck
  simp only [bind_eq, pure_eq]
  rw [run_bind]
  simp only [hcl]
  cases commitChecks w wsri <;> simp [run]

/-- Non-vacuity: a writer with a wrong declared size is rejected by the checks. -/
example (w : Writer) (h1 : w.opts.size = some 10) (h2 : w.written = 5) (h3 : w.opts.sri = none) :
    commitChecks w [] = .error (.size 10 5) := by
  have := checks_reject_size w [] 10 h1 (by omega) (Or.inl h3)
  rw [h2] at this; exact this

end Cacache.C08
