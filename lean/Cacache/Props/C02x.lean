/-
C02 (extension) — a writer HELD OPEN across other operations still commits truthfully.
Proofs in `Lemmas/HeldWriter.lean` (which rests on `Lemmas/CacheRefine`, `ListRefine`, `Concurrent`, hence this
separate module).  The correspondence runs such programs (`gen_held_writer_programs`); these theorems say what the
model does there: whatever happened between the last `write` and the `commit` - as long as the cache stayed healthy
and nobody touched the temp file, which every operation of the library but `clear` guarantees - the commit does
exactly what it would have done straight away, on top of the state it finds.
-/
import Cacache.Lemmas.HeldWriter
import Cacache.Lemmas.HeldWriter2

namespace Cacache.C02x
open Prog Json Refine CacheRefine ListRefine HeldWriter HeldWriter2

variable (cfg : Cfg) (cache : Path)

/-- `writeStream` IS the open phase (`wopen` + the chunk writes) followed by the commit of the writer it answers:
the split used below is faithful to what the back-to-back theorems cover. -/
theorem writeStream_eq_held (fl : Flavour) (key : Option Bytes) (o : WriteOpts) (chunks : List Bytes) :
    writeStream cfg cache fl key o chunks =
      Prog.bind (heldOpen cfg cache fl key o chunks) (fun r =>
        match r with
        | .error e => .done (.error e)
        | .ok w' => wcommit cfg w') :=
  HeldWriter.writeStream_eq_held cfg cache fl key o chunks

/-- **The commit of a held writer.**  Open and feed a keyed writer from a healthy cache `fs0` (state `fs1`); let `fs2`
be ANY healthy state in which the node at the writer's temp path is what it was in `fs1`.  Then `wcommit`, run from
`fs2`, answers what the abstract step `putSpec` answers on the abstraction of `fs2` (the digest of all the bytes, or the
size error for a wrong declared size), the final state abstracts to `putSpec`'s cache - the key mapped to the new entry,
the address to the bytes, nothing else changed -, the cache is healthy again, the temp file is gone and every other
entry of `cache/tmp` is as in `fs2`. -/
theorem held_commit_refines (env env' : Env) (fl : Flavour) (k : Bytes) (o : WriteOpts)
    (chunks : List Bytes) (fs0 fs1 fs2 : FS) (w : Writer)
    (h0 : Healthy cfg cache fs0) (hl : HexLen cfg) (hw : PutWF k o chunks)
    (hopen : (run env (heldOpen cfg cache fl (some k) o chunks) fs0).1 = .ok w)
    (hfs1 : (run env (heldOpen cfg cache fl (some k) o chunks) fs0).2.1 = fs1)
    (h2 : Healthy cfg cache fs2)
    (hkeep : fs2.get w.tmp = fs1.get w.tmp) :
    (run env' (wcommit cfg w) fs2).1 = (putSpec cfg env' (absCache cfg cache fs2) k o chunks).2 ∧
    absCache cfg cache (run env' (wcommit cfg w) fs2).2.1 =
      (putSpec cfg env' (absCache cfg cache fs2) k o chunks).1 ∧
    Healthy cfg cache (run env' (wcommit cfg w) fs2).2.1 ∧
    (run env' (wcommit cfg w) fs2).2.1.get w.tmp = none ∧
    ∀ n, (cache ++ [dTmp]) ++ [n] ≠ w.tmp →
      (run env' (wcommit cfg w) fs2).2.1.get ((cache ++ [dTmp]) ++ [n]) = fs2.get ((cache ++ [dTmp]) ++ [n]) :=
  HeldWriter.held_commit_refines cfg cache env env' fl k o chunks fs0 fs1 fs2 w h0 hl hw hopen hfs1 h2 hkeep

/-- **The library's own operations leave a held temp file alone**: any sequence of operations of the extended
refinement (keyed and by-address writes, reads, lookups, `remove` / `remove_hash` / `remove_fully`, `exists`, listings)
that contains no `clear`, run from a healthy and tidy cache, leaves temp file number `m < fs.next` - any temp file
handed out before the sequence started - exactly as it was, and does not lower the counter. -/
theorem ops_preserve_tmp (ops : List (Env × XOp)) (hnc : ∀ x ∈ ops, x.2 ≠ .clear) (fs : FS)
    (h : XHealthy cfg cache fs) (hl : HexLen cfg) (hops : ∀ x ∈ ops, x.2.WF cfg)
    (m : Nat) (hm : m < fs.next) :
    (xRunOps cfg cache ops fs).2.get (tmpPath cache m) = fs.get (tmpPath cache m) ∧
    fs.next ≤ (xRunOps cfg cache ops fs).2.next :=
  HeldWriter.ops_preserve_tmp cfg cache ops hnc fs h hl hops m hm

/-- **A writer held open across any sequence of such operations** (of its own key too): the operations answer as the
abstract machine says, started from the abstraction of `fs0` (the open writer is invisible but for the cache directory
existing); the commit's answer and the final abstract cache are the abstract `put` step applied AFTER the operations;
healthy at the end, temp file gone.  `hnc` excludes `clear`, which removes `cache/tmp` - and the held temp file -
wholesale (the real writer then fails at its rename; the correspondence covers that case). -/
theorem held_across_ops (env env' : Env) (fl : Flavour) (k : Bytes) (o : WriteOpts)
    (chunks : List Bytes) (fs0 fs1 : FS) (w : Writer)
    (h0 : XHealthy cfg cache fs0) (hl : HexLen cfg) (hw : PutWF k o chunks)
    (hopen : (run env (heldOpen cfg cache fl (some k) o chunks) fs0).1 = .ok w)
    (hfs1 : (run env (heldOpen cfg cache fl (some k) o chunks) fs0).2.1 = fs1)
    (ops : List (Env × XOp)) (hnc : ∀ x ∈ ops, x.2 ≠ .clear) (hops : ∀ x ∈ ops, x.2.WF cfg) :
    Answers (xRunOps cfg cache ops fs1).1
      (xSpecRun cfg ops ((absX cfg cache fs0).wrote (absCache cfg cache fs0))).1 ∧
    COut.put (run env' (wcommit cfg w) (xRunOps cfg cache ops fs1).2).1 =
      (cSpecStep cfg env' (xSpecRun cfg ops ((absX cfg cache fs0).wrote (absCache cfg cache fs0))).2.cache
        (.put fl k o chunks)).2 ∧
    absCache cfg cache (run env' (wcommit cfg w) (xRunOps cfg cache ops fs1).2).2.1 =
      (cSpecStep cfg env' (xSpecRun cfg ops ((absX cfg cache fs0).wrote (absCache cfg cache fs0))).2.cache
        (.put fl k o chunks)).1 ∧
    Healthy cfg cache (run env' (wcommit cfg w) (xRunOps cfg cache ops fs1).2).2.1 ∧
    (run env' (wcommit cfg w) (xRunOps cfg cache ops fs1).2).2.1.get w.tmp = none :=
  HeldWriter.held_across_ops cfg cache env env' fl k o chunks fs0 fs1 w h0 hl hw hopen hfs1 ops hnc hops


/-! ### From `Lemmas/HeldWriter2.lean`: by-address writers, a `clear` in between, two writers of one key -/

/-- **The commit of a held BY-ADDRESS writer**: from any healthy `fs2` with the temp file untouched the commit answers
the integrity (or the size error for a wrong declared size), the abstract store gains exactly the address of the bytes,
the abstract index is unchanged, healthy, temp file gone, the rest of `cache/tmp` as it was. -/
theorem held_commit_refines_unkeyed (env env' : Env) (fl : Flavour) (o : WriteOpts)
    (chunks : List Bytes) (fs0 fs1 fs2 : FS) (w : Writer)
    (h0 : Healthy cfg cache fs0) (hl : HexLen cfg)
    (hopen : (run env (heldOpen cfg cache fl none o chunks) fs0).1 = .ok w)
    (hfs1 : (run env (heldOpen cfg cache fl none o chunks) fs0).2.1 = fs1)
    (h2 : Healthy cfg cache fs2)
    (hkeep : fs2.get w.tmp = fs1.get w.tmp) :
    (run env' (wcommit cfg w) fs2).1 = putAnswer cfg o chunks.flatten ∧
    absStore cache (run env' (wcommit cfg w) fs2).2.1 =
      (absStore cache fs2).set (o.algo.getD .sha256)
        (Bytes.hex (cfg.H (o.algo.getD .sha256) chunks.flatten)) (some chunks.flatten) ∧
    absIndex cfg cache (run env' (wcommit cfg w) fs2).2.1 = absIndex cfg cache fs2 ∧
    Healthy cfg cache (run env' (wcommit cfg w) fs2).2.1 ∧
    (run env' (wcommit cfg w) fs2).2.1.get w.tmp = none ∧
    ∀ n, (cache ++ [dTmp]) ++ [n] ≠ w.tmp →
      (run env' (wcommit cfg w) fs2).2.1.get ((cache ++ [dTmp]) ++ [n]) = fs2.get ((cache ++ [dTmp]) ++ [n]) :=
  HeldWriter2.held_commit_refines_unkeyed cfg cache env env' fl o chunks fs0 fs1 fs2 w h0 hl hopen hfs1 h2 hkeep

/-- **A writer that was open when the cache was cleared cannot bring anything back.**  Open and feed a writer (keyed or
by address), `clear` the cache, commit: the commit answers exactly the I/O not-found error (the temp file is gone), and
afterwards - in every environment, for every key, algorithm and data - lookups find nothing, reads answer not-found,
`exists` answers false.  (The failed commit may have re-created empty directories of the content area:
`HeldWriter2.held_commit_after_clear` says exactly which.) -/
theorem nothing_comes_back (env envc env' : Env) (fl : Flavour) (key : Option Bytes) (o : WriteOpts)
    (chunks : List Bytes) (fs0 fs1 fs2 : FS) (w : Writer)
    (h0 : XHealthy cfg cache fs0) (hl : HexLen cfg)
    (hopen : (run env (heldOpen cfg cache fl key o chunks) fs0).1 = .ok w)
    (hfs1 : (run env (heldOpen cfg cache fl key o chunks) fs0).2.1 = fs1)
    (hfs2 : (run envc (clear cache) fs1).2.1 = fs2) :
    (run env' (wcommit cfg w) fs2).1 = .error (.io .notFound) ∧
    (∀ e k, (run e (find cfg cache k) (run env' (wcommit cfg w) fs2).2.1).1 = .ok none) ∧
    (∀ e k, (run e (read cfg cache k) (run env' (wcommit cfg w) fs2).2.1).1 = .error .notFound) ∧
    (∀ e a d, (run e (existsHash cache (Sri.compute cfg.H a d)) (run env' (wcommit cfg w) fs2).2.1).1 =
      .ok false) ∧
    (∀ e a d, (run e (readHash cfg cache (Sri.compute cfg.H a d)) (run env' (wcommit cfg w) fs2).2.1).1 =
      .error (.io .notFound)) :=
  ⟨(HeldWriter2.held_commit_after_clear cfg cache env envc env' fl key o chunks fs0 fs1 fs2 w h0 hl hopen hfs1 hfs2).2.1,
   HeldWriter2.nothing_comes_back cfg cache env envc env' fl key o chunks fs0 fs1 fs2 w h0 hl hopen hfs1 hfs2⟩

/-- **Two writers of ONE key, opened one after the other, committed in either order**: both commits answer their
integrities, the key maps to the entry of the writer that committed LAST, other keys are as before, the store holds
both contents, healthy, no temp file left (`HeldWriter2.TwoCommitted` spells this out). -/
theorem held_two_writers (e1 e2 eA eB : Env) (fl1 fl2 : Flavour) (k : Bytes) (o1 o2 : WriteOpts)
    (chunks1 chunks2 : List Bytes) (fs0 fs1 fs2 : FS) (w1 w2 : Writer)
    (h0 : Healthy cfg cache fs0) (hl : HexLen cfg)
    (hw1 : PutWF k o1 chunks1) (hw2 : PutWF k o2 chunks2)
    (hz1 : o1.size = none ∨ o1.size = some chunks1.flatten.length)
    (hz2 : o2.size = none ∨ o2.size = some chunks2.flatten.length)
    (hopen1 : (run e1 (heldOpen cfg cache fl1 (some k) o1 chunks1) fs0).1 = .ok w1)
    (hfs1 : (run e1 (heldOpen cfg cache fl1 (some k) o1 chunks1) fs0).2.1 = fs1)
    (hopen2 : (run e2 (heldOpen cfg cache fl2 (some k) o2 chunks2) fs1).1 = .ok w2)
    (hfs2 : (run e2 (heldOpen cfg cache fl2 (some k) o2 chunks2) fs1).2.1 = fs2) :
    TwoCommitted cfg cache fs0
      (run eB (wcommit cfg w1) (run eA (wcommit cfg w2) fs2).2.1).2.1 k eB o2 o1
      chunks2.flatten chunks1.flatten
      (run eA (wcommit cfg w2) fs2).1 (run eB (wcommit cfg w1) (run eA (wcommit cfg w2) fs2).2.1).1
      w1.tmp w2.tmp ∧
    TwoCommitted cfg cache fs0
      (run eB (wcommit cfg w2) (run eA (wcommit cfg w1) fs2).2.1).2.1 k eB o1 o2
      chunks1.flatten chunks2.flatten
      (run eA (wcommit cfg w1) fs2).1 (run eB (wcommit cfg w2) (run eA (wcommit cfg w1) fs2).2.1).1
      w1.tmp w2.tmp :=
  HeldWriter2.held_two_writers cfg cache e1 e2 eA eB fl1 fl2 k o1 o2 chunks1 chunks2 fs0 fs1 fs2 w1 w2
    h0 hl hw1 hw2 hz1 hz2 hopen1 hfs1 hopen2 hfs2

end Cacache.C02x
