/-
C02 (extension) — a writer HELD OPEN across other operations still commits truthfully.
Proofs in `Lemmas/HeldWriter.lean` (which rests on `Lemmas/CacheRefine`, `ListRefine`, `Concurrent`, hence this
separate module).  The correspondence runs such programs (`gen_held_writer_programs`); these theorems say what the
model does there: whatever happened between the last `write` and the `commit` - as long as the cache stayed healthy
and nobody touched the temp file, which every operation of the library but `clear` guarantees - the commit does
exactly what it would have done straight away, on top of the state it finds.
-/
import Cacache.Lemmas.HeldWriter

namespace Cacache.C02x
open Prog Json Refine CacheRefine ListRefine HeldWriter

variable (cfg : Cfg) (cache : Path)

/-- `writeStream` IS the open phase (`wopen` + the chunk writes) followed by the commit of the writer it answers:
the split used below is faithful to what the back-to-back theorems cover. -/
theorem writeStream_eq_held (fl : Flavour) (key : Option Bytes) (o : WriteOpts) (chunks : List Bytes) :
    writeStream cfg cache fl key o chunks =
      Prog.bind (heldOpen cfg cache fl key o chunks) (fun r =>
        match r with
        | .error e => .done (.error e)
        | .ok w' => wcommit cfg w') :=
  HeldWriter.writeStream_eq_held cfg cache fl key o chunks

/-- **The commit of a held writer.**  Open and feed a keyed writer from a healthy cache `fs0` (state `fs1`); let `fs2`
be ANY healthy state in which the node at the writer's temp path is what it was in `fs1`.  Then `wcommit`, run from
`fs2`, answers what the abstract step `putSpec` answers on the abstraction of `fs2` (the digest of all the bytes, or the
size error for a wrong declared size), the final state abstracts to `putSpec`'s cache - the key mapped to the new entry,
the address to the bytes, nothing else changed -, the cache is healthy again, the temp file is gone and every other
entry of `cache/tmp` is as in `fs2`. -/
theorem held_commit_refines (env env' : Env) (fl : Flavour) (k : Bytes) (o : WriteOpts)
    (chunks : List Bytes) (fs0 fs1 fs2 : FS) (w : Writer)
    (h0 : Healthy cfg cache fs0) (hl : HexLen cfg) (hw : PutWF k o chunks)
    (hopen : (run env (heldOpen cfg cache fl (some k) o chunks) fs0).1 = .ok w)
    (hfs1 : (run env (heldOpen cfg cache fl (some k) o chunks) fs0).2.1 = fs1)
    (h2 : Healthy cfg cache fs2)
    (hkeep : fs2.get w.tmp = fs1.get w.tmp) :
    (run env' (wcommit cfg w) fs2).1 = (putSpec cfg env' (absCache cfg cache fs2) k o chunks).2 ∧
    absCache cfg cache (run env' (wcommit cfg w) fs2).2.1 =
      (putSpec cfg env' (absCache cfg cache fs2) k o chunks).1 ∧
    Healthy cfg cache (run env' (wcommit cfg w) fs2).2.1 ∧
    (run env' (wcommit cfg w) fs2).2.1.get w.tmp = none ∧
    ∀ n, (cache ++ [dTmp]) ++ [n] ≠ w.tmp →
      (run env' (wcommit cfg w) fs2).2.1.get ((cache ++ [dTmp]) ++ [n]) = fs2.get ((cache ++ [dTmp]) ++ [n]) :=
  HeldWriter.held_commit_refines cfg cache env env' fl k o chunks fs0 fs1 fs2 w h0 hl hw hopen hfs1 h2 hkeep

/-- **The library's own operations leave a held temp file alone**: any sequence of operations of the extended
refinement (keyed and by-address writes, reads, lookups, `remove` / `remove_hash` / `remove_fully`, `exists`, listings)
that contains no `clear`, run from a healthy and tidy cache, leaves temp file number `m < fs.next` - any temp file
handed out before the sequence started - exactly as it was, and does not lower the counter. -/
theorem ops_preserve_tmp (ops : List (Env × XOp)) (hnc : ∀ x ∈ ops, x.2 ≠ .clear) (fs : FS)
    (h : XHealthy cfg cache fs) (hl : HexLen cfg) (hops : ∀ x ∈ ops, x.2.WF cfg)
    (m : Nat) (hm : m < fs.next) :
    (xRunOps cfg cache ops fs).2.get (tmpPath cache m) = fs.get (tmpPath cache m) ∧
    fs.next ≤ (xRunOps cfg cache ops fs).2.next :=
  HeldWriter.ops_preserve_tmp cfg cache ops hnc fs h hl hops m hm

/-- **A writer held open across any sequence of such operations** (of its own key too): the operations answer as the
abstract machine says, started from the abstraction of `fs0` (the open writer is invisible but for the cache directory
existing); the commit's answer and the final abstract cache are the abstract `put` step applied AFTER the operations;
healthy at the end, temp file gone.  `hnc` excludes `clear`, which removes `cache/tmp` - and the held temp file -
wholesale (the real writer then fails at its rename; the correspondence covers that case). -/
theorem held_across_ops (env env' : Env) (fl : Flavour) (k : Bytes) (o : WriteOpts)
    (chunks : List Bytes) (fs0 fs1 : FS) (w : Writer)
    (h0 : XHealthy cfg cache fs0) (hl : HexLen cfg) (hw : PutWF k o chunks)
    (hopen : (run env (heldOpen cfg cache fl (some k) o chunks) fs0).1 = .ok w)
    (hfs1 : (run env (heldOpen cfg cache fl (some k) o chunks) fs0).2.1 = fs1)
    (ops : List (Env × XOp)) (hnc : ∀ x ∈ ops, x.2 ≠ .clear) (hops : ∀ x ∈ ops, x.2.WF cfg) :
    Answers (xRunOps cfg cache ops fs1).1
      (xSpecRun cfg ops ((absX cfg cache fs0).wrote (absCache cfg cache fs0))).1 ∧
    COut.put (run env' (wcommit cfg w) (xRunOps cfg cache ops fs1).2).1 =
      (cSpecStep cfg env' (xSpecRun cfg ops ((absX cfg cache fs0).wrote (absCache cfg cache fs0))).2.cache
        (.put fl k o chunks)).2 ∧
    absCache cfg cache (run env' (wcommit cfg w) (xRunOps cfg cache ops fs1).2).2.1 =
      (cSpecStep cfg env' (xSpecRun cfg ops ((absX cfg cache fs0).wrote (absCache cfg cache fs0))).2.cache
        (.put fl k o chunks)).1 ∧
    Healthy cfg cache (run env' (wcommit cfg w) (xRunOps cfg cache ops fs1).2).2.1 ∧
    (run env' (wcommit cfg w) (xRunOps cfg cache ops fs1).2).2.1.get w.tmp = none :=
  HeldWriter.held_across_ops cfg cache env env' fl k o chunks fs0 fs1 w h0 hl hw hopen hfs1 ops hnc hops

end Cacache.C02x
