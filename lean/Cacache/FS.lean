/-
Layer 2a: the filesystem the library runs against, and the primitive calls it issues.

A path is a list of components below the scratch root `[]` (which always is a directory).
`FS.get` is a lookup *function* (so frame reasoning is `rfl`/`simp`), `FS.dom` an enumerable
superset of its support (used by directory listing), `FS.next` the temp-name counter.

`exec` gives the healthy semantics of each call, `execFail` what a call leaves behind when it
fails with an injected error (`phase` selects how far a multi-step call got), and `execTorn` what
a process kill in the middle of the call leaves behind.
-/
import Cacache.Bytes

namespace Cacache

abbrev Path := List Bytes

/-- Text of a symbolic link: absolute (below the scratch root) or relative to the link's
directory; relative targets may contain `..`. -/
inductive Target where
  | abs (p : Path)
  | rel (p : Path)
  deriving Repr, DecidableEq

inductive Node where
  | file (b : Bytes)
  | link (t : Target)
  | dir
  deriving Repr, DecidableEq

/-- `std::io::ErrorKind`, as far as the protocol distinguishes it. -/
inductive EK where
  | notFound
  | exists
  | other
  deriving Repr, DecidableEq

structure FS where
  get : Path → Option Node
  dom : List Path
  next : Nat

namespace FS

def empty : FS := { get := fun _ => none, dom := [], next := 0 }

def put (fs : FS) (p : Path) (n : Node) : FS :=
  { fs with get := fun q => if q = p then some n else fs.get q, dom := p :: fs.dom }

def del (fs : FS) (p : Path) : FS :=
  { fs with get := fun q => if q = p then none else fs.get q }

def isDir (fs : FS) (p : Path) : Bool :=
  match p with
  | [] => true
  | _ => fs.get p == some .dir

def parent (p : Path) : Path := p.dropLast

/-- Lexical normalisation of `..` and `.` against a base directory. -/
def normRel : Path → Path → Path
  | base, [] => base
  | base, c :: cs =>
    if c = [46, 46] then normRel base.dropLast cs        -- ".."
    else if c = [46] then normRel base cs                -- "."
    else normRel (base ++ [c]) cs

def targetPath (linkAt : Path) : Target → Path
  | .abs p => p
  | .rel p => normRel (parent linkAt) p

/-- Follow symbolic links at the final component (intermediate components are never links in
anything the library or the generators create). -/
def resolve (fs : FS) : Nat → Path → Option Path
  | 0, _ => none
  | fuel + 1, p =>
    match fs.get p with
    | some (.link t) => resolve fs fuel (targetPath p t)
    | _ => some p

def resolveFuel : Nat := 8

/-- `open` + read to end, following links. -/
def readFile (fs : FS) (p : Path) : Except EK Bytes :=
  match resolve fs resolveFuel p with
  | none => .error .other
  | some q =>
    match q, fs.get q with
    | [], _ => .error .other
    | _, some (.file b) => .ok b
    | _, some .dir => .error .other
    | _, _ => .error .notFound

/-- `Path::exists` / `fs::metadata(..).is_ok()`: follows links. -/
def existsFollow (fs : FS) (p : Path) : Bool :=
  match resolve fs resolveFuel p with
  | none => false
  | some q => q == [] || (fs.get q).isSome

/-- All proper prefixes and `p` itself, shortest first, the root excluded. -/
def prefixes (p : Path) : List Path :=
  (List.range p.length).map (fun i => p.take (i + 1))

/-- `create_dir_all`: create the first `n` missing levels (all of them for `n ≥ p.length`). -/
def mkdirLevels (fs : FS) : List Path → Nat → Except EK FS
  | [], _ => .ok fs
  | _, 0 => .ok fs
  | q :: qs, n + 1 =>
    match fs.get q with
    | none => mkdirLevels (fs.put q .dir) qs n
    | some .dir => mkdirLevels fs qs (n + 1)
    | some (.link _) => mkdirLevels fs qs (n + 1)   -- not produced by anything here
    | some (.file _) => .error .other

def mkdirP (fs : FS) (p : Path) : Except EK FS := mkdirLevels fs (prefixes p) p.length

/-- Paths strictly below `p`. -/
def below (fs : FS) (p : Path) : List Path :=
  (fs.dom.filter (fun q => p.length < q.length && q.take p.length == p && (fs.get q).isSome)).eraseDups

def children (fs : FS) (p : Path) : List Path :=
  (below fs p).filter (fun q => q.length == p.length + 1)

def delAll (fs : FS) (ps : List Path) : FS := ps.foldl del fs

end FS

/-- The requests an operation can make.  Each carries its concrete path. -/
inductive Call where
  | mkdirP (p : Path)
  | mkTemp (dir : Path)
  | fallocate (p : Path) (n : Nat)
  | writeAt (p : Path) (off : Nat) (d : Bytes)      -- file write at the cursor / store through a mapping
  | truncate (p : Path) (n : Nat)
  | rename (src dst : Path)
  | openAppend (p : Path)                            -- open(O_WRONLY|O_CREAT|O_APPEND)
  | appendWrite (p : Path) (d : Bytes)               -- one write(2) on that descriptor
  | readFile (p : Path)                              -- open + read to EOF (follows links)
  | existsF (p : Path)                               -- stat, following links
  | sizeOf (p : Path)                                -- metadata().len(), following links
  | unlink (p : Path)
  | hardLink (src dst : Path)
  | symlink (t : Target) (p : Path)
  | copyFile (src dst : Path)
  | reflink (src dst : Path)
  | walk (p : Path)                                  -- WalkDir: every entry below p
  | readDir (p : Path)                               -- direct children
  | removeTree (p : Path)                            -- remove_dir_all
  | now
  | isLink (p : Path)                                -- lstat: is the node at p itself a symlink?
  | mkTempLink (dir : Path) (t : Target)             -- a symlink to t under a fresh name in dir
  | renameLink (src dst : Path)                      -- rename(2) of a symlink (`rename` is the regular-file case)
  | sameFile (p : Path) (t : Target)                 -- canonicalize(p) == canonicalize(t), both existing
  deriving Repr

inductive Ret where
  | unit
  | bytes (b : Bytes)
  | path (p : Path)
  | nat (n : Nat)
  | bool (b : Bool)
  | entries (l : List (Path × Bool))                 -- (path, isDir)
  | err (e : EK)
  deriving Repr

/-- The clock answers a `u128` number of milliseconds (`Duration::as_millis`). -/
def timeMax : Nat := 340282366920938463463374607431768211455

theorem timeMax_eq : timeMax = 340282366920938463463374607431768211455 := rfl

attribute [irreducible] timeMax

/-- Environment parameters the model does not decide. -/
structure Env where
  reflinkOK : Bool := false       -- does the filesystem support reflink (ext4 here: no)
  clock : Nat := 0                -- the answer of `now`

def tmpName (n : Nat) : Bytes := 35 :: (Nat.toDigits 10 n).map (fun c => c.toNat.toUInt8)   -- "#<n>"

def zeros (n : Nat) : Bytes := List.replicate n 0

/-- Overwrite `old` at offset `off` with `d`, zero-filling a gap. -/
def spliceAt (old : Bytes) (off : Nat) (d : Bytes) : Bytes :=
  let base := if off ≤ old.length then old else old ++ zeros (off - old.length)
  base.take off ++ d ++ base.drop (off + d.length)

open FS in
/-- `fs::copy`'s write side: create / truncate the destination (following a link) and fill it. -/
def copyTo (fs : FS) (dst : Path) (b : Bytes) : FS × Ret :=
  if !fs.isDir (parent dst) then (fs, .err .notFound)
  else match fs.get dst with
    | some .dir => (fs, .err .other)
    | some (.link t) =>                                 -- open(O_TRUNC) follows the link
      (match resolve fs resolveFuel (targetPath dst t) with
       | some q => (fs.put q (.file b), .nat b.length)
       | none => (fs, .err .other))
    | _ => (fs.put dst (.file b), .nat b.length)

open FS in
/-- Healthy semantics of one call. -/
def exec (env : Env) (fs : FS) : Call → FS × Ret
  | .mkdirP p =>
    match fs.mkdirP p with
    | .ok fs' => (fs', .unit)
    | .error e => (fs, .err e)
  | .mkTemp dir =>
    if fs.isDir dir then
      let p := dir ++ [tmpName fs.next]
      ({ (fs.put p (.file [])) with next := fs.next + 1 }, .path p)
    else (fs, .err .notFound)
  | .fallocate p n =>
    match fs.get p with
    | some (.file b) =>
      if n = 0 then (fs, .err .other)                       -- posix_fallocate(fd, 0, 0) = EINVAL
      else if b.length < n then (fs.put p (.file (b ++ zeros (n - b.length))), .unit)
      else (fs, .unit)
    | _ => (fs, .err .notFound)
  | .writeAt p off d =>
    match fs.get p with
    | some (.file b) => (fs.put p (.file (spliceAt b off d)), .nat d.length)
    | _ => (fs, .err .notFound)
  | .truncate p n =>
    match fs.get p with
    | some (.file b) => (fs.put p (.file (b.take n)), .unit)
    | _ => (fs, .err .notFound)
  | .rename src dst =>
    match fs.get src with
    | some (.file b) =>
      if !fs.isDir (parent dst) then (fs, .err .notFound)
      else if fs.get dst == some .dir then (fs, .err .other)
      else ((fs.del src).put dst (.file b), .unit)
    | _ => (fs, .err .notFound)
  | .openAppend p =>
    match fs.get p with
    | some (.file _) => (fs, .unit)
    | some .dir => (fs, .err .other)
    | some (.link _) => (fs, .err .other)
    | none => if fs.isDir (parent p) then (fs.put p (.file []), .unit) else (fs, .err .notFound)
  | .appendWrite p d =>
    match fs.get p with
    | some (.file b) => (fs.put p (.file (b ++ d)), .nat d.length)
    | _ => (fs, .err .notFound)
  | .readFile p =>
    match fs.readFile p with
    | .ok b => (fs, .bytes b)
    | .error e => (fs, .err e)
  | .existsF p => (fs, .bool (fs.existsFollow p))
  | .sizeOf p =>
    match fs.readFile p with
    | .ok b => (fs, .nat b.length)
    | .error e => (fs, .err e)
  | .unlink p =>
    match fs.get p with
    | some (.file _) => (fs.del p, .unit)
    | some (.link _) => (fs.del p, .unit)
    | some .dir => (fs, .err .other)
    | none => (fs, .err .notFound)
  | .hardLink src dst =>
    match fs.get src with
    | some (.file b) =>
      if (fs.get dst).isSome then (fs, .err .exists)
      else if !fs.isDir (parent dst) then (fs, .err .notFound)
      else (fs.put dst (.file b), .unit)
    | some (.link _) =>
      -- the library links the canonicalized source (the file that was verified), not the symlink:
      -- a relative link text would mean something else next to the destination (F28)
      match fs.readFile src with
      | .ok b =>
        if (fs.get dst).isSome then (fs, .err .exists)
        else if !fs.isDir (parent dst) then (fs, .err .notFound)
        else (fs.put dst (.file b), .unit)
      | .error e => (fs, .err e)
    | some .dir => (fs, .err .other)
    | none => (fs, .err .notFound)
  | .symlink t p =>
    if (fs.get p).isSome then (fs, .err .exists)
    else if !fs.isDir (parent p) then (fs, .err .notFound)
    else (fs.put p (.link t), .unit)
  | .copyFile src dst =>
    match fs.readFile src with
    | .ok b => copyTo fs dst b
    | .error e => (fs, .err e)
  | .reflink src dst =>
    match fs.readFile src with
    | .ok b =>
      -- reflink-copy creates the destination with O_EXCL first, then asks for the clone; whatever goes
      -- wrong, when the source path itself (lstat) is not a regular file - a symlink, as the content
      -- path of a linked entry is - the error is replaced by `InvalidInput`
      let viaLink : Bool := match fs.get src with | some (.file _) => false | _ => true
      if (fs.get dst).isSome then (fs, .err (if viaLink then .other else .exists))
      else if !fs.isDir (parent dst) then (fs, .err (if viaLink then .other else .notFound))
      else if !env.reflinkOK then (fs, .err .other)
      else (fs.put dst (.file b), .unit)
    -- ... likewise for a source that is not there at all
    | .error _ => (fs, .err .other)
  | .walk p =>
    match fs.get p with
    | some .dir => (fs, .entries ((p, true) :: (fs.below p).map (fun q => (q, fs.get q == some .dir))))
    | some _ => (fs, .entries [(p, false)])
    | none => if p = [] then (fs, .entries []) else (fs, .err .notFound)
  | .readDir p =>
    if fs.isDir p then (fs, .entries ((fs.children p).map (fun q => (q, fs.get q == some .dir))))
    else (fs, .err .notFound)
  | .removeTree p =>
    match fs.get p with
    | some .dir => (fs.delAll (p :: fs.below p), .unit)
    | some (.link _) => (fs.del p, .unit)
    | some (.file _) => (fs, .err .other)
    | none => (fs, .err .notFound)
  | .now => (fs, .nat (env.clock % (timeMax + 1)))
  | .isLink p =>
    match fs.get p with
    | some (.link _) => (fs, .bool true)
    | _ => (fs, .bool false)
  | .mkTempLink dir t =>
    if fs.isDir dir then
      let p := dir ++ [tmpName fs.next]
      ({ (fs.put p (.link t)) with next := fs.next + 1 }, .path p)
    else (fs, .err .notFound)
  | .sameFile p t =>
    match FS.resolve fs FS.resolveFuel p, FS.resolve fs FS.resolveFuel (FS.targetPath p t) with
    | some a, some b => (fs, .bool (a == b && (fs.get a).isSome))
    | _, _ => (fs, .bool false)
  | .renameLink src dst =>
    match fs.get src with
    | some (.link t) =>
      if !fs.isDir (parent dst) then (fs, .err .notFound)
      else if fs.get dst == some .dir then (fs, .err .other)
      else ((fs.del src).put dst (.link t), .unit)
    | _ => (fs, .err .notFound)

/-- Does the call change the filesystem at all (used by C15 "reads do not mutate")? -/
def Call.mutating : Call → Bool
  | .readFile _ | .existsF _ | .sizeOf _ | .walk _ | .readDir _ | .now | .isLink _ | .sameFile _ _ => false
  | _ => true

/-- The paths a call may create, change or delete. -/
def Call.touched : Call → List Path
  | .mkdirP p => FS.prefixes p
  | .mkTemp dir | .mkTempLink dir _ => [dir]          -- creates a fresh child of `dir`
  | .fallocate p _ | .writeAt p _ _ | .truncate p _ | .openAppend p | .appendWrite p _
  | .unlink p | .removeTree p => [p]
  | .rename s d | .renameLink s d => [s, d]
  | .hardLink _ d | .symlink _ d | .copyFile _ d | .reflink _ d => [d]
  | _ => []

/-- What a process kill during the call leaves behind: nothing for the atomic calls, the first
`t` bytes for data writes, the first `t` levels for `create_dir_all`, the first `t` deletions
for `remove_dir_all`. -/
def execTorn (env : Env) (fs : FS) (t : Nat) : Call → FS
  | .writeAt p off d => (exec env fs (.writeAt p off (d.take t))).1
  | .appendWrite p d => (exec env fs (.appendWrite p (d.take t))).1
  | .mkdirP p =>
    match FS.mkdirLevels fs (FS.prefixes p) t with
    | .ok fs' => fs'
    | .error _ => fs
  | .copyFile src dst =>
    match fs.readFile src with
    | .ok b => (copyTo fs dst (b.take t)).1
    | .error _ => fs
  | .removeTree p =>
    match fs.get p with
    | some .dir => fs.delAll ((fs.below p).reverse.take t)
    | _ => fs
  | _ => fs

/-- The elements of a list selected by the bits of a number (lowest bit = first element). -/
def maskSel {α : Type} : List α → Nat → List α
  | [], _ => []
  | q :: qs, m => if m % 2 = 1 then q :: maskSel qs (m / 2) else maskSel qs (m / 2)

theorem mem_maskSel {α : Type} {l : List α} {m : Nat} {q : α} (h : q ∈ maskSel l m) : q ∈ l := by
  induction l generalizing m with
  | nil => cases h
  | cons x xs ih =>
    simp only [maskSel] at h
    split at h
    · rcases List.mem_cons.mp h with rfl | h'
      · exact List.mem_cons_self
      · exact List.mem_cons_of_mem _ (ih h')
    · exact List.mem_cons_of_mem _ (ih h)

/-- What a call that returns an injected error leaves behind: by default nothing; a data write
may have written a prefix (`short` bytes) before failing, a recursive removal may have removed
some of the entries. -/
def execFail (env : Env) (fs : FS) (short : Nat) : Call → FS
  | .writeAt p off d => (exec env fs (.writeAt p off (d.take short))).1
  | .appendWrite p d => (exec env fs (.appendWrite p (d.take short))).1
  | .removeTree p =>
    -- remove_dir_all that fails half-way: some of the files and links below `p` are gone already —
    -- which ones depends on the directory order, so any subset (the bits of `short`) is possible
    match fs.get p with
    | some .dir => fs.delAll (maskSel ((fs.below p).filter (fun q => fs.get q != some .dir)) short)
    | _ => fs
  | _ => fs

end Cacache
