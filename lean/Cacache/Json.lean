/-
Executable model of `serde_json` 1.0.x (`to_string` / `from_str` on `serde_json::Value`,
default features: no `preserve_order`, no `arbitrary_precision`, no `unbounded_depth`,
no `float_roundtrip`), working on byte strings.

Reference: the version locked by /repo/Cargo.lock, serde_json 1.0.151 (float printing through
the crate `zmij` 1.0.23, which replaced `ryu` in recent serde_json releases; integer printing
through `itoa`).  Every rule below was checked against that build by the differential test
`test/JsonTest.lean` vs `test/jsonref` on the cases of `test/gen_json_cases.py`.

Design rules (this file is the subject of proofs such as `parse (render v) = some v`):
  * bytes are `List UInt8`, no `String`, no `partial`, no well-founded recursion;
  * every function is structurally recursive on a list, on a `JVal`, or on an explicit fuel `Nat`;
  * parsers have the shape `input → Option (result × rest)`;
  * bytes are tested with `if c = 34 then …` chains (easy for `simp`), not literal patterns.

What is NOT modelled (and why it does not matter for the index-line codec):
  * f64 rounding.  serde_json converts every non-integer literal to the nearest (or, without
    `float_roundtrip`, a nearly nearest) `f64` and prints the shortest decimal that reads back
    to that `f64`.  `dec mant exp` keeps the decimal value exactly.  The two agree whenever the
    literal is itself the shortest representation of the `f64` it denotes and the conversion is
    exact: at most 15 significant digits and |exponent applied to the integer significand| ≤ 22.
    Outside that region the model is NOT faithful:
      - more than 17 significant digits are rounded by serde_json (`18446744073709551616`
        prints as `1.8446744073709552e+19`), the model keeps all of them;
      - values ≥ ~1.8e308 are an ERROR in serde_json ("number out of range"), the model parses them;
      - values < ~5e-324 become `0.0` / `-0.0` in serde_json, the model keeps them.
  * error kinds and positions: only `ok` / `err` is modelled.
-/
import Cacache.Bytes

namespace Cacache.Json

open Cacache

/-! ## Values -/

/--
A `serde_json::Value`.

* `int i`: `Number` stored as `PosInt(u64)` or `NegInt(i64)`; range `-2^63 ≤ i < 2^64`.
* `dec mant exp`: `Number` stored as `Float(f64)`, value `mant * 10^exp`.
  Normal form: if `mant ≠ 0` then `mant % 10 ≠ 0`.
  **Zero convention**: `dec 0 0` is `0.0`; `dec 0 (-1)` is NEGATIVE zero `-0.0` (serde_json parses
  the literals `-0`, `-0.0`, `-0e5` to the float `-0.0` and prints it as `-0.0`; it is a
  different `Value` from `0.0` only in its printed form, and this model keeps them apart so that
  `render ∘ parse` reproduces serde_json).  No other `dec 0 e` is in normal form.
* `str s`: the UTF-8 bytes of the string, unescaped.
* `obj kvs`: `Map<String, Value>` = `BTreeMap`: keys strictly ascending in byte order.
-/
inductive JVal where
  | null
  | bool (b : Bool)
  | int (i : Int)
  | dec (mant : Int) (exp : Int)
  | str (s : Bytes)
  | arr (xs : List JVal)
  | obj (kvs : List (Bytes × JVal))
  deriving Repr, Inhabited

namespace JVal

/-! ### Decidable equality (hand written: `deriving DecidableEq` does not handle the nesting) -/

mutual
  def beq : JVal → JVal → Bool
    | .null, .null => true
    | .bool a, .bool b => a == b
    | .int a, .int b => a == b
    | .dec m e, .dec m' e' => m == m' && e == e'
    | .str a, .str b => a == b
    | .arr xs, .arr ys => beqList xs ys
    | .obj xs, .obj ys => beqMembers xs ys
    | _, _ => false
  def beqList : List JVal → List JVal → Bool
    | [], [] => true
    | x :: xs, y :: ys => beq x y && beqList xs ys
    | _, _ => false
  def beqMembers : List (Bytes × JVal) → List (Bytes × JVal) → Bool
    | [], [] => true
    | (k, x) :: xs, (k', y) :: ys => k == k' && beq x y && beqMembers xs ys
    | _, _ => false
end

mutual
  theorem eq_of_beq : ∀ (a b : JVal), beq a b = true → a = b
    | .null, b => by cases b <;> simp [beq]
    | .bool x, b => by cases b <;> simp [beq]
    | .int x, b => by cases b <;> simp [beq]
    | .dec m e, b => by cases b <;> simp [beq]
    | .str s, b => by cases b <;> simp [beq]
    | .arr xs, b => by
        cases b <;> simp [beq]
        exact eq_of_beqList xs _
    | .obj xs, b => by
        cases b <;> simp [beq]
        exact eq_of_beqMembers xs _
  theorem eq_of_beqList : ∀ (xs ys : List JVal), beqList xs ys = true → xs = ys
    | [], ys => by cases ys <;> simp [beqList]
    | x :: xs, ys => by
        cases ys with
        | nil => simp [beqList]
        | cons y ys =>
          simp only [beqList, Bool.and_eq_true, List.cons.injEq]
          exact fun h => ⟨eq_of_beq x y h.1, eq_of_beqList xs ys h.2⟩
  theorem eq_of_beqMembers : ∀ (xs ys : List (Bytes × JVal)), beqMembers xs ys = true → xs = ys
    | [], ys => by cases ys <;> simp [beqMembers]
    | (k, x) :: xs, ys => by
        cases ys with
        | nil => simp [beqMembers]
        | cons y ys =>
          obtain ⟨k', y⟩ := y
          simp only [beqMembers, Bool.and_eq_true, List.cons.injEq, Prod.mk.injEq, beq_iff_eq]
          exact fun h => ⟨⟨h.1.1, eq_of_beq x y h.1.2⟩, eq_of_beqMembers xs ys h.2⟩
end

mutual
  theorem beq_refl : ∀ (a : JVal), beq a a = true
    | .null => by simp [beq]
    | .bool _ => by simp [beq]
    | .int _ => by simp [beq]
    | .dec _ _ => by simp [beq]
    | .str _ => by simp [beq]
    | .arr xs => by simp [beq, beqList_refl xs]
    | .obj xs => by simp [beq, beqMembers_refl xs]
  theorem beqList_refl : ∀ (xs : List JVal), beqList xs xs = true
    | [] => by simp [beqList]
    | x :: xs => by simp [beqList, beq_refl x, beqList_refl xs]
  theorem beqMembers_refl : ∀ (xs : List (Bytes × JVal)), beqMembers xs xs = true
    | [] => by simp [beqMembers]
    | (_, x) :: xs => by simp [beqMembers, beq_refl x, beqMembers_refl xs]
end

instance : DecidableEq JVal := fun a b =>
  if h : beq a b = true then isTrue (eq_of_beq a b h)
  else isFalse (fun e => h (e ▸ beq_refl a))

end JVal

/-! ## Small byte helpers -/

def isWs (c : UInt8) : Bool := c = 32 || c = 9 || c = 10 || c = 13

def isDigit (c : UInt8) : Bool := 48 ≤ c && c ≤ 57

/-- Drop leading JSON whitespace (space, `\t`, `\n`, `\r`). -/
def skipWs : Bytes → Bytes
  | [] => []
  | c :: rest => if isWs c then skipWs rest else c :: rest

/-- `stripPrefix p s = some r` iff `s = p ++ r`. -/
def stripPrefix : Bytes → Bytes → Option Bytes
  | [], s => some s
  | _ :: _, [] => none
  | p :: ps, c :: cs => if p = c then stripPrefix ps cs else none

/-- Longest prefix of ASCII digits, and the rest. -/
def spanDigits : Bytes → Bytes × Bytes
  | [] => ([], [])
  | c :: rest =>
    if isDigit c then
      let r := spanDigits rest
      (c :: r.1, r.2)
    else ([], c :: rest)

/-- Value of a list of ASCII digits (most significant first); leading zeros are harmless. -/
def digitsToNat (ds : Bytes) : Nat :=
  ds.foldl (fun acc d => acc * 10 + (d.toNat - 48)) 0

/-- Strict lexicographic order on bytes = Rust's `Ord for String` = `BTreeMap<String, _>` order. -/
def bytesLt : Bytes → Bytes → Bool
  | [], [] => false
  | [], _ :: _ => true
  | _ :: _, [] => false
  | a :: as, b :: bs => if a < b then true else if a = b then bytesLt as bs else false

/-! ## UTF-8 -/

def isCont (c : UInt8) : Bool := 0x80 ≤ c && c ≤ 0xBF

/--
Exactly Rust's `core::str::from_utf8(..).is_ok()` (Unicode table 3-7 "well-formed UTF-8 byte
sequences"): no overlong forms, no surrogates `ED A0..BF`, nothing above `F4 8F BF BF`.
-/
def utf8Valid : Bytes → Bool
  | [] => true
  | b0 :: rest =>
    if b0 < 0x80 then utf8Valid rest
    else if 0xC2 ≤ b0 ∧ b0 ≤ 0xDF then
      match rest with
      | b1 :: r => isCont b1 && utf8Valid r
      | _ => false
    else if 0xE0 ≤ b0 ∧ b0 ≤ 0xEF then
      match rest with
      | b1 :: b2 :: r =>
        (if b0 = 0xE0 then 0xA0 ≤ b1 && b1 ≤ 0xBF
         else if b0 = 0xED then 0x80 ≤ b1 && b1 ≤ 0x9F
         else isCont b1)
        && isCont b2 && utf8Valid r
      | _ => false
    else if 0xF0 ≤ b0 ∧ b0 ≤ 0xF4 then
      match rest with
      | b1 :: b2 :: b3 :: r =>
        (if b0 = 0xF0 then 0x90 ≤ b1 && b1 ≤ 0xBF
         else if b0 = 0xF4 then 0x80 ≤ b1 && b1 ≤ 0x8F
         else isCont b1)
        && isCont b2 && isCont b3 && utf8Valid r
      | _ => false
    else false

/-- UTF-8 encoding of a code point `< 0x110000` (serde_json's `push_wtf8_codepoint`). -/
def encodeUtf8 (n : Nat) : Bytes :=
  if n < 0x80 then [n.toUInt8]
  else if n < 0x800 then [(0xC0 + n / 64).toUInt8, (0x80 + n % 64).toUInt8]
  else if n < 0x10000 then
    [(0xE0 + n / 4096).toUInt8, (0x80 + n / 64 % 64).toUInt8, (0x80 + n % 64).toUInt8]
  else
    [(0xF0 + n / 262144).toUInt8, (0x80 + n / 4096 % 64).toUInt8,
     (0x80 + n / 64 % 64).toUInt8, (0x80 + n % 64).toUInt8]

/-! ## Rendering (`serde_json::to_string`, `CompactFormatter`) -/

/-- serde_json's `ESCAPE` table: how one byte of a string is written. -/
def escapeByte (c : UInt8) : Bytes :=
  if c = 34 then [92, 34]            -- \"
  else if c = 92 then [92, 92]       -- \\
  else if c = 8 then [92, 98]        -- \b
  else if c = 12 then [92, 102]      -- \f
  else if c = 10 then [92, 110]      -- \n
  else if c = 13 then [92, 114]      -- \r
  else if c = 9 then [92, 116]       -- \t
  else if c < 32 then [92, 117, 48, 48, Bytes.hexDigit (c >>> 4), Bytes.hexDigit (c &&& 15)]
  else [c]                           -- incl. 0x7F and every byte ≥ 0x80

def renderStrBody : Bytes → Bytes
  | [] => []
  | c :: rest => escapeByte c ++ renderStrBody rest

/-- JSON string literal, quotes included. -/
def renderStr (s : Bytes) : Bytes := 34 :: (renderStrBody s ++ [34])

/-- Decimal digits of `n` in front of `acc`; `fuel > n` is always enough (`n + 1` is used). -/
def natDigits : Nat → Nat → Bytes → Bytes
  | 0, _, acc => acc
  | fuel + 1, n, acc =>
    let acc' := (48 + (n % 10).toUInt8) :: acc
    if n < 10 then acc' else natDigits fuel (n / 10) acc'

def renderNat (n : Nat) : Bytes := natDigits (n + 1) n []

def renderInt (i : Int) : Bytes :=
  if i < 0 then 45 :: renderNat i.natAbs else renderNat i.natAbs

/-- Exponent suffix of scientific notation as printed by `zmij`: `e+21`, `e-7`
    (explicit `+`, no zero padding).  NB `ryu`, used by serde_json < 1.0.14x, printed `e21`. -/
def renderExp (x : Int) : Bytes :=
  if x < 0 then 101 :: 45 :: renderNat x.natAbs else 101 :: 43 :: renderNat x.natAbs

/--
Float printing (zmij `write`, same layout rules as ryu's `pretty::format64`).
`ds` = digits of `|mant|`, `kk = ds.length + exp` (so `10^(kk-1) ≤ |v| < 10^kk`):
  * `0 ≤ exp ∧ kk ≤ 16`   → `ds`, `exp` zeros, `.0`            (`1234e7  → 12340000000.0`)
  * `0 < kk ≤ 16`          → `ds` with a point after `kk` digits (`1234e-2 → 12.34`)
  * `-5 < kk ≤ 0`          → `0.`, `-kk` zeros, `ds`            (`1234e-6 → 0.001234`)
  * otherwise scientific with exponent `kk - 1`: `d[.ddd]e±x`   (`1234e30 → 1.234e+33`, `1e-7`).
-/
def renderDec (mant exp : Int) : Bytes :=
  if mant = 0 then
    (if exp < 0 then [45, 48, 46, 48] else [48, 46, 48])     -- "-0.0" / "0.0"
  else
    let sign : Bytes := if mant < 0 then [45] else []
    let ds := renderNat mant.natAbs
    let kk : Int := (ds.length : Int) + exp
    sign ++
    (if 0 ≤ exp ∧ kk ≤ 16 then
      ds ++ List.replicate exp.toNat 48 ++ [46, 48]
    else if 0 < kk ∧ kk ≤ 16 then
      ds.take kk.toNat ++ 46 :: ds.drop kk.toNat
    else if -5 < kk ∧ kk ≤ 0 then
      48 :: 46 :: (List.replicate (-kk).toNat 48 ++ ds)
    else
      match ds with
      | [] => []                                              -- unreachable: `renderNat` is never empty
      | [d] => d :: renderExp (kk - 1)
      | d :: more => d :: 46 :: (more ++ renderExp (kk - 1)))

mutual
  /-- Compact rendering.  No recursion limit on this side. -/
  def render : JVal → Bytes
    | .null => [110, 117, 108, 108]
    | .bool true => [116, 114, 117, 101]
    | .bool false => [102, 97, 108, 115, 101]
    | .int i => renderInt i
    | .dec m e => renderDec m e
    | .str s => renderStr s
    | .arr [] => [91, 93]
    | .arr (x :: xs) => 91 :: (render x ++ renderElems xs)
    | .obj [] => [123, 125]
    | .obj ((k, v) :: kvs) => 123 :: (renderStr k ++ 58 :: (render v ++ renderMembers kvs))
  /-- The elements after the first one, each preceded by `,`, then the closing `]`. -/
  def renderElems : List JVal → Bytes
    | [] => [93]
    | x :: xs => 44 :: (render x ++ renderElems xs)
  /-- The members after the first one, each preceded by `,`, then the closing `}`. -/
  def renderMembers : List (Bytes × JVal) → Bytes
    | [] => [125]
    | (k, v) :: kvs => 44 :: (renderStr k ++ 58 :: (render v ++ renderMembers kvs))
end

/-! ## Parsing strings -/

def hexVal (c : UInt8) : Option Nat :=
  if 48 ≤ c ∧ c ≤ 57 then some (c.toNat - 48)
  else if 97 ≤ c ∧ c ≤ 102 then some (c.toNat - 87)
  else if 65 ≤ c ∧ c ≤ 70 then some (c.toNat - 55)
  else none

/-- Four hex digits (either case) → value `< 0x10000`, and the rest. -/
def hex4 : Bytes → Option (Nat × Bytes)
  | a :: b :: c :: d :: rest =>
    match hexVal a, hexVal b, hexVal c, hexVal d with
    | some x, some y, some z, some w => some (((x * 16 + y) * 16 + z) * 16 + w, rest)
    | _, _, _, _ => none
  | _ => none

/--
Input starts right after `\u`.  A high surrogate must be followed immediately by `\uDC00..DFFF`
and the pair becomes one code point; any lone surrogate is an error (serde_json with
`validate = true`, the mode used for `String`).
-/
def parseUnicodeEscape (input : Bytes) : Option (Bytes × Bytes) :=
  match hex4 input with
  | none => none
  | some (n, rest) =>
    if 0xDC00 ≤ n ∧ n ≤ 0xDFFF then none
    else if 0xD800 ≤ n ∧ n ≤ 0xDBFF then
      match rest with
      | b1 :: b2 :: rest2 =>
        if b1 = 92 ∧ b2 = 117 then
          match hex4 rest2 with
          | none => none
          | some (n2, rest3) =>
            if 0xDC00 ≤ n2 ∧ n2 ≤ 0xDFFF then
              some (encodeUtf8 (0x10000 + (n - 0xD800) * 1024 + (n2 - 0xDC00)), rest3)
            else none
        else none
      | _ => none
    else some (encodeUtf8 n, rest)

/-- Input starts right after the backslash.  Returns the bytes the escape stands for. -/
def parseEscape : Bytes → Option (Bytes × Bytes)
  | [] => none
  | c :: rest =>
    if c = 34 then some ([34], rest)
    else if c = 92 then some ([92], rest)
    else if c = 47 then some ([47], rest)
    else if c = 98 then some ([8], rest)
    else if c = 102 then some ([12], rest)
    else if c = 110 then some ([10], rest)
    else if c = 114 then some ([13], rest)
    else if c = 116 then some ([9], rest)
    else if c = 117 then parseUnicodeEscape rest
    else none

/-- `acc` holds the bytes decoded so far, reversed.  One unit of fuel per raw byte or escape. -/
def parseStrAux : Nat → Bytes → Bytes → Option (Bytes × Bytes)
  | 0, _, _ => none
  | fuel + 1, acc, input =>
    match input with
    | [] => none
    | c :: rest =>
      if c = 34 then some (acc.reverse, rest)
      else if c = 92 then
        match parseEscape rest with
        | none => none
        | some (bs, rest') => parseStrAux fuel (bs.reverse ++ acc) rest'
      else if c < 32 then none                 -- raw control character
      else parseStrAux fuel (c :: acc) rest

/-- Input starts right AFTER the opening quote; returns (unescaped bytes, rest after the closing
    quote).  `fuel ≥ input.length + 1` is always enough. -/
def parseStrLit (fuel : Nat) (input : Bytes) : Option (Bytes × Bytes) :=
  parseStrAux fuel [] input

/-! ## Parsing numbers -/

/--
Float from sign, all significand digits (integer part ++ fraction part) and decimal exponent:
trailing zeros of the significand move into the exponent; a zero significand gives
`dec 0 0` (`0.0`) or `dec 0 (-1)` (`-0.0`) whatever the exponent.
-/
def mkDec (neg : Bool) (digits : Bytes) (exp : Int) : JVal :=
  let r := digits.reverse
  let z := (r.takeWhile (· = 48)).length
  let m := digitsToNat (r.drop z).reverse
  if m = 0 then .dec 0 (if neg then -1 else 0)
  else .dec (if neg then -(m : Int) else (m : Int)) (exp + (z : Int))

/--
Integer literal without fraction and exponent (serde_json `parse_number` / `parse_long_integer`):
`u64` if non-negative and `< 2^64`; `i64` if negative and `≥ -2^63`; `-0` is the FLOAT `-0.0`;
everything else overflows into a float.
-/
def mkInt (neg : Bool) (digits : Bytes) : JVal :=
  let n := digitsToNat digits
  if neg then
    if n = 0 then .dec 0 (-1)
    else if n ≤ 9223372036854775808 then .int (-(n : Int))
    else mkDec true digits 0
  else
    if n < 18446744073709551616 then .int (n : Int)
    else mkDec false digits 0

/-- Optional fraction.  `some ([], s)`: no `.` present.  `.` without a digit → `none`. -/
def parseFrac : Bytes → Option (Bytes × Bytes)
  | [] => some ([], [])
  | c :: rest =>
    if c = 46 then
      let r := spanDigits rest
      if r.1 = [] then none else some r
    else some ([], c :: rest)

/-- Optional exponent `[eE][+-]?[0-9]+`.  `some (none, s)`: no exponent present. -/
def parseExp : Bytes → Option (Option Int × Bytes)
  | [] => some (none, [])
  | c :: rest =>
    if c = 101 ∨ c = 69 then
      match rest with
      | [] => none
      | s :: rest' =>
        let negExp := s = 45
        let r := spanDigits (if s = 43 ∨ s = 45 then rest' else s :: rest')
        if r.1 = [] then none
        else
          let e : Int := digitsToNat r.1
          some (some (if negExp then -e else e), r.2)
    else some (none, c :: rest)

/-- Input starts at the `-` or at the first digit. -/
def parseNumber (input : Bytes) : Option (JVal × Bytes) :=
  match input with
  | [] => none
  | c :: rest =>
    let neg : Bool := c = 45
    let r := spanDigits (if c = 45 then rest else c :: rest)
    let ds := r.1
    -- `0 | [1-9][0-9]*`: at least one digit, and a leading `0` must stand alone
    if ds = [] ∨ (ds.head? = some 48 ∧ ds.length ≠ 1) then none
    else
      match parseFrac r.2 with
      | none => none
      | some (fs, s2) =>
        match parseExp s2 with
        | none => none
        | some (ex, s3) =>
          if fs = [] ∧ ex = none then some (mkInt neg ds, s3)
          else some (mkDec neg (ds ++ fs) (ex.getD 0 - (fs.length : Int)), s3)

/-! ## Parsing values -/

/-- `BTreeMap::insert` on the sorted association list: a duplicate key keeps its place and takes
    the NEW value (so the last duplicate in a document wins). -/
def insertKV (k : Bytes) (v : JVal) : List (Bytes × JVal) → List (Bytes × JVal)
  | [] => [(k, v)]
  | (k', v') :: rest =>
    if bytesLt k k' then (k, v) :: (k', v') :: rest
    else if k = k' then (k, v) :: rest
    else (k', v') :: insertKV k v rest

/--
serde_json's `remaining_depth` starts at 128, is decremented on entering every array or object
and the document is rejected when it reaches 0.  Measured: nesting depth 127 parses, nesting
depth 128 fails ("recursion limit exceeded"), for arrays, objects and any mix.  In this model
`depth` is the number of nesting levels still allowed, so the top level starts with 127.
-/
def maxNesting : Nat := 127

mutual
  /--
  One JSON value after optional whitespace; returns the rest of the input.
  `depth`: how many more levels of array/object may be entered.
  `fuel`: bound on the length of any chain of nested calls; every call consumes at least one
  byte before it recurses, so `input.length + 1` is always enough.
  -/
  def parseValue (depth : Nat) (fuel : Nat) (input : Bytes) : Option (JVal × Bytes) :=
    match fuel with
    | 0 => none
    | fuel + 1 =>
      match skipWs input with
      | [] => none
      | c :: rest =>
        if c = 110 then (stripPrefix [117, 108, 108] rest).map (fun r => (JVal.null, r))
        else if c = 116 then (stripPrefix [114, 117, 101] rest).map (fun r => (JVal.bool true, r))
        else if c = 102 then
          (stripPrefix [97, 108, 115, 101] rest).map (fun r => (JVal.bool false, r))
        else if c = 34 then
          match parseStrLit (rest.length + 1) rest with
          | none => none
          | some (s, r) => some (.str s, r)
        else if c = 91 then          -- [
          match depth with
          | 0 => none
          | depth + 1 =>
            match skipWs rest with
            | [] => none
            | c' :: rest' =>
              if c' = 93 then some (.arr [], rest')
              else
                match parseValue depth fuel (c' :: rest') with
                | none => none
                | some (v, r) => parseElems depth fuel [v] r
        else if c = 123 then         -- {
          match depth with
          | 0 => none
          | depth + 1 =>
            match skipWs rest with
            | [] => none
            | c' :: rest' =>
              if c' = 125 then some (.obj [], rest')
              else parseMembers depth fuel [] (c' :: rest')
        else if c = 45 ∨ isDigit c then parseNumber (c :: rest)
        else none
  /-- After an array element: `,` value … or `]`.  `acc` = elements so far, reversed. -/
  def parseElems (depth : Nat) (fuel : Nat) (acc : List JVal) (input : Bytes) :
      Option (JVal × Bytes) :=
    match fuel with
    | 0 => none
    | fuel + 1 =>
      match skipWs input with
      | [] => none
      | c :: rest =>
        if c = 93 then some (.arr acc.reverse, rest)
        else if c = 44 then
          match parseValue depth fuel rest with
          | none => none
          | some (v, r) => parseElems depth fuel (v :: acc) r
        else none
  /-- Where a member must start: `"key" : value` then `,` member … or `}`.
      `acc` = the map built so far (sorted, see `insertKV`). -/
  def parseMembers (depth : Nat) (fuel : Nat) (acc : List (Bytes × JVal)) (input : Bytes) :
      Option (JVal × Bytes) :=
    match fuel with
    | 0 => none
    | fuel + 1 =>
      match skipWs input with
      | [] => none
      | q :: rest =>
        if q = 34 then
          match parseStrLit (rest.length + 1) rest with
          | none => none
          | some (k, r1) =>
            match skipWs r1 with
            | [] => none
            | c :: r2 =>
              if c = 58 then
                match parseValue depth fuel r2 with
                | none => none
                | some (v, r3) =>
                  match skipWs r3 with
                  | [] => none
                  | c' :: r4 =>
                    if c' = 125 then some (.obj (insertKV k v acc), r4)
                    else if c' = 44 then parseMembers depth fuel (insertKV k v acc) r4
                    else none
              else none
        else none
end

/-- `serde_json::from_str::<Value>` on valid UTF-8 input: one value, whitespace around it,
    nothing else. -/
def parse (input : Bytes) : Option JVal :=
  match parseValue maxNesting (input.length + 1) input with
  | none => none
  | some (v, rest) =>
    match skipWs rest with
    | [] => some v
    | _ :: _ => none

/-! ## Well-formedness (the domain on which `parse (render v) = some v` is claimed) -/

/-- Strictly ascending keys. -/
def keysSorted : List (Bytes × JVal) → Bool
  | [] => true
  | [_] => true
  | (k, _) :: (k', v') :: rest => bytesLt k k' && keysSorted ((k', v') :: rest)

mutual
  /-- Everything `parse` can return satisfies `wf`; see the doc comment of `JVal`. -/
  def JVal.wf : JVal → Bool
    | .null => true
    | .bool _ => true
    | .int i => decide (-9223372036854775808 ≤ i) && decide (i < 18446744073709551616)
    | .dec m e => if m = 0 then e = 0 || e = -1 else m % 10 ≠ 0
    | .str s => utf8Valid s
    | .arr xs => wfList xs
    | .obj kvs => keysSorted kvs && wfMembers kvs
  def wfList : List JVal → Bool
    | [] => true
    | x :: xs => x.wf && wfList xs
  def wfMembers : List (Bytes × JVal) → Bool
    | [] => true
    | (k, v) :: kvs => utf8Valid k && v.wf && wfMembers kvs
end

mutual
  /-- Nesting depth: scalars 0, `[]` and `{}` 1.  `parse` accepts exactly depth `≤ maxNesting`. -/
  def JVal.depth : JVal → Nat
    | .arr xs => depthList xs + 1
    | .obj kvs => depthMembers kvs + 1
    | _ => 0
  def depthList : List JVal → Nat
    | [] => 0
    | x :: xs => max x.depth (depthList xs)
  def depthMembers : List (Bytes × JVal) → Nat
    | [] => 0
    | (_, v) :: kvs => max v.depth (depthMembers kvs)
end

end Cacache.Json
