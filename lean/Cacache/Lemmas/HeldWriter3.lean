/-
A writer HELD OPEN across other operations, WITH A DECLARED INTEGRITY.

`HeldWriter.held_commit_refines` needs `PutWF.nosri` (no declared integrity).  `DeclRefine` lifts
that restriction for back-to-back writes (`run_putKeyed'`, `declared_mismatch_total`,
`declared_match_total`).  Here both are combined: open + feed from a healthy `fs0` (state `fs1`),
ANY healthy `fs2` that kept the node at the writer's temp path, then `wcommit` from `fs2`.

* `held_commit_phase` — the content phase: the run of `wcommit` from `fs2` is the run of the commit
  tail from a state `fs3` in which the content is published (store of `fs2` + the address of the
  bytes), the index is that of `fs2`, the temp file is gone.
* `held_commit_refines'` — `held_commit_refines` for EVERY `o.sri`, under `DeclRefine.PutWF'`.
* `held_commit_declared_mismatch` / `held_commit_declared_match` / `held_commit_declared` — the
  analogues of `DeclRefine.declared_mismatch_total` / `declared_match_total`.
* `held_commit_declared_unkeyed` — the by-address writer (`declared_putHash_mismatch` / `_match`).
* two non-vacuity `example`s (real SHA configuration, empty filesystem, `remove` of the key between
  the last chunk and the commit).

The predicate "the declaration is (not) satisfied" is DeclRefine's: `Sri.declaredOk s wsri`
(`= none` / `.isSome`), `wsri` = the integrity computed from the bytes fed.  No existing file edited.
-/
import Cacache.Lemmas.HeldWriter2
import Cacache.Lemmas.DeclRefine

namespace Cacache.HeldWriter3
open Prog Json Refine CacheRefine ListRefine HeldWriter HeldWriter2 DeclRefine

variable (cfg : Cfg) (cache : Path)

/-- **The content phase of the commit of a held writer** (keyed or not, any options).  Open + feed
from `fs0` (`h0`: healthy, used only so that the open phase succeeds; `hopen` / `hfs1` name its
outcome), `fs2` any healthy state (`h2`) that kept the node at the writer's temp path (`hkeep`),
`hl`: hex digests have ≥ 4 characters.  Then the run of `wcommit` from `fs2` is the run of the commit
tail (declaration checks + index step) from a state `fs3` in which the content is published: store
and index healthy, the store is that of `fs2` with the address of the bytes mapped to the bytes, the
index is that of `fs2`, the temp file is gone and the other entries of `cache/tmp` are as in `fs2`. -/
theorem held_commit_phase (env env' : Env) (fl : Flavour) (key : Option Bytes) (o : WriteOpts)
    (chunks : List Bytes) (fs0 fs1 fs2 : FS) (w : Writer)
    (h0 : Healthy cfg cache fs0) (hl : HexLen cfg)
    (hopen : (run env (heldOpen cfg cache fl key o chunks) fs0).1 = .ok w)
    (hfs1 : (run env (heldOpen cfg cache fl key o chunks) fs0).2.1 = fs1)
    (h2 : Healthy cfg cache fs2)
    (hkeep : fs2.get w.tmp = fs1.get w.tmp) :
    ∃ fs3,
      (run env' (wcommit cfg w) fs2).1 =
        (run env' (commitTail cfg w (Sri.compute cfg.H (o.algo.getD .sha256) chunks.flatten)) fs3).1 ∧
      (run env' (wcommit cfg w) fs2).2.1 =
        (run env' (commitTail cfg w (Sri.compute cfg.H (o.algo.getD .sha256) chunks.flatten)) fs3).2.1 ∧
      w.cache = cache ∧ w.key = key ∧ w.opts = o ∧ w.written = chunks.flatten.length ∧
      HealthyStore cfg cache fs3 ∧ HealthyIndex cfg cache fs3 ∧
      absStore cache fs3 = (absStore cache fs2).set (o.algo.getD .sha256)
        (Bytes.hex (cfg.H (o.algo.getD .sha256) chunks.flatten)) (some chunks.flatten) ∧
      absIndex cfg cache fs3 = absIndex cfg cache fs2 ∧
      fs3.get w.tmp = none ∧
      ∀ n, (cache ++ [dTmp]) ++ [n] ≠ w.tmp →
        fs3.get ((cache ++ [dTmp]) ++ [n]) = fs2.get ((cache ++ [dTmp]) ++ [n]) := by
  obtain ⟨w0, r0, hc, hk, ho, hwr, hhash, halg, ht, inv1, -, -⟩ :=
    run_heldOpen cfg cache env fl key o chunks fs0 h0.store.tmpDirs
  rw [hopen] at r0
  have hw0 : w = w0 := Except.ok.inj r0
  subst hw0
  rw [hfs1] at inv1
  have inv2 : WInv w fs2 := winv_of_get inv1 hkeep
  obtain ⟨fs3, e1, e2, hp⟩ := run_wcommit_phase cfg cache env' w fs2 fs0.next h2.store hl hc ht inv2
  rw [halg, hhash] at e1 e2 hp
  obtain ⟨hS3, hA3⟩ := putFrame_store cfg cache (healthyStore_withNext cfg cache h2.store fs0.next) hp
  obtain ⟨hI3, hB3⟩ := putFrame_index cfg cache (healthyIndex_withNext cfg cache h2.index fs0.next) hp
  have hT3 := putFrame_tmp cfg cache hp
  refine ⟨fs3, e1, e2, hc, hk, ho, hwr, hS3, hI3, hA3, hB3, by rw [ht]; exact hT3.1, ?_⟩
  intro n hn
  apply hT3.2 n
  intro e
  apply hn
  rw [ht, e]; rfl

/-- **`held_commit_refines` for EVERY `o.sri`**: the commit of a held keyed writer refines the
abstract `put` step `putSpec` on the state it finds, declared integrity or not.  Hypotheses as in
`HeldWriter.held_commit_refines`, with `hw : PutWF'` (`DeclRefine`: Rust-typed options, byte count
fits `usize`, a declared integrity survives `print` → `parse`) in the place of `PutWF`. -/
theorem held_commit_refines' (env env' : Env) (fl : Flavour) (k : Bytes) (o : WriteOpts)
    (chunks : List Bytes) (fs0 fs1 fs2 : FS) (w : Writer)
    (h0 : Healthy cfg cache fs0) (hl : HexLen cfg) (hw : PutWF' k o chunks)
    (hopen : (run env (heldOpen cfg cache fl (some k) o chunks) fs0).1 = .ok w)
    (hfs1 : (run env (heldOpen cfg cache fl (some k) o chunks) fs0).2.1 = fs1)
    (h2 : Healthy cfg cache fs2)
    (hkeep : fs2.get w.tmp = fs1.get w.tmp) :
    (run env' (wcommit cfg w) fs2).1 = (putSpec cfg env' (absCache cfg cache fs2) k o chunks).2 ∧
    absCache cfg cache (run env' (wcommit cfg w) fs2).2.1 =
      (putSpec cfg env' (absCache cfg cache fs2) k o chunks).1 ∧
    Healthy cfg cache (run env' (wcommit cfg w) fs2).2.1 ∧
    (run env' (wcommit cfg w) fs2).2.1.get w.tmp = none ∧
    ∀ n, (cache ++ [dTmp]) ++ [n] ≠ w.tmp →
      (run env' (wcommit cfg w) fs2).2.1.get ((cache ++ [dTmp]) ++ [n]) = fs2.get ((cache ++ [dTmp]) ++ [n]) := by
  obtain ⟨fs3, e1, e2, hc, hk, ho, hwr, hS3, hI3, hA3, hB3, hT3a, hT3b⟩ :=
    held_commit_phase cfg cache env env' fl (some k) o chunks fs0 fs1 fs2 w h0 hl hopen hfs1 h2 hkeep
  rw [e1, e2]
  unfold commitTail putSpec
  rw [commitChecks_eq, ho, hwr]
  cases hck : declCheck o chunks.flatten.length (Sri.compute cfg.H (o.algo.getD .sha256) chunks.flatten) with
  | error e =>
    refine ⟨rfl, ?_, ⟨hI3, hS3⟩, hT3a, hT3b⟩
    simp only [pure_eq, run_done_fs, absCache, hA3, hB3]
  | ok recorded =>
    have hrec : recorded = o.sri.getD (Sri.compute cfg.H (o.algo.getD .sha256) chunks.flatten) :=
      declCheck_recorded hck
    have hrwf : Sri.WF recorded := by
      rw [hrec]
      cases hs : o.sri with
      | none => exact Sri.compute_wf _ _ _
      | some s => exact hw.opts.sri s hs
    have hrt : SriRT recorded := by
      rw [hrec]
      cases hs : o.sri with
      | none => exact sriRT_compute _ _ _
      | some s => exact hw.rt s hs
    simp only [wcommitIndex, hk, hc, ho, hwr]
    have hsz : o.size.getD chunks.flatten.length ≤ Rec.u64Max := by
      cases hs : o.size with
      | none => exact hw.len
      | some n => exact hw.opts.size n hs
    have hwf : OptsWF k { o with sri := some recorded, size := some (o.size.getD chunks.flatten.length) } :=
      ⟨hw.opts.key, hw.opts.time, fun m hm => by cases hm; exact hsz,
        fun s hs => by cases hs; exact hrwf, hw.opts.md⟩
    obtain ⟨hI4, hO4, hK4⟩ := insert_refines_gen cfg cache env' k _ fs3 hI3 hwf
    obtain ⟨hS4, hB4⟩ := insert_store cfg cache env' k
      { o with sri := some recorded, size := some (o.size.getD chunks.flatten.length) } fs3 hI3 hS3
    have hfr := (run_insert cfg cache env' k
      { o with sri := some recorded, size := some (o.size.getD chunks.flatten.length) } fs3 hI3).2.2
    have keep : ∀ n, (run env' (insert cfg cache k
        { o with sri := some recorded, size := some (o.size.getD chunks.flatten.length) }) fs3).2.1.get
          ((cache ++ [dTmp]) ++ [n]) = fs3.get ((cache ++ [dTmp]) ++ [n]) := by
      intro n
      rcases hfr _ (bucket_ne_tmp cfg cache k n).symm with g | ⟨_, _, g⟩
      · exact g
      · exact absurd g (tmp_not_prefix_parent_bucket cfg cache n k)
    obtain ⟨m, hm⟩ : ∃ m, w.tmp = (cache ++ [dTmp]) ++ [m] := by
      obtain ⟨w0, r0, _, _, _, _, _, _, ht, _⟩ :=
        run_heldOpen cfg cache env fl (some k) o chunks fs0 h0.store.tmpDirs
      rw [hopen] at r0
      have hw0 : w = w0 := Except.ok.inj r0
      subst hw0
      exact ⟨tmpName fs0.next, ht⟩
    refine ⟨?_, ?_, ⟨hI4, hS4⟩, ?_, ?_⟩
    · rw [(run_insert cfg cache env' k _ fs3 hI3).1]; rfl
    · have hK := hK4 (fun s hs => by cases hs; exact hrt)
      simp only [absCache, hB4, hA3]
      congr 1
      funext k'
      by_cases e : k' = k
      · subst e; rw [hK, if_pos rfl]
      · rw [hO4 k' e, hB3, if_neg e]
    · rw [hm, keep, ← hm]; exact hT3a
    · intro n hn
      rw [keep]; exact hT3b n hn

/-- **A held keyed writer whose declared integrity the bytes fed do NOT satisfy** — the analogue of
`DeclRefine.declared_mismatch_total`.  Open + feed from a healthy `fs0` (`h0`; state `fs1`, writer
`w`: `hopen`, `hfs1`), `fs2` any healthy state (`h2`) that kept the node at the temp path (`hkeep`),
`hl`: hex digests have ≥ 4 characters; `hs`: the options declare `s`; `hm`: `Sri.declaredOk` rejects
`s` for the integrity computed from the bytes fed.  No well-formedness of key or options needed.
Then `wcommit` from `fs2` answers `.error .integrity` (whatever the size declaration); the abstract
index is that of `fs2` — every lookup of every key as in `fs2`; the content WAS published: the store
is that of `fs2` with the address of the bytes mapped to the bytes (publication comes before the
check, as `DeclRefine` proves for the back-to-back write); healthy; the temp file is gone and every
other entry of `cache/tmp` is as in `fs2`. -/
theorem held_commit_declared_mismatch (env env' : Env) (fl : Flavour) (k : Bytes) (o : WriteOpts)
    (chunks : List Bytes) (fs0 fs1 fs2 : FS) (w : Writer)
    (h0 : Healthy cfg cache fs0) (hl : HexLen cfg)
    (hopen : (run env (heldOpen cfg cache fl (some k) o chunks) fs0).1 = .ok w)
    (hfs1 : (run env (heldOpen cfg cache fl (some k) o chunks) fs0).2.1 = fs1)
    (h2 : Healthy cfg cache fs2)
    (hkeep : fs2.get w.tmp = fs1.get w.tmp)
    (s : Integrity) (hs : o.sri = some s)
    (hm : Sri.declaredOk s (Sri.compute cfg.H (o.algo.getD .sha256) chunks.flatten) = none) :
    (run env' (wcommit cfg w) fs2).1 = .error .integrity ∧
    absIndex cfg cache (run env' (wcommit cfg w) fs2).2.1 = absIndex cfg cache fs2 ∧
    absStore cache (run env' (wcommit cfg w) fs2).2.1 =
      (absStore cache fs2).set (o.algo.getD .sha256)
        (Bytes.hex (cfg.H (o.algo.getD .sha256) chunks.flatten)) (some chunks.flatten) ∧
    Healthy cfg cache (run env' (wcommit cfg w) fs2).2.1 ∧
    (run env' (wcommit cfg w) fs2).2.1.get w.tmp = none ∧
    ∀ n, (cache ++ [dTmp]) ++ [n] ≠ w.tmp →
      (run env' (wcommit cfg w) fs2).2.1.get ((cache ++ [dTmp]) ++ [n]) = fs2.get ((cache ++ [dTmp]) ++ [n]) := by
  obtain ⟨fs3, e1, e2, hc, hk, ho, hwr, hS3, hI3, hA3, hB3, hT3a, hT3b⟩ :=
    held_commit_phase cfg cache env env' fl (some k) o chunks fs0 fs1 fs2 w h0 hl hopen hfs1 h2 hkeep
  rw [e1, e2]
  unfold commitTail
  rw [commitChecks_eq, ho, hwr, declCheck_mismatch _ hs hm]
  exact ⟨rfl, hB3, hA3, ⟨hI3, hS3⟩, hT3a, hT3b⟩

/-- … hence every lookup after the rejected late commit answers as on the state the commit found. -/
theorem held_commit_declared_mismatch_find (env env' env'' : Env) (fl : Flavour) (k : Bytes)
    (o : WriteOpts) (chunks : List Bytes) (fs0 fs1 fs2 : FS) (w : Writer)
    (h0 : Healthy cfg cache fs0) (hl : HexLen cfg)
    (hopen : (run env (heldOpen cfg cache fl (some k) o chunks) fs0).1 = .ok w)
    (hfs1 : (run env (heldOpen cfg cache fl (some k) o chunks) fs0).2.1 = fs1)
    (h2 : Healthy cfg cache fs2)
    (hkeep : fs2.get w.tmp = fs1.get w.tmp)
    (s : Integrity) (hs : o.sri = some s)
    (hm : Sri.declaredOk s (Sri.compute cfg.H (o.algo.getD .sha256) chunks.flatten) = none) (k' : Bytes) :
    (run env'' (find cfg cache k') (run env' (wcommit cfg w) fs2).2.1).1 =
      (run env'' (find cfg cache k') fs2).1 := by
  obtain ⟨_, hI, _, hH, _⟩ := held_commit_declared_mismatch cfg cache env env' fl k o chunks fs0 fs1 fs2 w
    h0 hl hopen hfs1 h2 hkeep s hs hm
  rw [(run_find cfg cache env'' k' _ hH.index).1, (run_find cfg cache env'' k' fs2 h2.index).1, hI]

/-- **A held keyed writer whose declared integrity the bytes fed DO satisfy** — the analogue of
`DeclRefine.declared_match_total`.  Hypotheses as in `held_commit_declared_mismatch`, plus `hw`
(`PutWF'`: Rust-typed options, byte count fits `usize`, the declared integrity survives its text
form — needed because the index record stores the TEXT), `hm`: `Sri.declaredOk` accepts `s`, `hz`:
no declared size or the right one.  Then `wcommit` from `fs2` answers `.ok s` — the DECLARED
integrity —; the key maps to the entry carrying `s` (`insEntry_declared` spells it out); every other
key looks up as in `fs2`; the store gains the address of the bytes; healthy; the temp file is gone
and every other entry of `cache/tmp` is as in `fs2`. -/
theorem held_commit_declared_match (env env' : Env) (fl : Flavour) (k : Bytes) (o : WriteOpts)
    (chunks : List Bytes) (fs0 fs1 fs2 : FS) (w : Writer)
    (h0 : Healthy cfg cache fs0) (hl : HexLen cfg) (hw : PutWF' k o chunks)
    (hopen : (run env (heldOpen cfg cache fl (some k) o chunks) fs0).1 = .ok w)
    (hfs1 : (run env (heldOpen cfg cache fl (some k) o chunks) fs0).2.1 = fs1)
    (h2 : Healthy cfg cache fs2)
    (hkeep : fs2.get w.tmp = fs1.get w.tmp)
    (s : Integrity) (hs : o.sri = some s)
    (hm : (Sri.declaredOk s (Sri.compute cfg.H (o.algo.getD .sha256) chunks.flatten)).isSome)
    (hz : o.size = none ∨ o.size = some chunks.flatten.length) :
    (run env' (wcommit cfg w) fs2).1 = .ok s ∧
    absIndex cfg cache (run env' (wcommit cfg w) fs2).2.1 k =
      insEntry env' k { o with sri := some s, size := some (o.size.getD chunks.flatten.length) } ∧
    (∀ k', k' ≠ k → absIndex cfg cache (run env' (wcommit cfg w) fs2).2.1 k' = absIndex cfg cache fs2 k') ∧
    absStore cache (run env' (wcommit cfg w) fs2).2.1 =
      (absStore cache fs2).set (o.algo.getD .sha256)
        (Bytes.hex (cfg.H (o.algo.getD .sha256) chunks.flatten)) (some chunks.flatten) ∧
    Healthy cfg cache (run env' (wcommit cfg w) fs2).2.1 ∧
    (run env' (wcommit cfg w) fs2).2.1.get w.tmp = none ∧
    ∀ n, (cache ++ [dTmp]) ++ [n] ≠ w.tmp →
      (run env' (wcommit cfg w) fs2).2.1.get ((cache ++ [dTmp]) ++ [n]) = fs2.get ((cache ++ [dTmp]) ++ [n]) := by
  obtain ⟨a1, a2, a3, a4, a5⟩ :=
    held_commit_refines' cfg cache env env' fl k o chunks fs0 fs1 fs2 w h0 hl hw hopen hfs1 h2 hkeep
  rw [putSpec_match cfg env' _ k o chunks s hs hm hz] at a1 a2
  have hi : absIndex cfg cache (run env' (wcommit cfg w) fs2).2.1 = _ := congrArg AbsCache.index a2
  have hst : absStore cache (run env' (wcommit cfg w) fs2).2.1 = _ := congrArg AbsCache.store a2
  refine ⟨a1, ?_, ?_, hst, a3, a4, a5⟩
  · rw [hi]; exact if_pos rfl
  · intro k' hk'
    rw [hi]
    simp only [if_neg hk']
    rfl

/-- **`held_commit_declared`**: both cases in one statement.  A keyed writer whose options declare the
integrity `s` (`hs`) is opened and fed from a healthy `fs0` (`h0`, `hopen`, `hfs1`), held open while
the cache moves to ANY healthy `fs2` (`h2`) that kept the node at the temp path (`hkeep`), then
committed (`hl`: hex digests have ≥ 4 characters).
* Declaration NOT satisfied (`Sri.declaredOk … = none`): integrity error, index as in `fs2`, content
  published all the same, healthy, temp file gone.
* Declaration satisfied, size declaration absent or right, caller respects `PutWF'`: `.ok s`, the
  key maps to the declared entry, other keys as in `fs2`, store gains the address, healthy, temp
  file gone. -/
theorem held_commit_declared (env env' : Env) (fl : Flavour) (k : Bytes) (o : WriteOpts)
    (chunks : List Bytes) (fs0 fs1 fs2 : FS) (w : Writer)
    (h0 : Healthy cfg cache fs0) (hl : HexLen cfg)
    (hopen : (run env (heldOpen cfg cache fl (some k) o chunks) fs0).1 = .ok w)
    (hfs1 : (run env (heldOpen cfg cache fl (some k) o chunks) fs0).2.1 = fs1)
    (h2 : Healthy cfg cache fs2)
    (hkeep : fs2.get w.tmp = fs1.get w.tmp)
    (s : Integrity) (hs : o.sri = some s) :
    (Sri.declaredOk s (Sri.compute cfg.H (o.algo.getD .sha256) chunks.flatten) = none →
      (run env' (wcommit cfg w) fs2).1 = .error .integrity ∧
      absIndex cfg cache (run env' (wcommit cfg w) fs2).2.1 = absIndex cfg cache fs2 ∧
      absStore cache (run env' (wcommit cfg w) fs2).2.1 =
        (absStore cache fs2).set (o.algo.getD .sha256)
          (Bytes.hex (cfg.H (o.algo.getD .sha256) chunks.flatten)) (some chunks.flatten) ∧
      Healthy cfg cache (run env' (wcommit cfg w) fs2).2.1 ∧
      (run env' (wcommit cfg w) fs2).2.1.get w.tmp = none) ∧
    ((Sri.declaredOk s (Sri.compute cfg.H (o.algo.getD .sha256) chunks.flatten)).isSome →
      (o.size = none ∨ o.size = some chunks.flatten.length) → PutWF' k o chunks →
      (run env' (wcommit cfg w) fs2).1 = .ok s ∧
      absIndex cfg cache (run env' (wcommit cfg w) fs2).2.1 k =
        some { key := k, sri := s, time := stamp env' o, size := chunks.flatten.length,
               metadata := o.metadata.getD .null, raw := o.raw } ∧
      (∀ k', k' ≠ k → absIndex cfg cache (run env' (wcommit cfg w) fs2).2.1 k' = absIndex cfg cache fs2 k') ∧
      absStore cache (run env' (wcommit cfg w) fs2).2.1 =
        (absStore cache fs2).set (o.algo.getD .sha256)
          (Bytes.hex (cfg.H (o.algo.getD .sha256) chunks.flatten)) (some chunks.flatten) ∧
      Healthy cfg cache (run env' (wcommit cfg w) fs2).2.1 ∧
      (run env' (wcommit cfg w) fs2).2.1.get w.tmp = none) := by
  constructor
  · intro hm
    obtain ⟨b1, b2, b3, b4, b5, _⟩ := held_commit_declared_mismatch cfg cache env env' fl k o chunks
      fs0 fs1 fs2 w h0 hl hopen hfs1 h2 hkeep s hs hm
    exact ⟨b1, b2, b3, b4, b5⟩
  · intro hm hz hw
    obtain ⟨b1, b2, b3, b4, b5, b6, _⟩ := held_commit_declared_match cfg cache env env' fl k o chunks
      fs0 fs1 fs2 w h0 hl hw hopen hfs1 h2 hkeep s hs hm hz
    refine ⟨b1, ?_, b3, b4, b5, b6⟩
    rw [b2, insEntry_declared]
    have : o.size.getD chunks.flatten.length = chunks.flatten.length := by
      rcases hz with hz | hz <;> rw [hz] <;> rfl
    rw [this]

/-- **The by-address version** (`DeclRefine.declared_putHash_mismatch` / `declared_putHash_match` for
a held writer).  A by-address writer declaring `s` (`hs`), opened and fed from a healthy `fs0`, held
open until ANY healthy `fs2` that kept the temp node, then committed.  In BOTH cases the index is
that of `fs2`, the content is published (store of `fs2` + the address of the bytes), healthy, temp
file gone; the answer is `.error .integrity` when `Sri.declaredOk` rejects `s`, and the COMPUTED
integrity (an unkeyed commit returns `wsri`; the declared one is only checked) when it accepts `s`
and the size declaration is absent or right — then the bytes are readable by the computed integrity
from the final state.  No well-formedness of the options needed. -/
theorem held_commit_declared_unkeyed (env env' : Env) (fl : Flavour) (o : WriteOpts)
    (chunks : List Bytes) (fs0 fs1 fs2 : FS) (w : Writer)
    (h0 : Healthy cfg cache fs0) (hl : HexLen cfg)
    (hopen : (run env (heldOpen cfg cache fl none o chunks) fs0).1 = .ok w)
    (hfs1 : (run env (heldOpen cfg cache fl none o chunks) fs0).2.1 = fs1)
    (h2 : Healthy cfg cache fs2)
    (hkeep : fs2.get w.tmp = fs1.get w.tmp)
    (s : Integrity) (hs : o.sri = some s) :
    (absIndex cfg cache (run env' (wcommit cfg w) fs2).2.1 = absIndex cfg cache fs2 ∧
      absStore cache (run env' (wcommit cfg w) fs2).2.1 =
        (absStore cache fs2).set (o.algo.getD .sha256)
          (Bytes.hex (cfg.H (o.algo.getD .sha256) chunks.flatten)) (some chunks.flatten) ∧
      Healthy cfg cache (run env' (wcommit cfg w) fs2).2.1 ∧
      (run env' (wcommit cfg w) fs2).2.1.get w.tmp = none) ∧
    (Sri.declaredOk s (Sri.compute cfg.H (o.algo.getD .sha256) chunks.flatten) = none →
      (run env' (wcommit cfg w) fs2).1 = .error .integrity) ∧
    ((Sri.declaredOk s (Sri.compute cfg.H (o.algo.getD .sha256) chunks.flatten)).isSome →
      (o.size = none ∨ o.size = some chunks.flatten.length) →
      (run env' (wcommit cfg w) fs2).1 = .ok (Sri.compute cfg.H (o.algo.getD .sha256) chunks.flatten) ∧
      ∀ env'', (run env'' (readHash cfg cache (Sri.compute cfg.H (o.algo.getD .sha256) chunks.flatten))
        (run env' (wcommit cfg w) fs2).2.1).1 = .ok chunks.flatten) := by
  obtain ⟨a1, a2, a3, a4, a5, _⟩ :=
    held_commit_refines_unkeyed cfg cache env env' fl o chunks fs0 fs1 fs2 w h0 hl hopen hfs1 h2 hkeep
  refine ⟨⟨a3, a2, a4, a5⟩, ?_, ?_⟩
  · intro hm
    rw [a1]
    unfold putAnswer
    rw [declCheck_mismatch _ hs hm]
  · intro hm hz
    constructor
    · rw [a1]
      unfold putAnswer
      rw [declCheck_match hs hm hz]
    · intro env''
      rw [(run_readHash cfg cache env'' _ _ a4.store).1]
      apply getSpec_cons_computed cfg hl _ _ _ []
      rw [a2]; exact AbsStore.set_same _ _ _ _

/-! ### non-vacuity -/

/-- The state between the last chunk and the commit in the examples: the open phase from the empty
filesystem, then `remove` of the writer's key. -/
theorem example_between (cache : Path) (env : Env) (k : Bytes) (hk : utf8Valid k = true)
    (o : WriteOpts) (data : Bytes) :
    ∃ w, (run env (heldOpen (mkCfg []) cache .sync (some k) o [data]) FS.empty).1 = .ok w ∧
      Healthy (mkCfg []) cache
        (cRunOps (mkCfg []) cache [(env, COp.remove k)]
          (run env (heldOpen (mkCfg []) cache .sync (some k) o [data]) FS.empty).2.1).2 ∧
      (cRunOps (mkCfg []) cache [(env, COp.remove k)]
          (run env (heldOpen (mkCfg []) cache .sync (some k) o [data]) FS.empty).2.1).2.get w.tmp =
        (run env (heldOpen (mkCfg []) cache .sync (some k) o [data]) FS.empty).2.1.get w.tmp := by
  have hl : HexLen (mkCfg []) := hexLen_mkCfg [] (fun e he => by cases he)
  have h0 : Healthy (mkCfg []) cache FS.empty := healthy_empty (mkCfg []) cache
  obtain ⟨w, r0, _, _, _, _, _, _, ht, _, hnx, _⟩ :=
    run_heldOpen (mkCfg []) cache env .sync (some k) o [data] FS.empty h0.store.tmpDirs
  obtain ⟨h1, _⟩ := heldOpen_healthy (mkCfg []) cache env .sync (some k) o [data] FS.empty h0
  have hops : ∀ x ∈ [(env, COp.remove k)], x.2.WF (mkCfg []) := by
    intro x hx; simp at hx; subst hx; exact hk
  obtain ⟨_, _, r3⟩ := cache_refines_map (mkCfg []) cache [(env, COp.remove k)] _ h1 hl hops
  obtain ⟨k1, _⟩ := cops_preserve_tmp (mkCfg []) cache [(env, COp.remove k)] _ h1 hl hops _ hnx
  rw [← ht] at k1
  exact ⟨w, r0, r3, k1⟩

/-- SATISFIED declaration, not vacuous: real SHA configuration, empty filesystem; open a keyed sync
writer that declares exactly the SHA-256 integrity of `data`, feed it `data`; while it is held open
`remove` its key; commit.  The commit answers the declared integrity and the key maps to the entry
carrying it — the removal in between did not undo the write committed after it. -/
example (cache : Path) (env : Env) (k data : Bytes) (hk : utf8Valid k = true)
    (hd : data.length ≤ Rec.u64Max) :
    let s := Sri.compute (mkCfg []).H .sha256 data
    let o : WriteOpts := { sri := some s }
    ∃ w, (run env (heldOpen (mkCfg []) cache .sync (some k) o [data]) FS.empty).1 = .ok w ∧
      (run env (wcommit (mkCfg []) w)
        (cRunOps (mkCfg []) cache [(env, COp.remove k)]
          (run env (heldOpen (mkCfg []) cache .sync (some k) o [data]) FS.empty).2.1).2).1 = .ok s ∧
      absIndex (mkCfg []) cache (run env (wcommit (mkCfg []) w)
        (cRunOps (mkCfg []) cache [(env, COp.remove k)]
          (run env (heldOpen (mkCfg []) cache .sync (some k) o [data]) FS.empty).2.1).2).2.1 k =
        some { key := k, sri := s, time := stamp env o, size := data.length,
               metadata := .null, raw := none } := by
  intro s o
  have hl : HexLen (mkCfg []) := hexLen_mkCfg [] (fun e he => by cases he)
  have h0 : Healthy (mkCfg []) cache FS.empty := healthy_empty (mkCfg []) cache
  have hfl : [data].flatten = data := by simp
  have hw : PutWF' k o [data] :=
    ⟨⟨hk, by simp [o], by simp [o],
        by intro s' hs'; simp [o] at hs'; subst hs'; exact Sri.compute_wf _ _ _, by simp [o]⟩,
      by rw [hfl]; exact hd,
      by intro s' hs'; simp [o] at hs'; subst hs'; exact sriRT_compute _ _ _⟩
  have hm : (Sri.declaredOk s (Sri.compute (mkCfg []).H (o.algo.getD .sha256) [data].flatten)).isSome := by
    rw [hfl]; exact declaredOk_cons_self _ []
  obtain ⟨w, r0, r3, k1⟩ := example_between cache env k hk o data
  obtain ⟨b1, b2, _⟩ := (held_commit_declared (mkCfg []) cache env env .sync k o [data] FS.empty _ _ w
    h0 hl r0 rfl r3 k1 s rfl).2 hm (Or.inl rfl) hw
  rw [hfl] at b2
  exact ⟨w, r0, b1, b2⟩

/-- UNSATISFIED declaration, not vacuous: the same run with a declared SHA-512 hash while the writer
hashes with its default SHA-256.  The commit answers the integrity error; the key — removed in
between — is still absent afterwards, and the bytes fed ARE in the store. -/
example (cache : Path) (env : Env) (k data : Bytes) (hk : utf8Valid k = true) :
    let o : WriteOpts := { sri := some [{ algo := .sha512, digest := [65, 65, 65, 65] }] }
    ∃ w, (run env (heldOpen (mkCfg []) cache .sync (some k) o [data]) FS.empty).1 = .ok w ∧
      (run env (wcommit (mkCfg []) w)
        (cRunOps (mkCfg []) cache [(env, COp.remove k)]
          (run env (heldOpen (mkCfg []) cache .sync (some k) o [data]) FS.empty).2.1).2).1 =
        .error .integrity ∧
      absIndex (mkCfg []) cache (run env (wcommit (mkCfg []) w)
        (cRunOps (mkCfg []) cache [(env, COp.remove k)]
          (run env (heldOpen (mkCfg []) cache .sync (some k) o [data]) FS.empty).2.1).2).2.1 =
        absIndex (mkCfg []) cache (cRunOps (mkCfg []) cache [(env, COp.remove k)]
          (run env (heldOpen (mkCfg []) cache .sync (some k) o [data]) FS.empty).2.1).2 ∧
      absStore cache (run env (wcommit (mkCfg []) w)
        (cRunOps (mkCfg []) cache [(env, COp.remove k)]
          (run env (heldOpen (mkCfg []) cache .sync (some k) o [data]) FS.empty).2.1).2).2.1
        .sha256 (Bytes.hex ((mkCfg []).H .sha256 data)) = some data := by
  intro o
  have hl : HexLen (mkCfg []) := hexLen_mkCfg [] (fun e he => by cases he)
  have h0 : Healthy (mkCfg []) cache FS.empty := healthy_empty (mkCfg []) cache
  have hfl : [data].flatten = data := by simp
  have hm : Sri.declaredOk [{ algo := .sha512, digest := [65, 65, 65, 65] }]
      (Sri.compute (mkCfg []).H (o.algo.getD .sha256) [data].flatten) = none :=
    C08.declaredOk_other_algorithm _ _ _ _ rfl
  obtain ⟨w, r0, r3, k1⟩ := example_between cache env k hk o data
  obtain ⟨b1, b2, b3, _⟩ := (held_commit_declared (mkCfg []) cache env env .sync k o [data] FS.empty _ _ w
    h0 hl r0 rfl r3 k1 _ rfl).1 hm
  refine ⟨w, r0, b1, b2, ?_⟩
  rw [b3, hfl]
  exact AbsStore.set_same _ _ _ _

end Cacache.HeldWriter3

namespace AxiomCheckHeld3
open Cacache.HeldWriter3
#print axioms held_commit_phase
#print axioms held_commit_refines'
#print axioms held_commit_declared_mismatch
#print axioms held_commit_declared_mismatch_find
#print axioms held_commit_declared_match
#print axioms held_commit_declared
#print axioms held_commit_declared_unkeyed
#print axioms example_between
end AxiomCheckHeld3
