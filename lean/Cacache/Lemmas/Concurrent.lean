/-
Concurrent writers: the content store stays valid under EVERY interleaving of ANY NUMBER of whole
writers (open, feed chunks, commit / clean up) and "quiet" programs (index insertions, removals,
reads, listings, `clear`, `link_to` commits, …).  This removes the `noPublish` restriction of
`C07.conc_content_valid_nonpublishing`.

Trusted statement: `conc_writers_content_valid` (bottom of the file) and the definitions it
mentions: `Call.quiet`, `Proc`, and from earlier files `writeStream`, `ContentValid`, `IsAddr`,
`InArea`, `Call.fileTargets`, `AllCalls`, `Prog.interleave`.

Why `interleave_invariant` is not enough: whether a writer's `rename tmp → address` keeps the store
valid depends on that writer's private knowledge ("my temp file holds bytes hashing to the
address"), which other processes' calls could in principle destroy.  The argument is a
rely/guarantee proof:

1. *Tokens.*  `mkTemp` names its file `tmpName fs.next` and bumps the counter; no call lowers the
   counter (`exec_next_le`); `tmpName` is injective (`tmpName_injective`, via core's
   `Nat.ofDigitChars_ten_toDigits`).  A process's private state `Priv` is `none` or
   `some (n, f)`: "I created temp file number `n`, and the last thing I left there is `f`".
2. *The stable assertion.*  `Owns cache n f fs`: IF there is a regular file at `tmpPath cache n`
   THEN it holds exactly `f`.  Others may delete the file, rename it away, put a directory or a
   symlink there — all that keeps `Owns`; by `step_files` only a call with `tmpPath cache n` among
   its `fileTargets` can break it (`Owns.step`).
3. *Safe programs.*  `SafeR Post p π` (recursion over the program tree): for the next call `c` of
   `p`, in EVERY state `fs` in which the store is valid and `π` holds (so: whatever the others did
   since `p`'s last call), the call (a) keeps the store valid, (b) has no existing temp path other
   than `p`'s own among its file targets — the guarantee the others rely on, (c) leads to a private
   state `π'` that holds afterwards and whose token is the old one or lies in
   `[fs.next, fs'.next)`, i.e. is fresh, and the rest of the program is safe from `π'`.
4. *Soundness* (`safe_interleave`): the configuration invariant `ConfInv` — store valid, every
   process safe from its private state, all private states hold, tokens below the counter and
   pairwise different — is preserved by every scheduling step (`ConfInv.step`): the mover's (b)
   plus distinctness of tokens gives the stability of everybody else's `Owns`.
5. *Writers are safe* (`writeStream_safe`): proof rules for the calls a writer issues
   (`SafeR.mkTemp` acquires a token, `SafeR.writeAt/.truncate/.fallocate` update the ghost bytes
   when the file is still there and leave the state alone when the call fails because it is gone,
   `SafeR.publish`: if the source still is a regular file it holds `f`, which hashes to the
   target address — `rename_contentValid`; otherwise the rename fails and changes nothing;
   `SafeR.plain` for quiet calls), then a walk through `wopen`, `wwrite`, `wwriteAll`, `wclose`,
   `wcommit` with the ghost relation `WG` (the sequential `WInv` with the file content replaced by
   the ghost bytes).  After any failed call the writer only cleans up, so no knowledge is needed.
6. *Quiet programs are safe* in any private state (`quiet_safe`).

`insert`, `delete`, `removeHash`, `removeFully`, `clear`, `lcommit` and all read-only programs are
shown quiet (`*_quiet`).  `Prog.forget` / `ProcU` / `conc_writers_content_valid_any` give the same
theorem for processes of different result types.
-/
import Cacache.Lemmas.Commit

namespace Cacache
open Prog

/-! ### temp names are injective -/

theorem digit_byte_roundtrip (c : Char) (h : c.isDigit = true) :
    Char.ofNat (c.toNat.toUInt8).toNat = c := by
  have h2 : c.toNat < 256 := by
    simp only [Char.isDigit, Bool.and_eq_true, decide_eq_true_eq] at h
    have := h.2
    show c.val.toNat < 256
    have h3 : c.val.toNat ≤ (57 : UInt32).toNat := UInt32.le_iff_toNat_le.mp this
    have : (57 : UInt32).toNat = 57 := by decide
    omega
  have : (c.toNat.toUInt8).toNat = c.toNat := by
    simp [Nat.toUInt8, UInt8.toNat_ofNat', Nat.mod_eq_of_lt h2]
  rw [this, Char.ofNat_toNat]

theorem tmpName_injective {n m : Nat} (h : tmpName n = tmpName m) : n = m := by
  unfold tmpName at h
  have h1 := (List.cons.inj h).2
  have key : ∀ k, ((Nat.toDigits 10 k).map (fun c => c.toNat.toUInt8)).map (fun b => Char.ofNat b.toNat)
      = Nat.toDigits 10 k := by
    intro k
    rw [List.map_map]
    conv => rhs; rw [← List.map_id (Nat.toDigits 10 k)]
    apply List.map_congr_left
    intro c hc
    exact digit_byte_roundtrip c (Nat.isDigit_of_mem_toDigits (by decide) (by decide) hc)
  have h2 : Nat.toDigits 10 n = Nat.toDigits 10 m := by
    rw [← key n, ← key m, h1]
  have := congrArg (fun l => Nat.ofDigitChars 10 l 0) h2
  simpa using this

/-! ### the temp-name counter never decreases -/

theorem FS.mkdirLevels_next (fs fs' : FS) (ps : List Path) (n : Nat)
    (h : FS.mkdirLevels fs ps n = .ok fs') : fs'.next = fs.next := by
  induction ps generalizing fs n with
  | nil => simp [FS.mkdirLevels] at h; subst h; rfl
  | cons p ps ih =>
    cases n with
    | zero => simp [FS.mkdirLevels] at h; subst h; rfl
    | succ n =>
      simp only [FS.mkdirLevels] at h
      split at h
      · exact (ih _ _ h).trans rfl
      · exact ih _ _ h
      · exact ih _ _ h
      · cases h

theorem FS.delAll_next (fs : FS) (ps : List Path) : (fs.delAll ps).next = fs.next := by
  unfold FS.delAll
  induction ps generalizing fs with
  | nil => rfl
  | cons p ps ih => simp only [List.foldl_cons]; rw [ih]; rfl

theorem copyTo_next (fs : FS) (d : Path) (b : Bytes) : (copyTo fs d b).1.next = fs.next := by
  unfold copyTo
  repeat' (first | rfl | split)

theorem exec_next_le (env : Env) (fs : FS) (c : Call) : fs.next ≤ (exec env fs c).1.next := by
  cases c <;> simp only [exec]
  case mkdirP p =>
    split
    · rename_i fs1 hm
      exact Nat.le_of_eq (FS.mkdirLevels_next _ _ _ _ hm).symm
    · exact Nat.le_refl _
  case mkTemp dir => split <;> simp
  case mkTempLink dir t => split <;> simp
  case copyFile s d =>
    split
    · exact Nat.le_of_eq (copyTo_next _ _ _).symm
    · exact Nat.le_refl _
  case removeTree p =>
    split
    · exact Nat.le_of_eq (FS.delAll_next _ _).symm
    all_goals exact Nat.le_refl _
  all_goals (repeat' (first | exact Nat.le_refl _ | split))

/-! ### private assertions and the rely/guarantee predicate -/

/-- The temp file with token `n` (the value of the counter when it was created). -/
def tmpPath (cache : Path) (n : Nat) : Path := (cache ++ [dTmp]) ++ [tmpName n]

theorem tmpPath_injective {cache : Path} {n m : Nat} (h : tmpPath cache n = tmpPath cache m) : n = m := by
  unfold tmpPath at h
  have := List.append_cancel_left h
  exact tmpName_injective (List.cons.inj this).1

theorem tmpPath_inArea (cache : Path) (n : Nat) : InArea cache dTmp (tmpPath cache n) :=
  inArea_tmp cache _

theorem tmpPath_not_addr (cache : Path) (n : Nat) : ¬ IsAddr cache (tmpPath cache n) :=
  tmp_not_addr cache ⟨_, rfl⟩

/-- "If there is a regular file at temp path `n`, it holds exactly `f`."  Stable under deletion
and under every call that does not create / change a regular file at that path. -/
def Owns (cache : Path) (n : Nat) (f : Bytes) (fs : FS) : Prop :=
  ∀ b, fs.get (tmpPath cache n) = some (.file b) → b = f

/-- The private state of a process: nothing, or the token of its temp file and the bytes it
last left there. -/
abbrev Priv := Option (Nat × Bytes)

def Priv.holds (cache : Path) : Priv → FS → Prop
  | none, _ => True
  | some (n, f), fs => Owns cache n f fs

def Priv.mine (π : Priv) (m : Nat) : Prop := ∃ f, π = some (m, f)

theorem Owns.step {cache : Path} {n : Nat} {f : Bytes} {fs : FS} (env : Env) (c : Call)
    (h : Owns cache n f fs) (hn : tmpPath cache n ∉ c.fileTargets fs) :
    Owns cache n f (exec env fs c).1 := by
  intro b hb
  rcases step_files env fs _ c _ .ok _ b hb with h1 | h1
  · exact h b h1
  · exact absurd h1 hn

theorem Priv.holds_step {cache : Path} {π : Priv} {fs : FS} (env : Env) (c : Call)
    (h : π.holds cache fs) (hn : ∀ m, π.mine m → tmpPath cache m ∉ c.fileTargets fs) :
    π.holds cache (exec env fs c).1 := by
  match π, h, hn with
  | none, _, _ => trivial
  | some (n, f), h, hn => exact Owns.step env c h (hn n ⟨f, rfl⟩)

section
variable (cfg : Cfg) (env : Env) (cache : Path) {α β : Type}

/-- `SafeR Post p π`: started with private state `π`, in any state where the store is valid and
`π` holds, every call of `p`
* keeps the store valid,
* creates / changes no regular file at an *existing* temp path other than `p`'s own,
* leads to a private state `π'` that holds afterwards, whose token is the old one or fresh,
and so on for the rest of the program, whatever the others do in between (the next call is again
examined in *every* state satisfying the two assumptions); the result satisfies `Post`. -/
def SafeR (Post : α → Priv → Prop) : Prog α → Priv → Prop
  | .done a, π => Post a π
  | .sys c k, π => ∀ fs, ContentValid cfg cache fs → π.holds cache fs →
      ContentValid cfg cache (exec env fs c).1 ∧
      (∀ m, m < fs.next → tmpPath cache m ∈ c.fileTargets fs → π.mine m) ∧
      ∃ π' : Priv, π'.holds cache (exec env fs c).1 ∧
        (∀ m, π'.mine m → π.mine m ∨ (fs.next ≤ m ∧ m < (exec env fs c).1.next)) ∧
        SafeR Post (k (exec env fs c).2) π'

abbrev Safe (p : Prog α) (π : Priv) : Prop := SafeR cfg env cache (fun _ _ => True) p π

theorem SafeR.bind {Post : α → Priv → Prop} {Post' : β → Priv → Prop} {p : Prog α} {f : α → Prog β}
    {π : Priv} (hp : SafeR cfg env cache Post p π)
    (hf : ∀ a π', Post a π' → SafeR cfg env cache Post' (f a) π') :
    SafeR cfg env cache Post' (Prog.bind p f) π := by
  induction p generalizing π with
  | done a => exact hf a π hp
  | sys c k ih =>
    intro fs hv hh
    obtain ⟨h1, h2, π', h3, h4, h5⟩ := hp fs hv hh
    exact ⟨h1, h2, π', h3, h4, ih _ h5⟩

theorem SafeR.mono {Post Post' : α → Priv → Prop} {p : Prog α} {π : Priv}
    (hp : SafeR cfg env cache Post p π) (hm : ∀ a π', Post a π' → Post' a π') :
    SafeR cfg env cache Post' p π := by
  induction p generalizing π with
  | done a => exact hm a π hp
  | sys c k ih =>
    intro fs hv hh
    obtain ⟨h1, h2, π', h3, h4, h5⟩ := hp fs hv hh
    exact ⟨h1, h2, π', h3, h4, ih _ h5⟩

/-! ### soundness: safe processes keep the store valid under every schedule -/

/-- The invariant of a configuration: the store is valid and every process is safe w.r.t. a
private state that holds, with pairwise different tokens, all below the counter. -/
structure ConfInv (ps : List (Prog α)) (fs : FS) (πs : Nat → Priv) : Prop where
  cv : ContentValid cfg cache fs
  safe : ∀ i p, ps[i]? = some p → Safe cfg env cache p (πs i)
  holds : ∀ i, (πs i).holds cache fs
  bound : ∀ i m, (πs i).mine m → m < fs.next
  distinct : ∀ i j m, (πs i).mine m → (πs j).mine m → i = j

theorem ConfInv.step {ps : List (Prog α)} {fs : FS} {πs : Nat → Priv}
    (hI : ConfInv cfg env cache ps fs πs) (i : Nat) (p : Prog α) (hp : ps[i]? = some p) :
    ∃ πs', ConfInv cfg env cache (ps.set i (Prog.step env p fs).1) (Prog.step env p fs).2 πs' := by
  cases p with
  | done a =>
    refine ⟨πs, hI.cv, ?_, hI.holds, hI.bound, hI.distinct⟩
    intro j q hq
    simp only [Prog.step] at hq
    rw [List.getElem?_set] at hq
    split at hq
    · rename_i hij
      subst hij
      split at hq
      · cases hq; exact hI.safe i _ hp
      · cases hq
    · exact hI.safe j q hq
  | sys c k =>
    have hs := hI.safe i _ hp
    obtain ⟨h1, h2, π', h3, h4, h5⟩ := hs fs hI.cv (hI.holds i)
    have hle := exec_next_le env fs c
    refine ⟨fun j => if j = i then π' else πs j, ?_⟩
    simp only [Prog.step]
    refine ⟨h1, ?_, ?_, ?_, ?_⟩
    · intro j q hq
      rw [List.getElem?_set] at hq
      split at hq
      · rename_i hij
        subst hij
        split at hq
        · cases hq; simpa using h5
        · cases hq
      · rename_i hij
        have : ¬ j = i := fun e => hij e.symm
        simp only [this, if_false]
        exact hI.safe j q hq
    · intro j
      by_cases hji : j = i
      · simp only [hji, if_true]; exact h3
      · simp only [hji, if_false]
        apply Priv.holds_step env c (hI.holds j)
        intro m hm hmem
        exact hji (hI.distinct j i m hm (h2 m (hI.bound j m hm) hmem))
    · intro j m hm
      by_cases hji : j = i
      · simp only [hji, if_true] at hm
        rcases h4 m hm with h | h
        · exact Nat.lt_of_lt_of_le (hI.bound i m h) hle
        · exact h.2
      · simp only [hji, if_false] at hm
        exact Nat.lt_of_lt_of_le (hI.bound j m hm) hle
    · intro j j' m hm hm'
      by_cases hji : j = i <;> by_cases hji' : j' = i
      · rw [hji, hji']
      · simp only [hji, if_true] at hm
        simp only [hji', if_false] at hm'
        rcases h4 m hm with h | h
        · rw [hji]; exact hI.distinct i j' m h hm'
        · exact absurd (hI.bound j' m hm') (Nat.not_lt.mpr h.1)
      · simp only [hji, if_false] at hm
        simp only [hji', if_true] at hm'
        rcases h4 m hm' with h | h
        · rw [hji']; exact hI.distinct j i m hm h
        · exact absurd (hI.bound j m hm) (Nat.not_lt.mpr h.1)
      · simp only [hji, if_false] at hm
        simp only [hji', if_false] at hm'
        exact hI.distinct j j' m hm hm'

theorem ConfInv.interleave {ps : List (Prog α)} {fs : FS} {πs : Nat → Priv}
    (hI : ConfInv cfg env cache ps fs πs) (sched : List Nat) :
    ∃ πs', ConfInv cfg env cache (Prog.interleave env ps fs sched).1
      (Prog.interleave env ps fs sched).2 πs' := by
  induction sched generalizing ps fs πs with
  | nil => exact ⟨πs, hI⟩
  | cons i sched ih =>
    simp only [Prog.interleave]
    split
    · exact ih hI
    · rename_i p hget
      obtain ⟨πs', hI'⟩ := hI.step cfg env cache i p hget
      exact ih hI'

/-- **Soundness of the rely/guarantee argument.**  Any number of processes, each safe from the
empty private state: the content store stays valid under every schedule. -/
theorem safe_interleave (ps : List (Prog α)) (hp : ∀ p ∈ ps, Safe cfg env cache p none) (fs : FS)
    (hv : ContentValid cfg cache fs) (sched : List Nat) :
    ContentValid cfg cache (Prog.interleave env ps fs sched).2 := by
  have hI : ConfInv cfg env cache ps fs (fun _ => none) :=
    ⟨hv, fun i p h => hp p (List.mem_of_getElem? h), fun _ => trivial,
     fun i m hm => (by obtain ⟨f, hf⟩ := hm; cases hf),
     fun i j m hm => (by obtain ⟨f, hf⟩ := hm; cases hf)⟩
  obtain ⟨πs', hI'⟩ := hI.interleave cfg env cache sched
  exact hI'.cv

end

/-! ### proof rules for single calls -/

/-- The call never creates or changes a regular file at a content address or inside
`<cache>/tmp` (deleting is allowed). -/
def Call.quiet (cache : Path) (c : Call) : Prop :=
  ∀ fs, ∀ q ∈ c.fileTargets fs, ¬ IsAddr cache q ∧ ¬ InArea cache dTmp q

theorem Call.quiet_of_nil {cache : Path} {c : Call} (h : ∀ fs, c.fileTargets fs = []) : c.quiet cache := by
  intro fs q hq; rw [h fs] at hq; cases hq

section
variable (cfg : Cfg) (env : Env) (cache : Path) {α β : Type}

/-- A quiet call is safe in any private state, which it leaves as it is. -/
theorem SafeR.plain {Post : α → Priv → Prop} {c : Call} {k : Ret → Prog α} {π : Priv}
    (hq : c.quiet cache) (hk : ∀ r, Answer c r → SafeR cfg env cache Post (k r) π) :
    SafeR cfg env cache Post (.sys c k) π := by
  intro fs hv hh
  refine ⟨step_contentValid .ok (fun q hq' => (hq fs q hq').1) hv, ?_, π, ?_, fun m hm => Or.inl hm,
    hk _ (answer_exec env fs c)⟩
  · intro m _ hmem
    exact absurd (tmpPath_inArea cache m) (hq fs _ hmem).2
  · apply Priv.holds_step env c hh
    intro m _ hmem
    exact absurd (tmpPath_inArea cache m) (hq fs _ hmem).2

/-- Programs made of quiet calls are safe in any private state. -/
theorem quiet_safe {Ok : α → Prop} {p : Prog α} (hp : AllCallsR (Call.quiet cache) Ok p) (π : Priv) :
    SafeR cfg env cache (fun a _ => Ok a) p π := by
  induction p with
  | done a => exact hp
  | sys c k ih => exact SafeR.plain cfg env cache hp.1 (fun r hr => ih r (hp.2 r hr))

theorem quiet_safe' {p : Prog α} (hp : AllCalls (Call.quiet cache) p) (π : Priv) :
    Safe cfg env cache p π := quiet_safe cfg env cache hp π

/-- One step of a call aimed at the process's own temp file. -/
theorem safe_own_step {Post : α → Priv → Prop} {c : Call} {k : Ret → Prog α} {n : Nat} {f : Bytes}
    {fs : FS} (ht : c.fileTargets fs = [tmpPath cache n]) (hv : ContentValid cfg cache fs)
    (h : ∃ f', Owns cache n f' (exec env fs c).1 ∧
      SafeR cfg env cache Post (k (exec env fs c).2) (some (n, f'))) :
    ContentValid cfg cache (exec env fs c).1 ∧
      (∀ m, m < fs.next → tmpPath cache m ∈ c.fileTargets fs → Priv.mine (some (n, f)) m) ∧
      ∃ π' : Priv, π'.holds cache (exec env fs c).1 ∧
        (∀ m, π'.mine m → Priv.mine (some (n, f)) m ∨ (fs.next ≤ m ∧ m < (exec env fs c).1.next)) ∧
        SafeR cfg env cache Post (k (exec env fs c).2) π' := by
  obtain ⟨f', h1, h2⟩ := h
  refine ⟨step_contentValid .ok ?_ hv, ?_, some (n, f'), h1, ?_, h2⟩
  · intro q hq; rw [ht] at hq
    rw [List.mem_singleton.mp hq]; exact tmpPath_not_addr cache n
  · intro m _ hmem; rw [ht] at hmem
    rw [tmpPath_injective (List.mem_singleton.mp hmem)]; exact ⟨f, rfl⟩
  · intro m hm
    obtain ⟨g, hg⟩ := hm; cases hg
    exact Or.inl ⟨f, rfl⟩

theorem SafeR.writeAt {Post : α → Priv → Prop} {k : Ret → Prog α} {n : Nat} {f : Bytes} {off : Nat}
    {d : Bytes} (herr : ∀ e, SafeR cfg env cache Post (k (.err e)) (some (n, f)))
    (hok : SafeR cfg env cache Post (k (.nat d.length)) (some (n, spliceAt f off d))) :
    SafeR cfg env cache Post (.sys (.writeAt (tmpPath cache n) off d) k) (some (n, f)) := by
  intro fs hv hh
  apply safe_own_step cfg env cache rfl hv
  simp only [exec]
  split
  · rename_i b hb
    have : b = f := hh b hb
    subst this
    exact ⟨_, fun b' hb' => by simpa using hb'.symm, hok⟩
  · exact ⟨f, hh, herr _⟩

theorem SafeR.truncate {Post : α → Priv → Prop} {k : Ret → Prog α} {n : Nat} {f : Bytes} {m : Nat}
    (herr : ∀ e, SafeR cfg env cache Post (k (.err e)) (some (n, f)))
    (hok : SafeR cfg env cache Post (k .unit) (some (n, f.take m))) :
    SafeR cfg env cache Post (.sys (.truncate (tmpPath cache n) m) k) (some (n, f)) := by
  intro fs hv hh
  apply safe_own_step cfg env cache rfl hv
  simp only [exec]
  split
  · rename_i b hb
    have : b = f := hh b hb
    subst this
    exact ⟨_, fun b' hb' => by simpa using hb'.symm, hok⟩
  · exact ⟨f, hh, herr _⟩

theorem SafeR.fallocate {Post : α → Priv → Prop} {k : Ret → Prog α} {n : Nat} {f : Bytes} {m : Nat}
    (herr : ∀ e, SafeR cfg env cache Post (k (.err e)) (some (n, f)))
    (hok : SafeR cfg env cache Post (k .unit)
      (some (n, if f.length < m then f ++ zeros (m - f.length) else f))) :
    SafeR cfg env cache Post (.sys (.fallocate (tmpPath cache n) m) k) (some (n, f)) := by
  intro fs hv hh
  apply safe_own_step cfg env cache rfl hv
  simp only [exec]
  split
  · rename_i b hb
    have : b = f := hh b hb
    subst this
    split
    · exact ⟨b, hh, herr _⟩
    · split
      · rename_i hlt
        simp only [hlt, if_true] at hok
        exact ⟨_, fun b' hb' => by simpa using hb'.symm, hok⟩
      · rename_i hlt
        simp only [hlt, if_false] at hok
        exact ⟨b, hh, hok⟩
  · exact ⟨f, hh, herr _⟩

/-- Creating the temp file: the process acquires a fresh token. -/
theorem SafeR.mkTemp {Post : α → Priv → Prop} {k : Ret → Prog α}
    (herr : ∀ e, SafeR cfg env cache Post (k (.err e)) none)
    (hok : ∀ n, SafeR cfg env cache Post (k (.path (tmpPath cache n))) (some (n, []))) :
    SafeR cfg env cache Post (.sys (.mkTemp (cache ++ [dTmp])) k) none := by
  intro fs hv _
  refine ⟨step_contentValid .ok ?_ hv, ?_, ?_⟩
  · intro q hq
    rw [List.mem_singleton.mp hq]; exact tmpPath_not_addr cache fs.next
  · intro m hm hmem
    have := tmpPath_injective (List.mem_singleton.mp hmem)
    omega
  · simp only [exec]
    split
    · refine ⟨some (fs.next, []), ?_, ?_, hok fs.next⟩
      · intro b hb
        have : (fs.put (tmpPath cache fs.next) (.file [])).get (tmpPath cache fs.next) = some (.file b) := hb
        simpa using this.symm
      · intro m hm
        obtain ⟨g, hg⟩ := hm; cases hg
        exact Or.inr ⟨Nat.le_refl _, Nat.lt_succ_self _⟩
    · exact ⟨none, trivial, fun m hm => Or.inl hm, herr _⟩

/-- Publishing: renaming the own temp file, known to hold `f` if it is still a file, onto the
address of `f`. -/
theorem SafeR.publish {Post : α → Priv → Prop} {k : Ret → Prog α} {n : Nat} {f : Bytes} {a : Algo}
    (hl : 4 ≤ (Bytes.hex (cfg.H a f)).length)
    (hk : ∀ r, SafeR cfg env cache Post (k r) (some (n, f))) :
    SafeR cfg env cache Post
      (.sys (.rename (tmpPath cache n) (addrPath cache a (Bytes.hex (cfg.H a f)))) k) (some (n, f)) := by
  intro fs hv hh
  refine ⟨?_, ?_, some (n, f), ?_, fun m hm => Or.inl hm, hk _⟩
  · cases hg : fs.get (tmpPath cache n) with
    | none => simp only [exec, hg]; exact hv
    | some x =>
      cases x with
      | file b =>
        have : b = f := hh b hg
        subst this
        exact rename_contentValid hv hl hg
      | link t => simp only [exec, hg]; exact hv
      | dir => simp only [exec, hg]; exact hv
  · intro m _ hmem
    have : tmpPath cache m = addrPath cache a (Bytes.hex (cfg.H a f)) := List.mem_singleton.mp hmem
    exact absurd ⟨a, _, hl, this⟩ (tmpPath_not_addr cache m)
  · apply Owns.step env _ hh
    intro hmem
    have : tmpPath cache n = addrPath cache a (Bytes.hex (cfg.H a f)) := List.mem_singleton.mp hmem
    exact absurd ⟨a, _, hl, this⟩ (tmpPath_not_addr cache n)

end

/-! ### a whole writer is safe -/

/-- Close a goal `Call.quiet cache c` for a call without file targets. -/
syntax "q_nil" : tactic
macro_rules
  | `(tactic| q_nil) => `(tactic| exact Call.quiet_of_nil (fun _ => rfl))

/-- Programs that only remove things / look: safe with any postcondition-free private state. -/
syntax "safe_tail" : tactic
macro_rules
  | `(tactic| safe_tail) => `(tactic|
      (apply quiet_safe'
       repeat' ac_step
       all_goals q_nil))

section
variable (cfg : Cfg) (env : Env) (cache : Path)

/-- The writer's ghost view: `f` is what its temp file (token `n`) holds if it is still there. -/
structure WG (w : Writer) (n : Nat) (f : Bytes) : Prop where
  cacheEq : w.cache = cache
  tmpEq : w.tmp = tmpPath cache n
  pos : w.pos = w.hashed.length
  take : f.take w.pos = w.hashed
  plain : w.mmap = none → f.length = w.pos
  mapped : ∀ m, w.mmap = some m → f.length = m ∧ w.pos ≤ m

def OpenOk (r : Res Writer) (π : Priv) : Prop :=
  ∀ w, r = .ok w → ∃ n f, π = some (n, f) ∧ WG cache w n f

theorem dropTmp_safe (tmp : Path) (π : Priv) : Safe cfg env cache (dropTmp tmp) π := by
  unfold dropTmp
  safe_tail

theorem wopen_safe (fl : Flavour) (key : Option Bytes) (o : WriteOpts) :
    SafeR cfg env cache (OpenOk cache) (wopen cfg fl cache key o) none := by
  unfold wopen dropTmp
  simp only [bind_eq, pure_eq, call, bind_sys, bind_done]
  apply SafeR.plain cfg env cache (by q_nil)
  intro r1 _
  split
  · intro w h; cases h
  · apply SafeR.mkTemp
    · intro e w h; cases h
    · intro n
      dsimp only
      have base : ∀ w : Writer, w.cache = cache → w.tmp = tmpPath cache n → w.pos = 0 →
          w.hashed = [] → w.mmap = none → OpenOk cache (Except.ok w) (some (n, [])) := by
        intro w h1 h2 h3 h4 h5 w' hw'
        cases hw'
        refine ⟨n, [], rfl, h1, h2, by rw [h3, h4]; rfl, by rw [h3, h4]; rfl, fun _ => by rw [h3]; rfl, ?_⟩
        intro m hm; rw [h5] at hm; cases hm
      split
      · rename_i m hm
        split
        · rename_i hbound
          apply SafeR.fallocate
          · intro e
            dsimp only
            apply SafeR.plain cfg env cache (by q_nil)
            intro _ _ w h; cases h
          · dsimp only
            intro w hw; cases hw
            have hpos : 0 < m := hbound.1
            refine ⟨n, _, rfl, rfl, rfl, rfl, ?_, ?_, ?_⟩
            · rfl
            · intro h; cases h
            · intro m' hm'; cases hm'
              simp [hpos, zeros]
        · exact base _ rfl rfl rfl rfl rfl
      · exact base _ rfl rfl rfl rfl rfl

def WriteOk (n : Nat) (r : Except EK (Writer × Nat)) (π : Priv) : Prop :=
  ∀ w' k, r = .ok (w', k) → ∃ f', π = some (n, f') ∧ WG cache w' n f'

theorem plainWrite_safe (w : Writer) (d : Bytes) (n : Nat) (f : Bytes) (hg : WG cache w n f)
    (hm : w.mmap = none) :
    SafeR cfg env cache (WriteOk cache n) (plainWrite w d) (some (n, f)) := by
  unfold plainWrite
  simp only [bind_eq, pure_eq, call, bind_sys, bind_done]
  rw [hg.tmpEq]
  have hfl : f.length = w.pos := hg.plain hm
  have hfeq : f = w.hashed := by rw [← hg.take, ← hfl, List.take_length]
  apply SafeR.writeAt
  · intro e w' k h; cases h
  · dsimp only
    intro w' k h; cases h
    refine ⟨_, rfl, hg.cacheEq, rfl, ?_, ?_, ?_, ?_⟩
    · simp [hg.pos]
    · show List.take (w.pos + d.length) (spliceAt f w.pos d) = w.hashed ++ List.take d.length d
      rw [← hfl, spliceAt_plain, hfeq, List.take_length, ← List.length_append, List.take_length]
    · intro _
      show (spliceAt f w.pos d).length = w.pos + d.length
      rw [← hfl, spliceAt_plain, List.length_append]
    · intro m hm'; rw [hm] at hm'; cases hm'

theorem wwrite_safe (w : Writer) (d : Bytes) (n : Nat) (f : Bytes) (hg : WG cache w n f) :
    SafeR cfg env cache (WriteOk cache n) (wwrite w d) (some (n, f)) := by
  unfold wwrite
  split
  · rename_i m hm
    obtain ⟨hfl, hpn⟩ := hg.mapped m hm
    split
    · rename_i hfit
      simp only [bind_eq, pure_eq, call, bind_sys, bind_done]
      rw [hg.tmpEq]
      apply SafeR.writeAt
      · intro e w' k h; cases h
      · dsimp only
        intro w' k h; cases h
        refine ⟨_, rfl, hg.cacheEq, rfl, ?_, ?_, ?_, ?_⟩
        · simp [hg.pos]
        · show List.take (w.pos + d.length) (spliceAt f w.pos d) = w.hashed ++ d
          rw [spliceAt_take f d w.pos (by omega), hg.take]
        · intro h; rw [hm] at h; cases h
        · intro m' hm'
          rw [hm] at hm'; cases hm'
          exact ⟨by rw [spliceAt_length f d w.pos (by omega)]; exact hfl, hfit⟩
    · simp only [bind_eq, pure_eq, call, bind_sys, bind_done]
      rw [hg.tmpEq]
      apply SafeR.truncate
      · intro e w' k h; cases h
      · dsimp only
        apply plainWrite_safe cfg env cache _ d n _ ?_ rfl
        refine ⟨hg.cacheEq, rfl, hg.pos, ?_, ?_, ?_⟩
        · show List.take w.pos (List.take w.pos f) = w.hashed
          rw [List.take_take, Nat.min_self, hg.take]
        · intro _
          show (List.take w.pos f).length = w.pos
          rw [List.length_take]; omega
        · intro m' hm'; cases hm'
  · rename_i hm
    exact plainWrite_safe cfg env cache w d n f hg hm

def WriteAllOk (n : Nat) (r : Except EK Writer) (π : Priv) : Prop :=
  ∀ w', r = .ok w' → ∃ f', π = some (n, f') ∧ WG cache w' n f'

theorem wwriteAll_safe (w : Writer) (ds : List Bytes) (n : Nat) (f : Bytes) (hg : WG cache w n f) :
    SafeR cfg env cache (WriteAllOk cache n) (wwriteAll w ds) (some (n, f)) := by
  induction ds generalizing w f with
  | nil =>
    unfold wwriteAll
    intro w' h; cases h
    exact ⟨f, rfl, hg⟩
  | cons d ds ih =>
    unfold wwriteAll
    split
    · exact ih w f hg
    · simp only [bind_eq, pure_eq]
      apply SafeR.bind cfg env cache (wwrite_safe cfg env cache w d n f hg)
      intro r π' hr
      split
      · intro w' h; cases h
      · rename_i w1 k
        obtain ⟨f', rfl, hg'⟩ := hr w1 k rfl
        exact ih w1 f' hg'

theorem wclose_safe (w : Writer) (n : Nat) (f : Bytes) (hg : WG cache w n f) :
    Safe cfg env cache (wclose cfg w) (some (n, f)) := by
  unfold wclose dropTmp
  dsimp only
  rw [contentPath_compute, hg.cacheEq, hg.tmpEq]
  by_cases hlt : (Bytes.hex (cfg.H w.algo w.hashed)).length < 4
  · simp only [hlt, if_true]
    safe_tail
  · simp only [hlt, if_false]
    have hl4 : 4 ≤ (Bytes.hex (cfg.H w.algo w.hashed)).length := Nat.le_of_not_lt hlt
    simp only [bind_eq, pure_eq, call, bind_sys, bind_done]
    apply SafeR.bind cfg env cache
      (Post := fun r π => ∀ u, r = Except.ok u → π = some (n, w.hashed))
    · -- the cut: afterwards the temp file (if still there) holds exactly what was hashed
      split
      · rename_i m hm
        obtain ⟨hfl, hpn⟩ := hg.mapped m hm
        split
        · apply SafeR.truncate
          · intro e u h; cases h
          · intro u _; rw [hg.take]
        · intro u _
          have hp : w.pos = m := by omega
          rw [← hg.take, hp, ← hfl, List.take_length]
      · rename_i hm
        intro u _
        rw [← hg.take, ← hg.plain hm, List.take_length]
    · intro r π' hr
      split
      · safe_tail
      · have := hr _ rfl
        subst this
        apply SafeR.plain cfg env cache (by q_nil)
        intro r1 _
        split
        · safe_tail
        · apply SafeR.publish cfg env cache hl4
          intro r2
          split
          · safe_tail
          · trivial

/-! ### which operations are quiet -/

/-- Every file target of a call (other than a copy) lies at or below one of its targets. -/
theorem fileTargets_below (c : Call) (hc : ∀ s d, c ≠ .copyFile s d) (fs : FS) (q : Path)
    (h : q ∈ c.fileTargets fs) : ∃ p ∈ c.targets, p <+: q := by
  cases c <;> simp only [Call.fileTargets, List.mem_singleton, List.not_mem_nil] at h <;>
    simp only [Call.targets, List.mem_cons, List.not_mem_nil, or_false, exists_eq_left]
  case mkTemp dir => subst h; exact List.prefix_append _ _
  case copyFile s d => exact absurd rfl (hc s d)
  case rename s d => subst h; exact ⟨_, Or.inr rfl, List.prefix_refl _⟩
  all_goals (subst h; exact List.prefix_refl _)

/-- Calls aimed only at areas other than `tmp` and `content-v2` are quiet. -/
theorem Call.inAreas.quiet {tops : List Bytes} {c : Call} (h : c.inAreas cache tops)
    (h1 : dTmp ∉ tops) (h2 : dContent ∉ tops) : c.quiet cache := by
  intro fs q hq
  obtain ⟨p, hp, hpq⟩ := fileTargets_below c h.notCopy fs q hq
  obtain ⟨top, htop, hin⟩ := h.mem p hp
  have hqin : InArea cache top q := inArea_ext hin hpq
  constructor
  · rintro ⟨a, hexd, _, rfl⟩
    exact h2 (inArea_disjoint hqin (inArea_addr cache a hexd) ▸ htop)
  · intro ht
    exact h1 (inArea_disjoint hqin ht ▸ htop)

theorem quiet_of_readOnly {c : Call} (h : ReadOnly c) : c.quiet cache := by
  apply Call.quiet_of_nil
  intro fs
  cases c <;> simp [ReadOnly, Call.mutating] at h <;> rfl

theorem readOnly_quiet {α : Type} {p : Prog α} (h : AllCalls ReadOnly p) : AllCalls (Call.quiet cache) p :=
  h.mono (fun _ hc => quiet_of_readOnly cache hc) (fun _ h => h)

theorem insert_quiet (key : Bytes) (o : WriteOpts) :
    AllCalls (Call.quiet cache) (insert cfg cache key o) :=
  (insert_areas cfg cache key o).mono
    (fun _ hc => hc.quiet cache (by decide) (by decide)) (fun _ h => h)

theorem delete_quiet (key : Bytes) : AllCalls (Call.quiet cache) (delete cfg cache key) := by
  unfold delete
  simp only [bind_eq, pure_eq]
  apply AllCallsR.bind (insert_quiet cfg cache key {})
  intro r _
  split <;> trivial

theorem removeHash_quiet (sri : Integrity) : AllCalls (Call.quiet cache) (removeHash cache sri) := by
  unfold removeHash
  repeat' ac_step
  all_goals q_nil

theorem removeFully_quiet (key : Bytes) : AllCalls (Call.quiet cache) (removeFully cfg cache key) := by
  unfold removeFully
  simp only [bind_eq, pure_eq]
  apply AllCallsR.bind (readOnly_quiet cache (find_ro cfg cache key))
  intro r _
  split
  · trivial
  · split
    · apply AllCallsR.bind (removeHash_quiet cache _)
      intro a _
      repeat' ac_step
      all_goals q_nil
    · repeat' ac_step
      all_goals q_nil

theorem removeEach_quiet (es : List (Path × Bool)) : AllCalls (Call.quiet cache) (removeEach es) := by
  induction es with
  | nil => unfold removeEach; trivial
  | cons e es ih =>
    obtain ⟨p, d⟩ := e
    unfold removeEach
    simp only [bind_eq, pure_eq, call, bind_sys, bind_done, allCallsR_sys]
    refine ⟨by q_nil, fun r _ => ?_⟩
    split
    · trivial
    · exact ih

theorem clear_quiet : AllCalls (Call.quiet cache) (clear cache) := by
  unfold clear
  simp only [bind_eq, pure_eq, call, bind_sys, bind_done, allCallsR_sys]
  refine ⟨by q_nil, fun r _ => ?_⟩
  split
  · exact removeEach_quiet cache _
  · trivial
  · trivial

/-- `link_to` commits publish a *symlink* under the address, never a regular file. -/
theorem lcommit_quiet (l : Linker) (hc : l.cache = cache) : AllCalls (Call.quiet cache) (lcommit cfg l) := by
  subst hc
  unfold lcommit
  repeat' (first | exact insert_quiet cfg _ _ _ | ac_step)
  all_goals q_nil

/-! ### the whole writer -/

theorem wcommit_safe (w : Writer) (n : Nat) (f : Bytes) (hg : WG cache w n f) :
    Safe cfg env cache (wcommit cfg w) (some (n, f)) := by
  unfold wcommit wcommitCheck
  simp only [bind_eq, pure_eq]
  apply SafeR.bind cfg env cache (Post := fun _ _ => True)
  · apply SafeR.bind cfg env cache (wclose_safe cfg env cache w n f hg)
    intro r π' _
    split
    · trivial
    · split <;> trivial
  · intro r π' _
    split
    · trivial
    · unfold wcommitIndex
      split
      · rw [hg.cacheEq]
        exact quiet_safe' cfg env cache (insert_quiet cfg cache _ _) π'
      · trivial

theorem writeStream_safe (fl : Flavour) (key : Option Bytes) (o : WriteOpts) (chunks : List Bytes) :
    Safe cfg env cache (writeStream cfg cache fl key o chunks) none := by
  unfold writeStream
  simp only [bind_eq, pure_eq]
  apply SafeR.bind cfg env cache (wopen_safe cfg env cache fl key o)
  intro r π hr
  split
  · trivial
  · rename_i w
    obtain ⟨n, f, rfl, hg⟩ := hr w rfl
    apply SafeR.bind cfg env cache (wwriteAll_safe cfg env cache w chunks n f hg)
    intro r2 π2 hr2
    split
    · apply SafeR.bind cfg env cache (dropTmp_safe cfg env cache _ π2)
      intro _ _ _; trivial
    · rename_i w'
      obtain ⟨f', rfl, hg'⟩ := hr2 w' rfl
      exact wcommit_safe cfg env cache w' n f' hg'

end

/-! ### the theorem -/

/-- The processes of the concurrent system: whole writers (open, feed any chunks, commit or clean
up — with any key, options, flavour) and programs made of quiet calls. -/
inductive Proc (cfg : Cfg) (cache : Path) : Prog (Res Integrity) → Prop
  | writer (fl : Flavour) (key : Option Bytes) (o : WriteOpts) (chunks : List Bytes) :
      Proc cfg cache (writeStream cfg cache fl key o chunks)
  | quiet (p : Prog (Res Integrity)) : AllCalls (Call.quiet cache) p → Proc cfg cache p

/-- **The content store stays valid under every interleaving of any number of whole writers and
quiet programs.** -/
theorem conc_writers_content_valid (cfg : Cfg) (env : Env) (cache : Path)
    (ps : List (Prog (Res Integrity))) (hp : ∀ p ∈ ps, Proc cfg cache p) (fs : FS)
    (hv : ContentValid cfg cache fs) (sched : List Nat) :
    ContentValid cfg cache (Prog.interleave env ps fs sched).2 := by
  apply safe_interleave cfg env cache ps ?_ fs hv sched
  intro p hpm
  cases hp p hpm with
  | writer fl key o chunks => exact writeStream_safe cfg env cache fl key o chunks
  | quiet _ hq => exact quiet_safe' cfg env cache hq none

/-- Non-vacuity: two keyed writers of either flavour, an unkeyed one, an index insertion and a
`clear` — all running concurrently — are processes in the sense of the theorem. -/
example (cfg : Cfg) (cache : Path) (k1 k2 k3 : Bytes) (o1 o2 o3 o4 : WriteOpts) (d1 d2 d3 : List Bytes) :
    ∀ p ∈ [writeStream cfg cache .sync (some k1) o1 d1, writeStream cfg cache .async (some k2) o2 d2,
           writeStream cfg cache .async none o3 d3, insert cfg cache k3 o4,
           Prog.bind (clear cache) (fun _ => .done (.error .notFound))],
      Proc cfg cache p := by
  intro p hp
  simp only [List.mem_cons, List.not_mem_nil, or_false] at hp
  rcases hp with rfl | rfl | rfl | rfl | rfl
  · exact .writer _ _ _ _
  · exact .writer _ _ _ _
  · exact .writer _ _ _ _
  · exact .quiet _ (insert_quiet cfg cache _ _)
  · exact .quiet _ (AllCalls.bind (clear_quiet cache) (fun _ => trivial))

/-! ### processes of different result types -/

/-- Run `p` and discard its result (same calls, same effects). -/
def Prog.forget {α : Type} (p : Prog α) : Prog Unit := Prog.bind p (fun _ => .done ())

theorem Prog.forget_run {α : Type} (env : Env) (p : Prog α) (fs : FS) :
    (Prog.run env p.forget fs).2 = (Prog.run env p fs).2 := by
  unfold Prog.forget
  rw [Prog.run_bind]
  simp [Prog.run]

/-- Like `Proc`, for programs of any result type. -/
inductive ProcU (cfg : Cfg) (cache : Path) : Prog Unit → Prop
  | writer (fl : Flavour) (key : Option Bytes) (o : WriteOpts) (chunks : List Bytes) :
      ProcU cfg cache (writeStream cfg cache fl key o chunks).forget
  | quiet {α : Type} (p : Prog α) : AllCalls (Call.quiet cache) p → ProcU cfg cache p.forget

theorem conc_writers_content_valid_any (cfg : Cfg) (env : Env) (cache : Path)
    (ps : List (Prog Unit)) (hp : ∀ p ∈ ps, ProcU cfg cache p) (fs : FS)
    (hv : ContentValid cfg cache fs) (sched : List Nat) :
    ContentValid cfg cache (Prog.interleave env ps fs sched).2 := by
  apply safe_interleave cfg env cache ps ?_ fs hv sched
  intro p hpm
  cases hp p hpm with
  | writer fl key o chunks =>
    exact SafeR.bind cfg env cache (writeStream_safe cfg env cache fl key o chunks) (fun _ _ _ => trivial)
  | quiet q hq =>
    exact SafeR.bind cfg env cache (quiet_safe' cfg env cache hq none) (fun _ _ _ => trivial)

/-- Writers next to lookups, reads, removals and `clear`, each with its own result type. -/
example (cfg : Cfg) (cache : Path) (k1 k2 k3 : Bytes) (o1 o2 : WriteOpts) (d1 d2 : List Bytes)
    (sri : Integrity) :
    ∀ p ∈ [(writeStream cfg cache .sync (some k1) o1 d1).forget,
           (writeStream cfg cache .async none o2 d2).forget,
           (read cfg cache k2).forget, (delete cfg cache k3).forget, (removeHash cache sri).forget,
           (removeFully cfg cache k1).forget, (clear cache).forget, (ls cfg cache).forget],
      ProcU cfg cache p := by
  intro p hp
  simp only [List.mem_cons, List.not_mem_nil, or_false] at hp
  rcases hp with rfl | rfl | rfl | rfl | rfl | rfl | rfl | rfl
  · exact .writer _ _ _ _
  · exact .writer _ _ _ _
  · exact .quiet _ (readOnly_quiet cache (read_ro cfg cache _))
  · exact .quiet _ (delete_quiet cfg cache _)
  · exact .quiet _ (removeHash_quiet cache _)
  · exact .quiet _ (removeFully_quiet cfg cache _)
  · exact .quiet _ (clear_quiet cache)
  · exact .quiet _ (readOnly_quiet cache (ls_ro cfg cache))

end Cacache
