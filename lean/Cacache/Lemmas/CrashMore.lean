/-
**C04 / C03 for the remaining mutating operations: `remove_fully`, `clear`, `remove_hash`, the link
commit — killed on entry to ANY call `n`, that call torn at ANY `t`** (`Prog.crash`).

`Lemmas/CrashRefine.lean` proves "a crash in the middle of any operation of `COp` leaves a healthy cache
whose abstract state is old or new, and everything keeps working" (`COp`: keyed / by-address writes,
index insert, index delete = `remove`, `remove_hash`, reads).  This file adds the crash semantics of

* **T1 `remove_fully`** — `removeFully_crash_cases` (any filesystem: the state is the start state, the
  state after the content `unlink`, or the final state), `removeFully_crash_removed`, `removeFully_crash`
  (healthy cache: healthy again, only removed never altered, other buckets' keys look up as before, the
  key looks up as before or is gone, a later write succeeds and is read back),
  `removeFully_crash_states` (`AdmissibleRF`: old / DANGLING / new — the one intermediate state, content
  file gone and bucket still there, is real: `removeFully_dangling_example`),
  `removeFully_retry_completes` + `removeFullySpec_retry` (a retry ends in exactly the abstract state of an
  uninterrupted removal), `removeFully_retry_key_gone`, `removeFully_dangling_completes`.
* **T2 `clear`, for every order of the children** — `removeEach_crash_sub`, `removeEach_crash`
  (`ClearedTo`), `clearIn_crash` (sub-filesystem, healthy, untouched outside the cache directory, a later
  write works), `clearIn_crash_tidy` (tidy again; a later `clear` empties it), `clear_crash`.
* **T3 `remove_hash`** — covered by `COp`; restated as `removeHash_crash`.
* **T4 the link commit** (`lcommit`, by address and keyed, with or without declarations) —
  `linkPhase_crash` (ANY filesystem: `LinkStep`), `linkStep_healthy`, `lcommit_crash_cases`,
  `insert_crash_modAddr`, `lcommit_crash` (the address holds the old node or the new link, a regular
  file is never replaced, everything else that existed is untouched, the index is old or — only after
  the completed link phase — new, the cache is healthy apart from the node at the address),
  `lcommit_crash_find`; `relink_midpoint_example` (killed between `mkTempLink` and `renameLink`).
* **T5** — `crashM_admissible`, `crash_then_continue_ext`: `pre` (any `XOp`s), one killed `remove_fully` /
  `clear`, `post` (any `XOp`s): every answer of `post` is the abstract machine's answer from an
  admissible state (old / dangling / new; any sub-state `SubX` for `clear`).

Every theorem quantifies over every kill point `n` and every tear `t`; `n` beyond the end of the
program is the run to completion (`crash_of_le`, `run_eq_crash`).  No statement was found false.
-/
import Cacache.Lemmas.CrashRefine
import Cacache.Lemmas.FaultMore
import Cacache.Lemmas.LinkDecl

namespace Cacache.CrashMore
open Prog Json Refine CacheRefine CrashRefine ListRefine FaultMore

/-! ### generic facts -/

/-- A read-only program leaves the filesystem as it is in the healthy run. -/
theorem readOnly_run {α : Type} {Ok : α → Prop} {p : Prog α} (hp : AllCallsR ReadOnly Ok p)
    (env : Env) (fs : FS) : (run env p fs).2.1 = fs :=
  AllCalls.after_eq env (hp.mono (fun c hc fs => exec_readOnly env c hc fs) (fun _ h => h)) fs

/-- A kill point beyond the end of the program: the program has simply finished. -/
theorem crash_of_le {α : Type} (env : Env) (p : Prog α) (fs : FS) (n t : Nat)
    (h : (run env p fs).2.2.length ≤ n) : crash env p fs n t = (run env p fs).2.1 := by
  induction p generalizing fs n with
  | done a => rfl
  | sys c k ih =>
    cases n with
    | zero => simp [run] at h
    | succ n =>
      rw [crash_sys_succ, run_sys_fs]
      apply ih
      simp only [run, List.length_cons] at h
      exact Nat.le_of_succ_le_succ h

variable (cfg : Cfg) (cache : Path)

/-! ### T1 — `remove_fully`, killed anywhere -/

/-- The bucket step is one atomic `unlink`. -/
theorem dropBucket_crash (env : Env) (key : Bytes) (fs : FS) (n t : Nat) :
    crash env (dropBucket cfg cache key) fs n t = fs ∨
    crash env (dropBucket cfg cache key) fs n t = (run env (dropBucket cfg cache key) fs).2.1 := by
  unfold dropBucket
  simp only [call, bind_sys, bind_done]
  cases n with
  | zero => exact Or.inl rfl
  | succ n =>
    right
    rw [crash_sys_succ, run_sys_fs]
    cases (exec env fs (Call.unlink (bucketPath cfg cache key))).2 <;> rfl

/-- The content step is one atomic `unlink` (or nothing). -/
theorem contentProg_crash (env : Env) (mo : Option Meta) (fs : FS) (n t : Nat) :
    crash env (contentProg cache mo) fs n t = fs ∨
    crash env (contentProg cache mo) fs n t = (run env (contentProg cache mo) fs).2.1 := by
  cases mo with
  | none => exact Or.inl rfl
  | some m => exact CrashRefine.removeHash_crash cache env m.sri fs n t

/-- **The three states a kill during `remove_fully key` can leave** (no invariant assumed): the start
state; the state after the content step (the entry's content file unlinked, the bucket file still
there — the one intermediate state of this two-step removal); the final state. -/
theorem removeFully_crash_cases (env : Env) (key : Bytes) (fs : FS) (n t : Nat) :
    crash env (removeFully cfg cache key) fs n t = fs ∨
    (∃ mo, (run env (find cfg cache key) fs).1 = .ok mo ∧
      crash env (removeFully cfg cache key) fs n t = (run env (contentProg cache mo) fs).2.1) ∨
    crash env (removeFully cfg cache key) fs n t = (run env (removeFully cfg cache key) fs).2.1 := by
  have hfs : (run env (find cfg cache key) fs).2.1 = fs := readOnly_run (find_ro cfg cache key) env fs
  rw [removeFully_eq, crash_bind]
  split
  · exact Or.inl (readOnly_crash (find_ro cfg cache key) env fs n t)
  · rw [hfs]
    generalize n - (run env (find cfg cache key) fs).2.2.length = m
    cases hr : (run env (find cfg cache key) fs).1 with
    | error e => exact Or.inl rfl
    | ok mo =>
      simp only
      rw [crash_bind]
      split
      · rcases contentProg_crash cache env mo fs m t with e | e
        · exact Or.inl e
        · exact Or.inr (Or.inl ⟨mo, rfl, e⟩)
      · generalize m - (run env (contentProg cache mo) fs).2.2.length = m'
        rw [removeTail_eq]
        by_cases hgo : goesOn (run env (contentProg cache mo) fs).1 = true
        · rw [if_pos hgo]
          rcases dropBucket_crash cfg cache env key (run env (contentProg cache mo) fs).2.1 m' t with e | e
          · exact Or.inr (Or.inl ⟨mo, rfl, e⟩)
          · right; right
            rw [e]
            simp only [run_bind_fs, hr, hfs, removeTail_eq, if_pos hgo]
        · rw [if_neg hgo]
          exact Or.inr (Or.inl ⟨mo, rfl, rfl⟩)

/-- **Only removed, never altered**: at every kill point the state is the start state minus, at most,
the key's bucket file and the content file of the entry the lookup found (`FaultMore.Removed`). -/
theorem removeFully_crash_removed (env : Env) (key : Bytes) (fs : FS) (n t : Nat) :
    ∃ cps, entryContent cfg cache env key fs cps ∧
      Removed fs (crash env (removeFully cfg cache key) fs n t) (bucketPath cfg cache key :: cps) := by
  rcases removeFully_crash_cases cfg cache env key fs n t with e | ⟨mo, hr, e⟩ | e
  · rw [e]; exact ⟨[], Or.inl rfl, removed_refl _ _⟩
  · rw [e]
    have hc := contentProg_fault cache mo env (fun _ => none) fs 0
    simp only [runFault_none] at hc
    rcases hc with ⟨_, ⟨_, c2⟩ | ⟨m, cpath, hm, hcp, c2⟩⟩ | ⟨_, _, c2⟩
    · rw [c2]; exact ⟨[], Or.inl rfl, removed_refl _ _⟩
    · rw [c2]
      refine ⟨[cpath], Or.inr ⟨m, cpath, by rw [hr, hm], hcp, rfl⟩, ?_⟩
      exact removed_del _ _ _ (List.mem_cons_of_mem _ List.mem_cons_self)
    · rw [c2]; exact ⟨[], Or.inl rfl, removed_refl _ _⟩
  · rw [e]
    obtain ⟨cps, hc, hx⟩ := removeFully_fault_shape cfg cache key env (fun _ => none) fs 0
    simp only [runFault_none] at hx
    refine ⟨cps, hc, ?_⟩
    rcases hx with ⟨_, _, hr⟩ | ⟨_, _, hr⟩
    · exact hr
    · exact hr.mono (fun q hq => List.mem_cons_of_mem _ hq)

/-- **T1. `remove_fully key`, killed on entry to any call `n`, that call torn at any `t`**, from a
healthy cache:
1. the cache is healthy again (every bucket file is a whole-record file, every content file holds the
   data of its address);
2. the state is a sub-filesystem: nothing was created or altered, and the only paths that can be gone
   are the key's bucket file and the content file of the key's entry;
3. every key in another bucket file looks up as before;
4. the key itself (and every key sharing its bucket file) looks up as before (bucket still there) or
   has no entry (bucket gone) — previous state or new state, never a third;
5. the cache stays fully usable: a later `write` of any key — in particular this one — succeeds, is read
   back, and leaves a healthy cache.
The one intermediate state (content file gone, bucket file still there: the entry dangles — a lookup
finds it, a read answers NotFound) is `removeFully_crash_states` / `removeFully_dangling_example`. -/
theorem removeFully_crash (env : Env) (key : Bytes) (fs : FS) (h : Healthy cfg cache fs) (n t : Nat) :
    Healthy cfg cache (crash env (removeFully cfg cache key) fs n t) ∧
    SubFS fs (crash env (removeFully cfg cache key) fs n t) ∧
    (∃ cps, entryContent cfg cache env key fs cps ∧
      Removed fs (crash env (removeFully cfg cache key) fs n t) (bucketPath cfg cache key :: cps)) ∧
    (∀ k, ¬ SameBucket cfg k key → ∀ env',
      (run env' (find cfg cache k) (crash env (removeFully cfg cache key) fs n t)).1 =
        (run env' (find cfg cache k) fs).1) ∧
    (∀ k, SameBucket cfg k key → ∀ env',
      (run env' (find cfg cache k) (crash env (removeFully cfg cache key) fs n t)).1 =
        (run env' (find cfg cache k) fs).1 ∨
      (run env' (find cfg cache k) (crash env (removeFully cfg cache key) fs n t)).1 = .ok none) ∧
    (HexLen cfg → ∀ env1 env2 fl a k data, utf8Valid k = true → data.length ≤ Rec.u64Max →
      (run env1 (write cfg fl cache a k data) (crash env (removeFully cfg cache key) fs n t)).1 =
        .ok (Sri.compute cfg.H a data) ∧
      (run env2 (read cfg cache k)
        (run env1 (write cfg fl cache a k data) (crash env (removeFully cfg cache key) fs n t)).2.1).1 =
          .ok data ∧
      Healthy cfg cache
        (run env1 (write cfg fl cache a k data) (crash env (removeFully cfg cache key) fs n t)).2.1) := by
  obtain ⟨cps, hc, hR⟩ := removeFully_crash_removed cfg cache env key fs n t
  have hH := healthy_sub h hR.sub
  have look : ∀ k, (crash env (removeFully cfg cache key) fs n t).get (bucketPath cfg cache k) =
      fs.get (bucketPath cfg cache k) → ∀ env',
      (run env' (find cfg cache k) (crash env (removeFully cfg cache key) fs n t)).1 =
        (run env' (find cfg cache k) fs).1 := by
    intro k hk env'
    rw [(run_find cfg cache env' k _ hH.index).1, (run_find cfg cache env' k fs h.index).1,
      absIndex_sub_same k hk]
  refine ⟨hH, hR.sub, ⟨cps, hc, hR⟩, ?_, ?_, ?_⟩
  · intro k hk
    apply look k
    rcases hR (bucketPath cfg cache k) with g | ⟨hm, _⟩
    · exact g
    · rcases List.mem_cons.mp hm with e | hm
      · exact absurd ((bucketPath_eq_iff cfg cache k key).mp e) hk
      · exact absurd (inArea_disjoint (bucket_inIndex cfg cache k) (entryContent_not_index cfg cache hc _ hm))
          dIndex_ne_dContent
  · intro k _ env'
    rcases hR (bucketPath cfg cache k) with g | ⟨_, g⟩
    · exact Or.inl (look k g env')
    · exact Or.inr ((find_absent cfg cache k _ g).1 env')
  · intro hl env1 env2 fl a k data hk hd
    obtain ⟨w1, w2, w3, _⟩ := read_after_write cfg cache env1 env2 fl a k data _ hH hl hk hd
    exact ⟨w1, w2, w3⟩

/-! ### T1, abstractly: old, dangling, new — and a retry completes the removal -/

/-- A run that only removes keeps a tidy cache tidy. -/
theorem tidy_of_run_sub {α : Type} (env : Env) (p : Prog α) (hp : AllCalls (SafeCall cache) p) (fs : FS)
    (hT : Tidy cfg cache fs) (hs : SubFS fs (run env p fs).2.1) : Tidy cfg cache (run env p fs).2.1 := by
  apply tidy_run cfg cache env p hp fs hT
  · exact shape_moves cfg cache hT.shape (fun q => (hs q).elim Or.inl (fun g => Or.inr (Or.inl g)))
  · exact recsOK_of_buckets cfg cache hT.recs (fun k => hs _)

theorem contentProg_safe (mo : Option Meta) : AllCalls (SafeCall cache) (contentProg cache mo) := by
  cases mo with
  | none => trivial
  | some m => exact removeHash_safe cache m.sri

/-- **The intermediate abstract state of a full removal**: the address of the key's entry has been
dropped from the store, the index (and every flag) is as before — the entry DANGLES: a lookup still
finds it, a read of it answers NotFound. -/
def danglingX (m : XAbs) (key : Bytes) : XAbs :=
  m.withStore (contentSpec m.cache.store (m.cache.index key)).1

/-- The abstract states a kill during `remove_fully key` started in `m` may leave: the old one, the
dangling intermediate one, the new one of the specification `removeFullySpec`. -/
def AdmissibleRF (m : XAbs) (key : Bytes) (m' : XAbs) : Prop :=
  m' = m ∨ m' = danglingX m key ∨ m' = (removeFullySpec cfg m key).1

/-- **T1 on the abstract level**: from a healthy, tidy cache a kill anywhere in `remove_fully key`
leaves a healthy, tidy cache whose abstract state is the old one, the dangling one, or the new one. -/
theorem removeFully_crash_states (env : Env) (key : Bytes) (fs : FS) (h : Healthy cfg cache fs)
    (hl : HexLen cfg) (hT : Tidy cfg cache fs) (n t : Nat) :
    XHealthy cfg cache (crash env (removeFully cfg cache key) fs n t) ∧
    AdmissibleRF cfg (absX cfg cache fs) key (absX cfg cache (crash env (removeFully cfg cache key) fs n t)) := by
  rcases removeFully_crash_cases cfg cache env key fs n t with e | ⟨mo, hr, e⟩ | e
  · rw [e]; exact ⟨⟨h, hT⟩, Or.inl rfl⟩
  · rw [e]
    have hmo : mo = absIndex cfg cache fs key := by
      have := (run_find cfg cache env key fs h.index).1
      rw [hr] at this
      cases this; rfl
    subst hmo
    obtain ⟨_, c2, c3, c4, c5, c6, c7, c8⟩ :=
      contentProg_step cfg cache env fs h hl (absIndex cfg cache fs key)
    refine ⟨⟨c3, tidy_of_run_sub cfg cache env _ (contentProg_safe cache _) fs hT c8⟩, Or.inr (Or.inl ?_)⟩
    rw [absX_kept cfg cache c5 c6 c7]
    simp only [XAbs.kept, XAbs.withStore, danglingX, absCache, c4, c2, absX]
  · rw [e]
    obtain ⟨_, r2, r3, r4⟩ := removeFully_refines cfg cache env key fs h hl hT
    exact ⟨⟨r3, r4⟩, Or.inr (Or.inr r2)⟩

/-- Dropping the entry's address twice is dropping it once; the second answer (NotFound after a
success) lets the removal go on exactly when the first did. -/
theorem contentSpec_idem (st : AbsStore) (mo : Option Meta) :
    (contentSpec (contentSpec st mo).1 mo).1 = (contentSpec st mo).1 ∧
    goesOn (contentSpec (contentSpec st mo).1 mo).2 = goesOn (contentSpec st mo).2 := by
  cases mo with
  | none => exact ⟨rfl, rfl⟩
  | some e =>
    simp only [contentSpec]
    unfold dropSpec
    cases addrOf e.sri with
    | none => exact ⟨rfl, rfl⟩
    | some x =>
      obtain ⟨a, hx⟩ := x
      simp only
      cases hst : st a hx with
      | none => simp [hst]
      | some b => simp [AbsStore.set_same, goesOn]

theorem removeFullySpec_dangling (m : XAbs) (key : Bytes) :
    (removeFullySpec cfg (danglingX m key) key).1 = (removeFullySpec cfg m key).1 := by
  obtain ⟨i1, i2⟩ := contentSpec_idem m.cache.store (m.cache.index key)
  unfold removeFullySpec danglingX
  simp only [XAbs.withStore, i1, i2]
  split <;> rfl

theorem removeFullySpec_twice (m : XAbs) (key : Bytes) :
    (removeFullySpec cfg (removeFullySpec cfg m key).1 key).1 = (removeFullySpec cfg m key).1 := by
  by_cases hgo : goesOn (contentSpec m.cache.store (m.cache.index key)).2 = true
  · by_cases hb : m.bucket key = true
    · have e : (removeFullySpec cfg m key).1 =
          { cache := { index := fun k => if SameBucket cfg k key then none else m.cache.index k,
                       store := (contentSpec m.cache.store (m.cache.index key)).1 },
            cacheDir := m.cacheDir, indexDir := m.indexDir,
            bucket := fun k => if SameBucket cfg k key then false else m.bucket k } := by
        unfold removeFullySpec
        rw [if_pos hgo]
        unfold bucketSpec
        have hb' : (m.withStore (contentSpec m.cache.store (m.cache.index key)).1).bucket key = true := hb
        rw [if_pos hb']
        rfl
      rw [e]
      unfold removeFullySpec
      simp only [if_true, contentSpec, goesOn, XAbs.withStore]
      unfold bucketSpec
      simp only [if_true, Bool.false_eq_true, if_false]
    · have e : (removeFullySpec cfg m key).1 = danglingX m key := by
        unfold removeFullySpec
        rw [if_pos hgo]
        unfold bucketSpec
        have hb' : ¬ (m.withStore (contentSpec m.cache.store (m.cache.index key)).1).bucket key = true := hb
        rw [if_neg hb']
        rfl
      rw [e, removeFullySpec_dangling, e]
  · have e : (removeFullySpec cfg m key).1 = danglingX m key := by
      unfold removeFullySpec
      rw [if_neg hgo]
      rfl
    rw [e, removeFullySpec_dangling, e]

/-- **A retry completes the removal** (abstractly): from every admissible state of a killed
`remove_fully key`, running `remove_fully key` again leads to the state an uninterrupted removal
leads to. -/
theorem removeFullySpec_retry (m m' : XAbs) (key : Bytes) (h : AdmissibleRF cfg m key m') :
    (removeFullySpec cfg m' key).1 = (removeFullySpec cfg m key).1 := by
  rcases h with rfl | rfl | rfl
  · rfl
  · exact removeFullySpec_dangling cfg m key
  · exact removeFullySpec_twice cfg m key

/-- **`removeFully_retry_completes`.**  After a kill anywhere in `remove_fully key` (healthy, tidy
cache), running `remove_fully key` again — to completion, in any environment — answers what the
specification answers in the state the kill left, and ends in EXACTLY the abstract state an
uninterrupted `remove_fully key` ends in; the cache is healthy and tidy. -/
theorem removeFully_retry_completes (env env' : Env) (key : Bytes) (fs : FS) (h : Healthy cfg cache fs)
    (hl : HexLen cfg) (hT : Tidy cfg cache fs) (n t : Nat) :
    (run env' (removeFully cfg cache key) (crash env (removeFully cfg cache key) fs n t)).1 =
      (removeFullySpec cfg (absX cfg cache (crash env (removeFully cfg cache key) fs n t)) key).2 ∧
    absX cfg cache (run env' (removeFully cfg cache key) (crash env (removeFully cfg cache key) fs n t)).2.1 =
      (removeFullySpec cfg (absX cfg cache fs) key).1 ∧
    XHealthy cfg cache
      (run env' (removeFully cfg cache key) (crash env (removeFully cfg cache key) fs n t)).2.1 := by
  obtain ⟨hx, ha⟩ := removeFully_crash_states cfg cache env key fs h hl hT n t
  obtain ⟨r1, r2, r3, r4⟩ := removeFully_refines cfg cache env' key _ hx.healthy hl hx.tidy
  exact ⟨r1, by rw [r2, removeFullySpec_retry cfg _ _ key ha], ⟨r3, r4⟩⟩

/-- … read concretely, for a key whose entry carries a computed integrity (every entry the library
writes): after the kill and the retry the bucket file of the key is gone, no key of that bucket has an
entry, every other key has the entry it had, and the entry's content address is empty. -/
theorem removeFully_retry_key_gone (env env' : Env) (key : Bytes) (fs : FS) (h : Healthy cfg cache fs)
    (hl : HexLen cfg) (hT : Tidy cfg cache fs) (n t : Nat) (e : Meta) (a : Algo) (d : Bytes)
    (hi : absIndex cfg cache fs key = some e) (hs : e.sri = Sri.compute cfg.H a d) :
    (∀ k env'', (run env'' (find cfg cache k)
        (run env' (removeFully cfg cache key) (crash env (removeFully cfg cache key) fs n t)).2.1).1 =
      .ok (if SameBucket cfg k key then none else absIndex cfg cache fs k)) ∧
    (run env' (removeFully cfg cache key) (crash env (removeFully cfg cache key) fs n t)).2.1.get
      (bucketPath cfg cache key) = none ∧
    absStore cache (run env' (removeFully cfg cache key) (crash env (removeFully cfg cache key) fs n t)).2.1
      a (Bytes.hex (cfg.H a d)) = none := by
  obtain ⟨_, r2, r3⟩ := removeFully_retry_completes cfg cache env env' key fs h hl hT n t
  have hi' : (absX cfg cache fs).cache.index key = some e := hi
  obtain ⟨_, s2, s3, s4, _, _⟩ := removeFullySpec_of_entry cfg hl (absX cfg cache fs) key e a d hi' hs
    (absX_bucket_of_index cfg cache fs hi')
  refine ⟨?_, ?_, ?_⟩
  · intro k env''
    rw [(run_find cfg cache env'' k _ r3.healthy.index).1]
    have := congrArg (fun m => m.cache.index k) r2
    simp only [s3] at this
    exact congrArg _ this
  · have := congrArg (fun m => m.bucket key) r2
    simp only [s4, if_true] at this
    have hb : ((run env' (removeFully cfg cache key) (crash env (removeFully cfg cache key) fs n t)).2.1.get
        (bucketPath cfg cache key)).isSome = false := this
    cases hg : (run env' (removeFully cfg cache key) (crash env (removeFully cfg cache key) fs n t)).2.1.get
        (bucketPath cfg cache key) with
    | none => rfl
    | some x => rw [hg] at hb; cases hb
  · have := congrArg (fun m => m.cache.store a (Bytes.hex (cfg.H a d))) r2
    simp only [s2, AbsStore.set_same] at this
    exact this

/-- **`remove_fully` of a key whose content is already gone removes the bucket**: the dangling entry
(index entry present, content address empty) is what a kill between the two `unlink`s leaves; the
removal answers ok — the NotFound of the content `unlink` is taken for "already gone" — and unindexes
the key. -/
theorem removeFully_dangling_completes (env : Env) (key : Bytes) (fs : FS) (h : Healthy cfg cache fs)
    (hl : HexLen cfg) (hT : Tidy cfg cache fs) (e : Meta) (a : Algo) (d : Bytes)
    (hi : absIndex cfg cache fs key = some e) (hs : e.sri = Sri.compute cfg.H a d)
    (_hgone : absStore cache fs a (Bytes.hex (cfg.H a d)) = none) :
    (run env (removeFully cfg cache key) fs).1 = .ok () ∧
    (run env (removeFully cfg cache key) fs).2.1.get (bucketPath cfg cache key) = none ∧
    (∀ k, SameBucket cfg k key → ∀ env',
      (run env' (find cfg cache k) (run env (removeFully cfg cache key) fs).2.1).1 = .ok none) ∧
    XHealthy cfg cache (run env (removeFully cfg cache key) fs).2.1 := by
  obtain ⟨r1, r2, r3, r4⟩ := removeFully_refines cfg cache env key fs h hl hT
  have hi' : (absX cfg cache fs).cache.index key = some e := hi
  obtain ⟨s1, _, s3, s4, _, _⟩ := removeFullySpec_of_entry cfg hl (absX cfg cache fs) key e a d hi' hs
    (absX_bucket_of_index cfg cache fs hi')
  have hb : (run env (removeFully cfg cache key) fs).2.1.get (bucketPath cfg cache key) = none := by
    have := congrArg (fun m => m.bucket key) r2
    simp only [s4, if_true] at this
    have hb : ((run env (removeFully cfg cache key) fs).2.1.get (bucketPath cfg cache key)).isSome = false := this
    cases hg : (run env (removeFully cfg cache key) fs).2.1.get (bucketPath cfg cache key) with
    | none => rfl
    | some x => rw [hg] at hb; cases hb
  refine ⟨by rw [r1, s1], hb, ?_, ⟨r3, r4⟩⟩
  intro k hk env'
  rw [← (bucketPath_eq_iff cfg cache k key).mpr hk] at hb
  exact (find_absent cfg cache k _ hb).1 env'

/-! T1, non-vacuity.  `/c` after `write("k", [1,2,3])` (`FaultMore.fsW`); `remove_fully "k"`: the lookup
is call 0, the content `unlink` call 1, the bucket `unlink` call 2. -/

section T1Examples

-- killed on entry to the content unlink (n = 1): nothing has happened
example : (crash {} (removeFully cfg1 [[99]] [107]) fsW 1 0).get cp3 = some (.file [1, 2, 3]) := by rfl
-- killed on entry to the bucket unlink (n = 2): THE intermediate state — the content file is gone, …
theorem removeFully_dangling_example :
    (crash {} (removeFully cfg1 [[99]] [107]) fsW 2 0).get cp3 = none ∧
    (run {} (find cfg1 [[99]] [107]) (crash {} (removeFully cfg1 [[99]] [107]) fsW 2 0)).1 = .ok (some m107) ∧
    (run {} (read cfg1 [[99]] [107]) (crash {} (removeFully cfg1 [[99]] [107]) fsW 2 0)).1 =
      .error (.io .notFound) := ⟨by rfl, by rfl, by rfl⟩
-- … it is neither the start state nor the final state
example : (crash {} (removeFully cfg1 [[99]] [107]) fsW 2 0).get cp3 ≠ fsW.get cp3 := by decide
example : (crash {} (removeFully cfg1 [[99]] [107]) fsW 2 0).get (bucketPath cfg1 [[99]] [107]) ≠
    (run {} (removeFully cfg1 [[99]] [107]) fsW).2.1.get (bucketPath cfg1 [[99]] [107]) := by decide
-- a retry completes the removal: ok, the key is gone
example : (run {} (removeFully cfg1 [[99]] [107]) (crash {} (removeFully cfg1 [[99]] [107]) fsW 2 0)).1 = .ok () := by rfl
example : (run {} (find cfg1 [[99]] [107])
    (run {} (removeFully cfg1 [[99]] [107]) (crash {} (removeFully cfg1 [[99]] [107]) fsW 2 0)).2.1).1 = .ok none := by rfl
-- killed later (n ≥ 3): the removal has finished
example : (run {} (find cfg1 [[99]] [107]) (crash {} (removeFully cfg1 [[99]] [107]) fsW 3 0)).1 = .ok none := by rfl
-- the hypotheses of the T1 theorems are met on `fsW` / `fsW2`; the other key is untouched
example (n t : Nat) := removeFully_crash cfg1 [[99]] {} [107] fsW2 fsW2_xhealthy.healthy n t
example (n t : Nat) := removeFully_crash_states cfg1 [[99]] {} [107] fsW2 fsW2_xhealthy.healthy hexLen1
  fsW2_xhealthy.tidy n t
example (n t : Nat) := removeFully_retry_completes cfg1 [[99]] {} {} [107] fsW fsW_xhealthy.healthy hexLen1
  fsW_xhealthy.tidy n t
set_option maxRecDepth 100000 in
example : (run {} (find cfg1 [[99]] [108, 108]) (crash {} (removeFully cfg1 [[99]] [107]) fsW2 2 0)).1 =
    .ok (some m108) := by rfl
-- a later write of the same key on the dangling state succeeds and is read back
example : (run {} (read cfg1 [[99]] [107])
    (run {} (write cfg1 .sync [[99]] .sha256 [107] [7, 7])
      (crash {} (removeFully cfg1 [[99]] [107]) fsW 2 0)).2.1).1 = .ok [7, 7] :=
  ((removeFully_crash cfg1 [[99]] {} [107] fsW fsW_xhealthy.healthy 2 0).2.2.2.2.2 hexLen1 {} {} .sync .sha256
    [107] [7, 7] (by decide) (by simp [Rec.u64Max])).2.1

end T1Examples

/-! ### T2 — `clear`, killed anywhere, for every order of the children -/

section Clear

/-- A torn `remove_dir_all` (any number of the entries below `p` already removed, in the model's
order) leaves a sub-filesystem and changes nothing that is not strictly below `p`. -/
theorem torn_removeTree (env : Env) (fs : FS) (p : Path) (t : Nat) :
    SubFS fs (execTorn env fs t (.removeTree p)) ∧
    ∀ q, (¬ p <+: q ∨ q = p) → (execTorn env fs t (.removeTree p)).get q = fs.get q := by
  simp only [execTorn]
  split
  · refine ⟨SubFS.delAll _ _, fun q hq => FS.delAll_frame _ _ _ ?_⟩
    intro hm
    have hm' := List.mem_reverse.mp (List.mem_of_mem_take hm)
    obtain ⟨h1, h2, _⟩ := mem_below_elim hm'
    rcases hq with hq | hq
    · exact hq h1
    · exact h2 hq
  · exact ⟨SubFS.refl _, fun _ _ => rfl⟩

/-- **T2a. Whatever the list of trees, whatever the kill point and tear**: a killed `removeEach`
leaves a sub-filesystem, and nothing outside those trees changes (no invariant assumed). -/
theorem removeEach_crash_sub (es : List (Path × Bool)) (env : Env) (fs : FS) (n t : Nat) :
    SubFS fs (crash env (removeEach es) fs n t) ∧
    ∀ q, (∀ e ∈ es, ¬ e.1 <+: q) → (crash env (removeEach es) fs n t).get q = fs.get q := by
  induction es generalizing fs n with
  | nil => exact ⟨SubFS.refl _, fun _ _ => rfl⟩
  | cons e es ih =>
    obtain ⟨p, d⟩ := e
    unfold removeEach
    simp only [bind_eq, pure_eq, call, bind_sys, bind_done]
    cases n with
    | zero =>
      rw [crash_sys_zero]
      obtain ⟨s1, s2⟩ := torn_removeTree env fs p t
      exact ⟨s1, fun q hq => s2 q (Or.inl (hq (p, d) List.mem_cons_self))⟩
    | succ n =>
      rw [crash_sys_succ]
      obtain ⟨s1, s2⟩ := step_removeTree env fs _ p _ .ok
      generalize exec env fs (.removeTree p) = x at s1 s2
      obtain ⟨fs1, r⟩ := x
      have hrest : SubFS fs (crash env (removeEach es) fs1 n t) ∧
          ∀ q, (∀ e ∈ (p, d) :: es, ¬ e.1 <+: q) → (crash env (removeEach es) fs1 n t).get q = fs.get q := by
        obtain ⟨i1, i2⟩ := ih fs1 n
        refine ⟨s1.trans i1, fun q hq => ?_⟩
        rw [i2 q (fun e he => hq e (List.mem_cons_of_mem _ he))]
        exact s2 q (hq (p, d) List.mem_cons_self)
      cases r <;> first
        | exact hrest
        | exact ⟨s1, fun q hq => s2 q (hq (p, d) List.mem_cons_self)⟩

/-- What a (partly) executed `clear` leaves of `fs`: a sub-filesystem; everything that is not strictly
below the cache directory is as it was; every child `c` of the cache directory is untouched itself, or
it and everything below it is gone (`remove_dir_all c` ran to its end); the enumerable support is kept. -/
structure ClearedTo (cache : Path) (fs fs' : FS) : Prop where
  sub : SubFS fs fs'
  outside : ∀ q, (¬ cache <+: q ∨ q = cache) → fs'.get q = fs.get q
  tops : ∀ c, cache <+: c → c.length = cache.length + 1 →
    fs'.get c = fs.get c ∨ ∀ q, c <+: q → fs'.get q = none
  supp : ∀ q, SuppAt fs q → SuppAt fs' q

theorem ClearedTo.refl (fs : FS) : ClearedTo cache fs fs :=
  ⟨SubFS.refl _, fun _ _ => rfl, fun _ _ _ => Or.inl rfl, fun _ h => h⟩

theorem ClearedTo.trans {a b c : FS} (h1 : ClearedTo cache a b) (h2 : ClearedTo cache b c) :
    ClearedTo cache a c := by
  refine ⟨h1.sub.trans h2.sub, fun q hq => (h2.outside q hq).trans (h1.outside q hq), ?_,
    fun q h => h2.supp q (h1.supp q h)⟩
  intro c0 hc hl
  rcases h2.tops c0 hc hl with g2 | g2
  · rcases h1.tops c0 hc hl with g1 | g1
    · exact Or.inl (g2.trans g1)
    · right
      intro q hq
      rcases h2.sub q with g | g
      · rw [g]; exact g1 q hq
      · exact g
  · exact Or.inr g2

theorem child_below {c q : Path} (hc : cache <+: c) (hl : c.length = cache.length + 1) (hq : c <+: q) :
    cache <+: q ∧ q ≠ cache := by
  refine ⟨hc.trans hq, ?_⟩
  intro e
  have := hq.length_le
  rw [e] at this
  omega

/-- A completed `remove_dir_all` of a child of the cache directory (not a symbolic link). -/
theorem clearedTo_exec (env : Env) (fs : FS) (p : Path) (hc : cache <+: p)
    (hl : p.length = cache.length + 1) (hsupp : ∀ q, cache <+: q → q ≠ cache → SuppAt fs q)
    (hnl : ∀ tg, fs.get p ≠ some (.link tg)) :
    ClearedTo cache fs (exec env fs (.removeTree p)).1 := by
  have hout : ∀ q, (¬ cache <+: q ∨ q = cache) → ¬ p <+: q := fun q hq => child_not_prefix cache hc hl q hq
  cases hg : fs.get p with
  | none =>
    have : (exec env fs (.removeTree p)).1 = fs := by simp [exec, hg]
    rw [this]; exact ClearedTo.refl cache fs
  | some nd =>
    cases nd with
    | file b =>
      have : (exec env fs (.removeTree p)).1 = fs := by simp [exec, hg]
      rw [this]; exact ClearedTo.refl cache fs
    | link tg => exact absurd hg (hnl tg)
    | dir =>
      obtain ⟨_, fr, un⟩ := exec_removeTree_dir env hg
      obtain ⟨s1, _⟩ := step_removeTree env fs _ p _ .ok
      refine ⟨s1, fun q hq => fr q (hout q hq), ?_, fun q h => exec_suppAt env fs _ q h⟩
      intro c0 hc0 hl0
      by_cases e : c0 = p
      · right
        intro q hq
        rw [e] at hq
        obtain ⟨h1, h2⟩ := child_below cache hc hl hq
        exact un q hq (hsupp q h1 h2)
      · left
        apply fr
        intro hp
        exact e (hp.eq_of_length (by omega)).symm

/-- A torn `remove_dir_all` of a child of the cache directory. -/
theorem clearedTo_torn (env : Env) (fs : FS) (p : Path) (hc : cache <+: p)
    (hl : p.length = cache.length + 1) (t : Nat) :
    ClearedTo cache fs (execTorn env fs t (.removeTree p)) := by
  obtain ⟨s1, s2⟩ := torn_removeTree env fs p t
  refine ⟨s1, fun q hq => s2 q (Or.inl (child_not_prefix cache hc hl q hq)), ?_, ?_⟩
  · intro c0 hc0 hl0
    left
    apply s2
    by_cases e : c0 = p
    · exact Or.inr e
    · left; intro hp; exact e (hp.eq_of_length (by omega)).symm
  · intro q h
    simp only [execTorn]
    split
    · exact suppAt_delAll h _
    · exact h

/-- **T2b. A killed `removeEach` over children of the cache directory** (any list of them, any order,
repetitions allowed), none of them a symbolic link, on a filesystem whose paths below the cache
directory are enumerable: `ClearedTo`. -/
theorem removeEach_crash (es : List (Path × Bool)) (env : Env) (fs : FS) (n t : Nat)
    (hes : ∀ e ∈ es, cache <+: e.1 ∧ e.1.length = cache.length + 1)
    (hsupp : ∀ q, cache <+: q → q ≠ cache → SuppAt fs q)
    (hnl : ∀ e ∈ es, ∀ tg, fs.get e.1 ≠ some (.link tg)) :
    ClearedTo cache fs (crash env (removeEach es) fs n t) := by
  induction es generalizing fs n with
  | nil => exact ClearedTo.refl cache fs
  | cons e es ih =>
    obtain ⟨p, d⟩ := e
    obtain ⟨hc, hl⟩ := hes (p, d) List.mem_cons_self
    unfold removeEach
    simp only [bind_eq, pure_eq, call, bind_sys, bind_done]
    cases n with
    | zero =>
      rw [crash_sys_zero]
      exact clearedTo_torn cache env fs p hc hl t
    | succ n =>
      rw [crash_sys_succ]
      have h1 := clearedTo_exec cache env fs p hc hl hsupp (hnl (p, d) List.mem_cons_self)
      have hrest : ClearedTo cache fs (crash env (removeEach es) (exec env fs (.removeTree p)).1 n t) := by
        apply h1.trans
        apply ih
        · exact fun e he => hes e (List.mem_cons_of_mem _ he)
        · exact fun q hq hne => h1.supp q (hsupp q hq hne)
        · intro e he tg hg
          rcases h1.sub e.1 with g | g
          · rw [g] at hg; exact hnl e (List.mem_cons_of_mem _ he) tg hg
          · rw [g] at hg; cases hg
      generalize (exec env fs (.removeTree p)).2 = r
      cases r <;> first
        | exact hrest
        | exact h1

/-- What is left of a tidy cache by a (partly) executed `clear` is a tidy cache. -/
theorem tidy_clearedTo {fs fs' : FS} (hT : Tidy cfg cache fs) (hc : ClearedTo cache fs fs') :
    Tidy cfg cache fs' := by
  refine ⟨fun q hq hne => hc.supp q (hT.supp q hq hne), ?_, ?_, ?_, ?_⟩
  · rcases hT.rootC with g | ⟨g1, g2⟩
    · left
      by_cases e : cache = []
      · rw [e]; rfl
      · rw [isDir_iff e] at g ⊢
        rw [hc.outside cache (Or.inr rfl)]; exact g
    · right
      refine ⟨by rw [hc.outside cache (Or.inr rfl)]; exact g1, fun q hq hne => ?_⟩
      rcases hc.sub q with g | g
      · rw [g]; exact g2 q hq hne
      · exact g
  · intro top ht
    rcases hc.tops (cache ++ [top]) (List.prefix_append _ _) (by simp) with g | g
    · rcases hT.rootT top ht with r | ⟨r1, r2⟩
      · left
        rw [isDir_iff (by simp)] at r ⊢
        rw [g]; exact r
      · right
        refine ⟨by rw [g]; exact r1, fun q hq hne => ?_⟩
        rcases hc.sub q with g' | g'
        · rw [g']; exact r2 q hq hne
        · exact g'
    · right
      exact ⟨Or.inl (g _ (List.prefix_refl _)), fun q hq _ => g q hq⟩
  · exact shape_moves cfg cache hT.shape (fun q => (hc.sub q).elim Or.inl (fun g => Or.inr (Or.inl g)))
  · exact recsOK_of_buckets cfg cache hT.recs (fun k => hc.sub _)

/-- A killed `clear` (children in any order `σ`): nothing has happened, or the cache directory exists
and the cut falls into the removal of its children. -/
theorem clearIn_crash_cases (σ : List (Path × Bool) → List (Path × Bool)) (env : Env) (fs : FS)
    (n t : Nat) :
    crash env (clearIn σ cache) fs n t = fs ∨
    (fs.isDir cache = true ∧
      ∃ m, crash env (clearIn σ cache) fs n t = crash env (removeEach (σ (dirEntries fs cache))) fs m t) := by
  unfold clearIn
  cases n with
  | zero => exact Or.inl rfl
  | succ n =>
    rw [crash_sys_succ]
    simp only [exec]
    cases hd : fs.isDir cache with
    | false => exact Or.inl rfl
    | true => exact Or.inr ⟨rfl, n, rfl⟩

/-- **T2. `clear`, killed on entry to any call `n`, that call torn at any `t`** — in particular a
`remove_dir_all` that has removed any part of a child's tree — **for every order `σ` of the children**
(`σ es` need only consist of entries of `es`; every permutation does).  From a healthy cache:
the state is a sub-filesystem (every surviving path keeps its node, nothing is created), nothing outside
the cache directory — and not the cache directory itself — has changed, the cache is healthy (every
bucket file left is a whole-record file, every content file left holds the data of its address), and a
later `write` of any key succeeds, is read back and leaves a healthy cache. -/
theorem clearIn_crash (σ : List (Path × Bool) → List (Path × Bool)) (hσ : ∀ es e, e ∈ σ es → e ∈ es)
    (env : Env) (fs : FS) (hH : Healthy cfg cache fs) (n t : Nat) :
    SubFS fs (crash env (clearIn σ cache) fs n t) ∧
    (∀ q, (¬ cache <+: q ∨ q = cache) → (crash env (clearIn σ cache) fs n t).get q = fs.get q) ∧
    Healthy cfg cache (crash env (clearIn σ cache) fs n t) ∧
    (HexLen cfg → ∀ env1 env2 fl a k data, utf8Valid k = true → data.length ≤ Rec.u64Max →
      (run env1 (write cfg fl cache a k data) (crash env (clearIn σ cache) fs n t)).1 =
        .ok (Sri.compute cfg.H a data) ∧
      (run env2 (read cfg cache k)
        (run env1 (write cfg fl cache a k data) (crash env (clearIn σ cache) fs n t)).2.1).1 = .ok data ∧
      Healthy cfg cache (run env1 (write cfg fl cache a k data) (crash env (clearIn σ cache) fs n t)).2.1) := by
  have key : SubFS fs (crash env (clearIn σ cache) fs n t) ∧
      (∀ q, (¬ cache <+: q ∨ q = cache) → (crash env (clearIn σ cache) fs n t).get q = fs.get q) := by
    rcases clearIn_crash_cases cache σ env fs n t with e | ⟨_, m, e⟩
    · rw [e]; exact ⟨SubFS.refl _, fun _ _ => rfl⟩
    · rw [e]
      obtain ⟨s1, s2⟩ := removeEach_crash_sub (σ (dirEntries fs cache)) env fs m t
      refine ⟨s1, fun q hq => s2 q (fun e he => ?_)⟩
      obtain ⟨h1, h2⟩ := dirEntries_child cache (hσ _ _ he)
      exact child_not_prefix cache h1 h2 q hq
  have hH' := healthy_sub hH key.1
  refine ⟨key.1, key.2, hH', ?_⟩
  intro hl env1 env2 fl a k data hk hd
  obtain ⟨w1, w2, w3, _⟩ := read_after_write cfg cache env1 env2 fl a k data _ hH' hl hk hd
  exact ⟨w1, w2, w3⟩

/-- **T2, on a tidy cache** (what every state reached from an empty cache is): the killed `clear`
leaves a healthy AND tidy cache (`ClearedTo`: each child of the cache directory is untouched itself or
gone with everything below it), the cache directory is still there if it was, and **a later `clear`,
run to completion, empties it**: answers ok, nothing is left below the cache directory, the cache is
healthy, tidy and abstractly empty. -/
theorem clearIn_crash_tidy (σ : List (Path × Bool) → List (Path × Bool)) (hσ : ∀ es e, e ∈ σ es → e ∈ es)
    (env : Env) (fs : FS) (hH : Healthy cfg cache fs) (hT : Tidy cfg cache fs) (n t : Nat) :
    ClearedTo cache fs (crash env (clearIn σ cache) fs n t) ∧
    XHealthy cfg cache (crash env (clearIn σ cache) fs n t) ∧
    (crash env (clearIn σ cache) fs n t).isDir cache = fs.isDir cache ∧
    (fs.isDir cache = true → ∀ env',
      (run env' (clear cache) (crash env (clearIn σ cache) fs n t)).1 = .ok () ∧
      (∀ q, cache <+: q → q ≠ cache →
        (run env' (clear cache) (crash env (clearIn σ cache) fs n t)).2.1.get q = none) ∧
      XHealthy cfg cache (run env' (clear cache) (crash env (clearIn σ cache) fs n t)).2.1 ∧
      absCache cfg cache (run env' (clear cache) (crash env (clearIn σ cache) fs n t)).2.1 =
        AbsCache.empty) := by
  have hc : ClearedTo cache fs (crash env (clearIn σ cache) fs n t) := by
    rcases clearIn_crash_cases cache σ env fs n t with e | ⟨_, m, e⟩
    · rw [e]; exact ClearedTo.refl cache fs
    · rw [e]
      apply removeEach_crash cache _ env fs m t
      · intro e he; exact dirEntries_child cache (hσ _ _ he)
      · exact hT.supp
      · intro e he tg hg
        obtain ⟨q, hq, rfl⟩ := List.mem_map.mp (hσ _ _ he)
        obtain ⟨h1, h2, h3⟩ := mem_children hq
        have hne : q ≠ cache := by intro e; rw [e] at h2; omega
        have hs : fs.get q ≠ none := by intro e; rw [e] at h3; cases h3
        have := (hT.shape q h1 hne hs).2.1 h2
        have hg' : fs.get q = some (.link tg) := hg
        rw [this] at hg'; cases hg'
  have hH' := healthy_sub hH hc.sub
  have hT' := tidy_clearedTo cfg cache hT hc
  have hd : (crash env (clearIn σ cache) fs n t).isDir cache = fs.isDir cache :=
    isDir_congr (hc.outside cache (Or.inr rfl))
  refine ⟨hc, ⟨hH', hT'⟩, hd, ?_⟩
  intro hdir env'
  obtain ⟨c1, _, c3, _, c5, c6, c7⟩ := clear_empties cfg cache env' _ hH' hT' (hd.trans hdir)
  exact ⟨c1, c3, ⟨c5, c6⟩, c7⟩

/-- `clear` itself is the instance `σ = id`. -/
theorem clear_crash (env : Env) (fs : FS) (hH : Healthy cfg cache fs) (n t : Nat) :
    SubFS fs (crash env (clear cache) fs n t) ∧
    (∀ q, (¬ cache <+: q ∨ q = cache) → (crash env (clear cache) fs n t).get q = fs.get q) ∧
    Healthy cfg cache (crash env (clear cache) fs n t) ∧
    (HexLen cfg → ∀ env1 env2 fl a k data, utf8Valid k = true → data.length ≤ Rec.u64Max →
      (run env1 (write cfg fl cache a k data) (crash env (clear cache) fs n t)).1 =
        .ok (Sri.compute cfg.H a data) ∧
      (run env2 (read cfg cache k)
        (run env1 (write cfg fl cache a k data) (crash env (clear cache) fs n t)).2.1).1 = .ok data ∧
      Healthy cfg cache (run env1 (write cfg fl cache a k data) (crash env (clear cache) fs n t)).2.1) :=
  clearIn_crash cfg cache id (fun _ _ h => h) env fs hH n t

end Clear

/-! T2, non-vacuity.  The children of `/c` in `fsW` are `index-v5`, `content-v2`, `tmp`; `read_dir` is
call 0, the three `remove_dir_all`s are calls 1, 2, 3 (model order) resp. `tmp`, `content-v2`,
`index-v5` (reversed order). -/

section T2Examples

-- model order, `remove_dir_all(index-v5)` torn after ONE removal (the directory `index-v5/00`): the
-- bucket file is still there (below a directory that is gone), the lookup still finds the entry
example : (crash {} (clear [[99]]) fsW 1 1).get [[99], dIndex, [48, 48]] = none := by rfl
example : (run {} (find cfg1 [[99]] [107]) (crash {} (clear [[99]]) fsW 1 1)).1 = .ok (some m107) := by rfl
-- … torn after all three removals below `index-v5`: the entry is gone, the content is still there
example : (run {} (find cfg1 [[99]] [107]) (crash {} (clear [[99]]) fsW 1 3)).1 = .ok none := by rfl
example : (crash {} (clear [[99]]) fsW 1 3).get cp3 = some (.file [1, 2, 3]) := by rfl
-- model order, `index-v5` removed, `remove_dir_all(content-v2)` torn after two removals
example : (crash {} (clear [[99]]) fsW 2 2).get cp3 = some (.file [1, 2, 3]) := by rfl
-- reversed order, `tmp` removed, `content-v2` removed to the last file (torn at 9 ≥ 4), `index-v5`
-- untouched: the entry dangles — found by a lookup, NotFound on read
example : (run {} (find cfg1 [[99]] [107]) (crash {} (clearIn List.reverse [[99]]) fsW 2 9)).1 =
    .ok (some m107) := by rfl
example : (run {} (read cfg1 [[99]] [107]) (crash {} (clearIn List.reverse [[99]]) fsW 2 9)).1 =
    .error (.io .notFound) := by rfl
-- a later `clear` empties what the killed one left, a later write is found
example : (run {} (clear [[99]]) (crash {} (clear [[99]]) fsW 1 1)).1 = .ok () := by rfl
example : (run {} (clear [[99]]) (crash {} (clear [[99]]) fsW 1 1)).2.1.get (bucketPath cfg1 [[99]] [107]) = none := by rfl
example : (run {} (read cfg1 [[99]] [107])
    (run {} (write cfg1 .sync [[99]] .sha256 [107] [7, 7]) (crash {} (clear [[99]]) fsW 1 1)).2.1).1 = .ok [7, 7] :=
  ((clear_crash cfg1 [[99]] {} fsW fsW_xhealthy.healthy 1 1).2.2.2 hexLen1 {} {} .sync .sha256
    [107] [7, 7] (by decide) (by simp [Rec.u64Max])).2.1
-- the hypotheses of the T2 theorems are met
example (n t : Nat) := clearIn_crash cfg1 [[99]] List.reverse (fun _ _ h => List.mem_reverse.mp h) {} fsW2
  fsW2_xhealthy.healthy n t
example (n t : Nat) := clearIn_crash_tidy cfg1 [[99]] List.reverse (fun _ _ h => List.mem_reverse.mp h) {} fsW2
  fsW2_xhealthy.healthy fsW2_xhealthy.tidy n t

end T2Examples

/-! ### T3 — `remove_hash`: one `unlink` -/

/-- **T3.** `remove_hash` is covered by `COp` (`.addr (.drop sri)`, `CrashRefine.crashOp_admissible`);
restated: a kill leaves the start state or the final state, the cache is healthy, and the abstract
state is the old one or the new one of `dropSpec`. -/
theorem removeHash_crash (env : Env) (sri : Integrity) (fs : FS) (h : Healthy cfg cache fs)
    (hl : HexLen cfg) (n t : Nat) :
    (crash env (removeHash cache sri) fs n t = fs ∨
      crash env (removeHash cache sri) fs n t = (run env (removeHash cache sri) fs).2.1) ∧
    Healthy cfg cache (crash env (removeHash cache sri) fs n t) ∧
    (absCache cfg cache (crash env (removeHash cache sri) fs n t) = absCache cfg cache fs ∨
      absCache cfg cache (crash env (removeHash cache sri) fs n t) =
        { index := absIndex cfg cache fs, store := (dropSpec (absStore cache fs) sri).1 }) := by
  obtain ⟨g1, g2⟩ := crashOp_admissible cfg cache env (.addr (.drop sri)) fs h hl trivial n t
  refine ⟨CrashRefine.removeHash_crash cache env sri fs n t, g1, ?_⟩
  rcases g2 with g2 | ⟨env', g2⟩ | g2
  · exact Or.inl g2
  · exact Or.inr g2
  · exact g2.elim

/-! ### T5 — the packaged statement for the extended operation set -/

/-- `m'` is a **sub-state** of `m`: every key keeps its entry or loses it, every address keeps its
content or loses it, the cache directory is there iff it was, the index directory / a bucket file is
there only if it was. -/
structure SubX (m m' : XAbs) : Prop where
  index : ∀ k, m'.cache.index k = m.cache.index k ∨ m'.cache.index k = none
  store : ∀ a hx, m'.cache.store a hx = m.cache.store a hx ∨ m'.cache.store a hx = none
  cacheDir : m'.cacheDir = m.cacheDir
  indexDir : m'.indexDir = true → m.indexDir = true
  bucket : ∀ k, m'.bucket k = true → m.bucket k = true

theorem SubX.refl (m : XAbs) : SubX m m :=
  ⟨fun _ => Or.inl rfl, fun _ _ => Or.inl rfl, rfl, fun h => h, fun _ h => h⟩

/-- A sub-filesystem that keeps the cache directory abstracts to a sub-state. -/
theorem subX_of_sub {fs fs' : FS} (hs : SubFS fs fs') (hc : fs'.get cache = fs.get cache) :
    SubX (absX cfg cache fs) (absX cfg cache fs') := by
  refine ⟨?_, ?_, isDir_congr hc, ?_, ?_⟩
  · intro k
    show absIndex cfg cache fs' k = absIndex cfg cache fs k ∨ absIndex cfg cache fs' k = none
    unfold absIndex
    rcases hs (bucketPath cfg cache k) with g | g
    · rw [g]; exact Or.inl rfl
    · rw [g]; exact Or.inr rfl
  · intro a hx
    show absStore cache fs' a hx = absStore cache fs a hx ∨ absStore cache fs' a hx = none
    unfold absStore
    rcases hs (addrPath cache a hx) with g | g
    · rw [g]; exact Or.inl rfl
    · rw [g]; exact Or.inr rfl
  · intro h
    have h' : fs'.isDir (cache ++ [dIndex]) = true := h
    show fs.isDir (cache ++ [dIndex]) = true
    rw [isDir_iff (by simp)] at h' ⊢
    rcases hs (cache ++ [dIndex]) with g | g
    · rw [← g]; exact h'
    · rw [g] at h'; cases h'
  · intro k h
    have h' : (fs'.get (bucketPath cfg cache k)).isSome = true := h
    show (fs.get (bucketPath cfg cache k)).isSome = true
    rcases hs (bucketPath cfg cache k) with g | g
    · rw [← g]; exact h'
    · rw [g] at h'; cases h'

/-- The mutating operations whose crash semantics this file adds: a full removal, a clear (children
taken in the order `σ`). -/
inductive MOp where
  | removeFully (key : Bytes)
  | clear (σ : List (Path × Bool) → List (Path × Bool))

def MOp.WF : MOp → Prop
  | .removeFully _ => True
  | .clear σ => ∀ es e, e ∈ σ es → e ∈ es

/-- What a kill on entry to call `n`, torn at `t`, leaves. -/
def crashM (env : Env) : MOp → FS → Nat → Nat → FS
  | .removeFully key, fs, n, t => crash env (removeFully cfg cache key) fs n t
  | .clear σ, fs, n, t => crash env (clearIn σ cache) fs n t

/-- The abstract states a kill may leave: for `remove_fully` the old one, the dangling intermediate
one, the new one; for `clear` any sub-state. -/
def AdmissibleM (m : XAbs) : MOp → XAbs → Prop
  | .removeFully key, m' => AdmissibleRF cfg m key m'
  | .clear _, m' => SubX m m'

/-- **One crashed `remove_fully` / `clear`**: healthy, tidy, admissible. -/
theorem crashM_admissible (env : Env) (op : MOp) (fs : FS) (h : XHealthy cfg cache fs) (hl : HexLen cfg)
    (hop : op.WF) (n t : Nat) :
    XHealthy cfg cache (crashM cfg cache env op fs n t) ∧
    AdmissibleM cfg (absX cfg cache fs) op (absX cfg cache (crashM cfg cache env op fs n t)) := by
  cases op with
  | removeFully key => exact removeFully_crash_states cfg cache env key fs h.healthy hl h.tidy n t
  | clear σ =>
    obtain ⟨c1, c2, _, _⟩ := clearIn_crash_tidy cfg cache σ hop env fs h.healthy h.tidy n t
    exact ⟨c2, subX_of_sub cfg cache c1.sub (c1.outside cache (Or.inr rfl))⟩

/-- **T5. `crash_then_continue_ext`.**  Run any sequence `pre` of extended operations (`XOp`: the
operations of `COp`, listings, full removals, clears), then `remove_fully key` or `clear` (any order of
the children) KILLED on entry to any call `n`, that call torn at any `t`, then any sequence `post` — all
from a healthy, tidy cache (e.g. an empty one).  Then the state after the kill is healthy and tidy and
abstracts to an admissible state `m'` (old / dangling / new for `remove_fully`; a sub-state for
`clear`) of the abstract state after `pre`; every answer of `pre` is the abstract machine's; **every
answer of `post` is what the abstract machine gives from `m'`**, `post` ends in the state it predicts,
and the cache is healthy and tidy again. -/
theorem crash_then_continue_ext (pre post : List (Env × XOp)) (env : Env) (op : MOp) (fs : FS)
    (h : XHealthy cfg cache fs) (hl : HexLen cfg) (hpre : ∀ x ∈ pre, x.2.WF cfg) (hop : op.WF)
    (hpost : ∀ x ∈ post, x.2.WF cfg) (n t : Nat) :
    ∃ m', AdmissibleM cfg (xSpecRun cfg pre (absX cfg cache fs)).2 op m' ∧
      XHealthy cfg cache (crashM cfg cache env op (xRunOps cfg cache pre fs).2 n t) ∧
      absX cfg cache (crashM cfg cache env op (xRunOps cfg cache pre fs).2 n t) = m' ∧
      Answers (xRunOps cfg cache pre fs).1 (xSpecRun cfg pre (absX cfg cache fs)).1 ∧
      Answers (xRunOps cfg cache post (crashM cfg cache env op (xRunOps cfg cache pre fs).2 n t)).1
        (xSpecRun cfg post m').1 ∧
      absX cfg cache (xRunOps cfg cache post (crashM cfg cache env op (xRunOps cfg cache pre fs).2 n t)).2 =
        (xSpecRun cfg post m').2 ∧
      XHealthy cfg cache (xRunOps cfg cache post (crashM cfg cache env op (xRunOps cfg cache pre fs).2 n t)).2 := by
  obtain ⟨p1, p2, p3⟩ := cache_refines_map_ext cfg cache pre fs h hl hpre
  obtain ⟨c1, c2⟩ := crashM_admissible cfg cache env op _ p3 hl hop n t
  obtain ⟨q1, q2, q3⟩ := cache_refines_map_ext cfg cache post _ c1 hl hpost
  rw [p2] at c2
  exact ⟨_, c2, c1, rfl, p1, q1, q2, q3⟩

/-- T5 read for one later lookup: after `pre`, a killed `remove_fully key`, a later `get`-style lookup
of any key answers the old entry or nothing (for keys of another bucket: the old entry). -/
theorem find_after_crashed_removeFully (pre : List (Env × XOp)) (env env' : Env) (key k : Bytes) (fs : FS)
    (h : XHealthy cfg cache fs) (hl : HexLen cfg) (hpre : ∀ x ∈ pre, x.2.WF cfg) (n t : Nat) :
    (run env' (find cfg cache k)
        (crash env (removeFully cfg cache key) (xRunOps cfg cache pre fs).2 n t)).1 =
      .ok ((xSpecRun cfg pre (absX cfg cache fs)).2.cache.index k) ∨
    (SameBucket cfg k key ∧
      (run env' (find cfg cache k)
        (crash env (removeFully cfg cache key) (xRunOps cfg cache pre fs).2 n t)).1 = .ok none) := by
  obtain ⟨_, p2, p3⟩ := cache_refines_map_ext cfg cache pre fs h hl hpre
  obtain ⟨c1, c2⟩ := removeFully_crash_states cfg cache env key _ p3.healthy hl p3.tidy n t
  rw [(run_find cfg cache env' k _ c1.healthy.index).1]
  have hidx : absIndex cfg cache (crash env (removeFully cfg cache key) (xRunOps cfg cache pre fs).2 n t) k =
      (absX cfg cache (crash env (removeFully cfg cache key) (xRunOps cfg cache pre fs).2 n t)).cache.index k := rfl
  rw [hidx]
  rcases c2 with e | e | e
  · left; rw [e, p2]
  · left; rw [e, p2]; rfl
  · rw [e, p2]
    rcases removeFullySpec_index cfg (xSpecRun cfg pre (absX cfg cache fs)).2 key k with g | ⟨g1, g2⟩
    · left; rw [g]
    · right; exact ⟨g1, by rw [g2]⟩

section LinkT4
open LinkRefine LinkDecl

/-! ### T4 — the link commit (`link_to`), killed anywhere -/

section Link

theorem crash_sys_inv {α : Type} {Q : FS → Prop} (env : Env) (c : Call) (k : Ret → Prog α) (fs : FS)
    (h0 : ∀ t, Q (execTorn env fs t c))
    (hk : ∀ n t, Q (crash env (k (exec env fs c).2) (exec env fs c).1 n t)) (n t : Nat) :
    Q (crash env (.sys c k) fs n t) := by
  cases n with
  | zero => exact h0 t
  | succ n => exact hk n t

/-- A continuation that issues no call does not matter to a kill. -/
theorem crash_bind_done {α β : Type} (env : Env) (p : Prog α) (f : α → Prog β)
    (hf : ∀ a, ∃ b, f a = .done b) (fs : FS) (n t : Nat) :
    crash env (Prog.bind p f) fs n t = crash env p fs n t := by
  induction p generalizing fs n with
  | done a => obtain ⟨b, hb⟩ := hf a; simp only [bind_done, hb]; rfl
  | sys c k ih =>
    cases n with
    | zero => rfl
    | succ n => simp only [bind_sys, crash_sys_succ]; exact ih _ _ _

variable (cache : Path) (a : Algo) (hx : Bytes) (T : Target)

/-- The paths a link commit may create, change or delete as non-directories: the children of
`cache/tmp` (its temp link) and the content address. -/
def LinkP (q : Path) : Prop := IsTmp cache q ∨ q = addrPath cache a hx

/-- **What a (partly) executed link phase may have done to `fs0`**: a quiet change (new directories
towards the address and towards `cache/tmp`; children of `cache/tmp` — the temp link; the address), in
which the address holds what it held, or the NEW link — and a regular file at the address is never
replaced. -/
structure LinkStep (fs0 fs1 : FS) : Prop where
  quiet : Quiet (LinkP cache a hx) (ToTmpOrAddr cache a hx) fs0 fs1
  addr : fs1.get (addrPath cache a hx) = fs0.get (addrPath cache a hx) ∨
    (fs1.get (addrPath cache a hx) = some (.link T) ∧ ∀ x, fs0.get (addrPath cache a hx) ≠ some (.file x))

theorem LinkStep.refl (fs : FS) : LinkStep cache a hx T fs fs := ⟨Quiet.refl _, Or.inl rfl⟩

theorem LinkStep.trans {f0 f1 f2 : FS} (h1 : LinkStep cache a hx T f0 f1) (h2 : LinkStep cache a hx T f1 f2) :
    LinkStep cache a hx T f0 f2 := by
  refine ⟨h1.quiet.trans h2.quiet, ?_⟩
  rcases h2.addr with g2 | ⟨g2, n2⟩
  · rw [g2]; exact h1.addr
  · right
    refine ⟨g2, fun x hx0 => ?_⟩
    rcases h1.addr with g1 | ⟨g1, n1⟩
    · rw [← g1] at hx0; exact n2 x hx0
    · exact n1 x hx0

theorem addr_not_linkD : ¬ ToTmpOrAddr cache a hx (addrPath cache a hx) := by
  rintro (h | h)
  · exact addr_not_prefix_tmpDir cache a hx h
  · exact addr_not_prefix_parent cache a a hx hx h

/-- A change confined to the children of `cache/tmp` and new directories is a link step. -/
theorem LinkStep.of_quiet {f0 f1 : FS} (h : Quiet (IsTmp cache) (ToTmpOrAddr cache a hx) f0 f1) :
    LinkStep cache a hx T f0 f1 :=
  ⟨h.mono (fun _ p => Or.inl p) (fun _ d => d),
    Or.inl (h.keep (fun p => isTmp_ne_addr cache p a hx rfl) (addr_not_linkD cache a hx))⟩

theorem linkStep_mild {env : Env} {fs : FS} {c : Call} (hm : Mild (IsTmp cache) (ToTmpOrAddr cache a hx) c) :
    LinkStep cache a hx T fs (exec env fs c).1 ∧ ∀ t, LinkStep cache a hx T fs (execTorn env fs t c) :=
  ⟨LinkStep.of_quiet cache a hx T (mild_step hm .ok), fun t => LinkStep.of_quiet cache a hx T (mild_torn t hm)⟩

theorem mkdirP_ret (env : Env) (fs : FS) (d : Path) :
    (exec env fs (.mkdirP d)).2 = .unit ∨ ∃ e, (exec env fs (.mkdirP d)).2 = .err e := by
  simp only [exec]
  split
  · exact Or.inl rfl
  · exact Or.inr ⟨_, rfl⟩

theorem symlink_step (env : Env) (fs : FS) :
    LinkStep cache a hx T fs (exec env fs (.symlink T (addrPath cache a hx))).1 ∧
    ((exec env fs (.symlink T (addrPath cache a hx))).2 = .unit ∨
      ∃ e, (exec env fs (.symlink T (addrPath cache a hx))).2 = .err e) := by
  simp only [exec]
  split
  · exact ⟨LinkStep.refl cache a hx T fs, Or.inr ⟨_, rfl⟩⟩
  · rename_i hn
    split
    · exact ⟨LinkStep.refl cache a hx T fs, Or.inr ⟨_, rfl⟩⟩
    · refine ⟨⟨?_, Or.inr ⟨FS.get_put_same _ _ _, ?_⟩⟩, Or.inl rfl⟩
      · intro q
        by_cases e : q = addrPath cache a hx
        · exact Or.inl (Or.inr e)
        · exact Or.inr (Or.inl (FS.get_put_ne _ _ e))
      · intro x hx0
        rw [hx0] at hn
        exact hn rfl

theorem isLink_exec (env : Env) (fs : FS) (p : Path) :
    (exec env fs (.isLink p)).1 = fs ∧
    (((exec env fs (.isLink p)).2 = .bool true ∧ ∃ t0, fs.get p = some (.link t0)) ∨
      (exec env fs (.isLink p)).2 = .bool false) := by
  simp only [exec]
  split
  · rename_i t0 h0; exact ⟨rfl, Or.inl ⟨rfl, t0, h0⟩⟩
  · exact ⟨rfl, Or.inr rfl⟩

theorem mkTempLink_step (env : Env) (fs : FS) :
    LinkStep cache a hx T fs (exec env fs (.mkTempLink (cache ++ [dTmp]) T)).1 ∧
    ((∃ tp, (exec env fs (.mkTempLink (cache ++ [dTmp]) T)).2 = .path tp ∧ IsTmp cache tp ∧
        (exec env fs (.mkTempLink (cache ++ [dTmp]) T)).1.get tp = some (.link T)) ∨
      ∃ e, (exec env fs (.mkTempLink (cache ++ [dTmp]) T)).2 = .err e) := by
  simp only [exec]
  split
  · refine ⟨LinkStep.of_quiet cache a hx T ?_, Or.inl ⟨_, rfl, ⟨_, rfl⟩, ?_⟩⟩
    · intro q
      by_cases e : q = (cache ++ [dTmp]) ++ [tmpName fs.next]
      · exact Or.inl ⟨_, e⟩
      · exact Or.inr (Or.inl (FS.get_put_ne _ _ e))
    · exact FS.get_put_same _ _ _
  · exact ⟨LinkStep.refl cache a hx T fs, Or.inr ⟨_, rfl⟩⟩

theorem renameLink_step (env : Env) (fs : FS) (tp : Path) (htp : IsTmp cache tp)
    (hg : fs.get tp = some (.link T)) (hnf : ∀ x, fs.get (addrPath cache a hx) ≠ some (.file x)) :
    LinkStep cache a hx T fs (exec env fs (.renameLink tp (addrPath cache a hx))).1 ∧
    ((exec env fs (.renameLink tp (addrPath cache a hx))).2 = .unit ∨
      ∃ e, (exec env fs (.renameLink tp (addrPath cache a hx))).2 = .err e) := by
  simp only [exec, hg]
  split
  · exact ⟨LinkStep.refl cache a hx T fs, Or.inr ⟨_, rfl⟩⟩
  · split
    · exact ⟨LinkStep.refl cache a hx T fs, Or.inr ⟨_, rfl⟩⟩
    · refine ⟨⟨?_, Or.inr ⟨FS.get_put_same _ _ _, hnf⟩⟩, Or.inl rfl⟩
      intro q
      by_cases e : q = addrPath cache a hx
      · exact Or.inl (Or.inr e)
      · by_cases e2 : q = tp
        · exact Or.inl (Or.inl (e2 ▸ htp))
        · exact Or.inr (Or.inl (by rw [FS.get_put_ne _ _ e, FS.get_del_ne _ e2]))

theorem mild_addr_keep {env : Env} {fs : FS} {c : Call} (hm : Mild (IsTmp cache) (ToTmpOrAddr cache a hx) c) :
    (exec env fs c).1.get (addrPath cache a hx) = fs.get (addrPath cache a hx) :=
  (mild_step hm .ok).keep (fun p => isTmp_ne_addr cache p a hx rfl) (addr_not_linkD cache a hx)

theorem mkTempLink_addr (env : Env) (fs : FS) :
    (exec env fs (.mkTempLink (cache ++ [dTmp]) T)).1.get (addrPath cache a hx) = fs.get (addrPath cache a hx) := by
  simp only [exec]
  split
  · exact FS.get_put_ne _ _ (tmp_ne_addr cache _ a hx).symm
  · rfl

variable (cfg : Cfg)

/-- **The link phase, killed anywhere, from ANY filesystem** (no invariant assumed): `LinkStep`. -/
theorem linkPhase_crash (env : Env) (l : Linker) (hs : l.opts.sri = none) (hz : l.opts.size = none)
    (hk : l.key = none) (cpath : Path)
    (hcp : contentPath l.cache (Sri.compute cfg.H l.algo l.data) = some cpath) (fs : FS) (n t : Nat) :
    LinkStep l.cache l.algo (Bytes.hex (cfg.H l.algo l.data)) l.target fs (crash env (lcommit cfg l) fs n t) := by
  have hc := cpath_eq cfg hcp
  subst hc
  unfold lcommit
  simp only [hcp, hs, hz, hk, bind_eq, pure_eq, call, bind_sys, bind_done]
  revert n t
  have hm1 : Mild (IsTmp l.cache) (ToTmpOrAddr l.cache l.algo (Bytes.hex (cfg.H l.algo l.data)))
      (.mkdirP (FS.parent (addrPath l.cache l.algo (Bytes.hex (cfg.H l.algo l.data))))) := fun q hq => Or.inr hq
  obtain ⟨h1, t1⟩ := linkStep_mild l.cache l.algo (Bytes.hex (cfg.H l.algo l.data)) l.target (env := env) (fs := fs) hm1
  refine crash_sys_inv (Q := fun s => LinkStep l.cache l.algo (Bytes.hex (cfg.H l.algo l.data)) l.target fs s)
    env _ _ fs t1 ?_
  rcases mkdirP_ret env fs (FS.parent (addrPath l.cache l.algo (Bytes.hex (cfg.H l.algo l.data)))) with e | ⟨e', e⟩
  all_goals rw [e]
  all_goals generalize (exec env fs (Call.mkdirP (FS.parent (addrPath l.cache l.algo (Bytes.hex (cfg.H l.algo l.data)))))).1 = fs1 at h1
  all_goals simp only []
  · suffices h : ∀ n t, LinkStep l.cache l.algo (Bytes.hex (cfg.H l.algo l.data)) l.target fs1 (crash env _ fs1 n t) from
      fun n t => LinkStep.trans _ _ _ _ h1 (h n t)
    clear h1 t1 e hm1
    -- the symlink
    obtain ⟨h2, r2⟩ := symlink_step l.cache l.algo (Bytes.hex (cfg.H l.algo l.data)) l.target env fs1
    refine crash_sys_inv (Q := fun s => LinkStep l.cache l.algo (Bytes.hex (cfg.H l.algo l.data)) l.target fs1 s)
      env _ _ fs1 (fun _ => LinkStep.refl _ _ _ _ _) ?_
    rcases r2 with e | ⟨e2, e⟩
    all_goals rw [e]
    all_goals generalize (exec env fs1 (Call.symlink l.target (addrPath l.cache l.algo (Bytes.hex (cfg.H l.algo l.data))))).1 = fs2 at h2
    all_goals simp only [bind_done]
    · exact fun _ _ => h2
    · intro n t
      rw [crash_bind_done _ _ _ (by intro x; cases x <;> exact ⟨_, rfl⟩)]
      revert n t
      suffices h : ∀ n t, LinkStep l.cache l.algo (Bytes.hex (cfg.H l.algo l.data)) l.target fs2 (crash env _ fs2 n t) from
        fun n t => LinkStep.trans _ _ _ _ h2 (h n t)
      clear h2 e
      -- `lstat`: is the occupant a link?
      obtain ⟨e3, r3⟩ := isLink_exec env fs2 (addrPath l.cache l.algo (Bytes.hex (cfg.H l.algo l.data)))
      refine crash_sys_inv (Q := fun s => LinkStep l.cache l.algo (Bytes.hex (cfg.H l.algo l.data)) l.target fs2 s)
        env _ _ fs2 (fun _ => LinkStep.refl _ _ _ _ _) ?_
      rw [e3]
      rcases r3 with ⟨e, t0, ht0⟩ | e
      all_goals rw [e]
      all_goals simp only []
      · -- an earlier link: `sameFile`
        refine crash_sys_inv (Q := fun s => LinkStep l.cache l.algo (Bytes.hex (cfg.H l.algo l.data)) l.target fs2 s)
          env _ _ fs2 (fun _ => LinkStep.refl _ _ _ _ _) ?_
        rw [LinkRefine.exec_sameFile]
        cases sameB fs2 (addrPath l.cache l.algo (Bytes.hex (cfg.H l.algo l.data))) l.target
        all_goals simp only []
        · -- not the same file: `create_dir_all(cache/tmp)`, temp link, rename
          have hm5 : Mild (IsTmp l.cache) (ToTmpOrAddr l.cache l.algo (Bytes.hex (cfg.H l.algo l.data)))
              (.mkdirP (l.cache ++ [dTmp])) := fun q hq => Or.inl hq
          obtain ⟨h5, t5⟩ := linkStep_mild l.cache l.algo (Bytes.hex (cfg.H l.algo l.data)) l.target
            (env := env) (fs := fs2) hm5
          have k5 := mild_addr_keep l.cache l.algo (Bytes.hex (cfg.H l.algo l.data)) (env := env) (fs := fs2) hm5
          refine crash_sys_inv (Q := fun s => LinkStep l.cache l.algo (Bytes.hex (cfg.H l.algo l.data)) l.target fs2 s)
            env _ _ fs2 t5 ?_
          rcases mkdirP_ret env fs2 (l.cache ++ [dTmp]) with e5 | ⟨e5', e5⟩
          all_goals rw [e5]
          all_goals generalize (exec env fs2 (Call.mkdirP (l.cache ++ [dTmp]))).1 = fs3 at h5 k5
          all_goals simp only []
          · suffices h : ∀ n t, LinkStep l.cache l.algo (Bytes.hex (cfg.H l.algo l.data)) l.target fs3
                (crash env _ fs3 n t) from fun n t => LinkStep.trans _ _ _ _ h5 (h n t)
            rw [ht0] at k5
            clear h5 t5 e5 hm5 ht0 e e3
            -- the temp link
            obtain ⟨h6, r6⟩ := mkTempLink_step l.cache l.algo (Bytes.hex (cfg.H l.algo l.data)) l.target env fs3
            have k6 := mkTempLink_addr l.cache l.algo (Bytes.hex (cfg.H l.algo l.data)) l.target env fs3
            rw [k5] at k6
            refine crash_sys_inv (Q := fun s => LinkStep l.cache l.algo (Bytes.hex (cfg.H l.algo l.data)) l.target fs3 s)
              env _ _ fs3 (fun _ => LinkStep.refl _ _ _ _ _) ?_
            rcases r6 with ⟨tp, e6, htp, hg6⟩ | ⟨e6', e6⟩
            · rw [e6]
              generalize (exec env fs3 (Call.mkTempLink (l.cache ++ [dTmp]) l.target)).1 = fs4 at h6 k6 hg6
              simp only []
              suffices h : ∀ n t, LinkStep l.cache l.algo (Bytes.hex (cfg.H l.algo l.data)) l.target fs4
                    (crash env _ fs4 n t) from fun n t => LinkStep.trans _ _ _ _ h6 (h n t)
              clear h6 e6
              -- the rename over the address
              obtain ⟨h7, r7⟩ := renameLink_step l.cache l.algo (Bytes.hex (cfg.H l.algo l.data)) l.target env fs4 tp
                htp hg6 (by rw [k6]; intro x hx0; cases hx0)
              refine crash_sys_inv (Q := fun s => LinkStep l.cache l.algo (Bytes.hex (cfg.H l.algo l.data)) l.target fs4 s)
                env _ _ fs4 (fun _ => LinkStep.refl _ _ _ _ _) ?_
              rcases r7 with e7 | ⟨e7', e7⟩
              all_goals rw [e7]
              all_goals generalize (exec env fs4 (Call.renameLink tp (addrPath l.cache l.algo (Bytes.hex (cfg.H l.algo l.data))))).1 = fs5 at h7
              all_goals simp only []
              · exact fun _ _ => h7
              · intro n t
                rw [crash_bind_done _ _ _ (fun _ => ⟨_, rfl⟩)]
                refine LinkStep.trans _ _ _ _ h7 (LinkStep.of_quiet _ _ _ _ ?_)
                exact (mild_crash (dropTmp_mild l.cache tp htp) env fs5 n t).mono (fun _ p => p) (fun _ d => Or.inl d)
            · rw [e6]
              simp only []
              exact fun _ _ => h6
          · exact fun _ _ => h5
        · exact fun _ _ => LinkStep.refl _ _ _ _ _
      · -- not a link: `exists`
        refine crash_sys_inv (Q := fun s => LinkStep l.cache l.algo (Bytes.hex (cfg.H l.algo l.data)) l.target fs2 s)
          env _ _ fs2 (fun _ => LinkStep.refl _ _ _ _ _) ?_
        simp only [exec]
        cases fs2.existsFollow (addrPath l.cache l.algo (Bytes.hex (cfg.H l.algo l.data)))
        all_goals exact fun _ _ => LinkStep.refl _ _ _ _ _
  · exact fun _ _ => h1

/-! what `LinkStep` means for the cache -/

theorem absIndex_del_addr (fs : FS) :
    absIndex cfg cache (fs.del (addrPath cache a hx)) = absIndex cfg cache fs := by
  funext k
  unfold absIndex
  rw [FS.get_del_ne _ (bucket_ne_addr cfg cache k a hx)]

/-- `HealthyIndex` does not look at content addresses. -/
theorem healthyIndex_of_del {fs : FS} (h : HealthyIndex cfg cache (fs.del (addrPath cache a hx))) :
    HealthyIndex cfg cache fs := by
  refine (healthy_congr cfg cache h (fun k => ?_) (fun k q _ hp => ?_)).1
  · exact (FS.get_del_ne _ (bucket_ne_addr cfg cache k a hx)).symm
  · refine (FS.get_del_ne _ ?_).symm
    intro e; subst e
    exact addr_not_prefix_parent_bucket cfg cache a hx k hp

theorem quiet_del {P D : Path → Prop} {fs s : FS} (p : Path) (hp : P p) (h : Quiet P D fs s) :
    Quiet P D (fs.del p) (s.del p) := by
  intro q
  by_cases e : q = p
  · exact Or.inl (e ▸ hp)
  · rw [FS.get_del_ne _ e, FS.get_del_ne _ e]; exact h q

/-- **Healthy apart from the node at the address**: a link step from a cache that is healthy apart
from what lives at the content address (nothing, regular content, an earlier link) leaves a cache that
is healthy apart from what lives at that address — left-over temp links in `cache/tmp` and torn
directories included — with the same index (every bucket file untouched), and every other content
address as before. -/
theorem linkStep_healthy {fs s : FS} (h : Healthy cfg cache (fs.del (addrPath cache a hx)))
    (hs : LinkStep cache a hx T fs s) :
    Healthy cfg cache (s.del (addrPath cache a hx)) ∧ HealthyIndex cfg cache s ∧
    absIndex cfg cache s = absIndex cfg cache fs ∧
    absStore cache (s.del (addrPath cache a hx)) = absStore cache (fs.del (addrPath cache a hx)) ∧
    (∀ k, s.get (bucketPath cfg cache k) = fs.get (bucketPath cfg cache k)) := by
  have hq := quiet_del (addrPath cache a hx) (Or.inr rfl) hs.quiet
  have hD : ∀ q, ToTmpOrAddr cache a hx q → DirPath cfg cache q := fun q d => toTmpOrAddr_dirPath cfg cache d
  have hPa : ∀ a' hx', LinkP cache a hx (addrPath cache a' hx') → addrPath cache a' hx' = addrPath cache a hx := by
    intro a' hx' p
    rcases p with p | p
    · exact absurd rfl (isTmp_ne_addr cache p a' hx')
    · exact p
  have hPb : ∀ k, ¬ LinkP cache a hx (bucketPath cfg cache k) := by
    intro k p
    rcases p with p | p
    · exact isTmp_ne_bucket cfg cache p k rfl
    · exact bucket_ne_addr cfg cache k a hx p
  have hH : Healthy cfg cache (s.del (addrPath cache a hx)) := by
    refine quiet_healthy cfg cache h hq hD ?_ ?_ ?_
    · intro q p d
      rcases p with p | p
      · exact dirPath_not_tmp cfg cache d p
      · exact dirPath_ne_addr cfg cache d a hx p
    · intro a' hx' _ p
      left
      rw [hPa a' hx' p]; exact FS.get_del_same _ _
    · intro k p; exact absurd p (hPb k)
  refine ⟨hH, healthyIndex_of_del cache a hx cfg hH.index, ?_, ?_, ?_⟩
  · exact quiet_absIndex cfg cache hs.quiet hD hPb
  · funext a' hx'
    unfold absStore
    by_cases e : addrPath cache a' hx' = addrPath cache a hx
    · rw [e, FS.get_del_same, FS.get_del_same]
    · rw [hq.keep (fun p => e (hPa a' hx' p)) (fun d => dirPath_ne_addr cfg cache (hD _ d) a' hx' rfl)]
  · intro k
    exact hs.quiet.keep (hPb k) (fun d => dirPath_ne_bucket cfg cache (hD _ d) k rfl)

/-- **Everything that existed — other than the address and the children of `cache/tmp` — is
untouched** (in particular the target file, wherever it lives). -/
theorem LinkStep.keeps_existing {fs s : FS} (hs : LinkStep cache a hx T fs s) (q : Path) (x : Node)
    (hq : fs.get q = some x) (h1 : ¬ IsTmp cache q) (h2 : q ≠ addrPath cache a hx) : s.get q = some x := by
  rcases hs.quiet q with p | e | ⟨e, _⟩
  · rcases p with p | p
    · exact absurd p h1
    · exact absurd p h2
  · rw [e]; exact hq
  · rw [hq] at e; cases e

/-! the whole commit: link phase, declaration checks, index step -/

/-- Killing what follows the link phase: nothing happens (checks issue no call; a by-address commit
ends here), or the cut falls into the index insertion of a keyed linker. -/
theorem after_crash (env : Env) (l : Linker) (r : Res Integrity) (fsL : FS) (m t : Nat) :
    crash env (LinkDecl.after cfg l r) fsL m t = fsL ∨
    ∃ k rec, l.key = some k ∧
      declCheck l.opts l.data.length (Sri.compute cfg.H l.algo l.data) = .ok rec ∧
      crash env (LinkDecl.after cfg l r) fsL m t = crash env (insert cfg l.cache k (declOpts l rec)) fsL m t := by
  cases r with
  | error e => exact Or.inl rfl
  | ok x =>
    simp only [LinkDecl.after, declTail]
    cases hck : declCheck l.opts l.data.length (Sri.compute cfg.H l.algo l.data) with
    | error e => exact Or.inl rfl
    | ok rec =>
      cases hk : l.key with
      | none => exact Or.inl rfl
      | some k => exact Or.inr ⟨k, rec, rfl, rfl, rfl⟩

/-- **A kill during a link commit falls into the link phase, or into the index step that follows the
COMPLETED link phase** (`LinkDecl.lcommit_split`). -/
theorem lcommit_crash_cases (env : Env) (l : Linker) (fs : FS) (n t : Nat) :
    crash env (lcommit cfg l) fs n t = crash env (lcommit cfg (bare l)) fs n t ∨
    crash env (lcommit cfg l) fs n t = (run env (lcommit cfg (bare l)) fs).2.1 ∨
    ∃ m k rec, l.key = some k ∧
      declCheck l.opts l.data.length (Sri.compute cfg.H l.algo l.data) = .ok rec ∧
      crash env (lcommit cfg l) fs n t =
        crash env (insert cfg l.cache k (declOpts l rec)) (run env (lcommit cfg (bare l)) fs).2.1 m t := by
  have h := crash_bind env (lcommit cfg (bare l)) (LinkDecl.after cfg l) fs n t
  rw [← lcommit_split] at h
  rw [h]
  split
  · exact Or.inl rfl
  · rcases after_crash cfg env l (run env (lcommit cfg (bare l)) fs).1 (run env (lcommit cfg (bare l)) fs).2.1
      (n - (run env (lcommit cfg (bare l)) fs).2.2.length) t with e | ⟨k, rec, hk, hck, e⟩
    · exact Or.inr (Or.inl e)
    · exact Or.inr (Or.inr ⟨_, k, rec, hk, hck, e⟩)

/-- The link phase run to completion is a link step, too (a kill point beyond its end). -/
theorem linkPhase_run (env : Env) (l : Linker) (cpath : Path)
    (hcp : contentPath l.cache (Sri.compute cfg.H l.algo l.data) = some cpath) (fs : FS) :
    LinkStep l.cache l.algo (Bytes.hex (cfg.H l.algo l.data)) l.target fs (run env (lcommit cfg (bare l)) fs).2.1 := by
  rw [← crash_of_le env (lcommit cfg (bare l)) fs _ 0 (Nat.le_refl _)]
  exact linkPhase_crash cfg env (bare l) rfl rfl rfl cpath hcp fs _ 0

/-- **An index insertion killed anywhere, on a cache that is healthy apart from the node at one content
address** (a link, say): as `CrashRefine.insert_crash_sem` — the insertion neither reads nor writes a
content address. -/
theorem insert_crash_modAddr (env : Env) (key : Bytes) (o : WriteOpts) (fs : FS)
    (h : Healthy cfg cache (fs.del (addrPath cache a hx))) (hw : OptsWF key o) (hs : SriOK cfg o) (n t : Nat) :
    Healthy cfg cache ((crash env (insert cfg cache key o) fs n t).del (addrPath cache a hx)) ∧
    Quiet (IsBucket cfg cache key) (ToBucket cfg cache key) fs (crash env (insert cfg cache key o) fs n t) ∧
    absStore cache ((crash env (insert cfg cache key o) fs n t).del (addrPath cache a hx)) =
      absStore cache (fs.del (addrPath cache a hx)) ∧
    (absIndex cfg cache (crash env (insert cfg cache key o) fs n t) = absIndex cfg cache fs ∨
      ∃ tm, tm ≤ timeMax ∧ (∀ t, o.time = some t → tm = t) ∧
        absIndex cfg cache (crash env (insert cfg cache key o) fs n t) =
          insIndex (absIndex cfg cache fs) key o tm) := by
  have hne : bucketPath cfg cache key ≠ addrPath cache a hx := bucket_ne_addr cfg cache key a hx
  have hq := mild_crash (insert_mild cfg cache key o) env fs n t
  have hq' : Quiet (IsBucket cfg cache key) (ToBucket cfg cache key) (fs.del (addrPath cache a hx))
      ((crash env (insert cfg cache key o) fs n t).del (addrPath cache a hx)) := by
    intro q
    by_cases e : q = addrPath cache a hx
    · right; left; rw [e, FS.get_del_same, FS.get_del_same]
    · rw [FS.get_del_ne _ e, FS.get_del_ne _ e]; exact hq q
  have hb0 : BucketIs fs (bucketPath cfg cache key)
      (bytesAt (fs.del (addrPath cache a hx)) (bucketPath cfg cache key)) :=
    (bucketIs_bytesAt cfg cache h.index key).frame (FS.get_del_ne _ hne).symm
  have hg := wpD_crash (insert_bucket_wp cfg env cache key o _ hb0) n t
  have hg' : Growing cfg cache key o (bytesAt (fs.del (addrPath cache a hx)) (bucketPath cfg cache key))
      ((crash env (insert cfg cache key o) fs n t).del (addrPath cache a hx)) := by
    obtain ⟨tm, k, hb, h1, h2⟩ := hg
    exact ⟨tm, k, hb.frame (FS.get_del_ne _ hne), h1, h2⟩
  obtain ⟨c1, c2, c3⟩ := insert_sem_core cfg cache h key o hw hs hq' hg'
  rw [absIndex_del_addr, absIndex_del_addr] at c3
  exact ⟨c1, hq, c2, c3⟩

/-- **T4. The link commit (`link_to` … `commit`), by address or keyed, with or without declared
size / integrity, killed on entry to any call `n`, that call torn at any `t`** — from a cache that is
healthy apart from what lives at the content address `cpath` of the target's bytes (`Healthy (fs.del
cpath)`: covers the four situations of `LinkDecl.Situation` — nothing, a regular file, an earlier link
to the same file, an earlier link to another file — and asks nothing else of that node):
1. the cache is healthy apart from what lives at `cpath` again (left-over temp links in `cache/tmp`,
   torn `create_dir_all`s included), its index is healthy (every bucket file settled);
2. **the address holds the old node or the new link, never anything else**, and a regular file at the
   address is never replaced (the repair path goes through `mkTempLink` + `renameLink`: a kill between
   them leaves the temp link in `cache/tmp` and the OLD link at the address);
3. every node that existed — other than the address, the children of `cache/tmp` and the key's bucket
   file — is untouched: in particular the target file;
4. every other content address holds what it held;
5. the index is the old one, or — only after the link phase is complete: the address then holds what
   the finished link phase put there — the new one of the one inserted record (for the caller's time
   stamp, else some `u128` clock reading).
For a keyed linker the recorded options must be as Rust's types allow them and the recorded integrity
a computed one (`hw`; always so without a declared integrity). -/
theorem lcommit_crash (env : Env) (l : Linker) (cpath : Path)
    (hcp : contentPath l.cache (Sri.compute cfg.H l.algo l.data) = some cpath) (fs : FS)
    (h : Healthy cfg l.cache (fs.del cpath))
    (hw : ∀ k rec, l.key = some k →
      declCheck l.opts l.data.length (Sri.compute cfg.H l.algo l.data) = .ok rec →
      OptsWF k (declOpts l rec) ∧ SriOK cfg (declOpts l rec)) (n t : Nat) :
    Healthy cfg l.cache ((crash env (lcommit cfg l) fs n t).del cpath) ∧
    HealthyIndex cfg l.cache (crash env (lcommit cfg l) fs n t) ∧
    ((crash env (lcommit cfg l) fs n t).get cpath = fs.get cpath ∨
      ((crash env (lcommit cfg l) fs n t).get cpath = some (.link l.target) ∧
        ∀ x, fs.get cpath ≠ some (.file x))) ∧
    (∀ q x, fs.get q = some x → ¬ IsTmp l.cache q → q ≠ cpath →
      (∀ k, l.key = some k → q ≠ bucketPath cfg l.cache k) →
      (crash env (lcommit cfg l) fs n t).get q = some x) ∧
    absStore l.cache ((crash env (lcommit cfg l) fs n t).del cpath) = absStore l.cache (fs.del cpath) ∧
    (absIndex cfg l.cache (crash env (lcommit cfg l) fs n t) = absIndex cfg l.cache fs ∨
      ∃ k rec tm, l.key = some k ∧
        declCheck l.opts l.data.length (Sri.compute cfg.H l.algo l.data) = .ok rec ∧
        tm ≤ timeMax ∧ (∀ t', l.opts.time = some t' → tm = t') ∧
        absIndex cfg l.cache (crash env (lcommit cfg l) fs n t) =
          insIndex (absIndex cfg l.cache fs) k (declOpts l rec) tm ∧
        (crash env (lcommit cfg l) fs n t).get cpath = (run env (lcommit cfg (bare l)) fs).2.1.get cpath) := by
  have hc := cpath_eq cfg hcp
  subst hc
  have ofStep : ∀ s, LinkStep l.cache l.algo (Bytes.hex (cfg.H l.algo l.data)) l.target fs s →
      Healthy cfg l.cache (s.del (addrPath l.cache l.algo (Bytes.hex (cfg.H l.algo l.data)))) ∧
      HealthyIndex cfg l.cache s ∧
      (s.get (addrPath l.cache l.algo (Bytes.hex (cfg.H l.algo l.data))) =
          fs.get (addrPath l.cache l.algo (Bytes.hex (cfg.H l.algo l.data))) ∨
        (s.get (addrPath l.cache l.algo (Bytes.hex (cfg.H l.algo l.data))) = some (.link l.target) ∧
          ∀ x, fs.get (addrPath l.cache l.algo (Bytes.hex (cfg.H l.algo l.data))) ≠ some (.file x))) ∧
      (∀ q x, fs.get q = some x → ¬ IsTmp l.cache q →
        q ≠ addrPath l.cache l.algo (Bytes.hex (cfg.H l.algo l.data)) → s.get q = some x) ∧
      absStore l.cache (s.del (addrPath l.cache l.algo (Bytes.hex (cfg.H l.algo l.data)))) =
        absStore l.cache (fs.del (addrPath l.cache l.algo (Bytes.hex (cfg.H l.algo l.data)))) ∧
      absIndex cfg l.cache s = absIndex cfg l.cache fs := by
    intro s hs
    obtain ⟨g1, g2, g3, g4, _⟩ := linkStep_healthy l.cache l.algo _ l.target cfg h hs
    exact ⟨g1, g2, hs.addr, fun q x hq h1 h2 => hs.keeps_existing _ _ _ _ q x hq h1 h2, g4, g3⟩
  rcases lcommit_crash_cases cfg env l fs n t with e | e | ⟨m, k, rec, hk, hck, e⟩
  · rw [e]
    obtain ⟨g1, g2, g3, g4, g5, g6⟩ := ofStep _ (linkPhase_crash cfg env (bare l) rfl rfl rfl _ hcp fs n t)
    exact ⟨g1, g2, g3, fun q x hq h1 h2 _ => g4 q x hq h1 h2, g5, Or.inl g6⟩
  · rw [e]
    obtain ⟨g1, g2, g3, g4, g5, g6⟩ := ofStep _ (linkPhase_run cfg env l _ hcp fs)
    exact ⟨g1, g2, g3, fun q x hq h1 h2 _ => g4 q x hq h1 h2, g5, Or.inl g6⟩
  · rw [e]
    obtain ⟨g1, _, g3, g4, g5, g6⟩ := ofStep _ (linkPhase_run cfg env l _ hcp fs)
    obtain ⟨w1, w2⟩ := hw k rec hk hck
    obtain ⟨c1, cq, c2, c3⟩ := insert_crash_modAddr l.cache l.algo (Bytes.hex (cfg.H l.algo l.data)) cfg env k
      (declOpts l rec) _ g1 w1 w2 m t
    have hD : ∀ q, ToBucket cfg l.cache k q → DirPath cfg l.cache q := fun q d => toBucket_dirPath cfg l.cache d
    have haddr : (crash env (insert cfg l.cache k (declOpts l rec)) (run env (lcommit cfg (bare l)) fs).2.1 m t).get
        (addrPath l.cache l.algo (Bytes.hex (cfg.H l.algo l.data))) =
        (run env (lcommit cfg (bare l)) fs).2.1.get (addrPath l.cache l.algo (Bytes.hex (cfg.H l.algo l.data))) :=
      cq.keep (fun p => bucket_ne_addr cfg l.cache k _ _ p.symm)
        (fun d => dirPath_ne_addr cfg l.cache (hD _ d) _ _ rfl)
    refine ⟨c1, healthyIndex_of_del l.cache l.algo _ cfg c1.index, by rw [haddr]; exact g3, ?_, c2.trans g5, ?_⟩
    · intro q x hq h1 h2 h3
      have hL := g4 q x hq h1 h2
      rcases cq q with p | e' | ⟨e', _⟩
      · exact absurd p (h3 k hk)
      · rw [e']; exact hL
      · rw [hL] at e'; cases e'
    · rcases c3 with c3 | ⟨tm, hle, htm, c3⟩
      · exact Or.inl (c3.trans g6)
      · exact Or.inr ⟨k, rec, tm, hk, hck, hle, htm, by rw [c3, g6], haddr⟩

/-- The side condition `hw` of `lcommit_crash` holds for every linker WITHOUT a declared integrity
(`link_to`, `link_to_sync`, `ToLinker::open`): the recorded integrity is the computed one. -/
theorem link_hw_nodecl (l : Linker) (hs : l.opts.sri = none) (hwf : ∀ k, l.key = some k → OptsWF k l.opts)
    (hlen : l.data.length ≤ Rec.u64Max) :
    ∀ k rec, l.key = some k →
      declCheck l.opts l.data.length (Sri.compute cfg.H l.algo l.data) = .ok rec →
      OptsWF k (declOpts l rec) ∧ SriOK cfg (declOpts l rec) := by
  intro k rec hk hck
  refine ⟨declOpts_wf cfg l rec k hck (hwf k hk) hlen, Or.inr ⟨l.algo, l.data, ?_⟩⟩
  have := DeclRefine.declCheck_recorded hck
  rw [hs] at this
  simp [declOpts, this]

/-- **T4, lookups**: after a link commit killed anywhere, a lookup of ANY key answers what it answered
before, or what it answers once the one new record is in the index. -/
theorem lcommit_crash_find (env env' : Env) (l : Linker) (cpath : Path)
    (hcp : contentPath l.cache (Sri.compute cfg.H l.algo l.data) = some cpath) (fs : FS)
    (h : Healthy cfg l.cache (fs.del cpath))
    (hw : ∀ k rec, l.key = some k →
      declCheck l.opts l.data.length (Sri.compute cfg.H l.algo l.data) = .ok rec →
      OptsWF k (declOpts l rec) ∧ SriOK cfg (declOpts l rec)) (n t : Nat) (k' : Bytes) :
    (run env' (find cfg l.cache k') (crash env (lcommit cfg l) fs n t)).1 =
      (run env' (find cfg l.cache k') fs).1 ∨
    ∃ k rec tm, l.key = some k ∧
      declCheck l.opts l.data.length (Sri.compute cfg.H l.algo l.data) = .ok rec ∧ tm ≤ timeMax ∧
      (run env' (find cfg l.cache k') (crash env (lcommit cfg l) fs n t)).1 =
        .ok (insIndex (absIndex cfg l.cache fs) k (declOpts l rec) tm k') := by
  obtain ⟨_, g2, _, _, _, g6⟩ := lcommit_crash cfg env l cpath hcp fs h hw n t
  have hc := cpath_eq cfg hcp
  subst hc
  have hI := healthyIndex_of_del l.cache l.algo _ cfg h.index
  rw [(run_find cfg l.cache env' k' _ g2).1, (run_find cfg l.cache env' k' fs hI).1]
  rcases g6 with g6 | ⟨k, rec, tm, hk, hck, hle, _, g6, _⟩
  · exact Or.inl (by rw [g6])
  · exact Or.inr ⟨k, rec, tm, hk, hck, hle, by rw [g6]⟩

/-- **T4 from a cache of regular content** (`Healthy`: the situations "nothing at the address" and "a
regular file at the address"): the hypothesis of `lcommit_crash` holds. -/
theorem healthy_del_of_healthy {fs : FS} (h : Healthy cfg cache fs) (p : Path) : Healthy cfg cache (fs.del p) :=
  healthy_sub h (SubFS.del fs p)

end Link

/-! T4, non-vacuity: the cache `/c`, the target `/t` holding `[1,2,3]`, an earlier link at the content
address pointing elsewhere (`/x`) — the re-pointing leg: `create_dir_all` = call 0, `symlink` (fails) 1,
`lstat` 2, `sameFile` 3, `create_dir_all(cache/tmp)` 4, `mkTempLink` 5, `renameLink` 6; keyed: the index
step follows (`create_dir_all` 7, clock 8, open 9, append 10). -/

section T4Examples
open LinkRefine

def cp0 : Path := addrPath [[99]] .sha256 (Bytes.hex (cfg0.H .sha256 [1, 2, 3]))
def fsR : FS := (FS.empty.put cp0 (.link (.abs [[120]]))).put [[116]] (.file [1, 2, 3])
def tmp0 : Path := [[99], dTmp, tmpName 0]

example : contentPath l0.cache (Sri.compute cfg0.H l0.algo l0.data) = some cp0 := by decide
-- killed between `mkTempLink` and `renameLink`: the temp link is in `cache/tmp`, the OLD link at the address
theorem relink_midpoint_example :
    (crash {} (lcommit cfg0 l0) fsR 6 0).get cp0 = some (.link (.abs [[120]])) ∧
    (crash {} (lcommit cfg0 l0) fsR 6 0).get tmp0 = some (.link (.abs [[116]])) := ⟨by rfl, by rfl⟩
-- killed after the rename: the new link, the temp name gone; the target is untouched throughout
example : (crash {} (lcommit cfg0 l0) fsR 7 0).get cp0 = some (.link (.abs [[116]])) := by rfl
example : (crash {} (lcommit cfg0 l0) fsR 7 0).get tmp0 = none := by rfl
example : (crash {} (lcommit cfg0 l0) fsR 6 0).get [[116]] = some (.file [1, 2, 3]) := by rfl
-- keyed, killed in the middle of the append (5 bytes of the record written): the key has no entry yet, the
-- address already holds the new link
example : (run {} (find cfg0 [[99]] [107]) (crash {} (lcommit cfg0 l1) fsR 10 5)).1 = .ok none := by rfl
example : (crash {} (lcommit cfg0 l1) fsR 10 5).get cp0 = some (.link (.abs [[116]])) := by rfl
example : ∃ b, (crash {} (lcommit cfg0 l1) fsR 10 5).get (bucketPath cfg0 [[99]] [107]) = some (.file b) ∧
    b.length = 5 := ⟨_, by rfl, by rfl⟩
-- the hypothesis `Healthy (fs.del cpath)` holds of `fsR`: apart from the link at the address the cache is empty
theorem fsR_healthy : Healthy cfg0 [[99]] (fsR.del cp0) := by
  apply CacheRefine.healthy_of_empty_cache
  · intro q hq hp
    left
    have hq1 : q = [[99]] := by
      rcases List.prefix_cons_iff.mp hp with e | ⟨t, e, ht⟩
      · exact absurd e hq
      · rw [e, List.prefix_nil.mp ht]
    subst hq1
    rfl
  · intro q hq hne
    show (if q = cp0 then none else if q = [[116]] then some (Node.file [1, 2, 3]) else
      if q = cp0 then some (Node.link (.abs [[120]])) else none) = none
    by_cases e1 : q = cp0
    · rw [if_pos e1]
    · rw [if_neg e1, if_neg e1]
      have : q ≠ [[116]] := by
        intro e; subst e; exact LinkDecl.cache_not_prefix_t hq
      rw [if_neg this]
example (n t : Nat) := lcommit_crash cfg0 {} l1 cp0 (by decide) fsR fsR_healthy
  (link_hw_nodecl cfg0 l1 rfl (fun k hk => by cases hk; exact optsWF_default (by decide)) (by simp [l1, l0, Rec.u64Max])) n t

end T4Examples
end LinkT4

/-! T5, non-vacuity: from `fsW2` (two keys), `remove_fully "k"` killed anywhere, then a listing and a
`get`: the hypotheses are met. -/

example (n t : Nat) :=
  crash_then_continue_ext cfg1 [[99]] [] [(env0, .list), (env0, .cop (.get [107]))] {} (.removeFully [107])
    fsW2 fsW2_xhealthy hexLen1 (by intro x hx; cases hx) trivial
    (by intro x hx
        simp only [List.mem_cons, List.not_mem_nil, or_false] at hx
        rcases hx with rfl | rfl <;> trivial) n t

example (n t : Nat) :=
  crash_then_continue_ext cfg1 [[99]] opsW2 [(env0, .clear), (env0, .list)] {} (.clear List.reverse)
    FS.empty (xhealthy_of_empty_cache cfg1 [[99]] FS.empty (fun _ _ _ => Or.inl rfl) (fun _ _ _ => rfl)) hexLen1
    (by intro x hx
        simp only [opsW2, opsW, List.cons_append, List.nil_append, List.mem_cons, List.not_mem_nil, or_false] at hx
        rcases hx with rfl | rfl
        · exact write_wf cfg1 .sync [107] .sha256 [1, 2, 3] (by decide) (by simp [Rec.u64Max])
        · exact write_wf cfg1 .sync [108, 108] .sha256 [1, 2, 3, 4] (by decide) (by simp [Rec.u64Max]))
    (fun _ _ h => List.mem_reverse.mp h)
    (by intro x hx
        simp only [List.mem_cons, List.not_mem_nil, or_false] at hx
        rcases hx with rfl | rfl <;> trivial) n t

/-- **T2, lookups**: after a `clear` killed anywhere (any order of the children) a lookup of any key
answers what it answered before, or "no entry" — previous state or new state. -/
theorem clearIn_crash_find (σ : List (Path × Bool) → List (Path × Bool)) (hσ : ∀ es e, e ∈ σ es → e ∈ es)
    (env env' : Env) (fs : FS) (hH : Healthy cfg cache fs) (n t : Nat) (k : Bytes) :
    (run env' (find cfg cache k) (crash env (clearIn σ cache) fs n t)).1 = (run env' (find cfg cache k) fs).1 ∨
    (run env' (find cfg cache k) (crash env (clearIn σ cache) fs n t)).1 = .ok none := by
  obtain ⟨s1, _, hH', _⟩ := clearIn_crash cfg cache σ hσ env fs hH n t
  rcases s1 (bucketPath cfg cache k) with g | g
  · left
    rw [(run_find cfg cache env' k _ hH'.index).1, (run_find cfg cache env' k fs hH.index).1,
      absIndex_sub_same k g]
  · exact Or.inr ((find_absent cfg cache k _ g).1 env')

/-- **T4, the address, in the four situations of `LinkDecl.Situation`** (nothing / a regular file / an
earlier link to the same file / an earlier link to another file), at every kill point: nothing or the
new link; the file; the earlier link or the new link. -/
theorem lcommit_crash_address (env : Env) (l : Linker) (cpath : Path) (nd : Node) (mv : Bool)
    (hcp : contentPath l.cache (Sri.compute cfg.H l.algo l.data) = some cpath) (fs : FS)
    (hsit : LinkDecl.Situation fs l cpath nd mv)
    (h : Healthy cfg l.cache (fs.del cpath))
    (hw : ∀ k rec, l.key = some k →
      CacheRefine.declCheck l.opts l.data.length (Sri.compute cfg.H l.algo l.data) = .ok rec →
      OptsWF k (LinkDecl.declOpts l rec) ∧ SriOK cfg (LinkDecl.declOpts l rec)) (n t : Nat) :
    (crash env (lcommit cfg l) fs n t).get cpath = fs.get cpath ∨
    ((crash env (lcommit cfg l) fs n t).get cpath = some (.link l.target) ∧
      ∃ tg, nd = .link tg ∧ (fs.get cpath = none ∨ ∃ t0, fs.get cpath = some (.link t0))) := by
  obtain ⟨_, _, g3, _⟩ := lcommit_crash cfg env l cpath hcp fs h hw n t
  rcases g3 with g | ⟨g, hnf⟩
  · exact Or.inl g
  · right
    refine ⟨g, ?_⟩
    cases hsit with
    | fresh h0 => exact ⟨_, rfl, Or.inl h0⟩
    | file b h0 => exact absurd h0 (hnf b)
    | same t0 h0 _ => exact ⟨_, rfl, Or.inr ⟨t0, h0⟩⟩
    | relink t0 h0 _ _ => exact ⟨_, rfl, Or.inr ⟨t0, h0⟩⟩

/-! ### C03 at every kill point of these operations -/

/-- **C03 for `remove_fully`**: at every kill point every regular file at a content address holds bytes
whose digest is the address. -/
theorem removeFully_crash_contentValid (env : Env) (key : Bytes) (fs : FS) (h : Healthy cfg cache fs)
    (n t : Nat) : ContentValid cfg cache (crash env (removeFully cfg cache key) fs n t) :=
  (removeFully_crash cfg cache env key fs h n t).1.store.valid

/-- **C03 for `clear`**, every order of the children, every tear of every `remove_dir_all`. -/
theorem clearIn_crash_contentValid (σ : List (Path × Bool) → List (Path × Bool))
    (hσ : ∀ es e, e ∈ σ es → e ∈ es) (env : Env) (fs : FS) (h : Healthy cfg cache fs) (n t : Nat) :
    ContentValid cfg cache (crash env (clearIn σ cache) fs n t) :=
  (clearIn_crash cfg cache σ hσ env fs h n t).2.2.1.store.valid

/-- **C03 for the link commit**: at every kill point every REGULAR file at a content address holds bytes
whose digest is the address (the commit creates none and alters none; what it puts at the address is a
symbolic link). -/
theorem lcommit_crash_contentValid (env : Env) (l : Linker) (cpath : Path)
    (hcp : contentPath l.cache (Sri.compute cfg.H l.algo l.data) = some cpath) (fs : FS)
    (h : Healthy cfg l.cache (fs.del cpath)) (hv : ContentValid cfg l.cache fs)
    (hw : ∀ k rec, l.key = some k →
      CacheRefine.declCheck l.opts l.data.length (Sri.compute cfg.H l.algo l.data) = .ok rec →
      OptsWF k (LinkDecl.declOpts l rec) ∧ SriOK cfg (LinkDecl.declOpts l rec)) (n t : Nat) :
    ContentValid cfg l.cache (crash env (lcommit cfg l) fs n t) := by
  obtain ⟨g1, _, g3, _⟩ := lcommit_crash cfg env l cpath hcp fs h hw n t
  intro a' hx' b hl hg
  by_cases e : addrPath l.cache a' hx' = cpath
  · rw [e] at hg
    rcases g3 with g | ⟨g, _⟩
    · rw [g, ← e] at hg; exact hv a' hx' b hl hg
    · rw [g] at hg; cases hg
  · exact g1.store.valid a' hx' b hl (by rw [FS.get_del_ne _ e]; exact hg)

/-- The run to completion is the kill point just beyond the last call: every theorem of this file about
`crash … n t` for all `n` speaks about the completed run, too. -/
theorem run_eq_crash {α : Type} (env : Env) (p : Prog α) (fs : FS) (t : Nat) :
    (run env p fs).2.1 = crash env p fs (run env p fs).2.2.length t :=
  (crash_of_le env p fs _ t (Nat.le_refl _)).symm

end Cacache.CrashMore

namespace AxiomCheckCrashMore
open Cacache.CrashMore
#print axioms removeFully_crash_cases
#print axioms removeFully_crash_removed
#print axioms removeFully_crash
#print axioms removeFully_crash_states
#print axioms removeFullySpec_retry
#print axioms removeFully_retry_completes
#print axioms removeFully_retry_key_gone
#print axioms removeFully_dangling_completes
#print axioms removeFully_dangling_example
#print axioms removeEach_crash_sub
#print axioms removeEach_crash
#print axioms clearIn_crash
#print axioms clearIn_crash_tidy
#print axioms clear_crash
#print axioms removeHash_crash
#print axioms linkPhase_crash
#print axioms linkStep_healthy
#print axioms lcommit_crash_cases
#print axioms insert_crash_modAddr
#print axioms lcommit_crash
#print axioms lcommit_crash_find
#print axioms relink_midpoint_example
#print axioms crashM_admissible
#print axioms crash_then_continue_ext
#print axioms find_after_crashed_removeFully
#print axioms removeFully_crash_contentValid
#print axioms clearIn_crash_contentValid
#print axioms lcommit_crash_contentValid
#print axioms clearIn_crash_find
#print axioms lcommit_crash_address
#print axioms run_eq_crash
end AxiomCheckCrashMore
