/-
A writer that is HELD OPEN across other operations.

All total-correctness theorems so far run the three phases of a streamed write back to back
(`writeStream` = `wopen`, the chunk loop `wwriteAll`, `wcommit`).  Here the first two phases
(`heldOpen`) are run, then ANYTHING may happen, then the commit runs:

* `held_commit_refines` — from a healthy cache run `heldOpen` (keyed, `PutWF` options: no declared
  integrity, any declared size, any flavour, any chunking), obtaining the writer `w` and the state
  `fs1`; let `fs2` be ANY healthy state in which the node at `w.tmp` is the node it was in `fs1`.
  Then `wcommit cfg w` run from `fs2` does to `fs2` exactly what a whole `writeStream` would have
  done (`CacheRefine.putSpec` applied to the abstraction of `fs2`), the cache is healthy again, the
  temp file is gone and every other entry of `cache/tmp` is as in `fs2`.
  `held_commit_explicit` spells the abstract step out for declarations that hold.
* `ops_preserve_tmp` (+ the per-operation lemmas `*_keeps_tmp`, `cRunOp_keeps_tmp`,
  `xRunOp_keeps_tmp`, `cops_preserve_tmp`) — every operation of `CacheRefine.COp` /
  `ListRefine.XOp` except `clear` leaves the node at temp path number `m` alone when `m` is below
  the temp-name counter (= the file was not created by the operation itself: `mkTemp` only hands out
  names numbered `≥ fs.next`), and never lowers the counter.
* `held_across_cops`, `held_across_ops` — the composition: any sequence of such operations run
  between the last chunk and the commit; the operations answer as the abstract machine says, and
  the commit's answer and the final abstract cache are the abstract `put` step applied AFTER them.
  `heldOpen_healthy`, `heldOpen_tidy`: an open, fed writer is invisible to the abstract cache (only
  the `cacheDir` flag of the extended state may rise).
* `held_commit_ext`, `held_across_ops_state` — the commit also keeps the cache tidy and moves the
  flags of the extended abstract state as a whole keyed write does, so the extended refinement
  (`cache_refines_map_ext`) can go on after the commit.
* `writeStream_eq_held` — `writeStream` is `heldOpen` followed by `wcommit`: the decomposition is the
  one the back-to-back theorems are about.  A non-vacuity `example` (real SHA configuration, empty
  filesystem, `remove` + `remove_fully` of the writer's key + `ls` in between) is at the end.

The temp file of a writer is identified by its NUMBER (`tmpPath cache m`, `m` = the value of the
temp-name counter when `mkTemp` created it); "not created by the operation itself" is `m < fs.next`
(`tmpName_injective`, `exec_next_le` from `Lemmas/Concurrent.lean`).  No existing file is edited.
-/
import Cacache.Lemmas.ListRefine
import Cacache.Lemmas.Concurrent
import Cacache.Lemmas.ShaLen

namespace Cacache.HeldWriter
open Prog Json Refine CacheRefine ListRefine

variable (cfg : Cfg) (cache : Path)

/-! ### the open phase -/

/-- The first two phases of a streamed write: open the writer, feed the chunks.  The answer is the
writer as it stands after the last chunk (or the error; a failed chunk drops the temp file, as in
`writeStream`). -/
def heldOpen (fl : Flavour) (key : Option Bytes) (o : WriteOpts) (chunks : List Bytes) :
    Prog (Res Writer) := do
  match ← wopen cfg fl cache key o with
  | .error e => pure (.error e)
  | .ok w =>
    match ← wwriteAll w chunks with
    | .error e => do dropTmp w.tmp; pure (.error (.io e))
    | .ok w' => pure (.ok w')

theorem bind_assoc {α β γ : Type} (p : Prog α) (f : α → Prog β) (g : β → Prog γ) :
    Prog.bind (Prog.bind p f) g = Prog.bind p (fun a => Prog.bind (f a) g) := by
  induction p with
  | done a => rfl
  | sys c k ih => simp only [bind_sys, ih]

/-- `writeStream` IS the open phase followed by the commit of the writer it answers. -/
theorem writeStream_eq_held (fl : Flavour) (key : Option Bytes) (o : WriteOpts) (chunks : List Bytes) :
    writeStream cfg cache fl key o chunks =
      Prog.bind (heldOpen cfg cache fl key o chunks) (fun r =>
        match r with
        | .error e => .done (.error e)
        | .ok w' => wcommit cfg w') := by
  unfold writeStream heldOpen
  simp only [bind_eq, pure_eq, bind_assoc]
  congr 1
  funext r
  cases r with
  | error e => rfl
  | ok w =>
    simp only [bind_assoc]
    congr 1
    funext r2
    cases r2 with
    | error e => simp only [bind_assoc, bind_done]
    | ok w' => rfl

/-- No program lowers the temp-name counter. -/
theorem run_next_le {α : Type} (env : Env) (p : Prog α) (fs : FS) : fs.next ≤ (run env p fs).2.1.next := by
  induction p generalizing fs with
  | done a => exact Nat.le_refl _
  | sys c k ih => exact Nat.le_trans (exec_next_le env fs c) (ih _ _)

/-- A successful `wopen` has taken a temp name: the counter is strictly higher afterwards. -/
theorem run_wopen_next (env : Env) (fl : Flavour) (key : Option Bytes) (o : WriteOpts) (fs : FS)
    (w : Writer) (hopen : (run env (wopen cfg fl cache key o) fs).1 = .ok w) :
    fs.next < (run env (wopen cfg fl cache key o) fs).2.1.next := by
  unfold wopen at hopen ⊢
  simp only [bind_eq, pure_eq, call, bind_sys, bind_done, run_sys_res, run_sys_fs, exec] at hopen ⊢
  cases hm : fs.mkdirP (cache ++ [dTmp]) with
  | error e => rw [hm] at hopen; cases hopen
  | ok fs1 =>
    rw [hm] at hopen
    simp only at hopen ⊢
    have hm' : FS.mkdirLevels fs (FS.prefixes (cache ++ [dTmp])) (cache ++ [dTmp]).length = .ok fs1 := hm
    have hnext : fs1.next = fs.next := CacheRefine.mkdirLevels_next _ _ _ _ hm'
    by_cases hisd : fs1.isDir (cache ++ [dTmp]) = true
    · simp only [run_sys_fs, exec, hisd, if_true]
      refine Nat.lt_of_lt_of_le ?_ (run_next_le env _ _)
      show fs.next < fs1.next + 1
      omega
    · simp only [run_sys_res, exec, hisd] at hopen
      cases hopen

/-- **The open phase succeeds** when `cache/tmp` and its ancestors are absent or directories: it
answers a writer `w` over the fresh temp file number `fs.next` that has hashed and stored all the
chunks (`WInv`), the counter has moved past that number, and apart from the temp file every path
keeps its node or turns from absent into a directory on the way to `cache/tmp`. -/
theorem run_heldOpen (env : Env) (fl : Flavour) (key : Option Bytes) (o : WriteOpts)
    (chunks : List Bytes) (fs : FS) (h : ∀ q, q ≠ [] → q <+: cache ++ [dTmp] → NoneOrDir fs q) :
    ∃ w, (run env (heldOpen cfg cache fl key o chunks) fs).1 = .ok w ∧
      w.cache = cache ∧ w.key = key ∧ w.opts = o ∧ w.written = chunks.flatten.length ∧
      w.hashed = chunks.flatten ∧ w.algo = o.algo.getD .sha256 ∧ w.tmp = tmpPath cache fs.next ∧
      WInv w (run env (heldOpen cfg cache fl key o chunks) fs).2.1 ∧
      fs.next < (run env (heldOpen cfg cache fl key o chunks) fs).2.1.next ∧
      ∀ q, q ≠ w.tmp → Grow fs (run env (heldOpen cfg cache fl key o chunks) fs).2.1 q (cache ++ [dTmp]) := by
  obtain ⟨w, r1, c1, k1, o1, wr1, hh1, al1, t1, inv1, fr1⟩ := run_wopen cfg cache env fl key o fs h
  have hn1 := run_wopen_next cfg cache env fl key o fs w r1
  obtain ⟨w', r2, same2, inv2, hh2, wr2, o2, al2, fr2⟩ := run_wwriteAll env w chunks _ inv1
  have hn2 := run_next_le env (wwriteAll w chunks) (run env (wopen cfg fl cache key o) fs).2.1
  have hres : (run env (heldOpen cfg cache fl key o chunks) fs).1 = .ok w' := by
    unfold heldOpen
    simp only [bind_eq, pure_eq, run_bind_res, r1, r2]
    rfl
  have hfs : (run env (heldOpen cfg cache fl key o chunks) fs).2.1 =
      (run env (wwriteAll w chunks) (run env (wopen cfg fl cache key o) fs).2.1).2.1 := by
    unfold heldOpen
    simp only [bind_eq, pure_eq, run_bind_fs, r1, r2]
    rfl
  rw [hfs]
  refine ⟨w', hres, same2.1.trans c1, same2.2.2.trans k1, o2.trans o1, by rw [wr2, wr1]; simp,
    by rw [hh2, hh1]; rfl, al2.trans al1, same2.2.1.trans t1, inv2, Nat.lt_of_lt_of_le hn1 hn2, ?_⟩
  intro q hq
  have hq' : q ≠ w.tmp := by rw [← same2.2.1]; exact hq
  have := fr1 q hq'
  unfold Grow at *
  rw [fr2 q hq']
  exact this

/-! ### the commit, from any healthy state that kept the temp file -/

/-- The invariant of a writer only looks at the node at its temp path. -/
theorem winv_of_get {w : Writer} {fs fs' : FS} (hi : WInv w fs) (he : fs'.get w.tmp = fs.get w.tmp) :
    WInv w fs' := by
  obtain ⟨f, hf, rest⟩ := hi.file
  exact ⟨hi.ok, hi.pos, f, by rw [he]; exact hf, rest⟩

/-- The same filesystem with the temp-name counter set to `n` (a proof device: `PutFrame` names the
temp file by the counter of its first argument, nothing else of it depends on the counter). -/
def withNext (fs : FS) (n : Nat) : FS := { fs with next := n }

theorem healthyStore_withNext {fs : FS} (h : HealthyStore cfg cache fs) (n : Nat) :
    HealthyStore cfg cache (withNext fs n) := ⟨h.valid, h.tmpDirs, h.dirs, h.files⟩

theorem healthyIndex_withNext {fs : FS} (h : HealthyIndex cfg cache fs) (n : Nat) :
    HealthyIndex cfg cache (withNext fs n) := ⟨h.dirs, h.buckets⟩

/-- **The content phase of the commit, from any healthy store in which the writer's invariant
holds**: the run of `wcommit` is the run of the commit tail (declaration checks + index step) from
a state `fs3` in which the data is published — `PutFrame` relative to the state the commit found,
with the temp file of the writer (number `m`) in the place of "the" temp file. -/
theorem run_wcommit_phase (env : Env) (w : Writer) (fs : FS) (m : Nat) (hS : HealthyStore cfg cache fs)
    (hl : HexLen cfg) (hc : w.cache = cache) (ht : w.tmp = tmpPath cache m) (hi : WInv w fs) :
    ∃ fs3,
      (run env (wcommit cfg w) fs).1 =
        (run env (commitTail cfg w (Sri.compute cfg.H w.algo w.hashed)) fs3).1 ∧
      (run env (wcommit cfg w) fs).2.1 =
        (run env (commitTail cfg w (Sri.compute cfg.H w.algo w.hashed)) fs3).2.1 ∧
      PutFrame cfg cache (withNext fs m) fs3 w.algo w.hashed := by
  have hlen := hl w.algo w.hashed
  have hf2 : fs.get (addrPath cache w.algo (Bytes.hex (cfg.H w.algo w.hashed))) ≠ some .dir := by
    rcases hS.files _ _ hlen with h0 | ⟨b, h0⟩
    · rw [h0]; intro e; cases e
    · rw [h0]; intro e; cases e
  obtain ⟨r3, a3, t3, fr3⟩ := run_wclose cfg cache env w fs hc hi hlen
    (fun q hq hp => hS.dirs _ _ q hlen hq hp) hf2
  obtain ⟨c1, c2⟩ := run_wcommit cfg env w fs _ r3
  refine ⟨_, c1, c2, a3, ?_, ?_⟩
  · show (run env (wclose cfg w) fs).2.1.get ((cache ++ [dTmp]) ++ [tmpName m]) = none
    have : (cache ++ [dTmp]) ++ [tmpName m] = w.tmp := ht.symm
    rw [this]; exact t3
  · intro q hq1 hq2
    have hq1' : q ≠ w.tmp := by rw [ht]; exact hq1
    rcases fr3 q hq1' hq2 with g | ⟨g1, g2, g3⟩
    · exact Or.inl g
    · exact Or.inr ⟨g1, g2, Or.inr g3⟩

/-- **The commit of a held writer refines the abstract `put` step on the state it finds.**

From a healthy cache `fs0` run the open phase (`heldOpen`: `wopen`, then one `wwrite` per non-empty
chunk) of a keyed write, obtaining the writer `w` and the state `fs1`.  Let `fs2` be ANY state with
* `h2` — the cache is healthy in `fs2`, and
* `hkeep` — the node at the writer's temp path is what it was in `fs1` (nobody touched the temp
  file).
Then `wcommit cfg w`, run from `fs2` (in any environment `env'`), answers what the abstract step
`putSpec` answers on the abstraction of `fs2`, the final state abstracts to `putSpec`'s cache, the
cache is healthy again, the temp file is gone, and every other entry of `cache/tmp` is as in `fs2`.
`putSpec` is the very step `run_putKeyed` proves for a back-to-back `writeStream`: whatever happened
in between, the commit does exactly what it would have done straight away, on top of the state it
finds.

Hypotheses: `h0` is only used through `cache/tmp` and its ancestors being absent or directories
(so that the open phase succeeds); `hl` (`HexLen`: hex digests have ≥ 4 characters) and `hw`
(`PutWF`: Rust-typed options, no declared integrity, byte count fits `usize`) are those of
`cache_refines_map` for a keyed put; `hopen` / `hfs1` name the outcome of the open phase
(`run_heldOpen` shows that it always answers such a writer). -/
theorem held_commit_refines (env env' : Env) (fl : Flavour) (k : Bytes) (o : WriteOpts)
    (chunks : List Bytes) (fs0 fs1 fs2 : FS) (w : Writer)
    (h0 : Healthy cfg cache fs0) (hl : HexLen cfg) (hw : PutWF k o chunks)
    (hopen : (run env (heldOpen cfg cache fl (some k) o chunks) fs0).1 = .ok w)
    (hfs1 : (run env (heldOpen cfg cache fl (some k) o chunks) fs0).2.1 = fs1)
    (h2 : Healthy cfg cache fs2)
    (hkeep : fs2.get w.tmp = fs1.get w.tmp) :
    (run env' (wcommit cfg w) fs2).1 = (putSpec cfg env' (absCache cfg cache fs2) k o chunks).2 ∧
    absCache cfg cache (run env' (wcommit cfg w) fs2).2.1 =
      (putSpec cfg env' (absCache cfg cache fs2) k o chunks).1 ∧
    Healthy cfg cache (run env' (wcommit cfg w) fs2).2.1 ∧
    (run env' (wcommit cfg w) fs2).2.1.get w.tmp = none ∧
    ∀ n, (cache ++ [dTmp]) ++ [n] ≠ w.tmp →
      (run env' (wcommit cfg w) fs2).2.1.get ((cache ++ [dTmp]) ++ [n]) = fs2.get ((cache ++ [dTmp]) ++ [n]) := by
  obtain ⟨w0, r0, hc, hk, ho, hwr, hhash, halg, ht, inv1, -, -⟩ :=
    run_heldOpen cfg cache env fl (some k) o chunks fs0 h0.store.tmpDirs
  rw [hopen] at r0
  have hw0 : w = w0 := Except.ok.inj r0
  subst hw0
  rw [hfs1] at inv1
  have inv2 : WInv w fs2 := winv_of_get inv1 hkeep
  obtain ⟨fs3, e1, e2, hp⟩ := run_wcommit_phase cfg cache env' w fs2 fs0.next h2.store hl hc ht inv2
  rw [halg, hhash] at e1 e2 hp
  obtain ⟨hS3, hA3⟩ := putFrame_store cfg cache (healthyStore_withNext cfg cache h2.store fs0.next) hp
  obtain ⟨hI3, hB3⟩ := putFrame_index cfg cache (healthyIndex_withNext cfg cache h2.index fs0.next) hp
  have hT3 := putFrame_tmp cfg cache hp
  have hA3' : absStore cache fs3 = (absStore cache fs2).set (o.algo.getD .sha256)
      (Bytes.hex (cfg.H (o.algo.getD .sha256) chunks.flatten)) (some chunks.flatten) := hA3
  have hB3' : absIndex cfg cache fs3 = absIndex cfg cache fs2 := hB3
  have hT3a : fs3.get w.tmp = none := by rw [ht]; exact hT3.1
  have hT3b : ∀ n, (cache ++ [dTmp]) ++ [n] ≠ w.tmp →
      fs3.get ((cache ++ [dTmp]) ++ [n]) = fs2.get ((cache ++ [dTmp]) ++ [n]) := by
    intro n hn
    apply hT3.2 n
    intro e
    apply hn
    rw [ht, e]; rfl
  rw [e1, e2]
  unfold commitTail putSpec
  rw [commitChecks_eq, ho, hwr]
  cases hck : declCheck o chunks.flatten.length (Sri.compute cfg.H (o.algo.getD .sha256) chunks.flatten) with
  | error e =>
    refine ⟨rfl, ?_, ⟨hI3, hS3⟩, hT3a, hT3b⟩
    simp only [pure_eq, run_done_fs, absCache, hA3', hB3']
  | ok recorded =>
    have hrec : recorded = Sri.compute cfg.H (o.algo.getD .sha256) chunks.flatten :=
      declCheck_ok_none hw.nosri hck
    simp only [wcommitIndex, hk, hc, ho, hwr]
    have hsz : o.size.getD chunks.flatten.length ≤ Rec.u64Max := by
      cases hs : o.size with
      | none => exact hw.len
      | some n => exact hw.opts.size n hs
    have hwf : OptsWF k { o with sri := some recorded, size := some (o.size.getD chunks.flatten.length) } := by
      rw [hrec]
      exact (hw.opts.with_computed cfg.H _ _).with_size _ hsz
    have hsri : SriOK cfg { o with sri := some recorded, size := some (o.size.getD chunks.flatten.length) } :=
      Or.inr ⟨_, _, by rw [hrec]⟩
    obtain ⟨hI4, hA4⟩ := insert_refines cfg cache env' k _ fs3 hI3 hwf hsri
    obtain ⟨hS4, hB4⟩ := insert_store cfg cache env' k
      { o with sri := some recorded, size := some (o.size.getD chunks.flatten.length) } fs3 hI3 hS3
    have hfr := (run_insert cfg cache env' k
      { o with sri := some recorded, size := some (o.size.getD chunks.flatten.length) } fs3 hI3).2.2
    have keep : ∀ n, (run env' (insert cfg cache k
        { o with sri := some recorded, size := some (o.size.getD chunks.flatten.length) }) fs3).2.1.get
          ((cache ++ [dTmp]) ++ [n]) = fs3.get ((cache ++ [dTmp]) ++ [n]) := by
      intro n
      rcases hfr _ (bucket_ne_tmp cfg cache k n).symm with g | ⟨_, _, g⟩
      · exact g
      · exact absurd g (tmp_not_prefix_parent_bucket cfg cache n k)
    refine ⟨?_, ?_, ⟨hI4, hS4⟩, ?_, ?_⟩
    · rw [(run_insert cfg cache env' k _ fs3 hI3).1]; rfl
    · simp only [absCache, hB4, hA3']
      congr 1
      funext k'
      rw [hA4 k', hB3']
    · have : w.tmp = (cache ++ [dTmp]) ++ [tmpName fs0.next] := ht
      rw [this, keep, ← this]; exact hT3a
    · intro n hn
      rw [keep]; exact hT3b n hn

/-- **The commit of a held writer, spelled out** for declarations that hold (no declared size, or
the right one): the answer is the integrity of the bytes fed; the index of the state the commit
found is updated at the writer's key — to the entry `putEntry` (computed integrity, the caller's
time or the clock's, declared size or byte count, the caller's metadata) — and nowhere else; the
store is updated at the address of the bytes — to the bytes — and nowhere else. -/
theorem held_commit_explicit (env env' : Env) (fl : Flavour) (k : Bytes) (o : WriteOpts)
    (chunks : List Bytes) (fs0 fs1 fs2 : FS) (w : Writer)
    (h0 : Healthy cfg cache fs0) (hl : HexLen cfg) (hw : PutWF k o chunks)
    (hz : o.size = none ∨ o.size = some chunks.flatten.length)
    (hopen : (run env (heldOpen cfg cache fl (some k) o chunks) fs0).1 = .ok w)
    (hfs1 : (run env (heldOpen cfg cache fl (some k) o chunks) fs0).2.1 = fs1)
    (h2 : Healthy cfg cache fs2)
    (hkeep : fs2.get w.tmp = fs1.get w.tmp) :
    (run env' (wcommit cfg w) fs2).1 = .ok (Sri.compute cfg.H (o.algo.getD .sha256) chunks.flatten) ∧
    absIndex cfg cache (run env' (wcommit cfg w) fs2).2.1 k =
      some (putEntry cfg env' k o chunks.flatten) ∧
    (∀ k', k' ≠ k → absIndex cfg cache (run env' (wcommit cfg w) fs2).2.1 k' = absIndex cfg cache fs2 k') ∧
    absStore cache (run env' (wcommit cfg w) fs2).2.1 =
      (absStore cache fs2).set (o.algo.getD .sha256)
        (Bytes.hex (cfg.H (o.algo.getD .sha256) chunks.flatten)) (some chunks.flatten) ∧
    Healthy cfg cache (run env' (wcommit cfg w) fs2).2.1 ∧
    (run env' (wcommit cfg w) fs2).2.1.get w.tmp = none := by
  obtain ⟨a1, a2, a3, a4, _⟩ :=
    held_commit_refines cfg cache env env' fl k o chunks fs0 fs1 fs2 w h0 hl hw hopen hfs1 h2 hkeep
  obtain ⟨p1, p2⟩ := putSpec_ok cfg env' (absCache cfg cache fs2) k o chunks hw.nosri hz
  have hi : ∀ k', absIndex cfg cache (run env' (wcommit cfg w) fs2).2.1 k' =
      (putSpec cfg env' (absCache cfg cache fs2) k o chunks).1.index k' := by
    intro k'; rw [← a2]; rfl
  have hs : absStore cache (run env' (wcommit cfg w) fs2).2.1 =
      (putSpec cfg env' (absCache cfg cache fs2) k o chunks).1.store := by
    rw [← a2]; rfl
  refine ⟨by rw [a1, p1], by rw [hi, p2], ?_, ?_, a3, a4⟩
  · intro k' hk'
    rw [hi, putSpec_index_other cfg env' _ k o chunks hk']; rfl
  · rw [hs, putSpec_store]; rfl

/-! ### part 2: the library's own operations leave the temp files of others alone -/

theorem avoids_of_readOnly {c : Call} (h : ReadOnly c) (q : Path) : c.avoids q := by
  intro fs ht
  cases c <;> simp [ReadOnly, Call.mutating] at h <;> exact ht

/-- A program of read-only calls leaves the filesystem as it is. -/
theorem run_readOnly {α : Type} (env : Env) {p : Prog α} (hp : AllCalls ReadOnly p) (fs : FS) :
    (run env p fs).2.1 = fs :=
  AllCalls.after_eq env (hp.mono (fun c hc fs => exec_readOnly env c hc fs) (fun _ h => h)) fs

/-- A program whose calls are aimed at areas other than `tmp` leaves every entry of `cache/tmp`
alone (`Call.inAreas.avoids` + `AllCalls.frame_run`). -/
theorem areas_keep_tmp {α : Type} {Ok : α → Prop} {tops : List Bytes} (env : Env) {p : Prog α}
    (hp : AllCallsR (Call.inAreas cache tops) Ok p) (hn : dTmp ∉ tops) (n : Bytes) (fs : FS) :
    (run env p fs).2.1.get ((cache ++ [dTmp]) ++ [n]) = fs.get ((cache ++ [dTmp]) ++ [n]) :=
  AllCalls.frame_run (hp.mono (fun _ hc => hc.avoids (inArea_tmp cache n) hn) (fun _ h => h)) env fs

theorem removeHash_areas (sri : Integrity) :
    AllCalls (Call.inAreas cache [dIndex, dContent]) (removeHash cache sri) := by
  unfold removeHash
  repeat' ac_step
  all_goals ar_leaf

theorem removeFully_areas (key : Bytes) :
    AllCalls (Call.inAreas cache [dIndex, dContent]) (removeFully cfg cache key) := by
  unfold removeFully
  simp only [bind_eq, pure_eq]
  have hfind : AllCalls (Call.inAreas cache [dIndex, dContent]) (find cfg cache key) := by
    refine (find_ro cfg cache key).mono ?_ (fun _ h => h)
    intro c hc
    refine area0 c ?_ ?_
    · cases c <;> simp [ReadOnly, Call.mutating] at hc <;> rfl
    · intro s d e; subst e; simp [ReadOnly, Call.mutating] at hc
  apply AllCallsR.bind hfind
  intro r _
  split
  · trivial
  · split
    · apply AllCallsR.bind (removeHash_areas cache _)
      intro a _
      repeat' ac_step
      all_goals ar_leaf
    · repeat' ac_step
      all_goals ar_leaf

theorem delete_areas (key : Bytes) : AllCalls (Call.inAreas cache [dIndex]) (delete cfg cache key) := by
  unfold delete
  simp only [bind_eq, pure_eq]
  apply AllCallsR.bind (insert_areas cfg cache key {})
  intro r _
  split <;> trivial

theorem dTmp_notin_index : dTmp ∉ [dIndex] := by decide
theorem dTmp_notin_index_content : dTmp ∉ [dIndex, dContent] := by decide

/-- `find` / `metadata`, `read`, `read_hash`, `exists`, `ls`: nothing changes at all. -/
theorem find_keeps (env : Env) (key : Bytes) (fs : FS) : (run env (find cfg cache key) fs).2.1 = fs :=
  run_readOnly env (find_ro cfg cache key) fs
theorem read_keeps (env : Env) (key : Bytes) (fs : FS) : (run env (read cfg cache key) fs).2.1 = fs :=
  run_readOnly env (read_ro cfg cache key) fs
theorem readHash_keeps (env : Env) (sri : Integrity) (fs : FS) :
    (run env (readHash cfg cache sri) fs).2.1 = fs := run_readOnly env (readHash_ro cfg cache sri) fs
theorem existsHash_keeps (env : Env) (sri : Integrity) (fs : FS) :
    (run env (existsHash cache sri) fs).2.1 = fs := run_readOnly env (existsHash_ro cache sri) fs
theorem ls_keeps (env : Env) (fs : FS) : (run env (ls cfg cache) fs).2.1 = fs :=
  run_readOnly env (ls_ro cfg cache) fs

/-- `index::insert`, `remove` (= `index::delete`), `remove_hash`, `remove_fully`: every entry of
`cache/tmp` keeps its node — from ANY filesystem, no invariant needed. -/
theorem insert_keeps_tmp (env : Env) (key : Bytes) (o : WriteOpts) (n : Bytes) (fs : FS) :
    (run env (insert cfg cache key o) fs).2.1.get ((cache ++ [dTmp]) ++ [n]) = fs.get ((cache ++ [dTmp]) ++ [n]) :=
  areas_keep_tmp cache env (insert_areas cfg cache key o) dTmp_notin_index n fs
theorem delete_keeps_tmp (env : Env) (key : Bytes) (n : Bytes) (fs : FS) :
    (run env (delete cfg cache key) fs).2.1.get ((cache ++ [dTmp]) ++ [n]) = fs.get ((cache ++ [dTmp]) ++ [n]) :=
  areas_keep_tmp cache env (delete_areas cfg cache key) dTmp_notin_index n fs
theorem removeHash_keeps_tmp (env : Env) (sri : Integrity) (n : Bytes) (fs : FS) :
    (run env (removeHash cache sri) fs).2.1.get ((cache ++ [dTmp]) ++ [n]) = fs.get ((cache ++ [dTmp]) ++ [n]) :=
  areas_keep_tmp cache env (removeHash_areas cache sri) dTmp_notin_index_content n fs
theorem removeFully_keeps_tmp (env : Env) (key : Bytes) (n : Bytes) (fs : FS) :
    (run env (removeFully cfg cache key) fs).2.1.get ((cache ++ [dTmp]) ++ [n]) = fs.get ((cache ++ [dTmp]) ++ [n]) :=
  areas_keep_tmp cache env (removeFully_areas cfg cache key) dTmp_notin_index_content n fs

theorem tmpName_ne_of_lt {m n : Nat} (h : m < n) : tmpName m ≠ tmpName n := by
  intro e; have := tmpName_injective e; omega

/-- A whole streamed write of ANOTHER writer (keyed or not), on a healthy cache: its own temp file
is number `fs.next`, so temp file number `m < fs.next` keeps its node. -/
theorem writeStream_keyed_keeps_tmp (env : Env) (fl : Flavour) (key : Bytes) (o : WriteOpts)
    (chunks : List Bytes) (fs : FS) (h : Healthy cfg cache fs) (hl : HexLen cfg)
    (hw : PutWF key o chunks) (m : Nat) (hm : m < fs.next) :
    (run env (writeStream cfg cache fl (some key) o chunks) fs).2.1.get (tmpPath cache m) =
      fs.get (tmpPath cache m) :=
  (run_putKeyed cfg cache env fl key o chunks fs h hl hw).2.2.2.2 (tmpName m) (tmpName_ne_of_lt hm)

theorem writeStream_unkeyed_keeps_tmp (env : Env) (fl : Flavour) (o : WriteOpts)
    (chunks : List Bytes) (fs : FS) (h : HealthyStore cfg cache fs) (hl : HexLen cfg)
    (m : Nat) (hm : m < fs.next) :
    (run env (writeStream cfg cache fl none o chunks) fs).2.1.get (tmpPath cache m) =
      fs.get (tmpPath cache m) :=
  (putFrame_tmp cfg cache (run_putStream cfg cache env fl o chunks fs h hl).2).2 (tmpName m)
    (tmpName_ne_of_lt hm)

/-- **Every operation of `cache_refines_map`** (`COp`: keyed streamed write, read by key, index
insert / delete / find, by-address write / read / exists / remove) leaves temp file number `m`
alone when `m` is below the counter — i.e. when that temp file was not created by the operation
itself — and does not lower the counter. -/
theorem cRunOp_keeps_tmp (env : Env) (op : COp) (fs : FS) (h : Healthy cfg cache fs) (hl : HexLen cfg)
    (hop : op.WF cfg) (m : Nat) (hm : m < fs.next) :
    (cRunOp cfg cache env op fs).2.get (tmpPath cache m) = fs.get (tmpPath cache m) ∧
    fs.next ≤ (cRunOp cfg cache env op fs).2.next := by
  cases op with
  | put fl key o chunks =>
    exact ⟨writeStream_keyed_keeps_tmp cfg cache env fl key o chunks fs h hl hop m hm, run_next_le env _ fs⟩
  | get key =>
    refine ⟨?_, run_next_le env _ fs⟩
    show (run env (read cfg cache key) fs).2.1.get _ = _
    rw [read_keeps]
  | index iop =>
    cases iop with
    | ins key o => exact ⟨insert_keeps_tmp cfg cache env key o _ fs, run_next_le env _ fs⟩
    | del key => exact ⟨delete_keeps_tmp cfg cache env key _ fs, run_next_le env _ fs⟩
    | look key =>
      refine ⟨?_, run_next_le env _ fs⟩
      show (run env (find cfg cache key) fs).2.1.get _ = _
      rw [find_keeps]
  | addr sop =>
    cases sop with
    | put fl o chunks =>
      exact ⟨writeStream_unkeyed_keeps_tmp cfg cache env fl o chunks fs h.store hl m hm, run_next_le env _ fs⟩
    | get sri =>
      refine ⟨?_, run_next_le env _ fs⟩
      show (run env (readHash cfg cache sri) fs).2.1.get _ = _
      rw [readHash_keeps]
    | has sri =>
      refine ⟨?_, run_next_le env _ fs⟩
      show (run env (existsHash cache sri) fs).2.1.get _ = _
      rw [existsHash_keeps]
    | drop sri => exact ⟨removeHash_keeps_tmp cache env sri _ fs, run_next_le env _ fs⟩

/-- … and so does every operation of `cache_refines_map_ext` (`XOp`: the above, `ls`,
`remove_fully`) except `clear` — which removes `cache/tmp` wholesale. -/
theorem xRunOp_keeps_tmp (env : Env) (op : XOp) (hnc : op ≠ .clear) (fs : FS)
    (h : Healthy cfg cache fs) (hl : HexLen cfg) (hop : op.WF cfg) (m : Nat) (hm : m < fs.next) :
    (xRunOp cfg cache env op fs).2.get (tmpPath cache m) = fs.get (tmpPath cache m) ∧
    fs.next ≤ (xRunOp cfg cache env op fs).2.next := by
  cases op with
  | cop op => exact cRunOp_keeps_tmp cfg cache env op fs h hl hop m hm
  | list =>
    refine ⟨?_, run_next_le env _ fs⟩
    show (run env (ls cfg cache) fs).2.1.get _ = _
    rw [ls_keeps]
  | removeFully key => exact ⟨removeFully_keeps_tmp cfg cache env key _ fs, run_next_le env _ fs⟩
  | clear => exact absurd rfl hnc

/-- Sequences of `COp` operations. -/
theorem cops_preserve_tmp (ops : List (Env × COp)) (fs : FS) (h : Healthy cfg cache fs)
    (hl : HexLen cfg) (hops : ∀ x ∈ ops, x.2.WF cfg) (m : Nat) (hm : m < fs.next) :
    (cRunOps cfg cache ops fs).2.get (tmpPath cache m) = fs.get (tmpPath cache m) ∧
    fs.next ≤ (cRunOps cfg cache ops fs).2.next := by
  induction ops generalizing fs with
  | nil => exact ⟨rfl, Nat.le_refl _⟩
  | cons x ops ih =>
    obtain ⟨env, op⟩ := x
    have hop := hops (env, op) (by simp)
    obtain ⟨_, _, h3⟩ := cRunOp_refines cfg cache env op fs h hl hop
    obtain ⟨k1, k2⟩ := cRunOp_keeps_tmp cfg cache env op fs h hl hop m hm
    obtain ⟨i1, i2⟩ := ih _ h3 (fun y hy => hops y (List.mem_cons_of_mem _ hy)) (Nat.lt_of_lt_of_le hm k2)
    simp only [cRunOps]
    exact ⟨i1.trans k1, Nat.le_trans k2 i2⟩

/-- **`ops_preserve_tmp`**: any sequence of operations of the extended refinement that contains no
`clear`, run from a healthy and tidy cache, leaves temp file number `m < fs.next` (any temp file
handed out before the sequence started — in particular the one of a writer that is being held
open) exactly as it was, and does not lower the counter. -/
theorem ops_preserve_tmp (ops : List (Env × XOp)) (hnc : ∀ x ∈ ops, x.2 ≠ .clear) (fs : FS)
    (h : XHealthy cfg cache fs) (hl : HexLen cfg) (hops : ∀ x ∈ ops, x.2.WF cfg)
    (m : Nat) (hm : m < fs.next) :
    (xRunOps cfg cache ops fs).2.get (tmpPath cache m) = fs.get (tmpPath cache m) ∧
    fs.next ≤ (xRunOps cfg cache ops fs).2.next := by
  induction ops generalizing fs with
  | nil => exact ⟨rfl, Nat.le_refl _⟩
  | cons x ops ih =>
    obtain ⟨env, op⟩ := x
    have hop := hops (env, op) (by simp)
    obtain ⟨_, _, h3⟩ := xRunOp_refines cfg cache env op fs h hl hop
    obtain ⟨k1, k2⟩ := xRunOp_keeps_tmp cfg cache env op (hnc (env, op) (by simp)) fs h.healthy hl hop m hm
    obtain ⟨i1, i2⟩ := ih (fun y hy => hnc y (List.mem_cons_of_mem _ hy)) _ h3
      (fun y hy => hops y (List.mem_cons_of_mem _ hy)) (Nat.lt_of_lt_of_le hm k2)
    simp only [xRunOps]
    exact ⟨i1.trans k1, Nat.le_trans k2 i2⟩

/-! ### part 3: operations between the last chunk and the commit -/

/-- A state change that leaves every path other than one entry of `cache/tmp` alone, or turns it
from absent into a directory on the way to `cache/tmp`, keeps the cache healthy and does not change
what it abstracts to. -/
theorem healthy_of_grow {fs fs' : FS} (h : Healthy cfg cache fs) (n : Bytes)
    (hg : ∀ q, q ≠ (cache ++ [dTmp]) ++ [n] → Grow fs fs' q (cache ++ [dTmp])) :
    Healthy cfg cache fs' ∧ absCache cfg cache fs' = absCache cfg cache fs := by
  have haddr : ∀ a hexd, fs'.get (addrPath cache a hexd) = fs.get (addrPath cache a hexd) := by
    intro a hexd
    rcases hg _ (tmp_ne_addr cache n a hexd).symm with g | ⟨_, _, g⟩
    · exact g
    · exact absurd g (addr_not_prefix_tmpDir cache a hexd)
  have hS : HealthyStore cfg cache fs' := by
    apply h.store.step
    · intro a hexd _; exact Or.inl (haddr a hexd)
    · intro q hq
      have h1 : q ≠ (cache ++ [dTmp]) ++ [n] := by
        intro e; subst e
        rcases hq with hq | ⟨a', h', hq⟩
        · exact tmp_not_prefix_tmpDir cache _ hq
        · exact tmp_not_prefix_parent_addr cache _ _ _ hq
      rcases hg q h1 with g | ⟨g1, g2, _⟩
      · exact Or.inl g
      · exact Or.inr ⟨g1, g2⟩
  have hI := healthyIndex_grow cfg cache h.index (fs' := fs')
    (by
      intro key
      rcases hg _ (bucket_ne_tmp cfg cache key n) with g | ⟨_, _, g⟩
      · exact g
      · exact absurd g (bucket_not_prefix_tmpDir cfg cache key))
    (by
      intro key q _ hq
      have h1 : q ≠ (cache ++ [dTmp]) ++ [n] := by
        intro e; subst e; exact tmp_not_prefix_parent_bucket cfg cache _ _ hq
      rcases hg q h1 with g | ⟨g1, g2, _⟩
      · exact Or.inl g
      · exact Or.inr ⟨g1, g2⟩)
  refine ⟨⟨hI.1, hS⟩, ?_⟩
  unfold absCache
  rw [hI.2]
  congr 1
  funext a hexd
  unfold absStore
  rw [haddr]

/-- **The open phase keeps the cache healthy and abstractly unchanged**: an open, fed writer is
invisible to the abstract cache. -/
theorem heldOpen_healthy (env : Env) (fl : Flavour) (key : Option Bytes) (o : WriteOpts)
    (chunks : List Bytes) (fs : FS) (h : Healthy cfg cache fs) :
    Healthy cfg cache (run env (heldOpen cfg cache fl key o chunks) fs).2.1 ∧
    absCache cfg cache (run env (heldOpen cfg cache fl key o chunks) fs).2.1 = absCache cfg cache fs := by
  obtain ⟨w, _, _, _, _, _, _, _, ht, _, _, hg⟩ :=
    run_heldOpen cfg cache env fl key o chunks fs h.store.tmpDirs
  apply healthy_of_grow cfg cache h (tmpName fs.next)
  intro q hq
  exact hg q (by rw [ht]; exact hq)

/-- **A writer held open across any sequence of `COp` operations** (keyed and by-address writes by
OTHER writers, reads, index insertions / removals / lookups, by-address reads / removals): open and
feed the writer from a healthy cache `fs0` (state `fs1`), run the operations, commit.  The
operations answer as the abstract cache started from the abstraction of `fs0` says (the open writer
is invisible), and the commit's answer and the final abstract cache are the abstract `put` step
applied AFTER the operations (`cSpecStep … (.put fl k o chunks)` on the abstract state they lead
to).  The cache is healthy at the end and the writer's temp file is gone. -/
theorem held_across_cops (env env' : Env) (fl : Flavour) (k : Bytes) (o : WriteOpts)
    (chunks : List Bytes) (fs0 fs1 : FS) (w : Writer)
    (h0 : Healthy cfg cache fs0) (hl : HexLen cfg) (hw : PutWF k o chunks)
    (hopen : (run env (heldOpen cfg cache fl (some k) o chunks) fs0).1 = .ok w)
    (hfs1 : (run env (heldOpen cfg cache fl (some k) o chunks) fs0).2.1 = fs1)
    (ops : List (Env × COp)) (hops : ∀ x ∈ ops, x.2.WF cfg) :
    (cRunOps cfg cache ops fs1).1 = (cSpecRun cfg ops (absCache cfg cache fs0)).1 ∧
    COut.put (run env' (wcommit cfg w) (cRunOps cfg cache ops fs1).2).1 =
      (cSpecStep cfg env' (cSpecRun cfg ops (absCache cfg cache fs0)).2 (.put fl k o chunks)).2 ∧
    absCache cfg cache (run env' (wcommit cfg w) (cRunOps cfg cache ops fs1).2).2.1 =
      (cSpecStep cfg env' (cSpecRun cfg ops (absCache cfg cache fs0)).2 (.put fl k o chunks)).1 ∧
    Healthy cfg cache (run env' (wcommit cfg w) (cRunOps cfg cache ops fs1).2).2.1 ∧
    (run env' (wcommit cfg w) (cRunOps cfg cache ops fs1).2).2.1.get w.tmp = none := by
  obtain ⟨w0, r0, _, _, _, _, _, _, ht, _, hnx, _⟩ :=
    run_heldOpen cfg cache env fl (some k) o chunks fs0 h0.store.tmpDirs
  rw [hopen] at r0
  have hw0 : w = w0 := Except.ok.inj r0
  subst hw0
  obtain ⟨h1, a1⟩ := heldOpen_healthy cfg cache env fl (some k) o chunks fs0 h0
  rw [hfs1] at h1 a1 hnx
  obtain ⟨r1, r2, r3⟩ := cache_refines_map cfg cache ops fs1 h1 hl hops
  obtain ⟨k1, _⟩ := cops_preserve_tmp cfg cache ops fs1 h1 hl hops fs0.next hnx
  rw [← ht] at k1
  obtain ⟨c1, c2, c3, c4, _⟩ := held_commit_refines cfg cache env env' fl k o chunks fs0 fs1
    (cRunOps cfg cache ops fs1).2 w h0 hl hw hopen hfs1 r3 k1
  rw [a1] at r1 r2
  rw [r2] at c1 c2
  exact ⟨r1, by rw [c1]; rfl, by rw [c2]; rfl, c3, c4⟩

/-! ### … and across the operations of the extended refinement (`ls`, `remove_fully`) -/

theorem heldOpen_safe (fl : Flavour) (key : Option Bytes) (o : WriteOpts) (chunks : List Bytes) :
    AllCalls (SafeCall cache) (heldOpen cfg cache fl key o chunks) := by
  unfold heldOpen
  simp only [bind_eq, pure_eq]
  apply AllCalls.bind (ListRefine.wopen_safe cfg cache fl key o)
  intro r
  split
  · trivial
  · apply AllCalls.bind (ListRefine.wwriteAll_safe cache _ chunks)
    intro r2
    split
    · apply AllCalls.bind (ListRefine.dropTmp_safe cache _)
      intro _; trivial
    · trivial

/-- **The open phase keeps the cache tidy**; of the existence flags of the extended abstract state
only `cacheDir` may change (the cache directory exists once `cache/tmp` has been created) —
`XAbs.wrote`, the same flag move as a by-address write. -/
theorem heldOpen_tidy (env : Env) (fl : Flavour) (key : Option Bytes) (o : WriteOpts)
    (chunks : List Bytes) (fs : FS) (h : Healthy cfg cache fs) (hT : Tidy cfg cache fs) :
    Tidy cfg cache (run env (heldOpen cfg cache fl key o chunks) fs).2.1 ∧
    absX cfg cache (run env (heldOpen cfg cache fl key o chunks) fs).2.1 =
      (absX cfg cache fs).wrote (absCache cfg cache fs) := by
  obtain ⟨w, _, _, _, _, _, _, _, ht, inv, _, hg⟩ :=
    run_heldOpen cfg cache env fl key o chunks fs h.store.tmpDirs
  obtain ⟨_, hA⟩ := heldOpen_healthy cfg cache env fl key o chunks fs h
  have ht' : w.tmp = (cache ++ [dTmp]) ++ [tmpName fs.next] := ht
  have hb : ∀ k, (run env (heldOpen cfg cache fl key o chunks) fs).2.1.get (bucketPath cfg cache k) =
      fs.get (bucketPath cfg cache k) := by
    intro k
    rcases hg _ (by rw [ht']; exact bucket_ne_tmp cfg cache k _) with g | ⟨_, _, g⟩
    · exact g
    · exact absurd g (bucket_not_prefix_tmpDir cfg cache k)
  have hshape : Shape cfg cache (run env (heldOpen cfg cache fl key o chunks) fs).2.1 := by
    intro q hc hne hs
    by_cases hq : q = w.tmp
    · subst hq
      rw [ht']
      refine ⟨⟨dTmp, top3_tmp, inArea_tmp cache _⟩, ?_, ?_⟩
      · intro hlen; simp at hlen
      · intro hi
        exact absurd (inArea_disjoint hi (inArea_tmp cache _)) dIndex_ne_dTmp
    · rcases hg q hq with g | ⟨_, g2, g3⟩
      · rw [g] at hs ⊢; exact hT.shape q hc hne hs
      · exact ⟨⟨dTmp, top3_tmp, inArea_of_prefix (inArea_tmpDir cache) g3 hc hne⟩, fun _ => g2,
          fun _ => Or.inl g2⟩
  have hT' : Tidy cfg cache (run env (heldOpen cfg cache fl key o chunks) fs).2.1 :=
    tidy_run cfg cache env _ (heldOpen_safe cfg cache fl key o chunks) fs hT hshape
      (recsOK_of_buckets cfg cache hT.recs (fun k => Or.inl (hb k)))
  refine ⟨hT', ?_⟩
  rw [← hA]
  apply absX_wrote cfg cache hb
  · have hne : cache ++ [dIndex] ≠ w.tmp := by
      rw [ht']; intro e; have := congrArg List.length e; simp at this
    rcases hg _ hne with g | ⟨_, _, g⟩
    · exact g
    · exact absurd g (area_sep dIndex_ne_dTmp (List.prefix_refl _) (inArea_tmpDir cache))
  · obtain ⟨f, hf, _⟩ := inv.file
    apply rooted_dir_of_below hT'.rootC (q := w.tmp)
    · rw [ht']; exact prefix_tmp cache _
    · rw [ht']; intro e; have := congrArg List.length e; simp at this
    · rw [hf]; intro e; cases e

/-- **`held_across_ops`: a writer held open across any sequence of operations of the extended
refinement without `clear`** — keyed and by-address writes of OTHER writers, reads, lookups,
`remove` / `remove_hash` / `remove_fully` (of the writer's own key too), listings.  Open and feed
the writer from a healthy, tidy cache `fs0` (state `fs1`), run the operations, commit:
* the operations answer as the abstract machine of `cache_refines_map_ext` says, started from the
  abstraction of `fs0` with the `cacheDir` flag raised (the open writer is otherwise invisible);
* the commit's answer and the final abstract cache are the abstract `put` step `cSpecStep …
  (.put fl k o chunks)` applied to the abstract cache the operations lead to — the write is applied
  AFTER the operations;
* the cache is healthy at the end and the writer's temp file is gone.
`hnc` excludes `clear`, which removes `cache/tmp` — and with it the held temp file — wholesale. -/
theorem held_across_ops (env env' : Env) (fl : Flavour) (k : Bytes) (o : WriteOpts)
    (chunks : List Bytes) (fs0 fs1 : FS) (w : Writer)
    (h0 : XHealthy cfg cache fs0) (hl : HexLen cfg) (hw : PutWF k o chunks)
    (hopen : (run env (heldOpen cfg cache fl (some k) o chunks) fs0).1 = .ok w)
    (hfs1 : (run env (heldOpen cfg cache fl (some k) o chunks) fs0).2.1 = fs1)
    (ops : List (Env × XOp)) (hnc : ∀ x ∈ ops, x.2 ≠ .clear) (hops : ∀ x ∈ ops, x.2.WF cfg) :
    Answers (xRunOps cfg cache ops fs1).1
      (xSpecRun cfg ops ((absX cfg cache fs0).wrote (absCache cfg cache fs0))).1 ∧
    COut.put (run env' (wcommit cfg w) (xRunOps cfg cache ops fs1).2).1 =
      (cSpecStep cfg env' (xSpecRun cfg ops ((absX cfg cache fs0).wrote (absCache cfg cache fs0))).2.cache
        (.put fl k o chunks)).2 ∧
    absCache cfg cache (run env' (wcommit cfg w) (xRunOps cfg cache ops fs1).2).2.1 =
      (cSpecStep cfg env' (xSpecRun cfg ops ((absX cfg cache fs0).wrote (absCache cfg cache fs0))).2.cache
        (.put fl k o chunks)).1 ∧
    Healthy cfg cache (run env' (wcommit cfg w) (xRunOps cfg cache ops fs1).2).2.1 ∧
    (run env' (wcommit cfg w) (xRunOps cfg cache ops fs1).2).2.1.get w.tmp = none := by
  obtain ⟨w0, r0, _, _, _, _, _, _, ht, _, hnx, _⟩ :=
    run_heldOpen cfg cache env fl (some k) o chunks fs0 h0.healthy.store.tmpDirs
  rw [hopen] at r0
  have hw0 : w = w0 := Except.ok.inj r0
  subst hw0
  obtain ⟨h1, _⟩ := heldOpen_healthy cfg cache env fl (some k) o chunks fs0 h0.healthy
  obtain ⟨t1, x1⟩ := heldOpen_tidy cfg cache env fl (some k) o chunks fs0 h0.healthy h0.tidy
  rw [hfs1] at h1 t1 x1 hnx
  obtain ⟨r1, r2, r3⟩ := cache_refines_map_ext cfg cache ops fs1 ⟨h1, t1⟩ hl hops
  obtain ⟨k1, _⟩ := ops_preserve_tmp cfg cache ops hnc fs1 ⟨h1, t1⟩ hl hops fs0.next hnx
  rw [← ht] at k1
  obtain ⟨c1, c2, c3, c4, _⟩ := held_commit_refines cfg cache env env' fl k o chunks fs0 fs1
    (xRunOps cfg cache ops fs1).2 w h0.healthy hl hw hopen hfs1 r3.healthy k1
  rw [x1] at r1 r2
  have hcache : absCache cfg cache (xRunOps cfg cache ops fs1).2 =
      (xSpecRun cfg ops ((absX cfg cache fs0).wrote (absCache cfg cache fs0))).2.cache :=
    congrArg XAbs.cache r2
  rw [hcache] at c1 c2
  exact ⟨r1, by rw [c1]; rfl, by rw [c2]; rfl, c3, c4⟩

/-- **The commit of a held writer keeps the cache tidy**, and moves the existence flags of the
extended abstract state exactly as a whole keyed write does (`copFlags … (.put fl k o chunks)`) —
so the extended refinement can go on after the commit.  Hypotheses as in `held_commit_refines`,
plus `hT2`: the state the commit finds is tidy. -/
theorem held_commit_ext (env env' : Env) (fl : Flavour) (k : Bytes) (o : WriteOpts)
    (chunks : List Bytes) (fs0 fs1 fs2 : FS) (w : Writer)
    (h0 : Healthy cfg cache fs0) (hl : HexLen cfg) (hw : PutWF k o chunks)
    (hopen : (run env (heldOpen cfg cache fl (some k) o chunks) fs0).1 = .ok w)
    (hfs1 : (run env (heldOpen cfg cache fl (some k) o chunks) fs0).2.1 = fs1)
    (h2 : Healthy cfg cache fs2) (hT2 : Tidy cfg cache fs2)
    (hkeep : fs2.get w.tmp = fs1.get w.tmp) :
    Tidy cfg cache (run env' (wcommit cfg w) fs2).2.1 ∧
    absX cfg cache (run env' (wcommit cfg w) fs2).2.1 =
      copFlags cfg (absX cfg cache fs2) (absCache cfg cache (run env' (wcommit cfg w) fs2).2.1)
        (.put fl k o chunks) := by
  obtain ⟨w0, r0, hc, hk, ho, hwr, hhash, halg, ht, inv1, -, -⟩ :=
    run_heldOpen cfg cache env fl (some k) o chunks fs0 h0.store.tmpDirs
  rw [hopen] at r0
  have hw0 : w = w0 := Except.ok.inj r0
  subst hw0
  rw [hfs1] at inv1
  have inv2 : WInv w fs2 := winv_of_get inv1 hkeep
  obtain ⟨fs3, -, hfs, hp⟩ := run_wcommit_phase cfg cache env' w fs2 fs0.next h2.store hl hc ht inv2
  rw [halg, hhash] at hfs hp
  have hsafe := ListRefine.wcommit_safe cfg cache w
  have hM3 : Moves cfg cache fs2 fs3 := moves_putFrame cfg cache (fs := withNext fs2 fs0.next) hp
  have hb3 : ∀ k', fs3.get (bucketPath cfg cache k') = fs2.get (bucketPath cfg cache k') :=
    putFrame_buckets cfg cache (fs := withNext fs2 fs0.next) hp
  have hi3 : fs3.get (cache ++ [dIndex]) = fs2.get (cache ++ [dIndex]) :=
    putFrame_indexDir cfg cache (fs := withNext fs2 fs0.next) hp
  have hS3 : Shape cfg cache fs3 := shape_moves cfg cache hT2.shape hM3
  have hR3 : RecsOK cfg cache fs3 := recsOK_of_buckets cfg cache hT2.recs (fun k' => Or.inl (hb3 k'))
  obtain ⟨hI3, _⟩ := putFrame_index cfg cache (healthyIndex_withNext cfg cache h2.index fs0.next) hp
  unfold commitTail at hfs
  rw [commitChecks_eq, ho, hwr] at hfs
  unfold copFlags
  cases hck : declCheck o chunks.flatten.length (Sri.compute cfg.H (o.algo.getD .sha256) chunks.flatten) with
  | error e =>
    simp only [hck] at hfs ⊢
    have hfs' : (run env' (wcommit cfg w) fs2).2.1 = fs3 := hfs
    have hT' : Tidy cfg cache (run env' (wcommit cfg w) fs2).2.1 :=
      tidy_run cfg cache env' _ hsafe fs2 hT2 (by rw [hfs']; exact hS3) (by rw [hfs']; exact hR3)
    refine ⟨hT', ?_⟩
    rw [hfs'] at hT' ⊢
    exact absX_wrote cfg cache hb3 hi3 (putFrame_cacheDir cfg cache hp hT'.rootC)
  | ok recorded =>
    simp only [hck, wcommitIndex, hk, hc, ho, hwr] at hfs ⊢
    have hrec : recorded = Sri.compute cfg.H (o.algo.getD .sha256) chunks.flatten :=
      declCheck_ok_none hw.nosri hck
    have hsz : o.size.getD chunks.flatten.length ≤ Rec.u64Max := by
      cases hs : o.size with
      | none => exact hw.len
      | some n => exact hw.opts.size n hs
    have hwf : OptsWF k { o with sri := some recorded, size := some (o.size.getD chunks.flatten.length) } := by
      rw [hrec]
      exact (hw.opts.with_computed cfg.H _ _).with_size _ hsz
    have hsri : SriOK cfg { o with sri := some recorded, size := some (o.size.getD chunks.flatten.length) } :=
      Or.inr ⟨_, _, by rw [hrec]⟩
    have hT' : Tidy cfg cache (run env' (wcommit cfg w) fs2).2.1 := by
      apply tidy_run cfg cache env' _ hsafe fs2 hT2
      · rw [hfs]; exact shape_moves cfg cache hS3 (moves_insert cfg cache env' k _ fs3 hI3)
      · rw [hfs]; exact recsOK_insert cfg cache env' k _ fs3 hI3 hR3 hwf hsri
    refine ⟨hT', ?_⟩
    have hT'' := hT'
    rw [hfs] at hT'' ⊢
    obtain ⟨d1, d2⟩ := insert_dirs cfg cache env' k _ fs3 hI3 hT''
    apply absX_indexed cfg cache _ d1 d2
    intro k'
    rw [insert_buckets cfg cache env' k _ fs3 hI3 k', hb3 k']

/-- **`held_across_ops`, the state afterwards**: the cache is healthy AND tidy after the commit, and
the extended abstract state is the extended abstract step `xSpecStep … (.cop (.put fl k o chunks))`
applied to the state the operations led to — so the whole program (operations, commit, more
operations) is covered by chaining with `cache_refines_map_ext`. -/
theorem held_across_ops_state (env env' : Env) (fl : Flavour) (k : Bytes) (o : WriteOpts)
    (chunks : List Bytes) (fs0 fs1 : FS) (w : Writer)
    (h0 : XHealthy cfg cache fs0) (hl : HexLen cfg) (hw : PutWF k o chunks)
    (hopen : (run env (heldOpen cfg cache fl (some k) o chunks) fs0).1 = .ok w)
    (hfs1 : (run env (heldOpen cfg cache fl (some k) o chunks) fs0).2.1 = fs1)
    (ops : List (Env × XOp)) (hnc : ∀ x ∈ ops, x.2 ≠ .clear) (hops : ∀ x ∈ ops, x.2.WF cfg) :
    XHealthy cfg cache (run env' (wcommit cfg w) (xRunOps cfg cache ops fs1).2).2.1 ∧
    absX cfg cache (run env' (wcommit cfg w) (xRunOps cfg cache ops fs1).2).2.1 =
      (xSpecStep cfg env' (xSpecRun cfg ops ((absX cfg cache fs0).wrote (absCache cfg cache fs0))).2
        (.cop (.put fl k o chunks))).1 := by
  obtain ⟨w0, r0, _, _, _, _, _, _, ht, _, hnx, _⟩ :=
    run_heldOpen cfg cache env fl (some k) o chunks fs0 h0.healthy.store.tmpDirs
  rw [hopen] at r0
  have hw0 : w = w0 := Except.ok.inj r0
  subst hw0
  obtain ⟨h1, _⟩ := heldOpen_healthy cfg cache env fl (some k) o chunks fs0 h0.healthy
  obtain ⟨t1, x1⟩ := heldOpen_tidy cfg cache env fl (some k) o chunks fs0 h0.healthy h0.tidy
  rw [hfs1] at h1 t1 x1 hnx
  obtain ⟨_, r2, r3⟩ := cache_refines_map_ext cfg cache ops fs1 ⟨h1, t1⟩ hl hops
  obtain ⟨k1, _⟩ := ops_preserve_tmp cfg cache ops hnc fs1 ⟨h1, t1⟩ hl hops fs0.next hnx
  rw [← ht] at k1
  obtain ⟨_, c2, c3, _, _⟩ := held_commit_refines cfg cache env env' fl k o chunks fs0 fs1
    (xRunOps cfg cache ops fs1).2 w h0.healthy hl hw hopen hfs1 r3.healthy k1
  obtain ⟨e1, e2⟩ := held_commit_ext cfg cache env env' fl k o chunks fs0 fs1
    (xRunOps cfg cache ops fs1).2 w h0.healthy hl hw hopen hfs1 r3.healthy r3.tidy k1
  rw [x1] at r2
  have hcache : absCache cfg cache (xRunOps cfg cache ops fs1).2 =
      (xSpecRun cfg ops ((absX cfg cache fs0).wrote (absCache cfg cache fs0))).2.cache :=
    congrArg XAbs.cache r2
  refine ⟨⟨c3, e1⟩, ?_⟩
  rw [e2, c2, hcache, r2]
  rfl

/-! ### non-vacuity -/

/-- The hypotheses are satisfiable, and the theorem says something: with the driver's real
configuration (SHA-1/2, `hexLen_mkCfg`), from the EMPTY filesystem, open a keyed sync writer and
feed it `data`; while it is held open, `remove` the writer's key, `remove_fully` it, and list the
cache; then commit.  The open phase answers a writer, the commit answers the integrity of `data`,
and afterwards the key is mapped to the new entry and the address of `data` holds `data` — the
removals in between did not undo the write that was committed after them. -/
example (cache : Path) (env : Env) (k data : Bytes) (hk : utf8Valid k = true)
    (hd : data.length ≤ Rec.u64Max) :
    ∃ w, (run env (heldOpen (mkCfg []) cache .sync (some k) {} [data]) FS.empty).1 = .ok w ∧
      (run env (wcommit (mkCfg []) w)
        (xRunOps (mkCfg []) cache [(env, .cop (COp.remove k)), (env, .removeFully k), (env, .list)]
          (run env (heldOpen (mkCfg []) cache .sync (some k) {} [data]) FS.empty).2.1).2).1 =
        .ok (Sri.compute (mkCfg []).H .sha256 data) ∧
      absIndex (mkCfg []) cache (run env (wcommit (mkCfg []) w)
        (xRunOps (mkCfg []) cache [(env, .cop (COp.remove k)), (env, .removeFully k), (env, .list)]
          (run env (heldOpen (mkCfg []) cache .sync (some k) {} [data]) FS.empty).2.1).2).2.1 k =
        some (putEntry (mkCfg []) env k {} data) ∧
      absStore cache (run env (wcommit (mkCfg []) w)
        (xRunOps (mkCfg []) cache [(env, .cop (COp.remove k)), (env, .removeFully k), (env, .list)]
          (run env (heldOpen (mkCfg []) cache .sync (some k) {} [data]) FS.empty).2.1).2).2.1
        .sha256 (Bytes.hex ((mkCfg []).H .sha256 data)) = some data := by
  have hl : HexLen (mkCfg []) := hexLen_mkCfg [] (fun e he => by cases he)
  have h0 : XHealthy (mkCfg []) cache FS.empty :=
    xhealthy_of_empty_cache (mkCfg []) cache FS.empty (fun _ _ _ => Or.inl rfl) (fun _ _ _ => rfl)
  have hfl : [data].flatten = data := by simp
  have hw : PutWF k {} [data] :=
    ⟨⟨hk, by simp, by simp, by simp, by simp⟩, rfl, by rw [hfl]; exact hd⟩
  obtain ⟨w, r0, _⟩ := run_heldOpen (mkCfg []) cache env .sync (some k) {} [data] FS.empty
    h0.healthy.store.tmpDirs
  obtain ⟨_, a2, a3, _, _⟩ := held_across_ops (mkCfg []) cache env env .sync k {} [data] FS.empty _ w
    h0 hl hw r0 rfl [(env, .cop (COp.remove k)), (env, .removeFully k), (env, .list)]
    (by intro x hx; simp at hx; rcases hx with rfl | rfl | rfl <;> (intro e; cases e))
    (by intro x hx; simp at hx; rcases hx with rfl | rfl | rfl <;> first | exact hk | trivial)
  obtain ⟨p1, p2⟩ := putSpec_ok (mkCfg []) env
    (xSpecRun (mkCfg []) [(env, .cop (COp.remove k)), (env, .removeFully k), (env, .list)]
      ((absX (mkCfg []) cache FS.empty).wrote (absCache (mkCfg []) cache FS.empty))).2.cache
    k {} [data] rfl (Or.inl rfl)
  rw [hfl] at p1 p2
  refine ⟨w, r0, ?_, ?_, ?_⟩
  · have := COut.put.inj a2
    rw [this]; exact p1
  · have : absIndex (mkCfg []) cache _ k = _ := congrArg (fun c => c.index k) a3
    rw [this]; exact p2
  · have : absStore cache _ = _ := congrArg AbsCache.store a3
    rw [this]
    show (putSpec _ _ _ _ _ _).1.store _ _ = _
    rw [putSpec_store, hfl]
    exact AbsStore.set_same _ _ _ _

end Cacache.HeldWriter

namespace AxiomCheckHeld
open Cacache.HeldWriter
#print axioms writeStream_eq_held
#print axioms run_heldOpen
#print axioms held_commit_refines
#print axioms held_commit_explicit
#print axioms cRunOp_keeps_tmp
#print axioms xRunOp_keeps_tmp
#print axioms cops_preserve_tmp
#print axioms ops_preserve_tmp
#print axioms heldOpen_healthy
#print axioms heldOpen_tidy
#print axioms held_across_cops
#print axioms held_across_ops
#print axioms held_commit_ext
#print axioms held_across_ops_state
end AxiomCheckHeld
