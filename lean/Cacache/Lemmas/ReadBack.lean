/-
Reading back what a write left behind.
-/
import Cacache.Lemmas.Stream
import Cacache.Lemmas.SriText
import Cacache.Lemmas.Hex

namespace Cacache
open Prog

variable (cfg : Cfg) (env : Env) (cache : Path)

theorem readFile_of_file {fs : FS} {p : Path} {b : Bytes} (hp : p ≠ [])
    (h : fs.get p = some (.file b)) : fs.readFile p = .ok b := by
  unfold FS.readFile FS.resolveFuel
  cases p with
  | nil => exact absurd rfl hp
  | cons x xs => simp [FS.resolve, h]

/-- The check of a computed single-hash integrity against the data it was computed from. -/
theorem check_compute (a : Algo) (data : Bytes) :
    Sri.check cfg.H (Sri.compute cfg.H a data) data = some a := by
  simp [Sri.check, Sri.compute]

/-- **Read by address** in a valid store where the address of `data` holds a regular file:
the read succeeds and — the digest not colliding on the two strings — returns `data`. -/
theorem readHash_present (fs : FS) (a : Algo) (data b : Bytes)
    (hl : 4 ≤ (Bytes.hex (cfg.H a data)).length) (hv : ContentValid cfg cache fs)
    (hf : fs.get (addrPath cache a (Bytes.hex (cfg.H a data))) = some (.file b))
    (hinj : cfg.H a b = cfg.H a data → b = data) :
    (run env (readHash cfg cache (Sri.compute cfg.H a data)) fs).1 = .ok data := by
  have hb : b = data := hinj (Bytes.hex_injective (hv a _ b hl hf).symm)
  subst hb
  unfold readHash
  rw [contentPath_compute]
  have : ¬ (Bytes.hex (cfg.H a b)).length < 4 := by omega
  simp only [this, if_false, bind_eq, pure_eq, call, bind_sys, bind_done, run, exec]
  rw [readFile_of_file (by simp [addrPath]) hf]
  simp [check_compute, run]

/-- **Lookup** in a state where the key's bucket is a regular file with bytes `bytes`. -/
theorem find_of_bucket (fs : FS) (key : Bytes) (bytes : Bytes)
    (h : fs.get (bucketPath cfg cache key) = some (.file bytes)) :
    (run env (find cfg cache key) fs).1 = .ok ((codec cfg).find bytes key) := by
  unfold find bucketEntries
  simp only [bind_eq, pure_eq, call, bind_sys, bind_done, run, exec]
  rw [readFile_of_file (by simp [bucketPath]) h]
  rfl

/-- What the record of a successful keyed write classifies as. -/
theorem cls_mkRec_compute (key : Bytes) (o : WriteOpts) (a : Algo) (data : Bytes) (tm : Nat) :
    (codec cfg).cls (mkRec key { o with sri := some (Sri.compute cfg.H a data) } tm) =
      .live { key := key, sri := Sri.compute cfg.H a data, time := tm, size := o.size.getD 0,
              metadata := o.metadata.getD .null, raw := o.raw } := by
  simp [codec, Rec.codec, Rec.cls, mkRec, Sri.parse_print_compute]

end Cacache
