/-
Frame lemmas for the filesystem model: what each call can change.
-/
import Cacache.FS
import Cacache.Lemmas.Prog

namespace Cacache
namespace FS

@[simp] theorem get_put_same (fs : FS) (p : Path) (n : Node) : (fs.put p n).get p = some n := by
  simp [put]

theorem get_put_ne (fs : FS) {p q : Path} (n : Node) (h : q ≠ p) : (fs.put p n).get q = fs.get q := by
  simp [put, h]

theorem get_put (fs : FS) (p q : Path) (n : Node) :
    (fs.put p n).get q = if q = p then some n else fs.get q := by
  simp [put]

@[simp] theorem get_del_same (fs : FS) (p : Path) : (fs.del p).get p = none := by simp [del]

theorem get_del_ne (fs : FS) {p q : Path} (h : q ≠ p) : (fs.del p).get q = fs.get q := by
  simp [del, h]

theorem get_del (fs : FS) (p q : Path) : (fs.del p).get q = if q = p then none else fs.get q := by
  simp [del]

/-- `create_dir_all` (even a partial one) only turns absent paths into directories. -/
theorem mkdirLevels_get (fs fs' : FS) (ps : List Path) (n : Nat)
    (h : mkdirLevels fs ps n = .ok fs') (q : Path) :
    fs'.get q = fs.get q ∨ (fs.get q = none ∧ fs'.get q = some .dir) := by
  induction ps generalizing fs n with
  | nil => simp [mkdirLevels] at h; subst h; exact Or.inl rfl
  | cons p ps ih =>
    cases n with
    | zero => simp [mkdirLevels] at h; subst h; exact Or.inl rfl
    | succ n =>
      simp only [mkdirLevels] at h
      split at h
      · rename_i hnone
        rcases ih _ _ h with h1 | ⟨h1, h2⟩
        · by_cases hq : q = p
          · subst hq; right; rw [h1]; exact ⟨hnone, by simp⟩
          · left; rw [h1, get_put_ne _ _ hq]
        · by_cases hq : q = p
          · subst hq; simp at h1
          · right; rw [get_put_ne _ _ hq] at h1; exact ⟨h1, h2⟩
      · exact ih _ _ h
      · exact ih _ _ h
      · cases h

theorem delAll_get (fs : FS) (ps : List Path) (q : Path) :
    (fs.delAll ps).get q = none ∨ (fs.delAll ps).get q = fs.get q := by
  unfold delAll
  induction ps generalizing fs with
  | nil => right; rfl
  | cons p ps ih =>
    simp only [List.foldl_cons]
    rcases ih (fs.del p) with h | h
    · left; exact h
    · rw [h, get_del]; split
      · left; rfl
      · right; rfl

end FS

/-- The paths at which a call can create or change a *regular file* (state-dependent for
`mkTemp`, whose name is chosen by the filesystem). -/
def Call.fileTargets (fs : FS) : Call → List Path
  | .mkTemp dir => [dir ++ [tmpName fs.next]]
  | .fallocate p _ | .writeAt p _ _ | .truncate p _ | .openAppend p | .appendWrite p _ => [p]
  | .rename _ d | .hardLink _ d | .reflink _ d => [d]
  | .copyFile _ d =>
    match fs.get d with
    | some (.link t) => (match FS.resolve fs FS.resolveFuel (FS.targetPath d t) with | some q => [q] | none => [])
    | _ => [d]
  | _ => []

theorem copyTo_files (fs : FS) (d : Path) (data : Bytes) (q : Path) (b : Bytes)
    (hq : (copyTo fs d data).1.get q = some (.file b)) :
    fs.get q = some (.file b) ∨ q ∈ Call.fileTargets fs (.copyFile [] d) := by
  have key : ∀ (fs : FS) (p : Path) (n : Node), (fs.put p n).get q = some (.file b) →
      fs.get q = some (.file b) ∨ q = p := by
    intro fs p n hp
    rw [FS.get_put] at hp
    split at hp
    · right; assumption
    · left; exact hp
  unfold copyTo at hq
  split at hq <;> (try exact Or.inl hq)
  split at hq <;> (try exact Or.inl hq)
  · rename_i t hl
    split at hq <;> (try exact Or.inl hq)
    rename_i q' hres
    rcases key _ _ _ hq with h | h
    · exact Or.inl h
    · right; simp [Call.fileTargets, hl, hres, h]
  · rename_i hnd hnl
    rcases key _ _ _ hq with h | h
    · exact Or.inl h
    · right
      subst h
      simp only [Call.fileTargets]
      first
        | simp
        | (split
           · rename_i t hl; exact absurd hl (hnl t)
           · simp)

/-- Every regular file present after a (successful or failed) call was there before with the same
bytes, unless it sits at one of the call's file targets. -/
theorem step_files (env : Env) (fs fs' : FS) (c : Call) (r : Ret) (h : Prog.Step env fs c fs' r)
    (q : Path) (b : Bytes) (hq : fs'.get q = some (.file b)) :
    fs.get q = some (.file b) ∨ q ∈ c.fileTargets fs := by
  have key : ∀ (fs : FS) (p : Path) (n : Node), (fs.put p n).get q = some (.file b) →
      fs.get q = some (.file b) ∨ q = p := by
    intro fs p n hp
    rw [FS.get_put] at hp
    split at hp
    · right; assumption
    · left; exact hp
  cases h with
  | fail e short =>
    cases c <;> simp only [execFail, exec] at hq <;> (try exact Or.inl hq)
    all_goals (split at hq <;> (try exact Or.inl hq))
    all_goals (
      rcases key _ _ _ hq with h | h
      · exact Or.inl h
      · right; simp [Call.fileTargets, h])
  | ok =>
    cases c <;> simp only [exec] at hq
    case mkdirP p =>
      split at hq
      · rename_i fs1 hm
        rcases FS.mkdirLevels_get _ _ _ _ hm q with h | ⟨_, h⟩
        · left; rw [← h]; exact hq
        · rw [h] at hq; cases hq
      · exact Or.inl hq
    case mkTemp dir =>
      split at hq
      · rcases key _ _ _ hq with h | h
        · exact Or.inl h
        · right; simp [Call.fileTargets, h]
      · exact Or.inl hq
    case fallocate p n =>
      split at hq <;> (try exact Or.inl hq)
      split at hq <;> (try exact Or.inl hq)
      split at hq <;> (try exact Or.inl hq)
      rcases key _ _ _ hq with h | h
      · exact Or.inl h
      · right; simp [Call.fileTargets, h]
    case writeAt p off d =>
      split at hq <;> (try exact Or.inl hq)
      rcases key _ _ _ hq with h | h
      · exact Or.inl h
      · right; simp [Call.fileTargets, h]
    case truncate p n =>
      split at hq <;> (try exact Or.inl hq)
      rcases key _ _ _ hq with h | h
      · exact Or.inl h
      · right; simp [Call.fileTargets, h]
    case rename s d =>
      split at hq <;> (try exact Or.inl hq)
      split at hq <;> (try exact Or.inl hq)
      split at hq <;> (try exact Or.inl hq)
      rcases key _ _ _ hq with h | h
      · left
        rw [FS.get_del] at h
        split at h
        · cases h
        · exact h
      · right; simp [Call.fileTargets, h]
    case openAppend p =>
      split at hq <;> (try exact Or.inl hq)
      split at hq <;> (try exact Or.inl hq)
      rcases key _ _ _ hq with h | h
      · exact Or.inl h
      · right; simp [Call.fileTargets, h]
    case appendWrite p d =>
      split at hq <;> (try exact Or.inl hq)
      rcases key _ _ _ hq with h | h
      · exact Or.inl h
      · right; simp [Call.fileTargets, h]
    case readFile p => split at hq <;> exact Or.inl hq
    case existsF p => exact Or.inl hq
    case sizeOf p => split at hq <;> exact Or.inl hq
    case unlink p =>
      split at hq <;> (try exact Or.inl hq)
      all_goals (
        rw [FS.get_del] at hq
        split at hq
        · cases hq
        · exact Or.inl hq)
    case hardLink s d =>
      split at hq <;> (try exact Or.inl hq)
      all_goals (split at hq <;> (try exact Or.inl hq))
      all_goals (split at hq <;> (try exact Or.inl hq))
      all_goals (
        rcases key _ _ _ hq with h | h
        · exact Or.inl h
        · right; simp [Call.fileTargets, h])
    case symlink t p =>
      split at hq <;> (try exact Or.inl hq)
      split at hq <;> (try exact Or.inl hq)
      rcases key _ _ _ hq with h | h
      · exact Or.inl h
      · subst h; simp at hq
    case copyFile s d =>
      split at hq <;> (try exact Or.inl hq)
      exact copyTo_files fs d _ q b hq
    case reflink s d =>
      split at hq <;> (try exact Or.inl hq)
      split at hq <;> (try exact Or.inl hq)
      split at hq <;> (try exact Or.inl hq)
      split at hq <;> (try exact Or.inl hq)
      rcases key _ _ _ hq with h | h
      · exact Or.inl h
      · right; simp [Call.fileTargets, h]
    case walk p =>
      split at hq <;> (try exact Or.inl hq)
      split at hq <;> exact Or.inl hq
    case readDir p => split at hq <;> exact Or.inl hq
    case removeTree p =>
      split at hq <;> (try exact Or.inl hq)
      · rcases FS.delAll_get fs _ q with h | h
        · rw [h] at hq; cases hq
        · left; rw [← h]; exact hq
      · rw [FS.get_del] at hq
        split at hq
        · cases hq
        · exact Or.inl hq
    case now => exact Or.inl hq

/-- The same for the state a kill in the middle of the call leaves behind. -/
theorem torn_files (env : Env) (fs : FS) (t : Nat) (c : Call) (q : Path) (b : Bytes)
    (hq : (execTorn env fs t c).get q = some (.file b)) :
    fs.get q = some (.file b) ∨ q ∈ c.fileTargets fs := by
  cases c <;> simp only [execTorn] at hq <;> (try exact Or.inl hq)
  case writeAt p off d => exact step_files env fs _ (.writeAt p off (d.take t)) _ .ok q b hq
  case appendWrite p d => exact step_files env fs _ (.appendWrite p (d.take t)) _ .ok q b hq
  case mkdirP p =>
    split at hq
    · rename_i fs1 hm
      rcases FS.mkdirLevels_get _ _ _ _ hm q with h | ⟨_, h⟩
      · left; rw [← h]; exact hq
      · rw [h] at hq; cases hq
    · exact Or.inl hq
  case copyFile s d =>
    split at hq <;> (try exact Or.inl hq)
    exact copyTo_files fs d _ q b hq
  case removeTree p =>
    split at hq <;> (try exact Or.inl hq)
    rcases FS.delAll_get fs _ q with h | h
    · rw [h] at hq; cases hq
    · left; rw [← h]; exact hq

/-! ### inversion lemmas: what a step of a given call can produce -/

open Prog in
theorem step_mkTemp {env : Env} {fs fs' : FS} {dir : Path} {r : Ret}
    (h : Step env fs (.mkTemp dir) fs' r) :
    (∃ e, r = .err e) ∨
      (r = .path (dir ++ [tmpName fs.next]) ∧ fs'.get (dir ++ [tmpName fs.next]) = some (.file [])) := by
  cases h with
  | fail e short => exact Or.inl ⟨e, rfl⟩
  | ok =>
    simp only [exec]
    split
    · right; exact ⟨rfl, by simp [FS.put]⟩
    · left; exact ⟨_, rfl⟩

open Prog in
theorem step_fallocate {env : Env} {fs fs' : FS} {p : Path} {n : Nat} {r : Ret} {f : Bytes}
    (hf : fs.get p = some (.file f)) (hn : 0 < n) (h : Step env fs (.fallocate p n) fs' r) :
    (∃ e, r = .err e) ∨
      (r = .unit ∧ fs'.get p = some (.file (if f.length < n then f ++ zeros (n - f.length) else f))) := by
  cases h with
  | fail e short => exact Or.inl ⟨e, rfl⟩
  | ok =>
    right
    simp only [exec, hf]
    have : n ≠ 0 := by omega
    simp only [this, if_false]
    split
    · exact ⟨rfl, by simp⟩
    · exact ⟨rfl, hf⟩

open Prog in
theorem step_writeAt {env : Env} {fs fs' : FS} {p : Path} {off : Nat} {d : Bytes} {r : Ret} {f : Bytes}
    (hf : fs.get p = some (.file f)) (h : Step env fs (.writeAt p off d) fs' r) :
    (∃ e, r = .err e) ∨ (r = .nat d.length ∧ fs'.get p = some (.file (spliceAt f off d))) := by
  cases h with
  | fail e short => exact Or.inl ⟨e, rfl⟩
  | ok => right; simp [exec, hf]

open Prog in
theorem step_truncate {env : Env} {fs fs' : FS} {p : Path} {n : Nat} {r : Ret} {f : Bytes}
    (hf : fs.get p = some (.file f)) (h : Step env fs (.truncate p n) fs' r) :
    (∃ e, r = .err e) ∨ (r = .unit ∧ fs'.get p = some (.file (f.take n))) := by
  cases h with
  | fail e short => exact Or.inl ⟨e, rfl⟩
  | ok => right; simp [exec, hf]

open Prog in
/-- `create_dir_all` never disturbs an existing node. -/
theorem step_mkdirP_keeps {env : Env} {fs fs' : FS} {p q : Path} {r : Ret} {x : Node}
    (hx : fs.get q = some x) (h : Step env fs (.mkdirP p) fs' r) : fs'.get q = some x := by
  cases h with
  | fail e short => exact hx
  | ok =>
    simp only [exec]
    split
    · rename_i fs1 hm
      rcases FS.mkdirLevels_get _ _ _ _ hm q with h | ⟨h, _⟩
      · rw [h]; exact hx
      · rw [hx] at h; cases h
    · exact hx

open Prog in
theorem step_rename {env : Env} {fs fs' : FS} {src dst : Path} {r : Ret} {f : Bytes}
    (hf : fs.get src = some (.file f)) (h : Step env fs (.rename src dst) fs' r) :
    ((∃ e, r = .err e) ∧ fs' = fs) ∨ (r = .unit ∧ fs' = (fs.del src).put dst (.file f)) := by
  cases h with
  | fail e short => exact Or.inl ⟨⟨e, rfl⟩, rfl⟩
  | ok =>
    simp only [exec, hf]
    split
    · exact Or.inl ⟨⟨_, rfl⟩, rfl⟩
    · split
      · exact Or.inl ⟨⟨_, rfl⟩, rfl⟩
      · exact Or.inr ⟨rfl, rfl⟩

end Cacache
