/-
Frame lemmas for the filesystem model: what each call can change.
-/
import Cacache.FS
import Cacache.Lemmas.Prog

namespace Cacache
namespace FS

@[simp] theorem get_put_same (fs : FS) (p : Path) (n : Node) : (fs.put p n).get p = some n := by
  simp [put]

theorem get_put_ne (fs : FS) {p q : Path} (n : Node) (h : q ≠ p) : (fs.put p n).get q = fs.get q := by
  simp [put, h]

theorem get_put (fs : FS) (p q : Path) (n : Node) :
    (fs.put p n).get q = if q = p then some n else fs.get q := by
  simp [put]

@[simp] theorem get_del_same (fs : FS) (p : Path) : (fs.del p).get p = none := by simp [del]

theorem get_del_ne (fs : FS) {p q : Path} (h : q ≠ p) : (fs.del p).get q = fs.get q := by
  simp [del, h]

theorem get_del (fs : FS) (p q : Path) : (fs.del p).get q = if q = p then none else fs.get q := by
  simp [del]

/-- `create_dir_all` (even a partial one) only turns absent paths into directories. -/
theorem mkdirLevels_get (fs fs' : FS) (ps : List Path) (n : Nat)
    (h : mkdirLevels fs ps n = .ok fs') (q : Path) :
    fs'.get q = fs.get q ∨ (fs.get q = none ∧ fs'.get q = some .dir) := by
  induction ps generalizing fs n with
  | nil => simp [mkdirLevels] at h; subst h; exact Or.inl rfl
  | cons p ps ih =>
    cases n with
    | zero => simp [mkdirLevels] at h; subst h; exact Or.inl rfl
    | succ n =>
      simp only [mkdirLevels] at h
      split at h
      · rename_i hnone
        rcases ih _ _ h with h1 | ⟨h1, h2⟩
        · by_cases hq : q = p
          · subst hq; right; rw [h1]; exact ⟨hnone, by simp⟩
          · left; rw [h1, get_put_ne _ _ hq]
        · by_cases hq : q = p
          · subst hq; simp at h1
          · right; rw [get_put_ne _ _ hq] at h1; exact ⟨h1, h2⟩
      · exact ih _ _ h
      · exact ih _ _ h
      · cases h

theorem delAll_get (fs : FS) (ps : List Path) (q : Path) :
    (fs.delAll ps).get q = none ∨ (fs.delAll ps).get q = fs.get q := by
  unfold delAll
  induction ps generalizing fs with
  | nil => right; rfl
  | cons p ps ih =>
    simp only [List.foldl_cons]
    rcases ih (fs.del p) with h | h
    · left; exact h
    · rw [h, get_del]; split
      · left; rfl
      · right; rfl

end FS

/-- The paths at which a call can create or change a *regular file* (state-dependent for
`mkTemp`, whose name is chosen by the filesystem). -/
def Call.fileTargets (fs : FS) : Call → List Path
  | .mkTemp dir => [dir ++ [tmpName fs.next]]
  | .fallocate p _ | .writeAt p _ _ | .truncate p _ | .openAppend p | .appendWrite p _ => [p]
  | .rename _ d | .hardLink _ d | .reflink _ d => [d]
  | .copyFile _ d =>
    match fs.get d with
    | some (.link t) => (match FS.resolve fs FS.resolveFuel (FS.targetPath d t) with | some q => [q] | none => [])
    | _ => [d]
  | _ => []

theorem copyTo_files (fs : FS) (d : Path) (data : Bytes) (q : Path) (b : Bytes)
    (hq : (copyTo fs d data).1.get q = some (.file b)) :
    fs.get q = some (.file b) ∨ q ∈ Call.fileTargets fs (.copyFile [] d) := by
  have key : ∀ (fs : FS) (p : Path) (n : Node), (fs.put p n).get q = some (.file b) →
      fs.get q = some (.file b) ∨ q = p := by
    intro fs p n hp
    rw [FS.get_put] at hp
    split at hp
    · right; assumption
    · left; exact hp
  unfold copyTo at hq
  split at hq <;> (try exact Or.inl hq)
  split at hq <;> (try exact Or.inl hq)
  · rename_i t hl
    split at hq <;> (try exact Or.inl hq)
    rename_i q' hres
    rcases key _ _ _ hq with h | h
    · exact Or.inl h
    · right; simp [Call.fileTargets, hl, hres, h]
  · rename_i hnd hnl
    rcases key _ _ _ hq with h | h
    · exact Or.inl h
    · right
      subst h
      simp only [Call.fileTargets]
      first
        | simp
        | (split
           · rename_i t hl; exact absurd hl (hnl t)
           · simp)

/-- Every regular file present after a (successful or failed) call was there before with the same
bytes, unless it sits at one of the call's file targets. -/
theorem step_files (env : Env) (fs fs' : FS) (c : Call) (r : Ret) (h : Prog.Step env fs c fs' r)
    (q : Path) (b : Bytes) (hq : fs'.get q = some (.file b)) :
    fs.get q = some (.file b) ∨ q ∈ c.fileTargets fs := by
  have key : ∀ (fs : FS) (p : Path) (n : Node), (fs.put p n).get q = some (.file b) →
      fs.get q = some (.file b) ∨ q = p := by
    intro fs p n hp
    rw [FS.get_put] at hp
    split at hp
    · right; assumption
    · left; exact hp
  cases h with
  | fail e short =>
    cases c <;> simp only [execFail, exec] at hq <;> (try exact Or.inl hq)
    case removeTree p =>
      split at hq <;> (try exact Or.inl hq)
      rcases FS.delAll_get fs _ q with h | h
      · rw [h] at hq; cases hq
      · left; rw [← h]; exact hq
    all_goals (split at hq <;> (try exact Or.inl hq))
    all_goals (
      rcases key _ _ _ hq with h | h
      · exact Or.inl h
      · right; simp [Call.fileTargets, h])
  | ok =>
    cases c <;> simp only [exec] at hq
    case mkdirP p =>
      split at hq
      · rename_i fs1 hm
        rcases FS.mkdirLevels_get _ _ _ _ hm q with h | ⟨_, h⟩
        · left; rw [← h]; exact hq
        · rw [h] at hq; cases hq
      · exact Or.inl hq
    case mkTemp dir =>
      split at hq
      · rcases key _ _ _ hq with h | h
        · exact Or.inl h
        · right; simp [Call.fileTargets, h]
      · exact Or.inl hq
    case fallocate p n =>
      split at hq <;> (try exact Or.inl hq)
      split at hq <;> (try exact Or.inl hq)
      split at hq <;> (try exact Or.inl hq)
      rcases key _ _ _ hq with h | h
      · exact Or.inl h
      · right; simp [Call.fileTargets, h]
    case writeAt p off d =>
      split at hq <;> (try exact Or.inl hq)
      rcases key _ _ _ hq with h | h
      · exact Or.inl h
      · right; simp [Call.fileTargets, h]
    case truncate p n =>
      split at hq <;> (try exact Or.inl hq)
      rcases key _ _ _ hq with h | h
      · exact Or.inl h
      · right; simp [Call.fileTargets, h]
    case rename s d =>
      split at hq <;> (try exact Or.inl hq)
      split at hq <;> (try exact Or.inl hq)
      split at hq <;> (try exact Or.inl hq)
      rcases key _ _ _ hq with h | h
      · left
        rw [FS.get_del] at h
        split at h
        · cases h
        · exact h
      · right; simp [Call.fileTargets, h]
    case renameLink s d =>
      split at hq <;> (try exact Or.inl hq)
      split at hq <;> (try exact Or.inl hq)
      split at hq <;> (try exact Or.inl hq)
      rcases key _ _ _ hq with h | h
      · left
        rw [FS.get_del] at h
        split at h
        · cases h
        · exact h
      · subst h; simp at hq
    case openAppend p =>
      split at hq <;> (try exact Or.inl hq)
      split at hq <;> (try exact Or.inl hq)
      rcases key _ _ _ hq with h | h
      · exact Or.inl h
      · right; simp [Call.fileTargets, h]
    case appendWrite p d =>
      split at hq <;> (try exact Or.inl hq)
      rcases key _ _ _ hq with h | h
      · exact Or.inl h
      · right; simp [Call.fileTargets, h]
    case readFile p => split at hq <;> exact Or.inl hq
    case existsF p => exact Or.inl hq
    case sizeOf p => split at hq <;> exact Or.inl hq
    case unlink p =>
      split at hq <;> (try exact Or.inl hq)
      all_goals (
        rw [FS.get_del] at hq
        split at hq
        · cases hq
        · exact Or.inl hq)
    case hardLink s d =>
      split at hq <;> (try exact Or.inl hq)
      all_goals (split at hq <;> (try exact Or.inl hq))
      all_goals (split at hq <;> (try exact Or.inl hq))
      all_goals (try (split at hq <;> (try exact Or.inl hq)))
      all_goals (
        rcases key _ _ _ hq with h | h
        · exact Or.inl h
        · right; simp [Call.fileTargets, h])
    case symlink t p =>
      split at hq <;> (try exact Or.inl hq)
      split at hq <;> (try exact Or.inl hq)
      rcases key _ _ _ hq with h | h
      · exact Or.inl h
      · subst h; simp at hq
    case copyFile s d =>
      split at hq <;> (try exact Or.inl hq)
      exact copyTo_files fs d _ q b hq
    case reflink s d =>
      split at hq <;> (try exact Or.inl hq)
      split at hq <;> (try exact Or.inl hq)
      split at hq <;> (try exact Or.inl hq)
      split at hq <;> (try exact Or.inl hq)
      rcases key _ _ _ hq with h | h
      · exact Or.inl h
      · right; simp [Call.fileTargets, h]
    case walk p =>
      split at hq <;> (try exact Or.inl hq)
      split at hq <;> exact Or.inl hq
    case readDir p => split at hq <;> exact Or.inl hq
    case removeTree p =>
      split at hq <;> (try exact Or.inl hq)
      · rcases FS.delAll_get fs _ q with h | h
        · rw [h] at hq; cases hq
        · left; rw [← h]; exact hq
      · rw [FS.get_del] at hq
        split at hq
        · cases hq
        · exact Or.inl hq
    case now => exact Or.inl hq
    case isLink p => split at hq <;> exact Or.inl hq
    case sameFile p t => split at hq <;> exact Or.inl hq
    case mkTempLink dir t =>
      split at hq
      · rcases key _ _ _ hq with h | h
        · exact Or.inl h
        · subst h; simp at hq
      · exact Or.inl hq

/-- The same for the state a kill in the middle of the call leaves behind. -/
theorem torn_files (env : Env) (fs : FS) (t : Nat) (c : Call) (q : Path) (b : Bytes)
    (hq : (execTorn env fs t c).get q = some (.file b)) :
    fs.get q = some (.file b) ∨ q ∈ c.fileTargets fs := by
  cases c <;> simp only [execTorn] at hq <;> (try exact Or.inl hq)
  case writeAt p off d => exact step_files env fs _ (.writeAt p off (d.take t)) _ .ok q b hq
  case appendWrite p d => exact step_files env fs _ (.appendWrite p (d.take t)) _ .ok q b hq
  case mkdirP p =>
    split at hq
    · rename_i fs1 hm
      rcases FS.mkdirLevels_get _ _ _ _ hm q with h | ⟨_, h⟩
      · left; rw [← h]; exact hq
      · rw [h] at hq; cases hq
    · exact Or.inl hq
  case copyFile s d =>
    split at hq <;> (try exact Or.inl hq)
    exact copyTo_files fs d _ q b hq
  case removeTree p =>
    split at hq <;> (try exact Or.inl hq)
    rcases FS.delAll_get fs _ q with h | h
    · rw [h] at hq; cases hq
    · left; rw [← h]; exact hq

/-! ### inversion lemmas: what a step of a given call can produce -/

open Prog in
theorem step_mkTemp {env : Env} {fs fs' : FS} {dir : Path} {r : Ret}
    (h : Step env fs (.mkTemp dir) fs' r) :
    (∃ e, r = .err e) ∨
      (r = .path (dir ++ [tmpName fs.next]) ∧ fs'.get (dir ++ [tmpName fs.next]) = some (.file [])) := by
  cases h with
  | fail e short => exact Or.inl ⟨e, rfl⟩
  | ok =>
    simp only [exec]
    split
    · right; exact ⟨rfl, by simp [FS.put]⟩
    · left; exact ⟨_, rfl⟩

open Prog in
theorem step_fallocate {env : Env} {fs fs' : FS} {p : Path} {n : Nat} {r : Ret} {f : Bytes}
    (hf : fs.get p = some (.file f)) (hn : 0 < n) (h : Step env fs (.fallocate p n) fs' r) :
    (∃ e, r = .err e) ∨
      (r = .unit ∧ fs'.get p = some (.file (if f.length < n then f ++ zeros (n - f.length) else f))) := by
  cases h with
  | fail e short => exact Or.inl ⟨e, rfl⟩
  | ok =>
    right
    simp only [exec, hf]
    have : n ≠ 0 := by omega
    simp only [this, if_false]
    split
    · exact ⟨rfl, by simp⟩
    · exact ⟨rfl, hf⟩

open Prog in
theorem step_writeAt {env : Env} {fs fs' : FS} {p : Path} {off : Nat} {d : Bytes} {r : Ret} {f : Bytes}
    (hf : fs.get p = some (.file f)) (h : Step env fs (.writeAt p off d) fs' r) :
    (∃ e, r = .err e) ∨ (r = .nat d.length ∧ fs'.get p = some (.file (spliceAt f off d))) := by
  cases h with
  | fail e short => exact Or.inl ⟨e, rfl⟩
  | ok => right; simp [exec, hf]

open Prog in
theorem step_truncate {env : Env} {fs fs' : FS} {p : Path} {n : Nat} {r : Ret} {f : Bytes}
    (hf : fs.get p = some (.file f)) (h : Step env fs (.truncate p n) fs' r) :
    (∃ e, r = .err e) ∨ (r = .unit ∧ fs'.get p = some (.file (f.take n))) := by
  cases h with
  | fail e short => exact Or.inl ⟨e, rfl⟩
  | ok => right; simp [exec, hf]

open Prog in
/-- `create_dir_all` never disturbs an existing node. -/
theorem step_mkdirP_keeps {env : Env} {fs fs' : FS} {p q : Path} {r : Ret} {x : Node}
    (hx : fs.get q = some x) (h : Step env fs (.mkdirP p) fs' r) : fs'.get q = some x := by
  cases h with
  | fail e short => exact hx
  | ok =>
    simp only [exec]
    split
    · rename_i fs1 hm
      rcases FS.mkdirLevels_get _ _ _ _ hm q with h | ⟨h, _⟩
      · rw [h]; exact hx
      · rw [hx] at h; cases h
    · exact hx

open Prog in
theorem step_rename {env : Env} {fs fs' : FS} {src dst : Path} {r : Ret} {f : Bytes}
    (hf : fs.get src = some (.file f)) (h : Step env fs (.rename src dst) fs' r) :
    ((∃ e, r = .err e) ∧ fs' = fs) ∨ (r = .unit ∧ fs' = (fs.del src).put dst (.file f)) := by
  cases h with
  | fail e short => exact Or.inl ⟨⟨e, rfl⟩, rfl⟩
  | ok =>
    simp only [exec, hf]
    split
    · exact Or.inl ⟨⟨_, rfl⟩, rfl⟩
    · split
      · exact Or.inl ⟨⟨_, rfl⟩, rfl⟩
      · exact Or.inr ⟨rfl, rfl⟩

end Cacache

namespace Cacache

/-- The paths whose node a call may change in any way (create, modify, delete). -/
def Call.touches (fs : FS) (c : Call) (q : Path) : Prop :=
  match c with
  | .mkdirP p => q <+: p
  | .mkTemp dir | .mkTempLink dir _ => q = dir ++ [tmpName fs.next]
  | .fallocate p _ | .writeAt p _ _ | .truncate p _ | .openAppend p | .appendWrite p _
  | .unlink p => q = p
  | .rename s d | .renameLink s d => q = s ∨ q = d
  | .hardLink _ d | .symlink _ d | .reflink _ d => q = d
  | .copyFile s d => q ∈ Call.fileTargets fs (.copyFile s d)
  | .removeTree p => p <+: q
  | _ => False

theorem FS.mkdirLevels_frame (fs fs' : FS) (ps : List Path) (n : Nat)
    (h : mkdirLevels fs ps n = .ok fs') (q : Path) (hq : q ∉ ps) : fs'.get q = fs.get q := by
  induction ps generalizing fs n with
  | nil => simp [mkdirLevels] at h; subst h; rfl
  | cons p ps ih =>
    have hqp : q ≠ p := fun e => hq (by simp [e])
    have hqps : q ∉ ps := fun m => hq (by simp [m])
    cases n with
    | zero => simp [mkdirLevels] at h; subst h; rfl
    | succ n =>
      simp only [mkdirLevels] at h
      split at h
      · rw [ih _ _ h hqps, FS.get_put_ne _ _ hqp]
      · exact ih _ _ h hqps
      · exact ih _ _ h hqps
      · cases h

theorem FS.mem_prefixes {p q : Path} (h : q ∈ FS.prefixes p) : q <+: p := by
  unfold FS.prefixes at h
  obtain ⟨i, _, rfl⟩ := List.mem_map.mp h
  exact List.take_prefix _ _

theorem FS.delAll_frame (fs : FS) (ps : List Path) (q : Path) (hq : q ∉ ps) :
    (fs.delAll ps).get q = fs.get q := by
  unfold FS.delAll
  induction ps generalizing fs with
  | nil => rfl
  | cons p ps ih =>
    simp only [List.foldl_cons]
    rw [ih _ (fun m => hq (by simp [m])), FS.get_del_ne _ (fun e => hq (by simp [e]))]

open Prog in
/-- **Frame**: a call (successful, failed or torn) leaves every path it does not touch alone. -/
theorem step_frame (env : Env) (fs fs' : FS) (c : Call) (r : Ret) (h : Step env fs c fs' r)
    (q : Path) (hq : ¬ c.touches fs q) : fs'.get q = fs.get q := by
  cases h with
  | fail e short =>
    cases c <;> simp only [execFail, exec] <;> (try rfl)
    case removeTree p =>
      simp only [Call.touches] at hq
      split <;> (try rfl)
      apply FS.delAll_frame
      intro m
      exact hq (FS.below_prefix fs p q (List.mem_filter.mp (mem_maskSel m)).1)
    all_goals (split <;> (try rfl))
    all_goals (simp only [Call.touches] at hq; exact FS.get_put_ne _ _ hq)
  | ok =>
    cases c <;> simp only [Call.touches] at hq <;> simp only [exec]
    case mkdirP p =>
      split
      · rename_i fs1 hm
        exact FS.mkdirLevels_frame _ _ _ _ hm q (fun m => hq (FS.mem_prefixes m))
      · rfl
    case mkTemp dir => split <;> first | rfl | exact FS.get_put_ne _ _ hq
    case fallocate p n =>
      split <;> (try rfl)
      split <;> (try rfl)
      split <;> first | rfl | exact FS.get_put_ne _ _ hq
    case writeAt p off d => split <;> first | rfl | exact FS.get_put_ne _ _ hq
    case truncate p n => split <;> first | rfl | exact FS.get_put_ne _ _ hq
    case rename s d =>
      split <;> (try rfl)
      split <;> (try rfl)
      split <;> (try rfl)
      rw [FS.get_put_ne _ _ (fun e => hq (Or.inr e)), FS.get_del_ne _ (fun e => hq (Or.inl e))]
    case renameLink s d =>
      split <;> (try rfl)
      split <;> (try rfl)
      split <;> (try rfl)
      rw [FS.get_put_ne _ _ (fun e => hq (Or.inr e)), FS.get_del_ne _ (fun e => hq (Or.inl e))]
    case openAppend p =>
      split <;> (try rfl)
      split <;> first | rfl | exact FS.get_put_ne _ _ hq
    case appendWrite p d => split <;> first | rfl | exact FS.get_put_ne _ _ hq
    case readFile p => split <;> rfl
    case sizeOf p => split <;> rfl
    case unlink p => split <;> (try rfl) <;> exact FS.get_del_ne _ hq
    case hardLink s d =>
      split <;> (try rfl)
      all_goals (split <;> (try rfl))
      all_goals (split <;> (try rfl))
      all_goals (try (split <;> (try rfl)))
      all_goals exact FS.get_put_ne _ _ hq
    case symlink t p =>
      split <;> (try rfl)
      split <;> first | rfl | exact FS.get_put_ne _ _ hq
    case copyFile s d =>
      split <;> (try rfl)
      unfold copyTo
      split <;> (try rfl)
      split <;> (try rfl)
      · rename_i t hl
        split <;> (try rfl)
        rename_i q' hres
        apply FS.get_put_ne
        intro e; apply hq; simp [Call.fileTargets, hl, hres, e]
      · rename_i hnd hnl
        apply FS.get_put_ne
        intro e; apply hq
        subst e
        simp only [Call.fileTargets]
        first
          | simp
          | (split
             · rename_i t hl; exact absurd hl (hnl t)
             · simp)
    case reflink s d =>
      split <;> (try rfl)
      split <;> (try rfl)
      split <;> (try rfl)
      split <;> first | rfl | exact FS.get_put_ne _ _ hq
    case walk p =>
      split <;> (try rfl)
      split <;> rfl
    case readDir p => split <;> rfl
    case removeTree p =>
      split <;> (try rfl)
      · apply FS.delAll_frame
        intro m
        rcases List.mem_cons.mp m with e | m'
        · exact hq (e ▸ List.prefix_refl _)
        · exact hq (FS.below_prefix fs p q m')
      · exact FS.get_del_ne _ (fun e => hq (e ▸ List.prefix_refl _))
    case isLink p => split <;> rfl
    case sameFile p t => split <;> rfl
    case mkTempLink dir t => split <;> first | rfl | exact FS.get_put_ne _ _ hq

end Cacache

namespace Cacache

/-- Frame for torn states. -/
theorem torn_frame (env : Env) (fs : FS) (t : Nat) (c : Call) (q : Path)
    (hq : ¬ c.touches fs q) : (execTorn env fs t c).get q = fs.get q := by
  cases c <;> simp only [execTorn] <;> (try rfl)
  case writeAt p off d =>
    exact step_frame env fs _ (.writeAt p off (d.take t)) _ .ok q (by simpa [Call.touches] using hq)
  case appendWrite p d =>
    exact step_frame env fs _ (.appendWrite p (d.take t)) _ .ok q (by simpa [Call.touches] using hq)
  case mkdirP p =>
    simp only [Call.touches] at hq
    split
    · rename_i fs1 hm
      exact FS.mkdirLevels_frame _ _ _ _ hm q (fun m => hq (FS.mem_prefixes m))
    · rfl
  case copyFile s d =>
    simp only [Call.touches] at hq
    split <;> (try rfl)
    unfold copyTo
    split <;> (try rfl)
    split <;> (try rfl)
    · rename_i tt hl
      split <;> (try rfl)
      rename_i q' hres
      apply FS.get_put_ne
      intro e; apply hq; simp [Call.fileTargets, hl, hres, e]
    · rename_i hnd hnl
      apply FS.get_put_ne
      intro e; apply hq
      subst e
      simp only [Call.fileTargets]
      first
        | simp
        | (split
           · rename_i tt hl; exact absurd hl (hnl tt)
           · simp)
  case removeTree p =>
    simp only [Call.touches] at hq
    split <;> (try rfl)
    apply FS.delAll_frame
    intro m
    have := List.mem_of_mem_take m
    rw [List.mem_reverse] at this
    exact hq (Prog.FS.below_prefix fs p q this)

end Cacache

namespace Cacache
open Prog

/-- The call cannot change the node at `q`, in any state. -/
def Call.avoids (q : Path) (c : Call) : Prop := ∀ fs, ¬ c.touches fs q

/-- A program none of whose possible calls touches `q` leaves `q` alone: in the healthy run, … -/
theorem AllCalls.frame_run {α : Type} {Ok : α → Prop} {p : Prog α} {q : Path}
    (hp : AllCallsR (Call.avoids q) Ok p) (env : Env) (fs : FS) :
    (run env p fs).2.1.get q = fs.get q := by
  induction p generalizing fs with
  | done a => rfl
  | sys c k ih =>
    simp only [run]
    rw [ih _ (hp.2 _ (answer_exec env fs c)), step_frame env fs _ c _ .ok q (hp.1 fs)]

/-- … at every kill point, … -/
theorem AllCalls.frame_crash {α : Type} {Ok : α → Prop} {p : Prog α} {q : Path}
    (hp : AllCallsR (Call.avoids q) Ok p) (env : Env) (fs : FS) (n t : Nat) :
    (crash env p fs n t).get q = fs.get q := by
  induction p generalizing fs n with
  | done a => rfl
  | sys c k ih =>
    cases n with
    | zero => exact torn_frame env fs t c q (hp.1 fs)
    | succ n =>
      simp only [crash]
      rw [ih _ (hp.2 _ (answer_exec env fs c)), step_frame env fs _ c _ .ok q (hp.1 fs)]

/-- … and under every fault plan. -/
theorem AllCalls.frame_fault {α : Type} {Ok : α → Prop} {p : Prog α} {q : Path}
    (hp : AllCallsR (Call.avoids q) Ok p) (env : Env) (plan : Nat → Option Fault) (fs : FS) (i : Nat) :
    (runFault env plan p fs i).2.1.get q = fs.get q := by
  induction p generalizing fs i with
  | done a => rfl
  | sys c k ih =>
    simp only [runFault]
    split
    · rename_i f _
      rw [ih _ (hp.2 _ (answer_err _ _)), step_frame env fs _ c _ (.fail f.e f.short) q (hp.1 fs)]
    · rw [ih _ (hp.2 _ (answer_exec env fs c)), step_frame env fs _ c _ .ok q (hp.1 fs)]

/-- … stated in the demonic calculus: whatever holds of the node at `q` keeps holding, at every
kill point and for every outcome of every call. -/
theorem AllCalls.wpD_frame {α : Type} {Ok : α → Prop} {p : Prog α} {q : Path}
    (hp : AllCallsR (Call.avoids q) Ok p) (env : Env) (fs : FS) (x : Option Node)
    (hx : fs.get q = x) :
    wpD env (fun s => s.get q = x) (fun _ s => s.get q = x) p fs := by
  induction p generalizing fs with
  | done a => exact ⟨hx, hx⟩
  | sys c k ih =>
    refine ⟨hx, fun t => (torn_frame env fs t c q (hp.1 fs)).trans hx, ?_⟩
    intro fs' r hs
    have ha : Answer c r := by
      cases hs with
      | ok => exact answer_exec env fs c
      | fail e short => exact answer_err c e
    exact ih r (hp.2 r ha) fs' ((step_frame env fs fs' c r hs q (hp.1 fs)).trans hx)

/-- Killing a sequential composition: the cut falls into the first part or into the second. -/
theorem crash_bind {α β : Type} (env : Env) (p : Prog α) (f : α → Prog β) (fs : FS) (n t : Nat) :
    crash env (Prog.bind p f) fs n t =
      if n < (run env p fs).2.2.length then crash env p fs n t
      else crash env (f (run env p fs).1) (run env p fs).2.1 (n - (run env p fs).2.2.length) t := by
  induction p generalizing fs n with
  | done a => simp [run]
  | sys c k ih =>
    cases n with
    | zero => simp [run, crash]
    | succ n =>
      simp only [bind_sys, crash, run, List.length_cons]
      rw [ih]
      simp only [Nat.add_lt_add_iff_right, Nat.add_sub_add_right]

end Cacache
