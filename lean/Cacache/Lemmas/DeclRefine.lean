/-
Total correctness of writes WITH A DECLARED INTEGRITY (`WriteOpts::integrity(sri)`), in the healthy
semantics `Prog.run`, for the real model programs of `Ops.lean`.

`CacheRefine.run_putKeyed` proves that a keyed streamed write refines one step of the abstract
cache (`putSpec`), but only for options without a declared integrity (`PutWF.nosri`).  This file
lifts the restriction.

What a declared integrity `s` changes in `commit`:
* the check `Sri.declaredOk s wsri` (`wsri` = the computed integrity) — the FIRST hash of `s` must
  have the writer's algorithm and `Integrity::matches` must hold; on failure the answer is
  `.error .integrity`, AFTER the content has been published by address;
* on success it is the DECLARED integrity `s`, not the computed one, that goes into the index
  record.  The record holds the TEXT `Sri.print s`; a lookup re-parses it.  Hence the one new
  obligation: the recorded integrity has to survive `print` → `parse` (`SriRT`).  It is needed
  exactly for the statement "the abstract index maps the key to the entry carrying `s`" of an
  ACCEPTED write; the answer, `Healthy`, `TmpClean`, the store and all other keys never need it
  (`run_putKeyed_gen`).  `SriRT` is not implied by `OptsWF` (whose `sri` field, `Sri.WF`, only says
  that digests are UTF-8 — that is what makes the record encodable, i.e. what `Healthy` needs): an
  `Integrity` built by hand with unsorted hashes, or a digest containing white space or `-`, prints
  to text that parses to a DIFFERENT value (or to nothing — then the record classifies `bad` and
  the lookup skips it).  `Canon` is a checkable sufficient condition (`parse_print_canon`): hashes
  sorted by algorithm rank, digests free of white space and `-` — true of everything `ssri` parses
  or computes.

Main results
* `run_putKeyed'` — the four conclusions of `run_putKeyed` for EVERY `o.sri`, under `PutWF'`.
* `run_putKeyed_gen` — the same split by what each conclusion needs.
* `declared_mismatch_total`, `declared_match_total`, `declared_match_readable` — keyed corollaries.
* `declared_putHash_mismatch`, `declared_putHash_match` — the by-address writer.
-/
import Cacache.Lemmas.CacheRefine
import Cacache.Props.C08

namespace Cacache.DeclRefine
open Prog Json Refine CacheRefine

variable (cfg : Cfg) (cache : Path)

/-! ### integrity values that survive their text form -/

/-- The integrity survives `to_string` → `from_str`: what an index record (which stores the text)
gives back on lookup is the value itself. -/
def SriRT (s : Integrity) : Prop := Sri.parse (Sri.print s) = some s

theorem sriRT_compute (H : Algo → Bytes → Bytes) (a : Algo) (data : Bytes) :
    SriRT (Sri.compute H a data) := Sri.parse_print_compute H a data

/-- A checkable sufficient condition for `SriRT`: digests contain neither white space nor `-`
(`Hash::from_str` cuts at both), and the hashes are in the order `Integrity::from_str` puts them
in (stable sort by algorithm rank). -/
structure Canon (s : Integrity) : Prop where
  plain : ∀ h ∈ s, ∀ c ∈ h.digest, Sri.Plain c
  sorted : Sri.sort s = s

theorem splitOn_sep_cons (sep : UInt8 → Bool) (x : UInt8) (hx : sep x = true) (rest : Bytes) :
    Bytes.splitOn sep (x :: rest) = [] :: Bytes.splitOn sep rest := by
  unfold Bytes.splitOn
  simp only [List.foldr_cons, hx, if_true]

theorem splitOn_ne_nil (sep : UInt8 → Bool) (b : Bytes) : Bytes.splitOn sep b ≠ [] := by
  unfold Bytes.splitOn
  induction b with
  | nil => simp
  | cons c cs ih =>
    simp only [List.foldr_cons]
    split
    · simp
    · split <;> simp

/-- Splitting `a ++ x :: rest` where `a` has no separator and `x` is one. -/
theorem splitOn_piece (sep : UInt8 → Bool) (a : Bytes) (x : UInt8) (rest : Bytes)
    (hx : sep x = true) (ha : ∀ c ∈ a, sep c = false) :
    Bytes.splitOn sep (a ++ x :: rest) = a :: Bytes.splitOn sep rest := by
  induction a with
  | nil => exact splitOn_sep_cons sep x hx rest
  | cons c cs ih =>
    have hc : sep c = false := ha c (by simp)
    have := ih (fun y hy => ha y (by simp [hy]))
    unfold Bytes.splitOn at this ⊢
    simp only [List.cons_append, List.foldr_cons, hc, Bool.false_eq_true, if_false, this]

theorem printHash_noWs (h : Hash) (hp : ∀ c ∈ h.digest, Sri.Plain c) :
    ∀ c ∈ Sri.printHash h, Sri.isWs c = false := by
  intro c hc
  unfold Sri.printHash at hc
  rcases List.mem_append.mp hc with h1 | h1
  · exact (Sri.name_plain h.algo c h1).1
  · rcases List.mem_cons.mp h1 with rfl | h1
    · decide
    · exact (hp c h1).1

theorem printHash_isEmpty (h : Hash) : (Sri.printHash h).isEmpty = false := by
  unfold Sri.printHash
  cases h.algo <;> rfl

theorem parseHash_printHash (h : Hash) (hp : ∀ c ∈ h.digest, Sri.Plain c) :
    Sri.parseHash (Sri.printHash h) = some h := by
  unfold Sri.parseHash Sri.splitDash Sri.printHash
  rw [Sri.splitOn_one (fun c => c == 45) h.algo.name h.digest 45 (by decide)
    (fun c hc => by simpa using (Sri.name_plain h.algo c hc).2)
    (fun c hc => by simpa using (hp c hc).2)]
  simp only [Sri.ofName_name, Option.map_some]

theorem splitWs_print : ∀ (s : Integrity), (∀ h ∈ s, ∀ c ∈ h.digest, Sri.Plain c) →
    Sri.splitWs (Sri.print s) = s.map Sri.printHash
  | [], _ => by decide
  | [h], hp => by
    unfold Sri.splitWs
    have : Sri.print [h] = Sri.printHash h := rfl
    rw [this, Sri.splitOn_none Sri.isWs _ (printHash_noWs h (hp h (by simp)))]
    simp only [List.filter_cons, printHash_isEmpty, Bool.not_false, if_true, List.filter_nil,
      List.map_cons, List.map_nil]
  | h :: h2 :: rest, hp => by
    have ih := splitWs_print (h2 :: rest) (fun x hx => hp x (List.mem_cons_of_mem _ hx))
    unfold Sri.splitWs at ih ⊢
    have : Sri.print (h :: h2 :: rest) = Sri.printHash h ++ 32 :: Sri.print (h2 :: rest) := rfl
    rw [this, splitOn_piece Sri.isWs _ 32 _ (by decide) (printHash_noWs h (hp h (by simp)))]
    simp only [List.filter_cons, printHash_isEmpty, Bool.not_false, if_true]
    rw [ih]
    rfl

theorem allSome_map_some {α : Type} (l : List α) : Sri.allSome (l.map some) = some l := by
  induction l with
  | nil => rfl
  | cons a l ih => simp only [List.map_cons, Sri.allSome, ih, Option.map_some]

/-- **A canonical integrity survives its text form.** -/
theorem parse_print_canon {s : Integrity} (h : Canon s) : SriRT s := by
  unfold SriRT Sri.parse
  rw [splitWs_print s h.plain, List.map_map]
  have hm : s.map (Sri.parseHash ∘ Sri.printHash) = s.map some :=
    List.map_congr_left (fun x hx => parseHash_printHash x (h.plain x hx))
  rw [hm, allSome_map_some, Option.map_some, h.sorted]

/-! ### one index insertion, for any integrity -/

/-- A record of another key leaves the lookup accumulator alone — whatever its integrity. -/
theorem findStep_mkRec_other (key : Bytes) (o : WriteOpts) (tm : Nat) (k : Bytes) (hk : k ≠ key)
    (acc : Option Meta) : (codec cfg).findStep k acc (mkRec key o tm) = acc := by
  have hkey : (codec cfg).key (mkRec key o tm) = key := rfl
  unfold Codec.findStep
  rw [hkey, if_neg (fun x => hk x.symm)]

/-- A record of the key itself whose integrity survives its text form classifies `live` with that
integrity (a record without integrity is a tombstone). -/
theorem findStep_mkRec_same (key : Bytes) (o : WriteOpts) (tm : Nat)
    (hs : ∀ s, o.sri = some s → SriRT s) (acc : Option Meta) :
    (codec cfg).findStep key acc (mkRec key o tm) =
      o.sri.map (fun s => { key := key, sri := s, time := tm, size := o.size.getD 0, metadata := o.metadata.getD .null, raw := o.raw }) := by
  have hkey : (codec cfg).key (mkRec key o tm) = key := rfl
  unfold Codec.findStep
  rw [hkey, if_pos rfl]
  cases hn : o.sri with
  | none => simp [codec, Rec.codec, Rec.cls, mkRec, hn]
  | some s =>
    have h1 : Sri.parse (Sri.print s) = some s := hs s hn
    simp [codec, Rec.codec, Rec.cls, mkRec, hn, h1]

/-- **One insertion, any integrity** (`Refine.insert_refines` without `SriOK`): with options as
Rust's types allow them the index stays healthy and every OTHER key (also one sharing the bucket)
keeps its value; if moreover the integrity survives its text form, the key maps to the new entry. -/
theorem insert_refines_gen (env : Env) (key : Bytes) (o : WriteOpts) (fs : FS)
    (h : HealthyIndex cfg cache fs) (hw : OptsWF key o) :
    HealthyIndex cfg cache (run env (insert cfg cache key o) fs).2.1 ∧
    (∀ k, k ≠ key → absIndex cfg cache (run env (insert cfg cache key o) fs).2.1 k = absIndex cfg cache fs k) ∧
    ((∀ s, o.sri = some s → SriRT s) →
      absIndex cfg cache (run env (insert cfg cache key o) fs).2.1 key = insEntry env key o) := by
  obtain ⟨-, hbk, hoth⟩ := run_insert cfg cache env key o fs h
  have hwf : (mkRec key o (stamp env o)).WF := mkRec_wf key o _ hw (stamp_le env o hw.time)
  have hother : ∀ k, bucketPath cfg cache k ≠ bucketPath cfg cache key →
      (run env (insert cfg cache key o) fs).2.1.get (bucketPath cfg cache k) =
        fs.get (bucketPath cfg cache k) := by
    intro k e
    rcases hoth _ e with h1 | ⟨_, _, h3⟩
    · exact h1
    · exact absurd h3 (Refine.bucket_not_prefix_parent cfg cache key k)
  have hH : HealthyIndex cfg cache (run env (insert cfg cache key o) fs).2.1 := by
    constructor
    · intro k q hq hpre
      have hne : q ≠ bucketPath cfg cache key := by
        intro e; subst e; exact Refine.bucket_not_prefix_parent cfg cache k key hpre
      rcases hoth q hne with h1 | ⟨_, h2, _⟩
      · unfold NoneOrDir; rw [h1]; exact h.dirs k q hq hpre
      · exact Or.inr h2
    · intro k
      by_cases e : bucketPath cfg cache k = bucketPath cfg cache key
      · rw [e]
        exact Or.inr ⟨_, hbk, (codec_laws cfg).settled_frame _ _ hwf⟩
      · rw [hother k e]; exact h.buckets k
  have hsame : ∀ k, bucketPath cfg cache k = bucketPath cfg cache key →
      absIndex cfg cache (run env (insert cfg cache key o) fs).2.1 k =
        (codec cfg).findStep k (absIndex cfg cache fs k) (mkRec key o (stamp env o)) := by
    intro k e
    have h1 : absIndex cfg cache (run env (insert cfg cache key o) fs).2.1 k =
        (codec cfg).find (bytesAt fs (bucketPath cfg cache key) ++
          (codec cfg).frame (mkRec key o (stamp env o))) k := by
      unfold absIndex; rw [e, hbk]
    have h2 : absIndex cfg cache fs k = (codec cfg).find (bytesAt fs (bucketPath cfg cache key)) k := by
      rw [absIndex_eq_find cfg cache h k, e]
    rw [h1, find_append_frame cfg _ (h.settled key) _ hwf, ← h2]
  refine ⟨hH, ?_, ?_⟩
  · intro k hk
    by_cases e : bucketPath cfg cache k = bucketPath cfg cache key
    · rw [hsame k e, findStep_mkRec_other cfg key o _ k hk]
    · unfold absIndex
      rw [hother k e]
  · intro hs
    rw [hsame key rfl, findStep_mkRec_same cfg key o _ hs]
    rfl

/-! ### the declaration checks -/

/-- What an accepting check records: the declared integrity, or the computed one if none. -/
theorem declCheck_recorded {o : WriteOpts} {n : Nat} {wsri r : Integrity}
    (h : declCheck o n wsri = .ok r) : r = o.sri.getD wsri := by
  unfold declCheck at h
  split at h
  · rename_i s hs
    rw [hs]
    split at h
    · cases h
    · split at h
      · split at h
        · cases h
        · cases h; rfl
      · cases h; rfl
  · rename_i hs
    rw [hs]
    split at h
    · split at h
      · cases h
      · cases h; rfl
    · cases h; rfl

/-- A declaration the computed integrity does not satisfy: integrity error, before the size. -/
theorem declCheck_mismatch {o : WriteOpts} {s : Integrity} (n : Nat) {wsri : Integrity}
    (hs : o.sri = some s) (hm : Sri.declaredOk s wsri = none) :
    declCheck o n wsri = .error .integrity := by
  unfold declCheck
  rw [hs]
  simp only [hm, Option.isNone_none, if_true]

/-- A satisfied declaration and a right (or no) size declaration: the DECLARED integrity. -/
theorem declCheck_match {o : WriteOpts} {s : Integrity} {n : Nat} {wsri : Integrity}
    (hs : o.sri = some s) (hm : (Sri.declaredOk s wsri).isSome)
    (hz : o.size = none ∨ o.size = some n) : declCheck o n wsri = .ok s := by
  have : (Sri.declaredOk s wsri).isNone = false := by
    cases hx : Sri.declaredOk s wsri with
    | none => rw [hx] at hm; cases hm
    | some _ => rfl
  unfold declCheck
  rw [hs]
  simp only [this, Bool.false_eq_true, if_false]
  rcases hz with hz | hz <;> rw [hz] <;> simp

/-! ### the keyed write, any declared integrity -/

/-- What the caller of a keyed write has to respect: `CacheRefine.PutWF` WITHOUT `nosri`.
`opts` is as before and already covers a declared integrity as far as the record codec goes
(`OptsWF.sri`: digests are `String`s); `rt` is the one new obligation: a declared integrity
survives its text form (see the header; `parse_print_canon` for a checkable condition). -/
structure PutWF' (key : Bytes) (o : WriteOpts) (chunks : List Bytes) : Prop where
  opts : OptsWF key o
  len : chunks.flatten.length ≤ Rec.u64Max
  rt : ∀ s, o.sri = some s → SriRT s

/-- `PutWF` is the instance without a declared integrity. -/
theorem PutWF.toPutWF' {key : Bytes} {o : WriteOpts} {chunks : List Bytes} (h : PutWF key o chunks) :
    PutWF' key o chunks :=
  ⟨h.opts, h.len, fun s hs => by rw [h.nosri] at hs; cases hs⟩

/-- **Total correctness of a keyed streamed write on a healthy cache, any declared integrity —
each conclusion under what it needs.**  With options as Rust's types allow them (`OptsWF`) and a
byte count that fits `usize`:
* the answer is that of the abstract step (`declCheck`: integrity error, size error, or the
  recorded integrity = the declared one if there is one);
* the cache is healthy again and the temp file is gone;
* the store maps the address of the data to the data (also when the declarations fail);
* every other key keeps its index value;
* and IF the recorded integrity survives its text form — the minimal extra hypothesis, needed for
  nothing else — the whole abstract state is that of `putSpec`. -/
theorem run_putKeyed_gen (env : Env) (fl : Flavour) (key : Bytes) (o : WriteOpts) (chunks : List Bytes)
    (fs : FS) (h : Healthy cfg cache fs) (hl : HexLen cfg) (hw : OptsWF key o)
    (hlen : chunks.flatten.length ≤ Rec.u64Max) :
    (run env (writeStream cfg cache fl (some key) o chunks) fs).1 =
      (putSpec cfg env (absCache cfg cache fs) key o chunks).2 ∧
    Healthy cfg cache (run env (writeStream cfg cache fl (some key) o chunks) fs).2.1 ∧
    TmpClean cache fs (run env (writeStream cfg cache fl (some key) o chunks) fs).2.1 ∧
    absStore cache (run env (writeStream cfg cache fl (some key) o chunks) fs).2.1 =
      (putSpec cfg env (absCache cfg cache fs) key o chunks).1.store ∧
    (∀ k, k ≠ key → absIndex cfg cache (run env (writeStream cfg cache fl (some key) o chunks) fs).2.1 k =
      absIndex cfg cache fs k) ∧
    ((∀ r, declCheck o chunks.flatten.length (Sri.compute cfg.H (o.algo.getD .sha256) chunks.flatten) = .ok r →
        SriRT r) →
      absCache cfg cache (run env (writeStream cfg cache fl (some key) o chunks) fs).2.1 =
        (putSpec cfg env (absCache cfg cache fs) key o chunks).1) := by
  obtain ⟨w, fs3, e1, e2, hc, hk, ho, hwr, hp⟩ :=
    run_writeStream_phase cfg cache env fl (some key) o chunks fs h.store hl
  obtain ⟨hS3, hA3⟩ := putFrame_store cfg cache h.store hp
  obtain ⟨hI3, hB3⟩ := putFrame_index cfg cache h.index hp
  have hT3 := putFrame_tmp cfg cache hp
  rw [e1, e2]
  unfold commitTail putSpec
  rw [commitChecks_eq, ho, hwr]
  cases hck : declCheck o chunks.flatten.length (Sri.compute cfg.H (o.algo.getD .sha256) chunks.flatten) with
  | error e =>
    refine ⟨rfl, ⟨hI3, hS3⟩, hT3, ?_, ?_, ?_⟩
    · simp only [pure_eq, run_done_fs, absCache, hA3]
    · intro k _
      simp only [pure_eq, run_done_fs, hB3]
    · intro _
      simp only [pure_eq, run_done_fs, absCache, hA3, hB3]
  | ok recorded =>
    have hrec : recorded = o.sri.getD (Sri.compute cfg.H (o.algo.getD .sha256) chunks.flatten) :=
      declCheck_recorded hck
    have hrwf : Sri.WF recorded := by
      rw [hrec]
      cases hs : o.sri with
      | none => exact Sri.compute_wf _ _ _
      | some s => exact hw.sri s hs
    simp only [wcommitIndex, hk, hc, ho, hwr]
    have hsz : o.size.getD chunks.flatten.length ≤ Rec.u64Max := by
      cases hs : o.size with
      | none => exact hlen
      | some n => exact hw.size n hs
    have hwf : OptsWF key { o with sri := some recorded, size := some (o.size.getD chunks.flatten.length) } :=
      ⟨hw.key, hw.time, fun m hm => by cases hm; exact hsz, fun s hs => by cases hs; exact hrwf, hw.md⟩
    obtain ⟨hI4, hO4, hK4⟩ := insert_refines_gen cfg cache env key _ fs3 hI3 hwf
    obtain ⟨hS4, hB4⟩ := insert_store cfg cache env key { o with sri := some recorded, size := some (o.size.getD chunks.flatten.length) } fs3 hI3 hS3
    refine ⟨?_, ⟨hI4, hS4⟩, ?_, ?_, ?_, ?_⟩
    · rw [(run_insert cfg cache env key _ fs3 hI3).1]; rfl
    · have hfr := (run_insert cfg cache env key { o with sri := some recorded, size := some (o.size.getD chunks.flatten.length) } fs3 hI3).2.2
      have keep : ∀ n, (run env (insert cfg cache key { o with sri := some recorded, size := some (o.size.getD chunks.flatten.length) }) fs3).2.1.get ((cache ++ [dTmp]) ++ [n]) =
          fs3.get ((cache ++ [dTmp]) ++ [n]) := by
        intro n
        rcases hfr _ (bucket_ne_tmp cfg cache key n).symm with g | ⟨_, _, g⟩
        · exact g
        · exact absurd g (tmp_not_prefix_parent_bucket cfg cache n key)
      exact ⟨by rw [keep]; exact hT3.1, fun n hn => by rw [keep]; exact hT3.2 n hn⟩
    · simp only [hB4, hA3, absCache]
    · intro k hkne
      rw [hO4 k hkne, hB3]
    · intro hrt
      have hK := hK4 (fun s hs => by cases hs; exact hrt recorded rfl)
      simp only [absCache, hB4, hA3]
      congr 1
      funext k
      by_cases e : k = key
      · subst e; rw [hK, if_pos rfl]
      · rw [hO4 k e, hB3, if_neg e]

/-- **Total correctness of a keyed streamed write on a healthy cache, for EVERY `o.sri`**
(`write*`, `WriteOpts::open*` + `.integrity(s)` + any `write`s + `commit`): the four conclusions
of `CacheRefine.run_putKeyed`, under `PutWF'` instead of `PutWF`. -/
theorem run_putKeyed' (env : Env) (fl : Flavour) (key : Bytes) (o : WriteOpts) (chunks : List Bytes)
    (fs : FS) (h : Healthy cfg cache fs) (hl : HexLen cfg) (hw : PutWF' key o chunks) :
    (run env (writeStream cfg cache fl (some key) o chunks) fs).1 =
      (putSpec cfg env (absCache cfg cache fs) key o chunks).2 ∧
    absCache cfg cache (run env (writeStream cfg cache fl (some key) o chunks) fs).2.1 =
      (putSpec cfg env (absCache cfg cache fs) key o chunks).1 ∧
    Healthy cfg cache (run env (writeStream cfg cache fl (some key) o chunks) fs).2.1 ∧
    TmpClean cache fs (run env (writeStream cfg cache fl (some key) o chunks) fs).2.1 := by
  obtain ⟨h1, h2, h3, _, _, h6⟩ := run_putKeyed_gen cfg cache env fl key o chunks fs h hl hw.opts hw.len
  refine ⟨h1, h6 ?_, h2, h3⟩
  intro r hr
  rw [declCheck_recorded hr]
  cases hs : o.sri with
  | none => exact sriRT_compute _ _ _
  | some s => exact hw.rt s hs

/-! ### corollaries: a rejected keyed write -/

/-- **A keyed write whose declarations fail, totally**: no well-formedness of the options is
needed (nothing is encoded).  The answer is the declaration error; the abstract INDEX is the one
before — every lookup of every key answers as before; the content was published by address all the
same; the cache is healthy and the temp file is gone. -/
theorem run_putKeyed_rejected (env : Env) (fl : Flavour) (key : Bytes) (o : WriteOpts) (chunks : List Bytes)
    (fs : FS) (h : Healthy cfg cache fs) (hl : HexLen cfg) (e : Err)
    (hck : declCheck o chunks.flatten.length (Sri.compute cfg.H (o.algo.getD .sha256) chunks.flatten) = .error e) :
    (run env (writeStream cfg cache fl (some key) o chunks) fs).1 = .error e ∧
    absIndex cfg cache (run env (writeStream cfg cache fl (some key) o chunks) fs).2.1 = absIndex cfg cache fs ∧
    absStore cache (run env (writeStream cfg cache fl (some key) o chunks) fs).2.1 =
      (absStore cache fs).set (o.algo.getD .sha256)
        (Bytes.hex (cfg.H (o.algo.getD .sha256) chunks.flatten)) (some chunks.flatten) ∧
    Healthy cfg cache (run env (writeStream cfg cache fl (some key) o chunks) fs).2.1 ∧
    TmpClean cache fs (run env (writeStream cfg cache fl (some key) o chunks) fs).2.1 := by
  obtain ⟨w, fs3, e1, e2, hc, hk, ho, hwr, hp⟩ :=
    run_writeStream_phase cfg cache env fl (some key) o chunks fs h.store hl
  obtain ⟨hS3, hA3⟩ := putFrame_store cfg cache h.store hp
  obtain ⟨hI3, hB3⟩ := putFrame_index cfg cache h.index hp
  have hT3 := putFrame_tmp cfg cache hp
  rw [e1, e2]
  unfold commitTail
  rw [commitChecks_eq, ho, hwr, hck]
  exact ⟨rfl, hB3, hA3, ⟨hI3, hS3⟩, hT3⟩

/-- **2a. A declared integrity the data does not satisfy, totally.**  For a healthy cache, any
flavour, key, options (no well-formedness needed) and chunking: if the declared integrity `s` is
not accepted for the computed one, the run answers `.error .integrity` (whatever the size
declaration), the abstract index is unchanged — every key looks up as before —, the data sits
under its address, the cache is healthy and the temp file is gone. -/
theorem declared_mismatch_total (env : Env) (fl : Flavour) (key : Bytes) (o : WriteOpts) (chunks : List Bytes)
    (fs : FS) (h : Healthy cfg cache fs) (hl : HexLen cfg) (s : Integrity) (hs : o.sri = some s)
    (hm : Sri.declaredOk s (Sri.compute cfg.H (o.algo.getD .sha256) chunks.flatten) = none) :
    (run env (writeStream cfg cache fl (some key) o chunks) fs).1 = .error .integrity ∧
    absIndex cfg cache (run env (writeStream cfg cache fl (some key) o chunks) fs).2.1 = absIndex cfg cache fs ∧
    absStore cache (run env (writeStream cfg cache fl (some key) o chunks) fs).2.1 =
      (absStore cache fs).set (o.algo.getD .sha256)
        (Bytes.hex (cfg.H (o.algo.getD .sha256) chunks.flatten)) (some chunks.flatten) ∧
    Healthy cfg cache (run env (writeStream cfg cache fl (some key) o chunks) fs).2.1 ∧
    TmpClean cache fs (run env (writeStream cfg cache fl (some key) o chunks) fs).2.1 :=
  run_putKeyed_rejected cfg cache env fl key o chunks fs h hl .integrity
    (declCheck_mismatch _ hs hm)

/-- … hence every later lookup and every later read by key answers as before the rejected write,
unless the read's entry points at the very address the rejected write published to. -/
theorem declared_mismatch_find (env env' : Env) (fl : Flavour) (key : Bytes) (o : WriteOpts)
    (chunks : List Bytes) (fs : FS) (h : Healthy cfg cache fs) (hl : HexLen cfg) (s : Integrity)
    (hs : o.sri = some s)
    (hm : Sri.declaredOk s (Sri.compute cfg.H (o.algo.getD .sha256) chunks.flatten) = none) (k : Bytes) :
    (run env' (find cfg cache k) (run env (writeStream cfg cache fl (some key) o chunks) fs).2.1).1 =
      (run env' (find cfg cache k) fs).1 := by
  obtain ⟨_, hI, _, hH, _⟩ := declared_mismatch_total cfg cache env fl key o chunks fs h hl s hs hm
  rw [(run_find cfg cache env' k _ hH.index).1, (run_find cfg cache env' k fs h.index).1, hI]

/-! ### corollaries: an accepted keyed write -/

/-- The hash the writer computes. -/
def computedHash (o : WriteOpts) (data : Bytes) : Hash :=
  { algo := o.algo.getD .sha256, digest := B64.encode (cfg.H (o.algo.getD .sha256) data) }

theorem compute_eq (o : WriteOpts) (data : Bytes) :
    Sri.compute cfg.H (o.algo.getD .sha256) data = [computedHash cfg o data] := rfl

/-- The abstract step of an accepted write with a declared integrity. -/
theorem putSpec_match (env : Env) (m : AbsCache) (key : Bytes) (o : WriteOpts) (chunks : List Bytes)
    (s : Integrity) (hs : o.sri = some s)
    (hm : (Sri.declaredOk s (Sri.compute cfg.H (o.algo.getD .sha256) chunks.flatten)).isSome)
    (hz : o.size = none ∨ o.size = some chunks.flatten.length) :
    putSpec cfg env m key o chunks =
      ({ index := fun k => if k = key then
            insEntry env key { o with sri := some s, size := some (o.size.getD chunks.flatten.length) }
          else m.index k,
         store := m.store.set (o.algo.getD .sha256)
            (Bytes.hex (cfg.H (o.algo.getD .sha256) chunks.flatten)) (some chunks.flatten) }, .ok s) := by
  unfold putSpec
  rw [declCheck_match hs hm hz]

/-- The entry an accepted write records, spelled out: the DECLARED integrity. -/
theorem insEntry_declared (env : Env) (key : Bytes) (o : WriteOpts) (s : Integrity) (n : Nat) :
    insEntry env key { o with sri := some s, size := some n } =
      some { key := key, sri := s, time := stamp env o, size := n,
             metadata := o.metadata.getD .null, raw := o.raw } := rfl

/-- **2b. An accepted declared integrity, totally.**  For a healthy cache and a caller respecting
`PutWF'`: if the declared integrity `s` is accepted for the computed one and the size declaration
(if any) is right, the run answers `.ok s` — the DECLARED integrity —, the abstract index maps
`key` to the entry carrying `s` and every other key as before, the data sits under its address,
the cache is healthy and the temp file is gone. -/
theorem declared_match_total (env : Env) (fl : Flavour) (key : Bytes) (o : WriteOpts) (chunks : List Bytes)
    (fs : FS) (h : Healthy cfg cache fs) (hl : HexLen cfg) (hw : PutWF' key o chunks)
    (s : Integrity) (hs : o.sri = some s)
    (hm : (Sri.declaredOk s (Sri.compute cfg.H (o.algo.getD .sha256) chunks.flatten)).isSome)
    (hz : o.size = none ∨ o.size = some chunks.flatten.length) :
    (run env (writeStream cfg cache fl (some key) o chunks) fs).1 = .ok s ∧
    absIndex cfg cache (run env (writeStream cfg cache fl (some key) o chunks) fs).2.1 key =
      insEntry env key { o with sri := some s, size := some (o.size.getD chunks.flatten.length) } ∧
    (∀ k, k ≠ key → absIndex cfg cache (run env (writeStream cfg cache fl (some key) o chunks) fs).2.1 k =
      absIndex cfg cache fs k) ∧
    absStore cache (run env (writeStream cfg cache fl (some key) o chunks) fs).2.1 =
      (absStore cache fs).set (o.algo.getD .sha256)
        (Bytes.hex (cfg.H (o.algo.getD .sha256) chunks.flatten)) (some chunks.flatten) ∧
    Healthy cfg cache (run env (writeStream cfg cache fl (some key) o chunks) fs).2.1 ∧
    TmpClean cache fs (run env (writeStream cfg cache fl (some key) o chunks) fs).2.1 := by
  obtain ⟨h1, h2, h3, h4⟩ := run_putKeyed' cfg cache env fl key o chunks fs h hl hw
  rw [putSpec_match cfg env _ key o chunks s hs hm hz] at h1 h2
  have hi : absIndex cfg cache (run env (writeStream cfg cache fl (some key) o chunks) fs).2.1 = _ :=
    congrArg AbsCache.index h2
  have hst : absStore cache (run env (writeStream cfg cache fl (some key) o chunks) fs).2.1 = _ :=
    congrArg AbsCache.store h2
  refine ⟨h1, ?_, ?_, hst, h3, h4⟩
  · rw [hi]; exact if_pos rfl
  · intro k hk
    rw [hi]
    simp only [if_neg hk]
    rfl

/-- … with the recorded entry spelled out (`size` = the byte count, also when it was declared). -/
theorem declared_match_entry (env : Env) (fl : Flavour) (key : Bytes) (o : WriteOpts) (chunks : List Bytes)
    (fs : FS) (h : Healthy cfg cache fs) (hl : HexLen cfg) (hw : PutWF' key o chunks)
    (s : Integrity) (hs : o.sri = some s)
    (hm : (Sri.declaredOk s (Sri.compute cfg.H (o.algo.getD .sha256) chunks.flatten)).isSome)
    (hz : o.size = none ∨ o.size = some chunks.flatten.length) (env' : Env) :
    (run env' (find cfg cache key) (run env (writeStream cfg cache fl (some key) o chunks) fs).2.1).1 =
      .ok (some { key := key, sri := s, time := stamp env o, size := chunks.flatten.length,
                  metadata := o.metadata.getD .null, raw := o.raw }) := by
  obtain ⟨_, hi, _, _, hH, _⟩ := declared_match_total cfg cache env fl key o chunks fs h hl hw s hs hm hz
  rw [(run_find cfg cache env' key _ hH.index).1, hi, insEntry_declared]
  have : o.size.getD chunks.flatten.length = chunks.flatten.length := by
    rcases hz with hz | hz <;> rw [hz] <;> rfl
  rw [this]

/-- An integrity whose FIRST hash is the computed one is accepted, whatever follows. -/
theorem declaredOk_cons_self (c : Hash) (ds : Integrity) : (Sri.declaredOk (c :: ds) [c]).isSome := by
  simp [Sri.declaredOk, Sri.matchesSri]

/-- The final verification of a read accepts the data for every integrity whose first hash is the
data's: `IntegrityChecker` hashes with the algorithm of the first entry and looks for the computed
hash among the leading entries of that algorithm. -/
theorem check_cons_computed (a : Algo) (d : Bytes) (ds : Integrity) :
    Sri.check cfg.H ({ algo := a, digest := B64.encode (cfg.H a d) } :: ds) d = some a := by
  simp [Sri.check, List.takeWhile]

/-- Reading by an integrity whose first hash is the digest of `d`, from a store that holds `d`
at the address of `d`: the address resolved is that of the FIRST hash (`content_path`), the
further hashes play no role, and the verification passes. -/
theorem getSpec_cons_computed (hl : HexLen cfg) (m : AbsStore) (a : Algo) (d : Bytes) (ds : Integrity)
    (hm : m a (Bytes.hex (cfg.H a d)) = some d) :
    getSpec cfg m ({ algo := a, digest := B64.encode (cfg.H a d) } :: ds) = .ok d := by
  have haddr : addrOf ({ algo := a, digest := B64.encode (cfg.H a d) } :: ds) =
      some (a, Bytes.hex (cfg.H a d)) := addrOf_compute cfg hl a d
  unfold getSpec
  rw [haddr]
  simp only [hm, check_cons_computed, Option.isSome_some, if_true]

/-- An accepted declaration in which every hash of the writer's algorithm IS the computed hash
starts with the computed hash. -/
theorem accepted_head (s : Integrity) (c : Hash) (hm : (Sri.declaredOk s [c]).isSome)
    (h1 : ∀ x ∈ s, x.algo = c.algo → x = c) : ∃ ds, s = c :: ds := by
  obtain ⟨⟨d, ds, rfl, hd⟩, _⟩ := C08.declaredOk_sound s c hm
  exact ⟨ds, by rw [h1 d List.mem_cons_self hd]⟩

/-- **2c. An accepted declared integrity is readable.**  Under the hypotheses of 2b, if every hash
of `s` with the writer's algorithm IS the computed hash (the hypothesis of
`C08.accepted_resolves`; without it — several digests of the strongest algorithm, known finding
F24 — the recorded integrity resolves to the address of whichever digest sorts first, where
nothing was stored), `read key` on the final state answers exactly the data: the lookup finds the
entry carrying `s`, `content_path s` is the address of the first hash = the address the content
was renamed to, and the verification (`Sri.check`) accepts the data for `s`.  No collision
assumption: the file at the address was just replaced by the data. -/
theorem declared_match_readable (env : Env) (fl : Flavour) (key : Bytes) (o : WriteOpts) (chunks : List Bytes)
    (fs : FS) (h : Healthy cfg cache fs) (hl : HexLen cfg) (hw : PutWF' key o chunks)
    (s : Integrity) (hs : o.sri = some s)
    (hm : (Sri.declaredOk s (Sri.compute cfg.H (o.algo.getD .sha256) chunks.flatten)).isSome)
    (hz : o.size = none ∨ o.size = some chunks.flatten.length)
    (h1 : ∀ x ∈ s, x.algo = o.algo.getD .sha256 → x = computedHash cfg o chunks.flatten) (env' : Env) :
    (run env' (read cfg cache key) (run env (writeStream cfg cache fl (some key) o chunks) fs).2.1).1 =
      .ok chunks.flatten ∧
    (run env' (read cfg cache key) (run env (writeStream cfg cache fl (some key) o chunks) fs).2.1).2.1 =
      (run env (writeStream cfg cache fl (some key) o chunks) fs).2.1 := by
  obtain ⟨_, hi, _, hst, hH, _⟩ := declared_match_total cfg cache env fl key o chunks fs h hl hw s hs hm hz
  obtain ⟨ds, rfl⟩ := accepted_head s (computedHash cfg o chunks.flatten) hm h1
  obtain ⟨r1, r2⟩ := run_read cfg cache env' key _ hH
  refine ⟨?_, r2⟩
  rw [r1]
  unfold readSpec
  simp only [absCache, hi, insEntry_declared]
  apply getSpec_cons_computed cfg hl
  rw [hst]
  exact AbsStore.set_same _ _ _ _

/-! ### the by-address writer with a declared integrity -/

/-- **2d. Unkeyed write (`open_hash*` / `write_hash*` + `.integrity(s)`), declaration not
satisfied**: `.error .integrity`; the data is published under its address nevertheless; the index
is not touched; healthy; temp file gone.  No well-formedness of the options needed. -/
theorem declared_putHash_mismatch (env : Env) (fl : Flavour) (o : WriteOpts) (chunks : List Bytes)
    (fs : FS) (h : Healthy cfg cache fs) (hl : HexLen cfg) (s : Integrity) (hs : o.sri = some s)
    (hm : Sri.declaredOk s (Sri.compute cfg.H (o.algo.getD .sha256) chunks.flatten) = none) :
    (run env (writeStream cfg cache fl none o chunks) fs).1 = .error .integrity ∧
    absIndex cfg cache (run env (writeStream cfg cache fl none o chunks) fs).2.1 = absIndex cfg cache fs ∧
    absStore cache (run env (writeStream cfg cache fl none o chunks) fs).2.1 =
      (absStore cache fs).set (o.algo.getD .sha256)
        (Bytes.hex (cfg.H (o.algo.getD .sha256) chunks.flatten)) (some chunks.flatten) ∧
    Healthy cfg cache (run env (writeStream cfg cache fl none o chunks) fs).2.1 ∧
    TmpClean cache fs (run env (writeStream cfg cache fl none o chunks) fs).2.1 := by
  obtain ⟨r1, hp⟩ := run_putStream cfg cache env fl o chunks fs h.store hl
  obtain ⟨hS, hA⟩ := putFrame_store cfg cache h.store hp
  obtain ⟨hI, hB⟩ := putFrame_index cfg cache h.index hp
  refine ⟨?_, hB, hA, ⟨hI, hS⟩, putFrame_tmp cfg cache hp⟩
  rw [r1]
  unfold putAnswer
  rw [declCheck_mismatch _ hs hm]

/-- **2d. Unkeyed write, declaration satisfied** (and size declaration right or absent): the
answer is the COMPUTED integrity (an unkeyed commit returns `wsri`, the declared one is only
checked); index untouched; the data is readable by the computed integrity, and — when every hash
of `s` with the writer's algorithm is the computed one — by the declared integrity `s` as well. -/
theorem declared_putHash_match (env : Env) (fl : Flavour) (o : WriteOpts) (chunks : List Bytes)
    (fs : FS) (h : Healthy cfg cache fs) (hl : HexLen cfg) (s : Integrity) (hs : o.sri = some s)
    (hm : (Sri.declaredOk s (Sri.compute cfg.H (o.algo.getD .sha256) chunks.flatten)).isSome)
    (hz : o.size = none ∨ o.size = some chunks.flatten.length) :
    (run env (writeStream cfg cache fl none o chunks) fs).1 =
      .ok (Sri.compute cfg.H (o.algo.getD .sha256) chunks.flatten) ∧
    absIndex cfg cache (run env (writeStream cfg cache fl none o chunks) fs).2.1 = absIndex cfg cache fs ∧
    absStore cache (run env (writeStream cfg cache fl none o chunks) fs).2.1 =
      (absStore cache fs).set (o.algo.getD .sha256)
        (Bytes.hex (cfg.H (o.algo.getD .sha256) chunks.flatten)) (some chunks.flatten) ∧
    Healthy cfg cache (run env (writeStream cfg cache fl none o chunks) fs).2.1 ∧
    TmpClean cache fs (run env (writeStream cfg cache fl none o chunks) fs).2.1 ∧
    (∀ env', (run env' (readHash cfg cache (Sri.compute cfg.H (o.algo.getD .sha256) chunks.flatten))
        (run env (writeStream cfg cache fl none o chunks) fs).2.1).1 = .ok chunks.flatten) ∧
    ((∀ x ∈ s, x.algo = o.algo.getD .sha256 → x = computedHash cfg o chunks.flatten) →
      ∀ env', (run env' (readHash cfg cache s)
        (run env (writeStream cfg cache fl none o chunks) fs).2.1).1 = .ok chunks.flatten) := by
  obtain ⟨r1, hp⟩ := run_putStream cfg cache env fl o chunks fs h.store hl
  obtain ⟨hS, hA⟩ := putFrame_store cfg cache h.store hp
  obtain ⟨hI, hB⟩ := putFrame_index cfg cache h.index hp
  have hset : absStore cache (run env (writeStream cfg cache fl none o chunks) fs).2.1
      (o.algo.getD .sha256) (Bytes.hex (cfg.H (o.algo.getD .sha256) chunks.flatten)) = some chunks.flatten := by
    rw [hA]; exact AbsStore.set_same _ _ _ _
  refine ⟨?_, hB, hA, ⟨hI, hS⟩, putFrame_tmp cfg cache hp, ?_, ?_⟩
  · rw [r1]
    unfold putAnswer
    rw [declCheck_match hs hm hz]
  · intro env'
    rw [(run_readHash cfg cache env' _ _ hS).1]
    exact getSpec_cons_computed cfg hl _ _ _ [] hset
  · intro h1 env'
    obtain ⟨ds, rfl⟩ := accepted_head s (computedHash cfg o chunks.flatten) hm h1
    rw [(run_readHash cfg cache env' _ _ hS).1]
    exact getSpec_cons_computed cfg hl _ _ _ ds hset

/-! ### operation sequences: `cache_refines_map` with declared integrities -/

/-- `Refine.OpWF` with `SriOK` (absent or library-computed integrity) weakened to "survives its
text form": any caller-supplied integrity that does may be inserted. -/
def OpWF' : IOp → Prop
  | .ins key o => OptsWF key o ∧ ∀ s, o.sri = some s → SriRT s
  | .del key => utf8Valid key = true
  | .look _ => True

theorem OpWF.toOpWF' {op : IOp} (h : OpWF cfg op) : OpWF' op := by
  cases op with
  | ins key o =>
    refine ⟨h.1, ?_⟩
    intro s hs
    rcases h.2 with hn | ⟨a, data, hc⟩
    · rw [hn] at hs; cases hs
    · rw [hc] at hs; cases hs; exact sriRT_compute _ _ _
  | del key => exact h
  | look key => trivial

/-- `Refine.runOp_refines` under `OpWF'`. -/
theorem runOp_refines' (env : Env) (op : IOp) (fs : FS) (h : HealthyIndex cfg cache fs)
    (hop : OpWF' op) :
    (runOp cfg cache env op fs).1 = (specStep env (absIndex cfg cache fs) op).2 ∧
    absIndex cfg cache (runOp cfg cache env op fs).2 = (specStep env (absIndex cfg cache fs) op).1 ∧
    HealthyIndex cfg cache (runOp cfg cache env op fs).2 := by
  cases op with
  | ins key o =>
    obtain ⟨hH, hO, hK⟩ := insert_refines_gen cfg cache env key o fs h hop.1
    refine ⟨?_, ?_, hH⟩
    · simp only [runOp, specStep, (run_insert cfg cache env key o fs h).1]
    · funext k
      simp only [runOp, specStep]
      by_cases e : k = key
      · subst e; rw [hK hop.2, if_pos rfl]
      · rw [hO k e, if_neg e]
  | del key => exact runOp_refines cfg cache env (.del key) fs h hop
  | look key => exact runOp_refines cfg cache env (.look key) fs h trivial

/-- `CacheRefine.COp.WF` with `PutWF'` for keyed writes and `OpWF'` for index operations. -/
def WF' : COp → Prop
  | .put _ key o chunks => PutWF' key o chunks
  | .get _ => True
  | .index op => OpWF' op
  | .addr _ => True

theorem WF'_of_WF {op : COp} (h : op.WF cfg) : WF' op := by
  cases op with
  | put fl key o chunks => exact PutWF.toPutWF' h
  | get key => trivial
  | index iop => exact OpWF.toOpWF' cfg h
  | addr sop => trivial

/-- **One cache operation refines one abstract step**, declared integrities included. -/
theorem cRunOp_refines' (env : Env) (op : COp) (fs : FS) (h : Healthy cfg cache fs) (hl : HexLen cfg)
    (hop : WF' op) :
    (cRunOp cfg cache env op fs).1 = (cSpecStep cfg env (absCache cfg cache fs) op).2 ∧
    absCache cfg cache (cRunOp cfg cache env op fs).2 = (cSpecStep cfg env (absCache cfg cache fs) op).1 ∧
    Healthy cfg cache (cRunOp cfg cache env op fs).2 := by
  cases op with
  | put fl key o chunks =>
    obtain ⟨h1, h2, h3, _⟩ := run_putKeyed' cfg cache env fl key o chunks fs h hl hop
    simp only [cRunOp, cSpecStep, h1]
    exact ⟨trivial, h2, h3⟩
  | get key => exact cRunOp_refines cfg cache env (.get key) fs h hl trivial
  | index iop =>
    obtain ⟨h1, h2, h3⟩ := runOp_refines' cfg cache env iop fs h.index hop
    obtain ⟨h4, h5⟩ := indexOp_store cfg cache env iop fs h.index h.store
    simp only [cRunOp, cSpecStep, h1]
    refine ⟨rfl, ?_, ⟨h3, h4⟩⟩
    simp only [absCache, h2, h5]
  | addr sop => exact cRunOp_refines cfg cache env (.addr sop) fs h hl trivial

/-- **The cache is a key/value map over an address/bytes map — keyed writes with declared
integrities included** (`CacheRefine.cache_refines_map` under `WF'`): the abstract step of such a
write is `putSpec`, which records the declared integrity when `declCheck` accepts it and leaves
the index alone (content published) when it does not. -/
theorem cache_refines_map' (ops : List (Env × COp)) (fs : FS) (h : Healthy cfg cache fs)
    (hl : HexLen cfg) (hops : ∀ x ∈ ops, WF' x.2) :
    (cRunOps cfg cache ops fs).1 = (cSpecRun cfg ops (absCache cfg cache fs)).1 ∧
    absCache cfg cache (cRunOps cfg cache ops fs).2 = (cSpecRun cfg ops (absCache cfg cache fs)).2 ∧
    Healthy cfg cache (cRunOps cfg cache ops fs).2 := by
  induction ops generalizing fs with
  | nil => exact ⟨rfl, rfl, h⟩
  | cons x ops ih =>
    obtain ⟨env, op⟩ := x
    obtain ⟨h1, h2, h3⟩ := cRunOp_refines' cfg cache env op fs h hl (hops (env, op) (by simp))
    obtain ⟨i1, i2, i3⟩ := ih _ h3 (fun y hy => hops y (List.mem_cons_of_mem _ hy))
    simp only [cRunOps, cSpecRun]
    rw [← h2]
    exact ⟨by rw [h1, i1], i2, i3⟩

/-! ### non-vacuity: concrete runs from the empty filesystem -/

section Examples

/-- `Sri.WF` by evaluation. -/
theorem sriWF_of_all {s : Integrity} (h : s.all (fun x => utf8Valid x.digest) = true) : Sri.WF s :=
  fun x hx => List.all_eq_true.mp h x hx

/-- Any cache path on the empty filesystem is a healthy cache. -/
theorem healthy_empty : Healthy cfg cache FS.empty :=
  healthy_of_empty_cache cfg cache FS.empty (fun _ _ _ => Or.inl rfl) (fun _ _ _ => rfl)

/-- 2a is not vacuous — for EVERY digest function with ≥ 4 hex digits: declare a SHA-512 hash and
let the writer hash with its default SHA-256; the write of any data under key "k" is rejected,
"k" is not found afterwards. -/
example (env : Env) (hl : HexLen cfg) (fl : Flavour) (data : Bytes) :
    let o : WriteOpts := { sri := some [{ algo := .sha512, digest := [65, 65, 65, 65] }] }
    (run env (writeStream cfg cache fl (some [107]) o [data]) FS.empty).1 = .error .integrity ∧
    (run env (find cfg cache [107])
      (run env (writeStream cfg cache fl (some [107]) o [data]) FS.empty).2.1).1 = .ok none ∧
    Healthy cfg cache (run env (writeStream cfg cache fl (some [107]) o [data]) FS.empty).2.1 := by
  intro o
  have hm : Sri.declaredOk [{ algo := .sha512, digest := [65, 65, 65, 65] }]
      (Sri.compute cfg.H (o.algo.getD .sha256) [data].flatten) = none :=
    C08.declaredOk_other_algorithm _ _ _ _ rfl
  obtain ⟨r, _, _, hH, _⟩ := declared_mismatch_total cfg cache env fl [107] o [data] FS.empty
    (healthy_empty cfg cache) hl _ rfl hm
  refine ⟨r, ?_, hH⟩
  rw [declared_mismatch_find cfg cache env env fl [107] o [data] FS.empty (healthy_empty cfg cache) hl _ rfl hm,
    (run_find cfg cache env [107] FS.empty (healthy_empty cfg cache).index).1]
  rfl

/-- 2b / 2c are not vacuous — for EVERY digest function with ≥ 4 hex digits: declare exactly the
integrity of the data; the write answers it and `read` returns the data. -/
example (env : Env) (hl : HexLen cfg) (fl : Flavour) (data : Bytes) (hd : data.length ≤ Rec.u64Max) :
    let s := Sri.compute cfg.H .sha256 data
    let o : WriteOpts := { sri := some s }
    (run env (writeStream cfg cache fl (some [107]) o [data]) FS.empty).1 = .ok s ∧
    (run env (read cfg cache [107])
      (run env (writeStream cfg cache fl (some [107]) o [data]) FS.empty).2.1).1 = .ok data := by
  intro s o
  have hfl : [data].flatten = data := by simp
  have hw : PutWF' [107] o [data] :=
    ⟨⟨by decide, by simp [o], by simp [o],
        by intro s' hs'; simp [o] at hs'; subst hs'; exact Sri.compute_wf _ _ _, by simp [o]⟩,
      by rw [hfl]; exact hd,
      by intro s' hs'; simp [o] at hs'; subst hs'; exact sriRT_compute _ _ _⟩
  have hm : (Sri.declaredOk s (Sri.compute cfg.H (o.algo.getD .sha256) [data].flatten)).isSome := by
    rw [hfl]; exact declaredOk_cons_self _ []
  have h1 : ∀ x ∈ s, x.algo = o.algo.getD .sha256 → x = computedHash cfg o [data].flatten := by
    intro x hx _
    rw [hfl]
    simpa [s, Sri.compute, computedHash, o] using hx
  have r := (declared_match_total cfg cache env fl [107] o [data] FS.empty (healthy_empty cfg cache) hl hw
    s rfl hm (Or.inl rfl)).1
  have g := (declared_match_readable cfg cache env fl [107] o [data] FS.empty (healthy_empty cfg cache) hl hw
    s rfl hm (Or.inl rfl) h1 env).1
  rw [hfl] at g
  exact ⟨r, g⟩

/-- A digest function whose hex form has four digits. -/
def cfg0 : Cfg := { H := fun _ _ => [0, 0] }

theorem hexLen0 : HexLen cfg0 := by
  intro a d; simp [cfg0, Bytes.hex]

/-- A declared integrity with TWO hashes: the SHA-256 of the data (under `cfg0`: base64 `AAA=`)
and some SHA-1 text `xy` nobody checks. -/
def s0 : Integrity :=
  [{ algo := .sha256, digest := B64.encode [0, 0] }, { algo := .sha1, digest := [120, 121] }]

theorem canon_s0 : Canon s0 :=
  ⟨by decide, by decide⟩

/-- 2b / 2c with a concrete multi-hash declaration, a declared size, written in three chunks
through the async writer: accepted, recorded as declared, readable; and the same declaration for
other-length data is rejected by its size … -/
example (env : Env) :
    let o : WriteOpts := { sri := some s0, size := some 3 }
    (run env (writeStream cfg0 [[99]] .async (some [107]) o [[1], [], [2, 3]]) FS.empty).1 = .ok s0 ∧
    (run env (find cfg0 [[99]] [107])
      (run env (writeStream cfg0 [[99]] .async (some [107]) o [[1], [], [2, 3]]) FS.empty).2.1).1 =
      .ok (some { key := [107], sri := s0, time := env.clock % (timeMax + 1), size := 3,
                  metadata := .null, raw := none }) ∧
    (run env (read cfg0 [[99]] [107])
      (run env (writeStream cfg0 [[99]] .async (some [107]) o [[1], [], [2, 3]]) FS.empty).2.1).1 =
      .ok [1, 2, 3] := by
  intro o
  have hw : PutWF' [107] o [[1], [], [2, 3]] :=
    ⟨⟨by decide, by simp [o], by intro n hn; simp [o] at hn; subst hn; simp [Rec.u64Max],
        by intro s' hs'; simp [o] at hs'; subst hs'; exact sriWF_of_all (by decide), by simp [o]⟩,
      by simp [Rec.u64Max],
      by intro s' hs'; simp [o] at hs'; subst hs'; exact parse_print_canon canon_s0⟩
  have hm : (Sri.declaredOk s0 (Sri.compute cfg0.H (o.algo.getD .sha256) [[1], [], [2, 3]].flatten)).isSome :=
    declaredOk_cons_self _ _
  have h1 : ∀ x ∈ s0, x.algo = o.algo.getD .sha256 → x = computedHash cfg0 o [[1], [], [2, 3]].flatten := by
    intro x hx ha
    simp only [s0, List.mem_cons, List.not_mem_nil, or_false] at hx
    rcases hx with rfl | rfl
    · rfl
    · cases ha
  have h0 := healthy_empty cfg0 [[99]]
  refine ⟨(declared_match_total cfg0 [[99]] env .async [107] o _ FS.empty h0 hexLen0 hw s0 rfl hm (Or.inr rfl)).1,
    ?_, (declared_match_readable cfg0 [[99]] env .async [107] o _ FS.empty h0 hexLen0 hw s0 rfl hm (Or.inr rfl) h1 env).1⟩
  rw [declared_match_entry cfg0 [[99]] env .async [107] o _ FS.empty h0 hexLen0 hw s0 rfl hm (Or.inr rfl) env]
  rfl

/-- … and 2a with a concrete declaration of the right algorithm but another digest (`AAAA`). -/
example (env : Env) :
    let o : WriteOpts := { sri := some [{ algo := .sha256, digest := [65, 65, 65, 65] }] }
    (run env (writeStream cfg0 [[99]] .sync (some [107]) o [[1, 2, 3]]) FS.empty).1 = .error .integrity ∧
    absIndex cfg0 [[99]] (run env (writeStream cfg0 [[99]] .sync (some [107]) o [[1, 2, 3]]) FS.empty).2.1 =
      absIndex cfg0 [[99]] FS.empty := by
  intro o
  have hm : Sri.declaredOk [{ algo := .sha256, digest := [65, 65, 65, 65] }]
      (Sri.compute cfg0.H (o.algo.getD .sha256) [[1, 2, 3]].flatten) = none := by decide
  obtain ⟨r, hi, _⟩ := declared_mismatch_total cfg0 [[99]] env .sync [107] o [[1, 2, 3]] FS.empty
    (healthy_empty cfg0 [[99]]) hexLen0 _ rfl hm
  exact ⟨r, hi⟩

/-- The extra hypothesis of 2c is needed (known finding F24): declare TWO SHA-256 digests, a wrong
one (`AAAA`) before the right one.  The declaration is accepted (`matches` finds the right one) and
recorded, but its address is that of the FIRST digest, where nothing was stored: the write answers
`.ok s`, and `read` of the key answers the I/O error `NotFound`. -/
example (env : Env) :
    let s : Integrity := [{ algo := .sha256, digest := [65, 65, 65, 65] },
                          { algo := .sha256, digest := B64.encode [0, 0] }]
    let o : WriteOpts := { sri := some s }
    (run env (writeStream cfg0 [[99]] .sync (some [107]) o [[1, 2, 3]]) FS.empty).1 = .ok s ∧
    (run env (read cfg0 [[99]] [107])
      (run env (writeStream cfg0 [[99]] .sync (some [107]) o [[1, 2, 3]]) FS.empty).2.1).1 =
      .error (.io .notFound) := by
  intro s o
  have hw : PutWF' [107] o [[1, 2, 3]] :=
    ⟨⟨by decide, by simp [o], by simp [o],
        by intro s' hs'; simp [o] at hs'; subst hs'; exact sriWF_of_all (by decide), by simp [o]⟩,
      by simp [Rec.u64Max],
      by intro s' hs'; simp [o] at hs'; subst hs'; exact parse_print_canon ⟨by decide, by decide⟩⟩
  have hm : (Sri.declaredOk s (Sri.compute cfg0.H (o.algo.getD .sha256) [[1, 2, 3]].flatten)).isSome := by
    decide
  obtain ⟨r, hi, _, hst, hH, _⟩ := declared_match_total cfg0 [[99]] env .sync [107] o _ FS.empty
    (healthy_empty cfg0 [[99]]) hexLen0 hw s rfl hm (Or.inl rfl)
  refine ⟨r, ?_⟩
  rw [(run_read cfg0 [[99]] env [107] _ hH).1]
  unfold readSpec
  simp only [absCache, hi, insEntry_declared]
  have haddr : addrOf s = some (.sha256, Bytes.hex [0, 0, 0]) := by decide
  unfold getSpec
  rw [haddr, hst]
  simp only
  rw [AbsStore.set_other _ _ (by decide), absStore_of_empty_cache [[99]] FS.empty (fun _ _ _ => rfl)]

/-- The hypothesis `SriRT` is NOT implied by `OptsWF`: an integrity with its hashes in the wrong
order (constructible through ssri's public fields) is `Sri.WF` but prints to text that parses to
another value — the lookup would hand back the sorted one. -/
example :
    let s : Integrity := [{ algo := .sha1, digest := [120] }, { algo := .sha256, digest := [121] }]
    Sri.WF s ∧ ¬ SriRT s := by
  intro s
  constructor
  · exact sriWF_of_all (by decide)
  · unfold SriRT; decide

end Examples

end Cacache.DeclRefine

section AxiomCheck
open Cacache.DeclRefine
#print axioms parse_print_canon
#print axioms insert_refines_gen
#print axioms run_putKeyed_gen
#print axioms run_putKeyed'
#print axioms run_putKeyed_rejected
#print axioms declared_mismatch_total
#print axioms declared_mismatch_find
#print axioms declared_match_total
#print axioms declared_match_entry
#print axioms declared_match_readable
#print axioms declared_putHash_mismatch
#print axioms declared_putHash_match
#print axioms runOp_refines'
#print axioms cRunOp_refines'
#print axioms cache_refines_map'
end AxiomCheck
