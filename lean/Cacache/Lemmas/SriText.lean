/-
Printing and re-parsing the integrity the library computes: `parse (print (compute …)) = compute …`.
-/
import Cacache.Sri
import Cacache.Lemmas.B64

namespace Cacache.Sri

theorem enc6_plain : ∀ n : Nat, n < 64 → isWs (B64.enc6 n) = false ∧ B64.enc6 n ≠ 45 := by decide

/-- A byte that is neither white space nor a dash. -/
def Plain (c : UInt8) : Prop := isWs c = false ∧ c ≠ 45

theorem encode_plain (b : Bytes) : ∀ c ∈ B64.encode b, Plain c := by
  fun_induction B64.encode b with
  | case1 a b c rest n ih =>
    intro x hx
    have ha := B64.byte_lt a; have hb := B64.byte_lt b; have hc := B64.byte_lt c
    simp only [List.mem_cons] at hx
    rcases hx with rfl | rfl | rfl | rfl | hx
    · exact enc6_plain _ (by omega)
    · exact enc6_plain _ (by omega)
    · exact enc6_plain _ (by omega)
    · exact enc6_plain _ (by omega)
    · exact ih x hx
  | case2 a b n =>
    intro x hx
    have ha := B64.byte_lt a; have hb := B64.byte_lt b
    simp only [List.mem_cons, List.not_mem_nil, or_false] at hx
    rcases hx with rfl | rfl | rfl | rfl
    · exact enc6_plain _ (by omega)
    · exact enc6_plain _ (by omega)
    · exact enc6_plain _ (by omega)
    · exact ⟨by decide, by decide⟩
  | case3 a n =>
    intro x hx
    have ha := B64.byte_lt a
    simp only [List.mem_cons, List.not_mem_nil, or_false] at hx
    rcases hx with rfl | rfl | rfl | rfl
    · exact enc6_plain _ (by omega)
    · exact enc6_plain _ (by omega)
    · exact ⟨by decide, by decide⟩
    · exact ⟨by decide, by decide⟩
  | case4 => intro x hx; cases hx

instance (c : UInt8) : Decidable (Plain c) := by unfold Plain; exact inferInstance

theorem name_plain (a : Algo) : ∀ c ∈ a.name, Plain c := by
  cases a <;> decide

theorem ofName_name (a : Algo) : Algo.ofName a.name = some a := by
  cases a <;> decide

/-- Splitting text that contains no separator yields the text itself, as one piece. -/
theorem splitOn_none (sep : UInt8 → Bool) (s : Bytes) (h : ∀ c ∈ s, sep c = false) :
    Bytes.splitOn sep s = [s] := by
  unfold Bytes.splitOn
  induction s with
  | nil => rfl
  | cons c cs ih =>
    have hc : sep c = false := h c (by simp)
    have := ih (fun x hx => h x (by simp [hx]))
    simp only [List.foldr_cons, hc, Bool.false_eq_true, if_false, this]

theorem splitOn_one (sep : UInt8 → Bool) (a d : Bytes) (x : UInt8) (hx : sep x = true)
    (ha : ∀ c ∈ a, sep c = false) (hd : ∀ c ∈ d, sep c = false) :
    Bytes.splitOn sep (a ++ x :: d) = [a, d] := by
  induction a with
  | nil =>
    have := splitOn_none sep d hd
    unfold Bytes.splitOn at this ⊢
    simp [hx, this]
  | cons c cs ih =>
    have hc : sep c = false := ha c (by simp)
    have := ih (fun y hy => ha y (by simp [hy]))
    unfold Bytes.splitOn at this ⊢
    simp only [List.cons_append, List.foldr_cons, hc, Bool.false_eq_true, if_false, this]

/-- **Round trip** of a computed integrity through its text form. -/
theorem parse_print_compute (H : Algo → Bytes → Bytes) (a : Algo) (data : Bytes) :
    parse (print (compute H a data)) = some (compute H a data) := by
  unfold compute print printHash parse
  have hn := name_plain a
  have he := encode_plain (H a data)
  have htext : ∀ c ∈ a.name ++ 45 :: B64.encode (H a data), isWs c = false := by
    intro c hc
    rcases List.mem_append.mp hc with h | h
    · exact (hn c h).1
    · rcases List.mem_cons.mp h with rfl | h
      · decide
      · exact (he c h).1
  have hne : a.name ++ 45 :: B64.encode (H a data) ≠ [] := by cases a <;> simp [Algo.name]
  unfold splitWs
  rw [splitOn_none isWs _ htext]
  simp only [List.filter_cons, List.filter_nil, List.map_cons, List.map_nil, parseHash, splitDash]
  have hemp : (a.name ++ 45 :: B64.encode (H a data)).isEmpty = false := by
    cases h : a.name ++ 45 :: B64.encode (H a data) with
    | nil => exact absurd h hne
    | cons _ _ => rfl
  simp only [hemp, Bool.not_false, if_true, List.map_cons, List.map_nil]
  unfold parseHash splitDash
  rw [splitOn_one (fun c => c == 45) a.name (B64.encode (H a data)) 45 (by decide)
    (fun c hc => by simpa using (hn c hc).2) (fun c hc => by simpa using (he c hc).2)]
  simp [ofName_name, allSome, sort, insertH]

end Cacache.Sri
